#!/usr/bin/env python3
"""Generates /verif/selftest/mutants.json: hand-written semantic mutants (regex rewrites of the first match,
located by content, Go RE2 syntax) + every seeded change under /verif/seeded (as patch mutants of its property)."""
import json, glob, os
M = []
def rx(id, prop, file, find, repl, rule="", note="", edits=None):
    m = dict(id=id, property=prop, type="regex", file=file, find=find, replace=repl, expect_rule=rule, note=note)
    if edits: m["edits"] = [dict(file=f, find=a, replace=b) for f, a, b in edits]
    M.append(m)

# ---- C01
rx("m01a", "C01", "zogSchema.go", r"\*destPtr = \*defaultVal\n", "*destPtr = *defaultVal\n\t\t\treturn\n", "no-silent-exit", "Parse pipeline returns right after applying the default: tests never run")
rx("m01b", "C01", "internals/contexts.go", r"if c\.CanCatch \{\n\t\tc\.Exit = true", "if c.CanCatch || c.Exit {\n\t\tc.Exit = true", "sink", "AddIssue drops issues when Exit is set")
rx("m01c", "C01", "internals/tests.go", r"if fn\(val, ctx\) \{", "if !fn(val, ctx) {", "predicate-to-issue", "plain wrapper polarity inverted")
rx("m01d", "C01", "struct.go", r"\t\tsubCtx\.CanCatch = false\n\t\tprocessor\.process", "\t\tprocessor.process", "child-clean", "per-field CanCatch reset dropped (Parse)")
rx("m01e", "C01", "internals/Issues.go", r"e\.List = append\(e\.List, err\)", "if len(e.List) < 8 {\n\t\te.List = append(e.List, err)\n\t}", "sink", "issue list capped")
# ---- C02
rx("m02a", "C02", "zogSchema.go", r"if ctx\.Exit \{", "if ctx.HasErrored() {", "loop-no-early-exit", "test loop leaves on any earlier issue")
rx("m02b", "C02", "slices.go", r"(ctx\.AddIssue\(ctx\.IssueFromCoerce\(err\)\)\n\t\t\t)return", "${1}_ = 0", "abort-after-required-or-coerce", "no return after the slice coerce issue (passes the whole suite)")
rx("m02c", "C02", "internals/Issues.go", r"return e\.List == nil", "return len(e.List) == 1", "nil-iff-empty")
rx("m02d", "C02", "zogSchema.go", r"(func primitiveValidator(?s:.*?))\t\tctx\.Test = &test\n", "${1}", "current-test", "ctx.Test not set in the Validate pipeline")
rx("m02e", "C02", "struct.go", r"ctx := p\.NewExecCtx\(errs, conf\.IssueFormatter\)", "ctx := p.NewExecCtx(p.NewErrsMap(), conf.IssueFormatter)", "nil-iff-empty", "execution records into another container than the one returned")
# ---- C03
rx("m03a", "C03", "time.go", r"s\.setCoercer\(conf\.TimeCoercerFactory\(format\)\)", "_ = format", "option-effective")
rx("m03b", "C03", "numbers.go", r"(func Int64(?s:.*?))\tfor _, opt := range opts \{\n\t\topt\(s\)\n\t\}\n", "${1}", "opts-applied")
rx("m03c", "C03", "slices.go", r"ptr := destVal\.Index\(idx\)", "ptr := destVal.Index(refVal.Len() - 1 - idx)", "index-agreement")
rx("m03d", "C03", "boolean.go", r"coercer: conf\.Coercers\.Bool", "coercer: conf.DefaultCoercers.Bool", "default-coercer")
rx("m03e", "C03", "conf/Coercers.go", r'if v == "on" \{', 'if v == "on" || v == "yes" {', "coercion-table")
rx("m03f", "C03", "conf/Coercers.go", r"return time\.Unix\(int64\(v\), 0\), nil", "return time.UnixMilli(int64(v)), nil", "coercion-table", "unix seconds read as milliseconds")
rx("m03g", "C03", "struct.go", r"key\[0\] <= 'z' \{\n\t\t\tkey = string\(rune\(key\[0\]-32\)\) \+ key\[1:\]\n\t\t\}\n\n\t\tfieldMeta, ok := structVal", "key[0] < 'z' {\n\t\t\tkey = string(rune(key[0]-32)) + key[1:]\n\t\t}\n\n\t\tfieldMeta, ok := structVal", "field-name-rule", "schema keys starting with z are not mapped to their exported field (Parse)")
rx("m03h", "C03", "struct.go", r"(func \(v \*StructSchema\) validate(?s:.*?))key\[0\] >= 'a'", "${1}key[0] > 'a'", "field-name-rule", "schema keys starting with a are not mapped to their exported field (Validate)")
# ---- C04
rx("m04a", "C04", "pointers.go", r"(func \(v \*PointerSchema\) process(?s:.*?))if v\.required != nil \{", "${1}if v.required == nil {", "decision-shape")
rx("m04b", "C04", "string.go", r"v\.coercer, p\.IsParseZeroValue\)", "v.coercer, func(val any, ctx p.Ctx) bool { return p.IsZeroValue(val) })", "zero-predicate-binding")
rx("m04c", "C04", "internals/zeroValues.go", r'return strings\.TrimSpace\(s\) == ""', 'return len(strings.TrimSpace(s)) < 1 && s == ""', "zero-predicate-formula")
rx("m04d", "C04", "internals/DataProviders.go", r"v, ok := m\.M\[key\]\n\tif !ok \{(?s:.*?)\n\t\}\n\treturn any\(v\)", "return any(m.M[key])", "absent-at-provider")
rx("m04e", "C04", "zogSchema.go", r"if defaultVal != nil \{\n\t\t\t\*destPtr = \*defaultVal\n\t\t\} else if required == nil \{", "if required != nil && defaultVal == nil {\n\t\t\tctx.AddIssue(ctx.IssueFromTest(required, *destPtr))\n\t\t\treturn\n\t\t} else if defaultVal != nil {\n\t\t\t*destPtr = *defaultVal\n\t\t} else if required == nil {", "decision-shape", "restructured; still default>required: equivalent reordering expected to be flagged only if order changes")
# ---- C05
rx("m05a", "C05", "slices.go", r"\t\tsubCtx\.Exit = false\n\t\tsubCtx\.CanCatch = false\n\t\tv\.schema\.validate", "\t\tsubCtx.CanCatch = false\n\t\tv.schema.validate", "confinement")
rx("m05b", "C05", "zogSchema.go", r"\*destPtr = \*catch\n\t\t\t\treturn\n\t\t\t\} else \{", "return\n\t\t\t} else {", "swallow-implies-catch-store")
rx("m05c", "C05", "custom.go", r"ctx\.AddIssue\(ctx\.IssueFromCoerce\(", "ctx.ExecCtx.AddIssue(ctx.IssueFromCoerce(", "no-direct-sink")
rx("m05d", "C05", "internals/contexts.go", r"\t\tc\.Exit = true\n", "\t\tc.Exit = true\n\t\tc.HasCaught = true\n", "flag-writers")
rx("m05z", "C05", "numbers.go", r"(func \(v \*NumberSchema\[T\]\) process\(ctx \*p\.SchemaCtx\) \{\n)", "${1}\tif _, isFn := ctx.Data.(func()); isFn {\n\t\tctx.AddIssue(ctx.IssueFromCoerce(nil))\n\t\treturn\n\t}\n", "issues-inside-catch-scope", "a failure of the node raised before its Catch is armed")
# ---- C06
rx("m06a", "C06", "internals/DataProviders.go", r"if !field\.IsValid\(\) \|\| !field\.CanInterface\(\) \{", "if !field.IsValid() {", "panic-site")
rx("m06b", "C06", "struct.go", r"ok && factory != nil", "ok", "panic-site")
rx("m06c", "C06", "struct.go", r"\tif dataProv == nil \{\n\t\tdataProv = &p\.EmptyDataProvider\{\}\n\t\}\n", "", "nil-provider")
rx("m06d", "C06", "internals/DataProviders.go", r"m, ok := x\.Interface\(\)\.\(map\[string\]T\)\n\tif !ok \{", "m := x.Interface().(map[string]T)\n\tok := true\n\tif !ok {", "panic-site")
rx("m06e", "C06", "struct.go", r"key = string\(rune\(key\[0\]-32\)\) \+ key\[1:\]", "var b [32]byte\n\t\t\tcopy(b[:], key)\n\t\t\tb[0] -= 32\n\t\t\tkey = string(b[:len(key)])", "panic-site")
rx("m06f", "C06", "slices.go", r"(func sliceLength(?s:.*?))return rv\.Len\(\) == n", "${1}seen := map[any]bool{}\n\t\tfor i := 0; i < rv.Len(); i++ {\n\t\t\tseen[rv.Index(i).Interface()] = true\n\t\t}\n\t\treturn rv.Len() == n", "panic-site", "elements of the parsed slice used as keys of a map[any]: a JSON object among them panics")
rx("m06g", "C06", "parsers/zjson/parseJson.go", r"closer, ok := r\.\(io\.Closer\)\n\t\tif ok \{", "closer, ok := r.(io.Closer)\n\t\tif !ok {", "panic-site", "Close called on the reader exactly when it is not a Closer: every plain reader panics (passes the whole suite)")
rx("m06p", "C06", "internals/PathBuilder.go", r"\(len\(v\) == 0 \|\| v\[0\] != '\['\)", "v[0] != '['", "panic-site", "F26 reverted: a path segment indexed without a length test")
rx("m06q", "C06", "internals/DataProviders.go", r"field := s\.fieldByName\(key\)\n\t// unexported", "field := s.value.FieldByName(key)\n\t// unexported", "panic-site", "F29 reverted: FieldByName on an input struct")
# ---- C07
rx("m07a", "C07", "internals/contexts.go", r"\tc2\.Exit = false\n", "", "reinit")
rx("m07b", "C07", "internals/Issues.go", r"\te\.Err = nil\n\treturn e", "\treturn e", "reinit")
rx("m07c", "C07", "struct.go", r"defer ctx\.Free\(\)", "ctx.Free()", "release")
rx("m07d", "C07", "struct.go", r"\t\tsubCtx\.Path\.Pop\(\)\n", "", "balance")
rx("m07e", "C07", "internals/PathBuilder.go", r"\*pb = \(\*pb\)\[:1\]", "*pb = (*pb)[:len(*pb)]", "reinit")
rx("m07f", "C07", "zogSchema.go", r"func primitiveProcessor\[", "var lastCtx any\n\nfunc primitiveProcessor[", "no-global-state", edits=[("zogSchema.go", r"\tctx\.CanCatch = catch != nil\n\n\tdestPtr", "\tctx.CanCatch = catch != nil\n\tlastCtx = ctx\n\n\tdestPtr")])
rx("m07g", "C07", "utils.go", r"\t\tif key == zconst\.ISSUE_KEY_FIRST \{\n\t\t\tcontinue\n\t\t\}\n", "\t\t_ = key\n\t\t_ = zconst.ISSUE_KEY_FIRST\n", "release-multiplicity")
rx("m07h", "C07", "internals/contexts.go", r"func \(c \*ExecCtx\) Get\(", "func (c *ExecCtx) SetAll(vals map[string]any) {\n\tif c.m == nil {\n\t\tc.m = vals\n\t\treturn\n\t}\n\tfor k, v := range vals {\n\t\tc.m[k] = v\n\t}\n}\n\nfunc (c *ExecCtx) Get(", "pooled-map-owned", "a caller's map adopted as the execution's value map")
# ---- C08
rx("m08a", "C08", "string.go", r"(func \(v \*StringSchema\[T\]\) process\(ctx \*p\.SchemaCtx\) \{\n)", "${1}\tv.isNot = false\n", "write-effects")
rx("m08b", "C08", "struct.go", r"\tv\.process\(sctx\)\n\n\treturn errs\.M", "\tgo func() {}()\n\tv.process(sctx)\n\n\treturn errs.M", "no-go")
rx("m08c", "C08", "internals/tests.go", r"x := val\.\(\*T\)\n\t\treturn len\(\*x\) >= n", "x := val.(*T)\n\t\tn += 0\n\t\treturn len(*x) >= n", "write-effects")
rx("m08d", "C08", "pointers.go", r"(func \(v \*PointerSchema\) Validate(?s:.*?)defer ctx\.Free\(\)\n)", "${1}\tdefer ctx.Free()\n", "single-owner")
# ---- C09
rx("m09a", "C09", "struct.go", r"\t\tsubCtx\.CanCatch = false\n\t\tprocessor\.process", "\t\tprocessor.process", "range-independent")
rx("m09b", "C09", "struct.go", r"(for key, schema := range v\.schema \{\n)", "${1}\t\tif ctx.HasErrored() {\n\t\t\tbreak\n\t\t}\n", "range-independent")
rx("m09c", "C09", "conf/issueFormatConf.go", r"sort\.Strings\(keys\)", "sort.Strings(nil)", "range-independent")
# ---- C10
rx("m10a", "C10", "internals/Issues.go", r'if path == "" \{', 'if path == "." {', "add-shape")
rx("m10b", "C10", "internals/Issues.go", r"\t\ts\.M\[zconst\.ISSUE_KEY_FIRST\] = \[\]\*ZogIssue\{err\}\n\t\}", "\t}\n\ts.M[zconst.ISSUE_KEY_FIRST] = []*ZogIssue{err}", "add-shape")
rx("m10c", "C10", "internals/DataProviders.go", r"(\tif tag != nil \{\n(?s:.*?)\n\t\}\n)(\tfieldTag, ok := field\.Tag\.Lookup\(zconst\.ZogTag\)\n\tif ok \{\n\t\treturn fieldTag\n\t\}\n)", "${2}${1}", "tag-priority")
rx("m10d", "C10", "internals/contexts.go", r"(\tif test\.IssueFmtFunc != nil \{\n\t\ttest\.IssueFmtFunc\(e, c\)\n\t\}\n)(\tif test\.IssuePath != \"\" \{\n\t\te\.Path = test\.IssuePath\n\t\}\n)", "${2}${1}", "issuepath-last")
rx("m10g", "C10", "internals/PathBuilder.go", r" && \(len\(v\) == 0 \|\| v\[0\] != '\['\)", "", "path-render", "a '.' is written before slice positions: a.[0]")
rx("m10h", "C10", "internals/PathBuilder.go", r'\(\*p\)\[i-1\] != ""', '(*p)[i-1] == ""', "path-render", "separator logic inverted")
rx("m10e", "C10", "zhttp/zhttp.go", r"form\(r\.URL\.Query\(\), &queryParam\)", "form(r.URL.Query(), &formTag)", "provider-tag-table")
rx("m10f", "C10", "struct.go", r"fieldMeta\.Tag\.Lookup\(zconst\.ZogTag\)", 'fieldMeta.Tag.Lookup("json")', "segment-source")
# ---- C11
rx("m11a", "C11", "i18n/en/en.go", r"at least \{\{min\}\} character", "at least {{minimum}} character", "placeholders")
rx("m11b", "C11", "string.go", r"t\.Params\[zconst\.IssueCodeHasPrefix\] = s", 't.Params["value_prefix"] = s', "placeholders")
rx("m11c", "C11", "internals/contexts.go", r'if e\.Message == "" \{\n\t\tc\.Fmter\(e, c\)', 'if e.Message != "" {\n\t\tc.Fmter(e, c)', "precedence")
rx("m11d", "C11", "i18n/en/en.go", r'\t\tzconst\.IssueCodeFallback: "time is invalid",\n', "", "type-known")
rx("m11e", "C11", "internals/contexts.go", r"(func \(c \*SchemaCtx\) IssueFromTest(?s:.*?))\te\.Dtype = c\.DType\n", "${1}", "issue-complete")
rx("m11f", "C11", "boolean.go", r"p\.NewExecCtx\(errs, conf\.IssueFormatter\)", "p.NewExecCtx(errs, conf.DefaultIssueFormatter)", "precedence")
rx("m11g", "C11", "i18n/i18n.go", r"\t\t\tif ok \{", "\t\t\tif ok && len(langM) > 1 {", "precedence", "an installed language is used only when it has more than one type table")
# ---- C12
rx("m12a", "C12", "slices.go", r"err := fn\(ctx\.ValPtr, ctx\)", "err := fn(ctx.Data, ctx)", "callback-arg")
rx("m12b", "C12", "time.go", r"\tt\.Func = customTestBackwardsCompatWrapper\(t\.Func\)\n", "", "primitive-testfunc-gets-value")
rx("m12c", "C12", "zogSchema.go", r"if !ctx\.HasErrored\(\) \{", "if true {", "posttransform-shape")
rx("m12d", "C12", "preprocess.go", r"(ctx\.AddIssue\(ctx\.IssueFromUnknownError\(err\)\)\n\t\t)return", "${1}_ = 0", "preprocess-skip")
rx("m12e", "C12", "struct.go", r"(ctx\.AddIssue\(ctx\.IssueFromUnknownError\(err\)\)\n\t\t\t\t\t)return", "${1}continue", "posttransform-shape")
rx("m12f", "C12", "internals/contexts.go", r"return c\.Issue\(\)\.SetError\(err\)", "return c.Issue()", "unknown-error-shape", "the callback's error is dropped from the issue that reports it")
rx("m12g", "C12", "internals/contexts.go", r"(func \(c \*SchemaCtx\) IssueFromUnknownError(?s:.*?))\treturn zerr\n", "${1}\tzerr.Path = c.Path.String()\n\treturn zerr\n", "unknown-error-shape", "the callback's own issue gets its path rewritten")
rx("m12h", "C12", "internals/contexts.go", r'if zerr\.Dtype == "" \{', 'if zerr.Dtype != "" {', "unknown-error-shape", "the type of the schema is written over an issue that has one, and not into one that has none")
rx("m11h", "C11", "internals/contexts.go", r'\tif zerr\.Dtype == "" \{\n\t\tzerr\.Dtype = c\.DType\n\t\}\n', "", "foreign-issue-gets-type", "an issue built by zhttp/zjson keeps an empty type")
# ---- C13
rx("m13a", "C13", "slices.go", r"ctx\.AddIssue\(ctx\.IssueFromTest\(v\.required, ctx\.ValPtr\)\)\n\t\t\treturn", "return", "twin-language")
rx("m13b", "C13", "struct.go", r"ctx\.AddIssue\(ctx\.IssueFromUnknownError\(err\)\)", "ctx.AddIssue(ctx.Issue().SetError(err))", "twin-language")
rx("m13c", "C13", "boolean.go", r"primitiveValidator\(ctx, v\.tests, v\.postTransforms, v\.defaultVal, v\.required, v\.catch\)", "primitiveValidator(ctx, v.tests, v.postTransforms, v.catch, v.required, v.defaultVal)", "twin-args")
# ---- C14
rx("m14a", "C14", "pointers.go", r"\t\tsubCtx\.Data = val\n", "", "factory-once")
rx("m14b", "C14", "zenv/zenv.go", r"return e\.Get\(key\), key", "return e.Get(fallback), key", "getbyfield-agreement")
rx("m14c", "C14", "struct.go", r"(ctx\.AddIssue\(ctx\.IssueFromUnknownError\(err\)\)\n\t\t\t)return(\n\t\t\}\n\t\tdataProv = newDp)", "${1}_ = 0${2}", "factory-twins")
rx("m14z", "C14", "internals/DataProviders.go", r"(m, ok := x\.Interface\(\)\.\(map\[string\]T\)\n\t)if !ok \{", "${1}if ok {", "provider-from-checked-value", "a map of a named type is read as an empty record (survives the whole suite)")
# ---- C15
rx("m15a", "C15", "zhttp/zhttp.go", r'case "HEAD":\n\t\treturn Config\.Parsers\.Query\(r\)', 'case "HEAD":\n\t\treturn Config.Parsers.Form(r)', "dispatch-table")
rx("m15b", "C15", "zhttp/zhttp.go", r'strings\.Cut\(r\.Header\.Get\("Content-Type"\), ";"\)', 'strings.Cut(r.Header.Get("Content-Type"), ",")', "dispatch-table")
rx("m15c", "C15", "parsers/zjson/parseJson.go", r"Code: zconst\.IssueCodeInvalidJSON, Err: errors\.New", "Code: zconst.IssueCodeCoerce, Err: errors.New", "decode-failure")
rx("m15d", "C15", "zhttp/zhttp.go", r"v, ok := u\.Data\[key\]\n\t\tif !ok \{(?s:.*?)\n\t\t\}\n\t\treturn v", "return u.Data[key]", "list-scalar-absent")
# ---- C16
rx("m16a", "C16", "struct_helpers.go", r"slices\.Clip\(v\.tests\)", "v.tests[:len(v.tests)]", "no-shared-backing")
rx("m16b", "C16", "struct_helpers.go", r"(func \(v \*StructSchema\) Omit(?s:.*?))\tnew\.schema = Schema\{\}\n\tmaps\.Copy\(new\.schema, v\.schema\)\n", "${1}", "operands-read-only")
rx("m16c", "C16", "struct_helpers.go", r"\tmaps\.Copy\(new\.schema, v\.schema\)\n\tmaps\.Copy\(new\.schema, other\.schema\)", "\tmaps.Copy(new.schema, other.schema)\n\tmaps.Copy(new.schema, v.schema)", "operand-order")
rx("m16d", "C16", "struct_helpers.go", r"\t\t\t\tif pick \{", "\t\t\t\tif pick || true {", "selection")
rx("m16e", "C16", "struct_helpers.go", r"\tmaps\.Copy\(new\.schema, v\.schema\)\n\tmaps\.Copy\(new\.schema, schema\)", "\tmaps.Copy(new.schema, schema)\n\tmaps.Copy(new.schema, v.schema)", "selection")
rx("m16z", "C16", "struct.go", r"(func \(v \*StructSchema\) Test\(t Test\) \*StructSchema \{\n)", "${1}\tif len(v.tests) > 0 && v.tests[0].IssueCode == t.IssueCode {\n\t\tv.tests[0] = t\n\t\treturn v\n\t}\n", "no-element-overwrite", "a test with the same code replaces the first test in place: the element is shared with derived schemas")
# ---- C17
rx("m17a", "C17", "string.go", r"\t\tv\.isNot = false\n", "", "not-typestate")
rx("m17b", "C17", "numbers.go", r"\tv\.required = nil\n", "\tv.required = nil\n\tv.defaultVal = nil\n", "field-effects")
rx("m17c", "C17", "time.go", r"opt\(&r\)", "opt(&v.tests[0])", "option-locality")
rx("m17d", "C17", "pointers.go", r"\tv\.schema\.setCoercer\(c\)\n", "", "setcoercer")
rx("m17e", "C17", "zconst/utils.go", r'NotIssuePrefix = "not_"', 'NotIssuePrefix = "no_"', "not-typestate")
# ---- C18
rx("m18a", "C18", "numbers.go", r"n < math\.MinInt32 \|\| n > math\.MaxInt32", "n > math.MaxInt32", "guarded-convert")
rx("m18b", "C18", "conf/Coercers.go", r"t < -math\.MinInt\)", "t <= -math.MinInt)", "guarded-convert")
rx("m18c", "C18", "conf/Coercers.go", r"convVal, err := strconv\.Atoi\(v\)\n\t\t\tif err != nil \{\n(?s:.*?)\n\t\t\t\}\n", "convVal, _ := strconv.Atoi(v)\n", "strconv-err")
rx("m18d", "C18", "conf/Coercers.go", r"if !\(t >= math\.MinInt && t < -math\.MinInt\) \{", "if t < math.MinInt || t >= -math.MinInt {", "guarded-convert", "NaN satisfies the negated comparisons")
rx("m18z", "C18", "conf/Coercers.go", r"(failed to coerce string int: %v\", err\)\n\t\t\t\}\n)\t\t\treturn convVal, nil", "${1}\t\t\treturn convVal * 1000, nil", "parsed-arithmetic", "a parsed number multiplied without a bound")
# ---- C19
rx("m19a", "C19", "slices.go", r"\t\t\tdef := p\.DeepCopyValue\(reflect\.ValueOf\(v\.defaultVal\)\)\n(?s:.*?)refVal\.Set\(cp\)", "\t\t\trefVal.Set(reflect.ValueOf(v.defaultVal))", "default-not-aliased")
rx("m19b", "C19", "zogSchema.go", r"\t\t\t\*destPtr = \*defaultVal\n", "\t\t\tdestPtr = defaultVal\n", "no-schema-or-input-writes")
rx("m19c", "C19", "boolean.go", r"(func \(v \*BoolSchema\[T\]\) validate\(ctx \*p\.SchemaCtx\) \{\n)", "${1}\t*(ctx.ValPtr.(*T)) = T(false)\n", "validate-write-sites")
rx("m19d", "C19", "slices.go", r"def := p\.DeepCopyValue\(reflect\.ValueOf\(v\.defaultVal\)\)", "def := reflect.ValueOf(v.defaultVal)", "default-not-aliased", "F27 reverted: the default copied one level deep")
rx("m19e", "C19", "slices.go", r"refVal = p\.DeepCopyValue\(reflect\.ValueOf\(v\.defaultVal\)\)", "refVal = reflect.ValueOf(v.defaultVal)", "default-not-aliased", "F28 reverted: the default's own items handed to the item schemas")
rx("m19f", "C19", "internals/utils.go", r"\t\t\tif f := cp\.Field\(i\); f\.CanSet\(\) \{\n\t\t\t\tf\.Set\(DeepCopyValue\(v\.Field\(i\)\)\)\n\t\t\t\}\n", "", "default-not-aliased", "the clone copies a struct whole and none of its fields: their slices, maps and pointers stay shared")
# ---- C20
rx("m20a", "C20", "internals/tests.go", r"return len\(\*x\) >= n", "return len(*x) > n", "predicate")
rx("m20b", "C20", "time.go", r"return val\.Equal\(t\)", "return *val == t", "predicate")
rx("m20c", "C20", "string.go", r"r >= 'A' && r <= 'Z'", "r >= 'A' && r < 'Z'", "predicate")
rx("m20d", "C20", "string.go", r"strings\.HasSuffix\(string\(\*val\), string\(s\)\)", "strings.HasPrefix(string(*val), string(s))", "predicate")
rx("m20e", "C20", "slices.go", r"return rv\.Len\(\) <= n", "return rv.Len() < n", "predicate")
rx("m20f", "C20", "string.go", r"\{0,61\}\[a-zA-Z0-9\]\)\?\(\?:", "{0,62}[a-zA-Z0-9])?(?:", "regexp-language", "e-mail label length bound off by one")
rx("m20g", "C20", "string.go", r"\[0-9a-fA-F\]\{12\}\$`", "[0-9a-fA-F]{12}`", "regexp-language", "UUID pattern loses its end anchor")
rx("m14y", "C14", "zenv/zenv.go", r"return strings\.TrimSpace\(os\.Getenv\(key\)\)", "return strings.ToLower(strings.TrimSpace(os.Getenv(key)))", "env-leaf-is-trimmed-value")
rx("m11z", "C11", "internals/contexts.go", r"(func \(c \*ExecCtx\) Get\(key string\) any \{\n)", "${1}\tif key == \"\" {\n\t\treturn c.Fmter\n\t}\n", "ctx-value-last-set-wins")


# ---- seeded changes (patches)
for meta in sorted(glob.glob("/verif/seeded/*/meta.json")):
    d = json.load(open(meta))
    name = os.path.basename(os.path.dirname(meta))
    M.append(dict(id="seed-" + name, property=d["property"], type="patch", patch="seeded/%s/patch.diff" % name, expect_rule="",
                  note="seeded by an independent sub-agent; caught at keep time by: " + d.get("caught_by", "?")))
json.dump(M, open("/verif/selftest/mutants.json", "w"), indent=1, ensure_ascii=False)
print(len(M), "mutants")
