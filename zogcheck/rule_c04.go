package main

import (
	"fmt"
	"go/token"
	"go/types"
	"regexp"
	"strings"

	"golang.org/x/tools/go/ssa"
)

func init() { register("C04", checkC04) }

// decisionSites: node functions that decide absence themselves (contain a
// ZERO atom).
func (P *Prog) decisionSites() []*ssa.Function {
	var out []*ssa.Function
	for _, fn := range P.nodeFuncs() {
		paths, _ := P.nodePaths(fn)
		for _, p := range paths {
			if p.has("ZERO", "") {
				out = append(out, fn)
				break
			}
		}
	}
	return out
}

func pathIsZero(p nodePath) (zero bool, decided bool) {
	for _, it := range p.items {
		if it.kind == "ZERO" {
			decided = true
			if it.val == "T" {
				zero = true
			}
		}
	}
	return
}

func checkC04(P *Prog, r *Result) {
	R := P.roles
	r.Explanation = "Decides the decision shape of absence at every site that handles it (the two primitive pipelines, SliceSchema.process/validate, PointerSchema.process/validate) by enumerating " +
		"every decision path of the function (branch conditions classified by role, events in order): on an absent value a Default beats Required beats Optional; an absent optional node " +
		"returns before any destination write, issue, test or child; an absent required node yields exactly one required/not_nil issue (or the catch value) and returns; a defaulted value " +
		"falls through to the tests; a present value never yields a required issue or the default. Also: Parse-mode sites use the parse-mode absence predicate on the input and Validate-mode " +
		"sites the Go-zero predicate on the destination; the two predicates have their documented formula; and a missing key is nil at the provider boundary (not a boxed typed zero). " +
		"The exact set of strings strings.TrimSpace treats as blank is library semantics and not decided."
	sites := P.decisionSites()
	if len(sites) < 4 {
		r.broken("vacuous: %d absence-decision sites found (floor 4)", len(sites))
	}
	for _, fn := range sites {
		r.sawFunc(fname(fn))
		paths, capHit := P.nodePaths(fn)
		if capHit {
			r.undecided("C04/decision-shape", fname(fn), P.pos(fn.Pos()), "too many paths to enumerate")
			continue
		}
		hasDefaultRole := false
		for _, p := range paths {
			if p.has("DEFAULT", "") {
				hasDefaultRole = true
			}
		}
		var problems []string
		note := func(p nodePath, msg string) {
			problems = append(problems, msg+"  [path: "+p.String()+"]")
		}
		nZero, nPresent := 0, 0
		for _, p := range paths {
			if p.end == "PANIC" {
				continue
			}
			zero, decided := pathIsZero(p)
			zi := p.index("ZERO")
			// nothing observable before the absence decision
			for i, it := range p.items {
				if zi >= 0 && i >= zi {
					break
				}
				switch it.kind {
				case "ISSUE":
					if it.val == "required" {
						note(p, "a required issue is emitted before the value is tested for absence")
					}
				case "TESTS", "CALL-TEST", "CHILD":
					note(p, "tests or children run before the value is tested for absence")
				case "DEST":
					if it.val == "default" || it.val == "catch" {
						note(p, "the destination is written before the value is tested for absence")
					}
				}
			}
			if !decided {
				// paths that return before the absence test (factory error etc.) must not run tests/children
				if p.has("TESTS", "") || p.has("CHILD", "") {
					note(p, "a path reaches tests/children without testing for absence")
				}
				continue
			}
			if !zero {
				nPresent++
				if p.has("ISSUE", "required") {
					note(p, "a present value yields a required/not_nil issue")
				}
				if p.has("DEST", "default") {
					note(p, "a present value is replaced by the default")
				}
				continue
			}
			nZero++
			di, ri := p.index("DEFAULT"), p.index("REQUIRED")
			defT := p.has("DEFAULT", "T")
			if hasDefaultRole && di < 0 {
				note(p, "an absent value is handled without consulting the Default")
			}
			if ri >= 0 && di >= 0 && ri < di {
				note(p, "Required is consulted before Default: a required node with a default would report `required`")
			}
			after := func(kinds ...string) bool {
				start := ri
				if start < 0 {
					start = zi
				}
				for i := start + 1; i < len(p.items); i++ {
					for _, k := range kinds {
						if p.items[i].kind == k {
							return true
						}
					}
				}
				return false
			}
			switch {
			case defT:
				// default: written (or used as the source) and falls through to tests / children
				if !(p.has("TESTS", "") || p.has("CHILD", "") || p.has("CALL-TEST", "")) && p.end != "LOOP-BACK" {
					note(p, "after applying the Default the node's tests/children do not run")
				}
				if p.has("ISSUE", "required") {
					note(p, "a node with a Default still reports `required`")
				}
				if !p.has("DEST", "default") && !p.has("DEST", "alloc") {
					note(p, "the Default is not written to the destination")
				}
			case p.has("REQUIRED", "F"):
				if p.end != "RETURN" || after("DEST", "ISSUE", "TESTS", "CALL-TEST", "CHILD", "COERCE") {
					note(p, "an absent optional node is not skipped: something runs or is written after the optional decision")
				}
			case p.has("REQUIRED", "T"):
				nIss := 0
				for _, it := range p.items {
					if it.kind == "ISSUE" && it.val == "required" {
						nIss++
					}
				}
				caught := p.has("DEST", "catch")
				if !(nIss == 1 && !caught) && !(nIss == 0 && caught) {
					note(p, fmt.Sprintf("an absent required node yields %d required issue(s) (catch store: %v); exactly one issue or the catch value is required", nIss, caught))
				}
				if p.end != "RETURN" || after("TESTS", "CALL-TEST", "CHILD", "COERCE") {
					note(p, "after a missing required value the node's tests/children/coercion still run")
				}
			default:
				note(p, "an absent value is handled without consulting Required")
			}
		}
		if nZero == 0 || nPresent == 0 {
			problems = append(problems, fmt.Sprintf("absence decision degenerate: %d absent paths, %d present paths", nZero, nPresent))
		}
		if len(problems) > 0 {
			r.bad("C04/decision-shape", fname(fn), P.pos(fn.Pos()), fmt.Sprintf("%d path(s) violate default > required > optional", len(problems)), uniqSorted(problems)...)
		} else {
			r.ok("C04/decision-shape", fname(fn), P.pos(fn.Pos()), fmt.Sprintf("%d decision paths (%d absent, %d present): default > required > optional; optional-absent skips; required-absent one issue or catch", len(paths), nZero, nPresent))
		}
	}
	r.floor("C04/decision-shape", 4)

	// ---- zero-predicate-binding ----
	P.checkZeroBinding(r, sites)
	// ---- predicate formulas ----
	P.checkZeroPredicates(r)
	// ---- absent-at-provider ----
	P.checkAbsentAtProvider(r, "C04/absent-at-provider", func(fn *ssa.Function) bool {
		return funcPkgPath(fn) == pkgInternals
	})
	r.floor("C04/absent-at-provider", 2)
	// ---- present-at-provider: the converse ----
	P.checkPresentAtProvider(r, "C04/present-at-provider")
	// ---- a nil pointer is an absent record, not an unsupported one ----
	P.checkNilRecordAbsent(r, "C04/nil-record-absent")
	// a required/not_nil issue must reach the collection: the context of a non-catching node is catch-clean
	ca := P.newCatchAnalysis()
	dsites := P.allDispatchSites(ca)
	names := siteNames(dsites)
	for i, s := range dsites {
		if len(s.dirty) > 0 {
			r.bad("C04/required-not-swallowed", names[i], P.ipos(s.at), "the required/not_nil issue of an absent child can be swallowed: "+flagNames(s.dirty)+" may still be set on the context it receives")
		} else {
			r.ok("C04/required-not-swallowed", names[i], P.ipos(s.at), "child context catch-clean")
		}
	}
	r.floor("C04/required-not-swallowed", 15)
	// absence means different things in the two modes: no node may run a child in the other mode
	P.checkModeConsistent(r, "C04/mode-consistent")
	_ = R
	// an absent request parameter is absent: `tags[]` missing from a form reaches the schema as nil, not as a non-nil
	// interface holding a nil list (C15's rule on the url.Values provider) - else Required is not raised and a Default is
	// not applied
	shareRule(P, r, checkC15, "C15/list-scalar-absent", nil, "C04/absent-parameter-is-absent", 1)
	// the default that replaces an absent value is a copy of the schema's: a destination that shares the schema's slice
	// changes what later executions get as their default (C19's rule)
	shareRule(P, r, checkC19, "C19/default-not-aliased", nil, "C04/default-is-copied", 1)
	// the decision is taken at all: a node that returns without an issue, without skipping as optional and without
	// visiting its children (a struct that returns on an empty record instead of reading its fields from an empty
	// provider) never asks whether its required fields are present (C01's rule)
	shareRule(P, r, checkC01, "C01/no-silent-exit", nil, "C04/absent-decision-reached", 10)
	// "the Default is then tested like any other value" holds element by element: every position 0 <= i < len of the
	// list the node works on - the input's or the default's - goes to the element schema (C03's rule; a default that is
	// bulk-copied into the destination and skipped by the element loop is never tested)
	shareRule(P, r, checkC03, "C03/index-agreement", nil, "C04/default-elements-reach-their-schema", 1)
}

func (P *Prog) checkZeroBinding(r *Result, sites []*ssa.Function) {
	R := P.roles
	// pipelines with a predicate parameter: every call from a process method passes IsParseZeroValue
	for _, pl := range R.Pipelines {
		pidx := -1
		for i, p := range pl.Params {
			if sig, ok := p.Type().Underlying().(*types.Signature); ok && sig.Results().Len() == 1 && sig.Params().Len() == 2 {
				if b, ok := sig.Results().At(0).Type().Underlying().(*types.Basic); ok && b.Kind() == types.Bool {
					pidx = i
				}
			}
		}
		if pidx < 0 {
			continue
		}
		for _, caller := range P.Funcs {
			eachInstr(caller, func(_ *ssa.BasicBlock, _ int, in ssa.Instruction) {
				ci := callOf(in)
				if ci == nil || ci.static != pl {
					return
				}
				c := fname(caller) + "→" + fname(pl)
				f, ok := ci.args()[pidx].(*ssa.Function)
				if ok && f.Name() == "IsParseZeroValue" && R.Dispatch[caller] == "process" {
					r.ok("C04/zero-predicate-binding", c, P.ipos(in), "Parse pipeline called with the parse-mode absence predicate")
				} else {
					r.bad("C04/zero-predicate-binding", c, P.ipos(in), "the Parse pipeline is not given internals.IsParseZeroValue as its absence predicate: 0/false/zero time would count as absent (or blank strings as present)")
				}
			})
		}
	}
	for _, fn := range sites {
		mode := R.Dispatch[fn]
		if mode == "" {
			if strings.Contains(strings.ToLower(fn.Name()), "validat") {
				mode = "validate"
			} else {
				mode = "process"
			}
		}
		var preds []string
		var argClasses []string
		// over the code units of the site (a helper such as `sourceSlice(ctx)` that decides absence for it)
		for _, unit := range P.nodeUnits(fn) {
			unit.with(func() {
				eachInstr(unit.fn, func(_ *ssa.BasicBlock, _ int, in ssa.Instruction) {
					iff, ok := in.(*ssa.If)
					if !ok {
						return
					}
					c := cv(iff.Cond)
					if u, ok := c.(*ssa.UnOp); ok && u.Op == token.NOT {
						c = cv(u.X)
					}
					call, ok := c.(*ssa.Call)
					if !ok {
						return
					}
					ci := callOf(call)
					name := ""
					if ci.static != nil {
						name = ci.static.Name()
					} else if ci.dynamic {
						if _, isP := cv(call.Call.Value).(*ssa.Parameter); isP {
							name = "<predicate parameter>"
						}
					}
					switch name {
					case "IsParseZeroValue", "IsZeroValue", "IsNil", "IsValid", "<predicate parameter>":
						cls := ""
						for _, rt := range P.rootsOf(call.Call.Args[0]) {
							cls = P.classify(rt).class.String()
						}
						if mode == "process" && (name == "IsNil" || name == "IsValid") && cls == mcDest.String() {
							return // allocation check of the destination pointer, not an absence decision
						}
						preds = append(preds, name)
						argClasses = append(argClasses, cls)
					}
				})
			})
		}
		c := fname(fn)
		okb := true
		why := ""
		for i, pn := range preds {
			_ = i
			switch mode {
			case "process":
				if pn != "IsParseZeroValue" && pn != "<predicate parameter>" {
					okb, why = false, "Parse-mode site uses "+pn
				}
			case "validate":
				if pn == "IsParseZeroValue" || pn == "<predicate parameter>" {
					okb, why = false, "Validate-mode site uses the parse-mode predicate"
				}
			}
		}
		for _, ac := range argClasses {
			if mode == "process" && ac != mcInput.String() {
				okb, why = false, "Parse-mode absence is not decided on the input (ctx.Data) but on "+ac
			}
			if mode == "validate" && ac != mcDest.String() {
				okb, why = false, "Validate-mode absence is not decided on the value being validated but on "+ac
			}
		}
		if len(preds) == 0 {
			okb, why = false, "no absence predicate call found"
		}
		if okb {
			r.ok("C04/zero-predicate-binding", c, P.pos(fn.Pos()), fmt.Sprintf("%s-mode site decides absence with %v on the %s", mode, uniqSorted(preds), map[string]string{"process": "input", "validate": "destination value"}[mode]))
		} else {
			r.bad("C04/zero-predicate-binding", c, P.pos(fn.Pos()), why)
		}
	}
	r.floor("C04/zero-predicate-binding", 5)
}

// checkZeroPredicates: the two absence predicates compute their documented formula.
func (P *Prog) checkZeroPredicates(r *Result) {
	want := map[string]string{
		"zog/internals.IsParseZeroValue": `(val != nil) ∧ (strings.TrimSpace(val.(string)) == "")  ∨  (val == nil)`,
		"zog/internals.IsZeroValue":      `!(reflect.Value).IsValid(reflect.ValueOf(val))  ∨  (reflect.Value).IsValid(reflect.ValueOf(val)) ∧ (reflect.Value).IsZero(reflect.ValueOf(val))`,
	}
	for _, name := range sortedKeys(want) {
		fn := P.fn(name)
		if fn == nil {
			r.broken("anchor %s not found", name)
			continue
		}
		r.sawFunc(name)
		got, probs := P.canonicalPredicate(fn)
		switch {
		case len(probs) > 0:
			r.undecided("C04/zero-predicate-formula", name, P.pos(fn.Pos()), strings.Join(probs, "; "))
		case formulaEquiv(got, want[name]):
			r.ok("C04/zero-predicate-formula", name, P.pos(fn.Pos()), got)
		default:
			r.bad("C04/zero-predicate-formula", name, P.pos(fn.Pos()), "the absence predicate does not compute its documented formula", "expected: "+want[name], "found:    "+got)
		}
	}
	r.floor("C04/zero-predicate-formula", 1)
}

// checkAbsentAtProvider: in DataProvider.Get implementations, a value of
// non-interface type that is boxed into the returned `any` and comes from a Go
// map lookup must be guarded by the lookup's ok result or by a length test of
// the same entry; otherwise a missing key becomes a present typed zero.
func (P *Prog) checkAbsentAtProvider(r *Result, rule string, want func(fn *ssa.Function) bool) {
	for _, fn := range P.Funcs {
		if fn.Name() != "Get" || fn.Parent() != nil || fn.Signature.Recv() == nil || !P.isProviderType(fn.Signature.Recv().Type()) {
			continue
		}
		if !want(fn) {
			continue
		}
		r.sawFunc(fname(fn))
		nRet := 0
		var bad []string
		eachInstr(fn, func(b *ssa.BasicBlock, _ int, in ssa.Instruction) {
			rt, ok := in.(*ssa.Return)
			if !ok || len(rt.Results) != 1 {
				return
			}
			nRet++
			v := rt.Results[0]
			// strip boxing
			for {
				switch x := v.(type) {
				case *ssa.MakeInterface:
					v = x.X
					continue
				case *ssa.ChangeType:
					v = x.X
					continue
				case *ssa.ChangeInterface:
					v = x.X
					continue
				}
				break
			}
			// a present entry replaced by the result of a module function that can return a nil interface
			// (a provider constructor that returns nil for an empty map): the present entry reads as absent
			if c0, isCall := v.(*ssa.Call); isCall {
				if callee := callOf(c0).static; callee != nil && callee.Blocks != nil && inModule(funcPkgPath(callee)) {
					if _, isIface := c0.Type().Underlying().(*types.Interface); isIface {
						nilAt := ""
						eachInstr(callee, func(_ *ssa.BasicBlock, _ int, in2 ssa.Instruction) {
							if rt2, ok := in2.(*ssa.Return); ok && len(rt2.Results) >= 1 && isNilConst(rt2.Results[0]) {
								nilAt = P.ipos(in2)
							}
						})
						if nilAt != "" && !P.guardedNonNil(b, c0) {
							bad = append(bad, fmt.Sprintf("a present entry is returned as the result of %s, which can be a nil interface (%s): the entry is then reported as absent", fname(callee), nilAt))
						}
						return
					}
				}
			}
			var lk *ssa.Lookup
			commaOK := false
			switch x := v.(type) {
			case *ssa.Lookup:
				lk = x
			case *ssa.Extract:
				if l2, ok := x.Tuple.(*ssa.Lookup); ok && x.Index == 0 {
					lk, commaOK = l2, true
				}
			case *ssa.Call:
				// a helper of the provider that returns the entry: a typed nil / zero it can return is boxed
				// here into a non-nil `any` (a present value) unless this return is guarded by a length test of it
				if callee := callOf(x).static; callee != nil && callee.Blocks != nil && inModule(funcPkgPath(callee)) {
					if _, isIface := x.Type().Underlying().(*types.Interface); !isIface {
						zeroAt := ""
						eachInstr(callee, func(_ *ssa.BasicBlock, _ int, in2 ssa.Instruction) {
							if rt2, ok := in2.(*ssa.Return); ok && len(rt2.Results) == 1 {
								if c2, isC := cv(rt2.Results[0]).(*ssa.Const); isC && c2.Value == nil {
									zeroAt = P.ipos(in2)
								}
							}
						})
						if zeroAt != "" {
							guardedLen := false
							for _, gd := range guardsOf(b) {
								if bo, ok := gd.If.Cond.(*ssa.BinOp); ok {
									if lc, ok := bo.X.(*ssa.Call); ok && callOf(lc).builtin == "len" && lc.Call.Args[0] == v && lenPositive(bo, gd.True) {
										guardedLen = true
									}
								}
							}
							if !guardedLen {
								bad = append(bad, fmt.Sprintf("the %s returned by %s (nil for a missing key, %s) is boxed and returned at %s without a presence test: a missing key is reported as a present typed nil", typeStr(x.Type()), fname(callee), zeroAt, P.ipos(in)))
							}
						}
					}
				}
				return
			}
			if lk == nil {
				return
			}
			mt, ok := lk.X.Type().Underlying().(*types.Map)
			if !ok {
				return
			}
			_, isTP := types.Unalias(mt.Elem()).(*types.TypeParam)
			if types.IsInterface(mt.Elem()) && !isTP {
				return // a missing key of map[string]any is a nil interface: absent
			}
			guarded := false
			for _, gd := range guardsOf(b) {
				c := gd.If.Cond
				if commaOK {
					if ex, ok := c.(*ssa.Extract); ok && ex.Tuple == ssa.Value(lk) && ex.Index == 1 && gd.True {
						guarded = true
					}
				}
				// len(m[key]) > k
				if bo, ok := c.(*ssa.BinOp); ok {
					if lc, ok := bo.X.(*ssa.Call); ok && callOf(lc).builtin == "len" {
						// the length of the same entry: another lookup of it, its comma-ok value, or the returned value itself
						arg := lc.Call.Args[0]
						var l2 *ssa.Lookup
						switch y := arg.(type) {
						case *ssa.Lookup:
							l2 = y
						case *ssa.Extract:
							if l3, ok := y.Tuple.(*ssa.Lookup); ok && y.Index == 0 {
								l2 = l3
							}
						}
						if arg == v || (l2 != nil && sameValue(l2.X, lk.X) && sameValue(l2.Index, lk.Index)) {
							if lenPositive(bo, gd.True) {
								guarded = true
							}
						}
					}
				}
				// explicit `_, ok := m[key]; ok` on another lookup of the same entry
				if ex, ok := c.(*ssa.Extract); ok && gd.True && ex.Index == 1 {
					if l2, ok := ex.Tuple.(*ssa.Lookup); ok && sameValue(l2.X, lk.X) && sameValue(l2.Index, lk.Index) {
						guarded = true
					}
				}
			}
			if !guarded {
				bad = append(bad, fmt.Sprintf("the value of a plain map lookup of element type %s is boxed and returned at %s without a presence test: a missing key is reported as a present zero value", typeStr(mt.Elem()), P.ipos(in)))
			}
		})
		if len(bad) > 0 {
			r.bad(rule, fname(fn), P.pos(fn.Pos()), strings.Join(uniqSorted(bad), "; "))
		} else {
			r.ok(rule, fname(fn), P.pos(fn.Pos()), fmt.Sprintf("%d return(s); every map-sourced typed value is returned only for a present key", nRet))
		}
	}
}

// lenPositive: the comparison `len(x) <op> k`, taken with the given truth value, implies len(x) > 0
// (also the cases of a `switch len(x)` that were not taken: `len(x) == 0` false).
func lenPositive(bo *ssa.BinOp, truth bool) bool {
	k, ok := constInt(bo.Y)
	if !ok {
		return false
	}
	op := bo.Op
	if !truth {
		switch op {
		case token.EQL:
			op = token.NEQ
		case token.NEQ:
			op = token.EQL
		case token.LSS:
			op = token.GEQ
		case token.LEQ:
			op = token.GTR
		case token.GTR:
			op = token.LEQ
		case token.GEQ:
			op = token.LSS
		}
	}
	switch op {
	case token.GTR:
		return k >= 0
	case token.GEQ:
		return k >= 1
	case token.NEQ:
		return k == 0
	case token.EQL:
		return k >= 1
	}
	return false
}

// checkPresentAtProvider: a provider's Get reports a key as absent (returns a
// nil interface) only when the key is missing from its source. On the formula
// of Get (helpers entered): every path that returns nil carries a negated
// presence atom - the comma-ok of a lookup false, a zero length of the entry,
// reflect's IsValid / CanInterface false. A path that returns nil for any
// other reason (the value is zero, empty, of some kind) turns a present value
// into an absent one: Required then fails and Default replaces a value the
// caller supplied.
var presenceAtoms = []*regexp.Regexp{
	regexp.MustCompile(`^!.*\]#1$`),
	regexp.MustCompile(`^!.*\.FieldByName\(key\)#1$`),                      // the type has no field of that name
	regexp.MustCompile(`^\(\(reflect\.Value\)\.FieldByIndexErr\(.*#1 != nil\)$`), // the field lies behind a nil embedded pointer
	regexp.MustCompile(`^!\(reflect\.Value\)\.(IsValid|CanInterface)\(`),
	regexp.MustCompile(`^\(len\(.*\) (== 0|<= 0|< 1)\)$`),
	regexp.MustCompile(`^\(.* == nil\)$`),
}

func (P *Prog) checkPresentAtProvider(r *Result, rule string) {
	n := 0
	for _, fn := range P.Funcs {
		if fn.Name() != "Get" || fn.Parent() != nil || fn.Signature.Recv() == nil || !P.isProviderType(fn.Signature.Recv().Type()) || len(fn.Params) != 2 {
			continue
		}
		r.sawFunc(fname(fn))
		n++
		sh := P.predicateShapeNamed(fn, map[ssa.Value]string{fn.Params[0]: "recv", fn.Params[1]: "key"})
		if len(sh.problems) > 0 || len(sh.paths) == 0 {
			r.undecided(rule, fname(fn), P.pos(fn.Pos()), "Get has an unrecognised shape: "+strings.Join(sh.problems, "; "))
			continue
		}
		var bad, rows []string
		nNil := 0
		for _, p := range sh.paths {
			rows = append(rows, strings.Join(p.conds, " ∧ ")+" ⇒ "+p.ret)
			if p.ret != "nil" {
				continue
			}
			nNil++
			if len(p.conds) == 0 && len(sh.paths) == 1 {
				continue // the empty provider: nothing is ever present
			}
			has := false
			for _, c := range p.conds {
				// (an error result that is nil says the lookup went through, not that the value is missing)
				if strings.Contains(c, "Err(") && strings.HasSuffix(c, " == nil)") {
					continue
				}
				for _, re := range presenceAtoms {
					if re.MatchString(c) {
						has = true
					}
				}
			}
			if !has {
				bad = append(bad, "a value that is present in the source is reported as absent when "+strings.Join(p.conds, " ∧ "))
			}
		}
		if len(bad) > 0 {
			r.bad(rule, fname(fn), P.pos(fn.Pos()), strings.Join(uniqSorted(bad), "; "), rows...)
		} else {
			r.ok(rule, fname(fn), P.pos(fn.Pos()), fmt.Sprintf("%d path(s), %d return nil, each only when the key is missing from the source", len(sh.paths), nNil), rows...)
		}
	}
	r.floor(rule, 3)
}

// checkNilRecordAbsent: where a provider is built from a value (TryNewAnyDataProvider and the helpers it
// calls), a pointer is followed with Elem() only after IsNil() was tested false. Elem() of a nil pointer is
// the zero reflect.Value: its Kind is Invalid, so the "unsupported type" branch is taken - a typed nil record
// then yields one coerce issue at the struct node and none of the per-field required issues, instead of
// being an empty record.
func (P *Prog) checkNilRecordAbsent(r *Result, rule string) {
	n := 0
	seen := map[*ssa.Function]bool{}
	for _, mk := range P.providerMakers() {
		for _, u := range P.allUnits(mk) {
			fn := u.fn
			if seen[fn] || fn.Parent() != nil {
				continue
			}
			seen[fn] = true
			k := 0
			eachInstr(fn, func(b *ssa.BasicBlock, _ int, in ssa.Instruction) {
				c, ok := in.(*ssa.Call)
				if !ok {
					return
				}
				ci := callOf(c)
				if ci.static == nil || !isPkgFunc(ci.static, "reflect") || ci.static.Name() != "Elem" || !strings.Contains(typeStr(ci.static.Signature.Recv().Type()), "reflect.Value") {
					return
				}
				recv := c.Call.Args[0]
				n++
				k++
				cname := fmt.Sprintf("%s#Elem@%d", fname(fn), k)
				r.sawFunc(fname(fn))
				nilTested := P.guardedByCall(b, "IsNil", recv, false)
				if !nilTested {
					// the receiver may be a loop-carried value: the test on the value of this iteration
					if ph, isPhi := recv.(*ssa.Phi); isPhi {
						nilTested = P.guardedByCall(b, "IsNil", ph, false)
					}
				}
				if nilTested {
					r.ok(rule, cname, P.ipos(in), "pointer followed only after IsNil() was false")
				} else {
					r.bad(rule, cname, P.ipos(in), "a pointer in the input is followed with Elem() without an IsNil() test: a typed nil record becomes the zero reflect.Value and is reported as an unsupported type (one coerce issue, no per-field required issues) instead of being an empty record")
				}
			})
		}
	}
	r.floor(rule, 1)
	_ = n
}
