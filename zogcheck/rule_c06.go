package main

import (
	"fmt"
	"go/constant"
	"go/token"
	"go/types"
	"sort"
	"strings"

	"golang.org/x/tools/go/ssa"
)

func init() { register("C06", checkC06) }

// parseSet: functions reachable from the Parse entry points, the front ends
// and the data providers (Validate-only code is outside C06's statement).
func (P *Prog) parseSet(g *modCG) map[*ssa.Function]bool {
	var roots []*ssa.Function
	for _, e := range P.roles.EntryPoints {
		if e.Name() == "Parse" {
			roots = append(roots, e)
		}
	}
	for _, name := range []string{"zog/parsers/zjson.Decode", "zog/zhttp.Request", "zog/zhttp.form", "zog/zenv.NewDataProvider"} {
		if f := P.fn(name); f != nil {
			roots = append(roots, f)
		}
	}
	for _, fn := range P.Funcs {
		if fn.Signature.Recv() != nil && fn.Parent() == nil && P.isProviderType(fn.Signature.Recv().Type()) {
			roots = append(roots, fn)
		}
	}
	roots = append(roots, P.providerMakers()...)
	set := g.reachableFrom(roots)
	// validate twins are reachable through the shared interface-dispatch approximation
	// (invoke "process" resolves by name only to process methods, so nothing to prune) —
	// but drop functions that are only reachable from a `validate` method.
	for fn := range set {
		if P.roles.Dispatch[fn] == "validate" {
			delete(set, fn)
			for _, a := range fn.AnonFuncs {
				delete(set, a)
			}
		}
	}
	return set
}

// inputTainted: some root of v is input-owned memory (ctx.Data, provider
// contents, the data argument of Parse), resolving opaque parameters through
// their call sites.
func (P *Prog) inputTainted(g *modCG, fn *ssa.Function, v ssa.Value) (bool, string) {
	for _, rt := range P.rootsOf(v) {
		for _, cl := range P.resolveUnknownParam(g, P.classifyIn(fn, rt), 0, map[*ssa.Parameter]bool{}) {
			if cl.class == mcInput {
				return true, cl.rt.String()
			}
		}
	}
	return false, ""
}

// kindGuards: reflect Kinds the receiver rv is known to have at block b,
// from dominating `rv.Kind() == K` / `!= K` tests (also through a switch).
func (P *Prog) kindFacts(b *ssa.BasicBlock, rv ssa.Value) (is map[int64]bool, not map[int64]bool) {
	return P.kindFactsDepth(b, rv, 0)
}

func (P *Prog) kindFactsDepth(b *ssa.BasicBlock, rv ssa.Value, depth int) (is map[int64]bool, not map[int64]bool) {
	is, not = map[int64]bool{}, map[int64]bool{}
	// a parameter of an unexported helper: the facts that hold at every one of its call sites
	if p, isP := cv(rv).(*ssa.Parameter); isP && depth < 3 {
		fn := p.Parent()
		idx := -1
		for i, q := range fn.Params {
			if q == p {
				idx = i
			}
		}
		if idx >= 0 && fn.Parent() == nil && !isExportedAPI(fn) {
			n := 0
			escapes := false
			var accIs, accNot map[int64]bool
			for _, caller := range P.Funcs {
				eachInstr(caller, func(cb *ssa.BasicBlock, _ int, in ssa.Instruction) {
					ci := callOf(in)
					if ci == nil || ci.static != fn {
						var ops []*ssa.Value
						for _, op := range in.Operands(ops) {
							if f, ok := (*op).(*ssa.Function); ok && f == fn {
								escapes = true
							}
						}
						return
					}
					if idx >= len(ci.args()) {
						return
					}
					n++
					si, sn := P.kindFactsDepth(cb, ci.args()[idx], depth+1)
					if accIs == nil {
						accIs, accNot = si, sn
						return
					}
					for k := range accIs {
						if !si[k] {
							delete(accIs, k)
						}
					}
					for k := range accNot {
						if !sn[k] {
							delete(accNot, k)
						}
					}
				})
			}
			if n > 0 && !escapes {
				for k := range accIs {
					is[k] = true
				}
				for k := range accNot {
					not[k] = true
				}
			}
		}
	}
	// a loop-carried value (`for { v = v.Elem(); if v.Kind() != Pointer { return } }`): the facts that hold for
	// the incoming value on every edge into the phi (the guards that dominate the predecessor plus the branch
	// taken on that edge)
	if ph, isPhi := rv.(*ssa.Phi); isPhi && depth < 3 {
		var accIs, accNot map[int64]bool
		for i, e := range ph.Edges {
			pred := ph.Block().Preds[i]
			si, sn := P.kindFactsFrom(append(guardsOf(pred), edgeGuard(pred, ph.Block())...), e)
			pi, pn := map[int64]bool{}, map[int64]bool{}
			if _, isParam := cv(e).(*ssa.Parameter); isParam {
				pi, pn = P.kindFactsDepth(pred, e, depth+1)
			}
			for k := range pi {
				si[k] = true
			}
			for k := range pn {
				sn[k] = true
			}
			if accIs == nil {
				accIs, accNot = si, sn
				continue
			}
			for k := range accIs {
				if !si[k] {
					delete(accIs, k)
				}
			}
			for k := range accNot {
				if !sn[k] {
					delete(accNot, k)
				}
			}
		}
		for k := range accIs {
			is[k] = true
		}
		for k := range accNot {
			not[k] = true
		}
	}
	gi, gn := P.kindFactsFrom(guardsOf(b), rv)
	for k := range gi {
		is[k] = true
	}
	for k := range gn {
		not[k] = true
	}
	return
}

// edgeGuard: the branch condition taken on the edge pred -> succ, if pred ends in an If.
func edgeGuard(pred, succ *ssa.BasicBlock) []guard {
	iff := condOf(pred)
	if iff == nil || len(pred.Succs) != 2 || pred.Succs[0] == pred.Succs[1] {
		return nil
	}
	switch succ {
	case pred.Succs[0]:
		return []guard{{iff, true}}
	case pred.Succs[1]:
		return []guard{{iff, false}}
	}
	return nil
}

// kindFactsFrom: the reflect.Kind facts about rv that the given guards establish.
func (P *Prog) kindFactsFrom(guards []guard, rv ssa.Value) (is map[int64]bool, not map[int64]bool) {
	is, not = map[int64]bool{}, map[int64]bool{}
	for _, gd := range guards {
		bo, ok := gd.If.Cond.(*ssa.BinOp)
		if !ok || (bo.Op != token.EQL && bo.Op != token.NEQ) {
			continue
		}
		var kc *ssa.Call
		var other ssa.Value
		if c, ok := bo.X.(*ssa.Call); ok {
			kc, other = c, bo.Y
		} else if c, ok := bo.Y.(*ssa.Call); ok {
			kc, other = c, bo.X
		}
		if kc == nil {
			continue
		}
		ci := callOf(kc)
		if ci.static == nil || ci.static.Name() != "Kind" || !isPkgFunc(ci.static, "reflect") {
			continue
		}
		if !sameReflectValue(kc.Call.Args[0], rv) {
			continue
		}
		k, ok := constInt(other)
		if !ok {
			continue
		}
		eq := (bo.Op == token.EQL) == gd.True
		if eq {
			is[k] = true
		} else {
			not[k] = true
		}
	}
	return
}

// sameReflectValue: two reflect.Value expressions denote the same value
// (identical SSA value, or the same pure derivation from the same base).
func sameReflectValue(a, b ssa.Value) bool {
	a, b = cv(a), cv(b)
	if a == b {
		return true
	}
	ca, ok1 := a.(*ssa.Call)
	cb, ok2 := b.(*ssa.Call)
	if ok1 && ok2 {
		ia, ib := callOf(ca), callOf(cb)
		if ia.static != nil && ia.static == ib.static && isPkgFunc(ia.static, "reflect") && len(ca.Call.Args) == len(cb.Call.Args) {
			switch ia.static.Name() {
			case "Elem", "ValueOf", "Type", "Field", "Index", "FieldByName":
				for i := range ca.Call.Args {
					if !sameReflectValue(ca.Call.Args[i], cb.Call.Args[i]) && !sameValue(ca.Call.Args[i], cb.Call.Args[i]) {
						return false
					}
				}
				return true
			}
		}
	}
	return sameValue(a, b)
}

// reflect.Kind numeric values
const (
	rkArray     = 17
	rkChan      = 18
	rkFunc      = 19
	rkInterface = 20
	rkMap       = 21
	rkPointer   = 22
	rkSlice     = 23
	rkString    = 24
	rkStruct    = 25
	rkUnsafePtr = 26
)

// kinds for which a reflect.Value / reflect.Type method does not panic
var reflectKindReq = map[string][]int64{
	"Elem":            {rkPointer, rkInterface},
	"Len":             {rkSlice, rkArray, rkString, rkMap, rkChan},
	"Index":           {rkSlice, rkArray, rkString},
	"IsNil":           {rkChan, rkFunc, rkInterface, rkMap, rkPointer, rkSlice, rkUnsafePtr},
	"Field":           {rkStruct},
	"FieldByName":     {rkStruct},
	"FieldByIndex":    {rkStruct},
	"FieldByIndexErr": {rkStruct},
	"NumField":        {rkStruct},
	"MapIndex":        {rkMap},
	"MapKeys":         {rkMap},
	"MapRange":        {rkMap},
	"Convert":         {-1},                                         // needs CanConvert(target)
	"Addr":            {-2},                                         // needs CanAddr()
	"Key":             {rkMap},                                      // reflect.Type.Key
	"TypeElem":        {rkArray, rkChan, rkMap, rkPointer, rkSlice}, // reflect.Type.Elem
}

type panicSite struct {
	kind    string
	in      ssa.Instruction
	operand ssa.Value
	what    string
}

func (P *Prog) panicSites(fn *ssa.Function) []panicSite {
	var out []panicSite
	eachInstr(fn, func(b *ssa.BasicBlock, _ int, in ssa.Instruction) {
		switch x := in.(type) {
		case *ssa.TypeAssert:
			if !x.CommaOk {
				out = append(out, panicSite{"typeassert", in, x.X, "x.(" + typeStr(x.AssertedType) + ")"})
			}
		case *ssa.Panic:
			out = append(out, panicSite{"panic", in, x.X, "explicit panic"})
		case *ssa.IndexAddr:
			if _, isConst := x.Index.(*ssa.Const); isConst {
				if pt, ok := x.X.Type().Underlying().(*types.Pointer); ok {
					if _, isArr := pt.Elem().Underlying().(*types.Array); isArr {
						return // constant index into an array: checked by the compiler
					}
				}
			}
			out = append(out, panicSite{"index", in, x.X, "x[i]"})
		case *ssa.Index:
			out = append(out, panicSite{"index", in, x.X, "x[i]"})
		case *ssa.Lookup:
			if mt, isMap := x.X.Type().Underlying().(*types.Map); !isMap {
				out = append(out, panicSite{"index", in, x.X, "s[i]"})
			} else if types.IsInterface(mt.Key()) {
				out = append(out, panicSite{"mapkey", in, x.Index, "m[k] with an interface-typed key"})
			}
		case *ssa.Slice:
			if x.Low == nil && x.High == nil && x.Max == nil {
				return
			}
			out = append(out, panicSite{"slice", in, x.X, "x[lo:hi]"})
		case *ssa.MapUpdate:
			out = append(out, panicSite{"mapupdate", in, x.Map, "m[k] = v"})
			if mt, ok := x.Map.Type().Underlying().(*types.Map); ok && types.IsInterface(mt.Key()) {
				out = append(out, panicSite{"mapkey", in, x.Key, "m[k] = v with an interface-typed key"})
			}
		case *ssa.BinOp:
			// == on two interface values panics when both hold the same type and that type has a part that cannot be
			// compared (a struct with an `any` field holding a slice): "comparing uncomparable type"
			if (x.Op == token.EQL || x.Op == token.NEQ) && types.IsInterface(x.X.Type()) && types.IsInterface(x.Y.Type()) && !isNilConst(x.X) && !isNilConst(x.Y) {
				if _, isErr := x.X.Type().Underlying().(*types.Interface); isErr && !types.Identical(x.X.Type(), types.Universe.Lookup("error").Type()) {
					out = append(out, panicSite{"ifacecmp", in, x.X, "a == b on interface values"})
				}
			}
			if x.Op == token.QUO || x.Op == token.REM {
				if b, ok := x.X.Type().Underlying().(*types.Basic); ok && b.Info()&types.IsInteger != 0 {
					out = append(out, panicSite{"divide", in, x.Y, "integer division"})
				}
			}
		default:
			ci := callOf(in)
			if ci == nil {
				return
			}
			if _, isDefer := in.(*ssa.Defer); isDefer && ci.invoke == nil {
				return
			}
			switch {
			case ci.invoke != nil:
				out = append(out, panicSite{"invoke", in, ci.instr.Common().Value, "method call on interface value (" + ci.invoke.Name() + ")"})
			case ci.dynamic:
				out = append(out, panicSite{"funcvalue", in, ci.instr.Common().Value, "call of a func value"})
			case ci.static != nil && isPkgFunc(ci.static, "reflect") && ci.static.Signature.Recv() != nil:
				name := ci.static.Name()
				recvT := typeStr(ci.static.Signature.Recv().Type())
				if strings.Contains(recvT, "reflect.Value") {
					if name == "Interface" {
						out = append(out, panicSite{"reflect.Interface", in, ci.args()[0], "rv.Interface()"})
					} else if _, ok := reflectKindReq[name]; ok {
						out = append(out, panicSite{"reflect." + name, in, ci.args()[0], "rv." + name + "()"})
					} else if _, isW := reflectWriters[name]; isW {
						out = append(out, panicSite{"reflect.write", in, ci.args()[0], "rv." + name + "(..)"})
					}
				}
			case ci.static != nil && ci.static.Signature.Recv() != nil && ci.static.Pkg == nil:
				// methods of reflect.Type are interface invokes (handled above)
			}
		}
	})
	return out
}

func checkC06(P *Prog, r *Result) {
	R := P.roles
	r.Explanation = "Decides that no input data can make Parse panic, structurally: every may-panic instruction (unchecked type assertion, interface method call, call of a func value, index/slice " +
		"expression, reflect.Value kind-dependent method, reflect.Value.Interface, nil-map update, integer division, explicit panic) in every function reachable from a Parse entry point, a front end " +
		"or a data provider is enumerated and its operands classified by address-root analysis. A site whose operands are only schema/destination configuration is a misconfiguration panic " +
		"(documented as such) unless it belongs to the 'valid configuration must not panic' class (a fixed-size buffer indexed by a computed length). A site with an input-owned operand " +
		"must be discharged by a recognised dominating guard (comma-ok, reflect.Kind test admitting the method, CanInterface, len comparison, nil test) or by a checked provenance fact " +
		"(coercers run only on non-absent data; StructDataProvider is only built from struct values; the default slice coercer returns a slice). Panics inside the standard library other than " +
		"the modelled reflect methods, user callbacks and stack exhaustion on cyclic input are not decided."
	r.Assumptions = []string{
		"schema and destination match each other (ctx.ValPtr.(*T), coercer result type, struct field names): mismatches are configuration errors that the documentation says panic",
		"a custom coercer returns a value of the destination type; the default coercers are paired with their constructors (C03/default-coercer)",
	}
	g := P.buildModCG()
	S := P.parseSet(g)
	fns := sortedFuncs(S)
	// provenance facts
	coercersNonNil, whyC := P.coercersRunOnPresentDataOnly()
	r.info("coercer precondition: %s", whyC)
	structProvOK, whyS := P.structProviderBuiltFromStructs()
	r.info("StructDataProvider invariant: %s", whyS)
	sliceCoercerOK, whySl := P.sliceCoercerReturnsSlice()
	r.info("slice coercer contract: %s", whySl)

	counts := map[string]int{}
	cnt := map[string]int{}
	for _, fn := range fns {
		r.sawFunc(fname(fn))
		for _, s := range P.panicSites(fn) {
			counts[s.kind]++
			tainted, via := P.inputTainted(g, fn, s.operand)
			key := fmt.Sprintf("%s#%s", fname(fn), s.kind)
			cnt[key]++
			c := fmt.Sprintf("%s@%d", key, cnt[key])
			pos := P.ipos(s.in)
			b := s.in.Block()
			// code behind a hook nobody installs does not run: the block is reached only when a package variable
			// that nothing reachable from the public API ever writes is non-nil
			if P.deadBehindUnsetHook(b) || P.onlyCalledBehindUnsetHook(fn) {
				r.ok("C06/panic-site", c, pos, "only reached when a package-level hook that nothing ever sets is non-nil: dead unless the library is patched")
				continue
			}
			switch s.kind {
			case "typeassert":
				ta := s.in.(*ssa.TypeAssert)
				if ex, ok := cv(ta.X).(*ssa.Extract); ok {
					if call, ok := ex.Tuple.(*ssa.Call); ok && callOf(call).dynamic && P.roleOf(call.Call.Value) == "coercer" {
						r.ok("C06/panic-site", c, pos, "coercer contract: the coercer returns the destination type (configuration)")
						continue
					}
				}
				// the operand is a helper's parameter that receives a coercer's result at every call site
				if prm, isP := cv(ta.X).(*ssa.Parameter); isP && !isExportedAPI(prm.Parent()) {
					idx := -1
					for i, q := range prm.Parent().Params {
						if q == prm {
							idx = i
						}
					}
					n, all := 0, true
					for _, caller := range P.Funcs {
						eachInstr(caller, func(_ *ssa.BasicBlock, _ int, in2 ssa.Instruction) {
							if ci2 := callOf(in2); ci2 != nil && ci2.static == prm.Parent() && idx >= 0 && idx < len(ci2.args()) {
								n++
								okSite := false
								if ex, ok := cv(ci2.args()[idx]).(*ssa.Extract); ok {
									if call, ok := ex.Tuple.(*ssa.Call); ok && callOf(call).dynamic && P.roleOf(call.Call.Value) == "coercer" {
										okSite = true
									}
								}
								if !okSite {
									all = false
								}
							}
						})
					}
					if n > 0 && all {
						r.ok("C06/panic-site", c, pos, "coercer contract: the helper is only handed a coercer's result (configuration)")
						continue
					}
				}
				if !tainted {
					r.ok("C06/panic-site", c, pos, "operand is schema/destination configuration: a mismatch is a documented misconfiguration panic")
					continue
				}
				r.bad("C06/panic-site", c, pos, fmt.Sprintf("unchecked type assertion %s on a value derived from input data [%s]: a value of the same kind but a different (e.g. named) type panics with 'interface conversion'", s.what, via))
			case "reflect.Interface":
				// receiver derived from a struct field selection of input data needs CanInterface
				if sel := P.viaFieldSelection(s.operand); sel != nil {
					selTainted, _ := P.inputTainted(g, fn, s.operand)
					if !selTainted && sel.Parent() != fn {
						// the selection is made in a helper: what it selects from decides
						selTainted, _ = P.inputTainted(g, sel.Parent(), sel.Call.Args[0])
					}
					if selTainted {
						if P.guardedByCall(b, "CanInterface", s.operand, true) || P.guardedByCall(b, "IsExported", nil, true) || P.helperVouchesCanInterface(b, s.operand) {
							r.ok("C06/panic-site", c, pos, "Interface() on a struct field of input data is guarded by CanInterface()")
						} else {
							r.bad("C06/panic-site", c, pos, "reflect.Value.Interface() is called on a field selected from an input struct without CanInterface(): an unexported field whose name matches a schema key panics ('cannot return value obtained from unexported field')")
						}
						continue
					}
				}
				// Interface() panics on the zero Value: an input-derived receiver must be valid
				if tainted && !P.onlyFromCallbackResults(s.operand, 0) {
					if why := P.mayBeZeroValue(b, s.operand, map[ssa.Value]bool{}, 0); why != "" {
						r.bad("C06/panic-site", c, pos, "reflect.Value.Interface() on a value derived from input data that may be the zero Value ("+why+"): 'call of reflect.Value.Interface on zero Value'")
						continue
					}
				}
				r.ok("C06/panic-site", c, pos, "Interface() on a valid value not obtained through an (unexported) struct field of input data")
			case "reflect.write":
				if tainted {
					r.bad("C06/panic-site", c, pos, "reflect write through a value derived from input data")
				} else {
					r.ok("C06/panic-site", c, pos, "reflect write to the destination (configuration: type mismatch is a misconfiguration)")
				}
			case "invoke":
				P.decideInvoke(r, g, fn, s, c, pos, coercersNonNil)
			case "funcvalue":
				P.decideFuncValue(r, g, fn, s, c, pos, tainted, via)
			case "index", "slice":
				P.decideIndex(r, g, fn, s, c, pos, tainted, via)
			case "mapupdate":
				if P.mapNonNil(fn, s.operand, b) {
					r.ok("C06/panic-site", c, pos, "map is created on every path before the update")
				} else if tainted {
					r.bad("C06/panic-site", c, pos, "update of a map derived from input data that may be nil")
				} else {
					r.ok("C06/panic-site", c, pos, "map is library/schema-owned")
				}
			case "mapkey":
				// hashing an interface panics when its dynamic type is not comparable (a slice, a map, a struct
				// holding one): `seen[item] = struct{}{}` on values that came out of a JSON document
				switch k := cvi(s.operand).(type) {
				case *ssa.Const:
					r.ok("C06/panic-site", c, pos, "constant key")
				default:
					kt := k.Type()
					if !types.IsInterface(kt) && types.Comparable(kt) {
						r.ok("C06/panic-site", c, pos, "the key is boxed from the comparable type "+typeStr(kt))
					} else if tainted {
						r.bad("C06/panic-site", c, pos, "a value derived from input data ["+via+"] is used as the key of a map with an interface-typed key: a JSON object or array in that position makes the runtime panic (hash of unhashable type)")
					} else if c2, isCall := k.(*ssa.Call); isCall && callOf(c2).static != nil && isPkgFunc(callOf(c2).static, "reflect") && callOf(c2).static.Name() == "Interface" {
						// a value read out of the destination by reflection (an element of the slice under test): in Parse it
						// is whatever the input held at that position
						r.bad("C06/panic-site", c, pos, "a value read with reflect's Interface() (an element or field of the value under test, i.e. of the parsed input) is used as the key of a map with an interface-typed key: an element holding a JSON object or array makes the runtime panic (hash of unhashable type)")
					} else {
						r.ok("C06/panic-site", c, pos, "the key is configuration, not input")
					}
				}
			case "ifacecmp":
				bo := s.in.(*ssa.BinOp)
				safe := func(v ssa.Value) bool {
					switch y := cvi(v).(type) {
					case *ssa.Const:
						return true
					case *ssa.MakeInterface:
						return cmpNeverPanics(y.X.Type())
					}
					return false
				}
				fromReflect := func(v ssa.Value) bool {
					c2, isCall := cvi(v).(*ssa.Call)
					return isCall && callOf(c2).static != nil && isPkgFunc(callOf(c2).static, "reflect") && callOf(c2).static.Name() == "Interface"
				}
				tX, viaX := P.inputTainted(g, fn, bo.X)
				tY, viaY := P.inputTainted(g, fn, bo.Y)
				switch {
				case safe(bo.X) || safe(bo.Y):
					r.ok("C06/panic-site", c, pos, "one side is boxed from a type whose comparison cannot panic: a differing dynamic type compares unequal")
				case tX || tY || fromReflect(bo.X) || fromReflect(bo.Y):
					r.bad("C06/panic-site", c, pos, "== on two interface values one of which is (read out of) input data ["+viaX+viaY+"]: when both hold the same type with an uncomparable part (a struct with an `any` field holding a slice or map, as a JSON document produces) the runtime panics with 'comparing uncomparable type' - reflect.Type.Comparable() does not rule that out")
				default:
					r.ok("C06/panic-site", c, pos, "neither side is input data")
				}
			case "divide":
				if _, isC := s.operand.(*ssa.Const); isC {
					r.ok("C06/panic-site", c, pos, "constant divisor")
				} else if tainted {
					r.bad("C06/panic-site", c, pos, "integer division by a value derived from input data")
				} else {
					r.ok("C06/panic-site", c, pos, "divisor is configuration")
				}
			case "panic":
				// control-dependent only on configuration
				// A guard computed from input data is tolerated only when it is an exit gate (its other
				// side goes straight to a return: it decides whether the node continues at all, e.g.
				// `if !ok { return }` after a failed decode) and is not the panic's own (innermost) condition.
				badG := ""
				for gi, gd := range guardsOf(b) {
					if t, via2 := P.inputTainted(g, fn, gd.If.Cond); t {
						if gi > 0 && isExitGate(gd) {
							continue
						}
						badG = via2
					}
				}
				if badG != "" {
					r.bad("C06/panic-site", c, pos, "an explicit panic is reachable under a condition computed from input data ["+badG+"]")
				} else {
					r.ok("C06/panic-site", c, pos, "explicit panic depends only on schema/destination configuration (documented misconfiguration)")
				}
			default:
				if strings.HasPrefix(s.kind, "reflect.") {
					m := strings.TrimPrefix(s.kind, "reflect.")
					if !tainted {
						r.ok("C06/panic-site", c, pos, "reflect."+m+" on the destination / schema value (configuration)")
						continue
					}
					if m == "Convert" {
						if P.guardedByCall(b, "CanConvert", s.operand, true) || P.typeEqualityGuard(b, s.operand) {
							r.ok("C06/panic-site", c, pos, "Convert is guarded by CanConvert (or a type identity test)")
						} else {
							r.bad("C06/panic-site", c, pos, fmt.Sprintf("reflect.Value.Convert on a value derived from input data [%s] without CanConvert: equal kinds do not imply convertibility (a map with a named key or element type panics)", via))
						}
						continue
					}
					if m == "Addr" {
						if P.guardedByCall(b, "CanAddr", s.operand, true) {
							r.ok("C06/panic-site", c, pos, "Addr is guarded by CanAddr")
						} else {
							r.bad("C06/panic-site", c, pos, "reflect.Value.Addr on a value derived from input data without CanAddr")
						}
						continue
					}
					// FieldByName / FieldByIndex walk through embedded pointers and panic on a nil one ("indirection
					// through nil pointer to embedded struct"): a struct given as input may embed a nil pointer. The
					// Err variants report it instead.
					if (m == "FieldByName" || m == "FieldByIndex" || m == "FieldByNameFunc") && tainted {
						r.bad("C06/panic-site", c, pos, fmt.Sprintf("reflect.Value.%s on a struct that is input data [%s]: a field promoted from an embedded pointer that is nil makes it panic (reflect: indirection through nil pointer to embedded struct); Type().FieldByName + FieldByIndexErr reports it as missing", m, via))
						continue
					}
					is, _ := P.kindFacts(b, s.operand)
					okKind := false
					for _, k := range reflectKindReq[m] {
						if is[k] {
							okKind = true
						}
					}
					switch {
					case okKind:
						r.ok("C06/panic-site", c, pos, "dominating reflect.Kind test admits "+m)
					case structProvOK && P.isStructProviderValue(s.operand) && (m == "FieldByName" || m == "Field" || m == "NumField" || m == "FieldByIndexErr"):
						r.ok("C06/panic-site", c, pos, "StructDataProvider.value is a struct by construction: "+whyS)
					case sliceCoercerOK && coercersNonNil && P.isCoercedValue(s.operand) && (m == "Len" || m == "Index"):
						r.ok("C06/panic-site", c, pos, "value produced by the slice coercer (or the schema's Default): "+whySl)
					case P.loopKindGuard(b, s.operand, reflectKindReq[m]):
						r.ok("C06/panic-site", c, pos, "loop condition tests the Kind that admits "+m)
					default:
						r.bad("C06/panic-site", c, pos, fmt.Sprintf("reflect.Value.%s on a value derived from input data [%s] without a dominating Kind test that admits it: an input of another kind panics", m, via))
					}
				}
			}
		}
	}
	// nil provider (shared with C15)
	P.checkProviderNonNil(r, "C06/nil-provider")
	// the two assumptions the site rule relies on, as obligations of their own
	P.checkCoercerResultTypes(r, "C06/coercer-contract")
	P.checkPooledSliceHeader(r, "C06/pooled-slice-capacity")
	r.Extra["sites_by_kind"] = counts
	total := 0
	for _, v := range counts {
		total += v
	}
	r.Extra["sites_total"] = total
	r.floor("C06/panic-site", 60)
	if !coercersNonNil {
		r.bad("C06/precondition", "coercers-run-on-present-data", "-", whyC)
	} else {
		r.ok("C06/precondition", "coercers-run-on-present-data", "-", whyC)
	}
	if structProvOK {
		r.ok("C06/precondition", "struct-provider-built-from-structs", "-", whyS)
	} else {
		r.bad("C06/precondition", "struct-provider-built-from-structs", "-", whyS)
	}
	if sliceCoercerOK {
		r.ok("C06/precondition", "slice-coercer-returns-slice", "-", whySl)
	} else {
		r.bad("C06/precondition", "slice-coercer-returns-slice", "-", whySl)
	}
	_ = R
}

// viaFieldSelection: rv is derived (through Elem/Index/Addr) from a
// Field/FieldByName/FieldByIndex call; returns that call.
func (P *Prog) viaFieldSelection(rv ssa.Value) *ssa.Call {
	return P.viaFieldSelection1(rv, map[ssa.Value]bool{})
}

func (P *Prog) viaFieldSelection1(rv ssa.Value, seen map[ssa.Value]bool) *ssa.Call {
	v := cv(rv)
	if seen[v] {
		return nil
	}
	seen[v] = true
	for d := 0; d < 10; d++ {
		idx := 0
		if ex, isEx := v.(*ssa.Extract); isEx {
			// `field, err := rv.FieldByIndexErr(...)`, or the first result of a helper
			idx = ex.Index
			v = ex.Tuple
		}
		c, ok := v.(*ssa.Call)
		if ok {
			// a module helper that returns the selected field (`s.fieldByName(key)`)
			if callee := callOf(c).static; callee != nil && callee.Blocks != nil && inModule(funcPkgPath(callee)) {
				var found *ssa.Call
				eachInstr(callee, func(_ *ssa.BasicBlock, _ int, in ssa.Instruction) {
					if rt, isRet := in.(*ssa.Return); isRet && idx < len(rt.Results) && found == nil {
						if rvs, okRV := retVals(rt); okRV {
							found = P.viaFieldSelection1(rvs[idx], seen)
						} else {
							found = P.viaFieldSelection1(rt.Results[idx], seen)
						}
					}
				})
				return found
			}
		}
		if !ok {
			if ph, ok := v.(*ssa.Phi); ok {
				for _, e := range ph.Edges {
					if s := P.viaFieldSelection1(e, seen); s != nil {
						return s
					}
				}
			}
			return nil
		}
		ci := callOf(c)
		if ci.static == nil || !isPkgFunc(ci.static, "reflect") {
			return nil
		}
		switch ci.static.Name() {
		case "Field", "FieldByName", "FieldByIndex", "FieldByNameFunc", "FieldByIndexErr":
			return c
		case "Elem", "Index", "Addr", "Indirect":
			v = cv(c.Call.Args[0])
		default:
			return nil
		}
	}
	return nil
}

// guardedByCall: block b is dominated by `recv.<name>()` (or any call named
// name when recv is nil) having the given truth value.
// onlyFromCallbackResults: every root of v is the result of a user callback (directly, or as the actual
// argument at every call site of the helper v is a parameter of). What a user function returns (a Preprocess
// function's output is documented as "never a pointer") is the user's contract, not input data.
func (P *Prog) onlyFromCallbackResults(v ssa.Value, depth int) bool {
	if depth > 3 {
		return false
	}
	switch x := cvi(v).(type) {
	case *ssa.Extract:
		return P.onlyFromCallbackResults(x.Tuple, depth)
	case *ssa.Call:
		ci := callOf(x)
		if ci.dynamic {
			return true
		}
		// reflect derivations of such a value
		if ci.static != nil && isPkgFunc(ci.static, "reflect") && reflectAlias[ci.static.Name()] && len(x.Call.Args) > 0 {
			return P.onlyFromCallbackResults(x.Call.Args[0], depth)
		}
		// a module helper that hands the callback's result on (`out, ok := s.apply(in, ctx)`)
		if ci.static != nil && ci.static.Blocks != nil && inModule(funcPkgPath(ci.static)) {
			idx := 0
			if ex, isEx := cvi(v).(*ssa.Extract); isEx {
				idx = ex.Index
			}
			n, all := 0, true
			eachInstr(ci.static, func(_ *ssa.BasicBlock, _ int, in ssa.Instruction) {
				if rt, ok := in.(*ssa.Return); ok && idx < len(rt.Results) {
					rvs, okRV := retVals(rt)
					if !okRV {
						return
					}
					n++
					if !P.onlyFromCallbackResults(rvs[idx], depth+1) {
						all = false
					}
				}
			})
			return n > 0 && all
		}
		return false
	case *ssa.Phi:
		for _, e := range x.Edges {
			if e != ssa.Value(x) && !P.phiCycleEdge(x, e) && !P.onlyFromCallbackResults(e, depth+1) {
				return false
			}
		}
		return true
	case *ssa.Parameter:
		idx := -1
		for i, q := range x.Parent().Params {
			if q == x {
				idx = i
			}
		}
		n, all := 0, true
		for _, caller := range P.Funcs {
			eachInstr(caller, func(_ *ssa.BasicBlock, _ int, in ssa.Instruction) {
				if ci := callOf(in); ci != nil && ci.static == x.Parent() && idx >= 0 && idx < len(ci.args()) {
					n++
					if !P.onlyFromCallbackResults(ci.args()[idx], depth+1) {
						all = false
					}
				}
			})
		}
		return n > 0 && all
	}
	return false
}

// phiCycleEdge: the edge value is derived (by reflect steps) from the phi itself: a loop-carried value.
func (P *Prog) phiCycleEdge(ph *ssa.Phi, e ssa.Value) bool {
	for d := 0; d < 4; d++ {
		c, ok := cv(e).(*ssa.Call)
		if !ok || len(c.Call.Args) == 0 {
			return false
		}
		if cv(c.Call.Args[0]) == ssa.Value(ph) {
			return true
		}
		e = c.Call.Args[0]
	}
	return false
}

// mayBeZeroValue: why the reflect.Value rv, used in block b, may be the zero (invalid) Value; "" if it
// cannot: it is guarded by IsValid() or a Kind fact, or is derived by validity-preserving steps from a
// value that cannot (ValueOf of a non-nil interface, Elem of a pointer tested !IsNil, Index/Field/Addr ...).
func (P *Prog) mayBeZeroValue(b *ssa.BasicBlock, rv ssa.Value, seen map[ssa.Value]bool, depth int) string {
	if depth > 8 {
		return "derivation too deep"
	}
	if seen[rv] {
		return ""
	}
	seen[rv] = true
	if P.guardedByCall(b, "IsValid", rv, true) {
		return ""
	}
	if is, _ := P.kindFacts(b, rv); len(is) > 0 {
		for k := range is {
			if k != 0 { // Kind() == <something other than Invalid>
				return ""
			}
		}
	}
	switch x := cv(rv).(type) {
	case *ssa.Phi:
		for i, e := range x.Edges {
			pb := x.Block().Preds[i]
			if why := P.mayBeZeroValue(pb, e, seen, depth+1); why != "" {
				return why
			}
		}
		return ""
	case *ssa.Parameter:
		if P.paramValidAtCallSites(x, 0) {
			return ""
		}
		return "parameter " + x.Name() + " is not known to be valid at every call site"
	case *ssa.Call:
		ci := callOf(x)
		if ci.static == nil || !isPkgFunc(ci.static, "reflect") || len(x.Call.Args) == 0 {
			return ""
		}
		recv := x.Call.Args[0]
		switch ci.static.Name() {
		case "ValueOf":
			if P.guardedNonNil(b, recv) || P.guardedNonNil(x.Block(), recv) {
				return ""
			}
			if P.isCoercedValue(x) {
				return "" // a coercer's result on the err == nil path (C06/precondition: coercers return non-nil values)
			}
			// the result of a user callback (a Preprocess function's output, documented as never a pointer) is
			// the user's contract, not input data
			fromCallback := func(v ssa.Value) bool {
				for _, rt := range P.rootsOf(v) {
					if c, isCall := rt.v.(*ssa.Call); isCall && rt.kind == rkOpaque && callOf(c).dynamic {
						return true
					}
				}
				return false
			}
			if fromCallback(recv) {
				return ""
			}
			if prm, isP := cv(recv).(*ssa.Parameter); isP {
				// a helper's parameter: the same at every call site of the helper
				idx := -1
				for i, q := range prm.Parent().Params {
					if q == prm {
						idx = i
					}
				}
				n, all := 0, true
				for _, caller := range P.Funcs {
					eachInstr(caller, func(cb *ssa.BasicBlock, _ int, in ssa.Instruction) {
						if ci2 := callOf(in); ci2 != nil && ci2.static == prm.Parent() && idx >= 0 && idx < len(ci2.args()) {
							n++
							a := ci2.args()[idx]
							if !fromCallback(a) && !P.guardedNonNil(cb, a) {
								all = false
							}
						}
					})
				}
				if n > 0 && all {
					return ""
				}
			}
			if p, ok := cv(recv).(*ssa.Parameter); ok && P.isCoercerFunc(p.Parent()) {
				return "" // coercers run on non-nil data (C06/precondition)
			}
			if _, isMI := cv(recv).(*ssa.MakeInterface); isMI {
				return ""
			}
			// validity is then decided where a Kind fact is required; without one, a nil interface gives the zero Value
			if is, _ := P.kindFacts(b, x); len(is) > 0 {
				return ""
			}
			return "reflect.ValueOf of a possibly nil interface"
		case "Elem", "Indirect":
			if P.guardedByCall(x.Block(), "IsNil", recv, false) || P.guardedByCall(b, "IsNil", recv, false) {
				return P.mayBeZeroValue(x.Block(), recv, seen, depth+1)
			}
			return "Elem() of a pointer or interface that was not tested with IsNil()"
		case "FieldByName", "FieldByNameFunc", "MapIndex", "MethodByName":
			return ci.static.Name() + "() result used without IsValid()"
		case "Index", "Field", "FieldByIndex", "Addr", "Convert", "Slice", "Slice3":
			return P.mayBeZeroValue(x.Block(), recv, seen, depth+1)
		}
	}
	return ""
}

func (P *Prog) guardedByCall(b *ssa.BasicBlock, name string, recv ssa.Value, truth bool) bool {
	for _, gd := range guardsOf(b) {
		c := gd.If.Cond
		pol := gd.True
		if u, ok := c.(*ssa.UnOp); ok && u.Op == token.NOT {
			c, pol = u.X, !pol
		}
		call, ok := c.(*ssa.Call)
		if !ok {
			continue
		}
		ci := callOf(call)
		if ci.static == nil || ci.static.Name() != name || pol != truth {
			continue
		}
		if recv == nil || sameReflectValue(call.Call.Args[0], recv) {
			return true
		}
	}
	return false
}

func (P *Prog) isStructProviderValue(rv ssa.Value) bool {
	_, f := loadOfField(cv(rv))
	if f == nil {
		return false
	}
	owner := P.fieldOwner(f)
	return owner != nil && owner.Obj().Name() == "StructDataProvider" && P.roleName(f) == "value"
}

// isCoercedValue: rv = reflect.ValueOf(<result #0 of a coercer-role call>) or
// reflect.ValueOf(<schema default>), possibly merged by a phi.
func (P *Prog) isCoercedValue(rv ssa.Value) bool {
	v := cv(rv)
	if ph, ok := v.(*ssa.Phi); ok {
		for _, e := range ph.Edges {
			if !P.isCoercedValue(e) {
				return false
			}
		}
		return true
	}
	// the result of a module helper (`refVal, ok := v.sourceSlice(ctx)`): every return that does not signal
	// failure (a constant false among its results) hands back a coerced value
	if ex, isEx := v.(*ssa.Extract); isEx {
		if hc, isCall := ex.Tuple.(*ssa.Call); isCall {
			if callee := callOf(hc).static; callee != nil && callee.Blocks != nil && inModule(funcPkgPath(callee)) {
				n, all := 0, true
				eachInstr(callee, func(_ *ssa.BasicBlock, _ int, in ssa.Instruction) {
					rt, ok := in.(*ssa.Return)
					if !ok || ex.Index >= len(rt.Results) {
						return
					}
					rvs, okRV := retVals(rt)
					if !okRV {
						return
					}
					for j, o := range rvs {
						if j != ex.Index {
							if b, isB := constBool(o); isB && !b {
								return // failure return
							}
						}
					}
					n++
					if !P.isCoercedValue(rvs[ex.Index]) {
						all = false
					}
				})
				return n > 0 && all
			}
		}
	}
	c, ok := v.(*ssa.Call)
	if !ok {
		return false
	}
	ci := callOf(c)
	// a deep clone of such a value is a value of the same kind
	if isDeepCloneFn(ci.static) && len(c.Call.Args) == 1 {
		return P.isCoercedValue(c.Call.Args[0])
	}
	if ci.static == nil || ci.static.Name() != "ValueOf" || !isPkgFunc(ci.static, "reflect") {
		return false
	}
	a := cv(c.Call.Args[0])
	if ex, ok := a.(*ssa.Extract); ok && ex.Index == 0 {
		if call, ok := ex.Tuple.(*ssa.Call); ok && callOf(call).dynamic && P.roleOf(call.Call.Value) == "coercer" {
			return true
		}
	}
	if P.roleOf(a) == "defaultVal" {
		return true
	}
	return false
}

// loopKindGuard: b is in a loop whose header condition is rv.Kind() == K for an
// admitted K (for rv.Kind() == Ptr { rv = rv.Elem() }).
func (P *Prog) loopKindGuard(b *ssa.BasicBlock, rv ssa.Value, kinds []int64) bool {
	for _, nl := range naturalLoops(b.Parent()) {
		if !nl.body[b] {
			continue
		}
		iff := condOf(nl.header)
		if iff == nil {
			continue
		}
		bo, ok := iff.Cond.(*ssa.BinOp)
		if !ok || bo.Op != token.EQL {
			continue
		}
		kc, ok := bo.X.(*ssa.Call)
		if !ok || callOf(kc).static == nil || callOf(kc).static.Name() != "Kind" {
			continue
		}
		k, ok := constInt(bo.Y)
		if !ok || !sameReflectValue(kc.Call.Args[0], rv) {
			continue
		}
		for _, want := range kinds {
			if want == k && nl.header.Succs[0] == b || want == k && nl.body[b] && b != nl.header {
				return true
			}
		}
	}
	return false
}

func (P *Prog) mapNonNil(fn *ssa.Function, m ssa.Value, b *ssa.BasicBlock) bool {
	v := cv(m)
	if _, ok := v.(*ssa.MakeMap); ok {
		return true
	}
	// load of a field: some dominating store of a MakeMap to the same field, or a nil-guard that makes it
	if base, f := loadOfField(v); f != nil {
		okStore := false
		eachInstr(fn, func(b2 *ssa.BasicBlock, _ int, in ssa.Instruction) {
			st, ok := in.(*ssa.Store)
			if !ok {
				return
			}
			b3, f3 := fieldVar(st.Addr)
			if f3 == nil || !sameField(f3, f) || cv(b3) != cv(base) {
				return
			}
			if _, isMk := st.Val.(*ssa.MakeMap); !isMk {
				return
			}
			if b2.Dominates(b) {
				okStore = true
			}
			// `if x.m == nil { x.m = make(..) }` preceding the update
			for _, gd := range guardsOf(b2) {
				if x, eq, isN := isNilCompare(gd.If.Cond); isN && gd.True == eq {
					if _, f4 := loadOfField(cv(x)); f4 != nil && sameField(f4, f) && gd.If.Block().Dominates(b) {
						okStore = true
					}
				}
			}
		})
		return okStore
	}
	return false
}

func (P *Prog) decideInvoke(r *Result, g *modCG, fn *ssa.Function, s panicSite, c, pos string, coercersNonNil bool) {
	recv := cv(s.operand)
	b := s.in.Block()
	why := ""
	switch x := recv.(type) {
	case *ssa.MakeInterface:
		why = "receiver is a concrete value boxed in this function"
	case *ssa.Extract:
		if ta, ok := x.Tuple.(*ssa.TypeAssert); ok && x.Index == 0 {
			// guarded by ok
			for _, gd := range guardsOf(b) {
				if e2, ok := gd.If.Cond.(*ssa.Extract); ok && e2.Tuple == ssa.Value(ta) && e2.Index == 1 && gd.True {
					why = "receiver obtained by a comma-ok assertion under its ok guard"
				}
				// used where the assertion is known to have FAILED: the value is the nil interface, the call panics
				// (`closer, ok := r.(io.Closer); if !ok { defer closer.Close() }` - every reader that is not a Closer)
				if e2, ok := gd.If.Cond.(*ssa.Extract); ok && e2.Tuple == ssa.Value(ta) && e2.Index == 1 && !gd.True {
					if _, isIface := ta.AssertedType.Underlying().(*types.Interface); isIface {
						r.bad("C06/panic-site", c, pos, "a method is called on the result of a comma-ok assertion on the path where the assertion failed: the value is a nil interface there and the call panics")
						return
					}
				}
			}
		}
		if _, ok := x.Tuple.(*ssa.Call); ok && P.isDataProviderIface(recv.Type()) {
			why = "data provider: decided by C06/nil-provider"
		}
	case *ssa.Parameter:
		why = "receiver is a parameter of interface type (non-nil by the caller's obligation)"
	case *ssa.Call:
		ci := callOf(x)
		if ci.static != nil && ci.static.String() == "reflect.TypeOf" {
			// nil iff the argument is a nil interface
			arg := cv(x.Call.Args[0])
			if p, ok := arg.(*ssa.Parameter); ok && coercersNonNil && P.isCoercerFunc(p.Parent()) {
				why = "reflect.TypeOf(data) in a coercer: coercers run only on non-absent (non-nil) data"
			} else if P.guardedNonNil(b, arg) {
				why = "reflect.TypeOf(x) with x tested non-nil"
			} else {
				r.bad("C06/panic-site", c, pos, "a method is called on reflect.TypeOf(x), which is a nil interface when x is nil, and x is not known to be non-nil here")
				return
			}
		} else if ci.static != nil && isPkgFunc(ci.static, "reflect") && ci.static.Name() == "Type" {
			// rv.Type() panics on the zero Value; require validity: rv from ValueOf(x) with x non-nil, or Kind guard
			rv := x.Call.Args[0]
			is, _ := P.kindFacts(x.Block(), rv)
			valid := len(is) > 0
			if !valid {
				if tnt, _ := P.inputTainted(g, fn, rv); !tnt {
					valid = true
				}
			}
			if !valid && P.valueOfNonNil(x.Block(), rv) {
				valid = true
			}
			// the value a struct provider holds is a struct by construction (every literal of the provider stores a value
			// tested Kind() == Struct)
			if !valid && P.isStructProviderValue(rv) {
				if okS, _ := P.structProviderBuiltFromStructs(); okS {
					valid = true
				}
			}
			if !valid && P.paramValidAtCallSites(rv, 0) {
				valid = true
			}
			if !valid && P.valueOfParamValidAtCallSites(rv) {
				valid = true
			}
			if valid {
				why = "reflect.Value.Type() of a valid value"
				// Type methods with kind requirements
				name := callOf(s.in).invoke.Name()
				req := name
				if name == "Elem" {
					req = "TypeElem"
				}
				if kinds, has := reflectKindReq[req]; has && (name == "Key" || name == "Elem") {
					if tnt, _ := P.inputTainted(g, fn, rv); tnt {
						okK := false
						for _, k := range kinds {
							if is[k] {
								okK = true
							}
						}
						is2, _ := P.kindFacts(b, rv)
						for _, k := range kinds {
							if is2[k] {
								okK = true
							}
						}
						if !okK {
							r.bad("C06/panic-site", c, pos, "reflect.Type."+name+"() on the type of an input value without a dominating Kind test that admits it")
							return
						}
					}
				}
			} else {
				r.bad("C06/panic-site", c, pos, "reflect.Value.Type() on a value derived from input data that may be the zero Value (nil input)")
				return
			}
		} else if ci.static != nil {
			why = "receiver is the result of " + fname(ci.static) + " (non-nil constructor / std result)"
			if P.isDataProviderIface(recv.Type()) {
				why = "data provider: decided by C06/nil-provider"
			}
		} else {
			why = "receiver is the result of a call"
			if P.isDataProviderIface(recv.Type()) {
				why = "data provider: decided by C06/nil-provider"
			}
		}
	case *ssa.Phi:
		if P.isDataProviderIface(recv.Type()) {
			why = "data provider: decided by C06/nil-provider"
		} else {
			why = "merge of values each decided at its definition"
		}
	case *ssa.UnOp:
		if _, f := loadOfField(recv); f != nil {
			why = "receiver is field " + f.Name() + " (schema / context configuration, set by constructors)"
		}
		if al, ok := x.X.(*ssa.Alloc); ok && P.isDataProviderIface(al.Type().(*types.Pointer).Elem()) {
			why = "data provider: decided by C06/nil-provider"
		}
		// a provider variable of the enclosing function captured by this closure
		if fv, ok := x.X.(*ssa.FreeVar); ok && P.isDataProviderIface(recv.Type()) {
			if _, isAl := freeVarBinding(fv).(*ssa.Alloc); isAl {
				why = "data provider: decided by C06/nil-provider"
			}
		}
	}
	if why == "" {
		if tnt, via := P.inputTainted(g, fn, recv); tnt {
			r.bad("C06/panic-site", c, pos, "method call on an interface value derived from input data ["+via+"] that may be nil")
			return
		}
		why = "receiver is not derived from input data"
	}
	r.ok("C06/panic-site", c, pos, why)
}

// isExitGate: the side of the guard that is not taken runs straight (no
// branch, no call other than the deferred ones) to a return.
func isExitGate(gd guard) bool {
	b := gd.If.Block()
	k := 0
	if gd.True {
		k = 1
	}
	o := b.Succs[k]
	for n := 0; n < 4; n++ {
		for _, in := range o.Instrs {
			switch in.(type) {
			case *ssa.Call, *ssa.Store, *ssa.Go, *ssa.Panic, *ssa.If, *ssa.MapUpdate, *ssa.Send:
				return false
			}
		}
		switch o.Instrs[len(o.Instrs)-1].(type) {
		case *ssa.Return:
			return true
		case *ssa.Jump:
			o = o.Succs[0]
		default:
			return false
		}
	}
	return false
}

func (P *Prog) guardedNonNil(b *ssa.BasicBlock, v ssa.Value) bool {
	for _, gd := range guardsOf(b) {
		if x, eq, isN := isNilCompare(gd.If.Cond); isN && cv(x) == cv(v) && gd.True != eq {
			return true
		}
	}
	return false
}

// valueOfNonNil: rv = reflect.ValueOf(x) where x was tested non-nil on the way to b.
func (P *Prog) valueOfNonNil(b *ssa.BasicBlock, rv ssa.Value) bool {
	c, ok := cv(rv).(*ssa.Call)
	if !ok || callOf(c).static == nil || callOf(c).static.Name() != "ValueOf" {
		return false
	}
	return P.guardedNonNil(b, c.Call.Args[0]) || P.guardedNonNil(c.Block(), c.Call.Args[0])
}

func (P *Prog) isCoercerFunc(fn *ssa.Function) bool {
	if fn == nil {
		return false
	}
	n := fname(fn)
	if strings.Contains(n, "Coercers.") {
		return true
	}
	// closures stored into a coercer field
	for f, _ := range P.numericCoercers() {
		if f == fn {
			return true
		}
	}
	return strings.Contains(n, "TimeCoercerFactory$")
}

func (P *Prog) decideFuncValue(r *Result, g *modCG, fn *ssa.Function, s panicSite, c, pos string, tainted bool, via string) {
	b := s.in.Block()
	v := cv(s.operand)
	// a func value asserted out of input data: must be tested non-nil
	if ex, ok := v.(*ssa.Extract); ok {
		if ta, ok := ex.Tuple.(*ssa.TypeAssert); ok && ex.Index == 0 {
			if t, via2 := P.inputTainted(g, fn, ta.X); t {
				if P.guardedNonNil(b, v) {
					r.ok("C06/panic-site", c, pos, "func value taken from input data is tested non-nil before the call")
				} else {
					r.bad("C06/panic-site", c, pos, "a func value asserted out of the input data ["+via2+"] is called without a nil test: a typed-nil factory as data makes Parse panic")
				}
				return
			}
		}
	}
	if tainted {
		r.bad("C06/panic-site", c, pos, "call of a func value derived from input data ["+via+"] that may be nil")
		return
	}
	r.ok("C06/panic-site", c, pos, "func value is schema / configuration (test, transform, coercer, formatter, option)")
}

func (P *Prog) decideIndex(r *Result, g *modCG, fn *ssa.Function, s panicSite, c, pos string, tainted bool, via string) {
	b := s.in.Block()
	// range loops: index is the loop's own induction variable
	var idx ssa.Value
	switch x := s.in.(type) {
	case *ssa.IndexAddr:
		idx = x.Index
	case *ssa.Index:
		idx = x.Index
	case *ssa.Lookup:
		idx = x.Index
	}
	if idx != nil {
		if bo, ok := idx.(*ssa.BinOp); ok {
			if ph, ok := bo.X.(*ssa.Phi); ok && ph.Comment == "rangeindex" {
				r.ok("C06/panic-site", c, pos, "index is the induction variable of a range loop over the same value")
				return
			}
		}
		// slicelit element stores: constant index into a fresh array
		if _, isC := idx.(*ssa.Const); isC {
			if al, ok := s.operand.(*ssa.Alloc); ok && al.Parent() == fn {
				r.ok("C06/panic-site", c, pos, "constant index into a local array literal")
				return
			}
		}
	}
	// fixed-size array (a lookup table) indexed by a computed index: valid input must not run past it
	if ia, ok := s.in.(*ssa.IndexAddr); ok && idx != nil {
		if pt, ok := ia.X.Type().Underlying().(*types.Pointer); ok {
			if at, ok := pt.Elem().Underlying().(*types.Array); ok {
				if _, isC := idx.(*ssa.Const); !isC {
					// idx <= N-1  ==  lenGuard with bound N-1
					if !P.lenGuard(b, idx, at.Len()-1) {
						r.bad("C06/panic-site", c, pos, fmt.Sprintf("a fixed-size [%d] table is indexed by a computed value (%s) without a dominating test that keeps it below %d: 'index out of range'", at.Len(), shortName(idx.String()), at.Len()))
						return
					}
					r.ok("C06/panic-site", c, pos, fmt.Sprintf("index into a [%d] table bound-checked", at.Len()))
					return
				}
			}
		}
	}
	// fixed-size array sliced by a computed bound: valid configuration must not panic
	if sl, ok := s.in.(*ssa.Slice); ok {
		if pt, ok := sl.X.Type().Underlying().(*types.Pointer); ok {
			if at, ok := pt.Elem().Underlying().(*types.Array); ok {
				for _, bd := range []ssa.Value{sl.Low, sl.High, sl.Max} {
					if bd == nil {
						continue
					}
					if _, isC := bd.(*ssa.Const); isC {
						continue
					}
					if P.lenGuard(b, bd, at.Len()) {
						continue
					}
					r.bad("C06/panic-site", c, pos, fmt.Sprintf("a fixed-size [%d] buffer is sliced by a computed length (%s) without a bound check: a valid schema key longer than the buffer panics with 'slice bounds out of range'", at.Len(), shortName(bd.String())))
					return
				}
				r.ok("C06/panic-site", c, pos, "array sliced with constant or bound-checked limits")
				return
			}
		}
	}
	// an index that a loop counts down (`for !ok(s[n]) { n-- }`) needs a lower bound of its own: the length test that
	// admitted the first access says nothing about the accesses after it
	if ph, isPhi := idx.(*ssa.Phi); isPhi && idx != nil {
		down := false
		for _, e := range ph.Edges {
			if bo, isBo := e.(*ssa.BinOp); isBo && bo.X == ssa.Value(ph) {
				if k, isK := constInt(bo.Y); isK && ((bo.Op == token.SUB && k > 0) || (bo.Op == token.ADD && k < 0)) {
					down = true
				}
			}
		}
		if down {
			bounded := false
			for _, gd := range guardsOf(b) {
				if bo, isBo := gd.If.Cond.(*ssa.BinOp); isBo {
					if (bo.X == ssa.Value(ph) || bo.Y == ssa.Value(ph)) && (bo.Op == token.GEQ || bo.Op == token.GTR || bo.Op == token.LSS || bo.Op == token.LEQ) {
						bounded = true
					}
				}
			}
			if !bounded {
				r.bad("C06/panic-site", c, pos, "the index is counted down in a loop whose condition depends on the data ["+via+"] and nothing keeps it from going below zero: an input made of bytes that never satisfy the condition panics with 'index out of range [-1]'")
				return
			}
		}
	}
	// a string or slice cut at a position that some other package computed (`doc[from : syn.Offset+1]`): what the
	// number means is that package's business - encoding/json's Offset is one past the offending byte - and only a
	// length test of the value being cut makes the expression safe
	if sl, isSl := s.in.(*ssa.Slice); isSl {
		if _, isArr := sl.X.Type().Underlying().(*types.Pointer); !isArr && !P.lenDominates(b, s.operand) {
			for _, bd := range []ssa.Value{sl.Low, sl.High} {
				if bd == nil {
					continue
				}
				if src := foreignNumber(bd, s.operand, 0); src != "" {
					r.bad("C06/panic-site", c, pos, "the value is cut at a position taken from "+src+" without a test of its length: when that position is past the end (an error offset that counts one past the offending byte, at the end of the input) the runtime panics with 'slice bounds out of range'")
					return
				}
			}
		}
	}
	if !tainted {
		// a segment of the issue path is a schema key or a field's zog tag, and a tag may be empty (`zog:""` is accepted
		// by the struct pipeline and names the field by the key ""): indexing a segment needs a length test
		if P.isPathSegment(s.operand) && !P.lenDominates(b, s.operand) && !P.emptyTestDominates(b, s.operand) {
			r.bad("C06/panic-site", c, pos, "a segment of the issue path is indexed without a length test: a field whose zog tag is empty (valid configuration, it parses) makes the path of any issue below a nested struct panic with 'index out of range'")
			return
		}
		r.ok("C06/panic-site", c, pos, "index/slice of a schema key, tag or library-owned buffer (configuration)")
		return
	}
	// input-tainted: need a dominating length test on the same value
	if P.lenDominates(b, s.operand) {
		r.ok("C06/panic-site", c, pos, "dominating len() test on the indexed value")
		return
	}
	r.bad("C06/panic-site", c, pos, "index/slice of a value derived from input data ["+via+"] without a dominating length test")
}

// isPathSegment: v is an element read out of a PathBuilder.
func (P *Prog) isPathSegment(v ssa.Value) bool {
	u, ok := cv(v).(*ssa.UnOp)
	if !ok || u.Op != token.MUL {
		return false
	}
	ia, ok := u.X.(*ssa.IndexAddr)
	if !ok {
		return false
	}
	t := ia.X.Type()
	if pt, isP := t.Underlying().(*types.Pointer); isP {
		t = pt.Elem()
	}
	return sameNamed(t, P.roles.PathB)
}

// emptyTestDominates: b is control-dependent on a comparison of x with the empty string.
func (P *Prog) emptyTestDominates(b *ssa.BasicBlock, x ssa.Value) bool {
	for _, gd := range guardsOf(b) {
		bo, ok := gd.If.Cond.(*ssa.BinOp)
		if !ok || (bo.Op != token.EQL && bo.Op != token.NEQ) {
			continue
		}
		for i, side := range []ssa.Value{bo.X, bo.Y} {
			other := []ssa.Value{bo.Y, bo.X}[i]
			if c, isC := other.(*ssa.Const); isC && c.Value != nil && c.Value.Kind() == constant.String && constant.StringVal(c.Value) == "" && sameValue(side, x) {
				return true
			}
		}
	}
	return false
}

// lenGuard: bound is len(x) and b is dominated by len(x) <= n (or < n+1).
func (P *Prog) lenGuard(b *ssa.BasicBlock, bound ssa.Value, n int64) bool {
	for _, gd := range guardsOf(b) {
		bo, ok := gd.If.Cond.(*ssa.BinOp)
		if !ok {
			continue
		}
		if !sameValue(bo.X, bound) {
			continue
		}
		k, ok := constInt(bo.Y)
		if !ok {
			continue
		}
		switch {
		case bo.Op == token.LEQ && gd.True && k <= n, bo.Op == token.LSS && gd.True && k <= n+1,
			bo.Op == token.GTR && !gd.True && k <= n, bo.Op == token.GEQ && !gd.True && k <= n+1:
			return true
		}
	}
	return false
}

// lenDominates: some dominating guard compares len(x) for the same x.
func (P *Prog) lenDominates(b *ssa.BasicBlock, x ssa.Value) bool {
	for _, gd := range guardsOf(b) {
		bo, ok := gd.If.Cond.(*ssa.BinOp)
		if !ok {
			continue
		}
		for _, side := range []ssa.Value{bo.X, bo.Y} {
			if c, ok := side.(*ssa.Call); ok && callOf(c).builtin == "len" && sameValue(c.Call.Args[0], x) {
				return true
			}
		}
	}
	return false
}

// ---- provenance facts ----

// coercersRunOnPresentDataOnly: every call of a coercer in node code lies on
// a decision path with ZERO=F before it.
func (P *Prog) coercersRunOnPresentDataOnly() (bool, string) {
	n := 0
	for _, fn := range P.nodeFuncs() {
		paths, _ := P.nodePaths(fn)
		for _, p := range paths {
			ci := p.index("COERCE")
			if ci < 0 {
				continue
			}
			n++
			okZ := false
			for i := 0; i < ci; i++ {
				if p.items[i].kind == "ZERO" && p.items[i].val == "F" {
					okZ = true
				}
				if p.items[i].kind == "ZERO" && p.items[i].val == "T" {
					okZ = false
					break
				}
			}
			if !okZ {
				return false, "a coercer can be called with absent (nil) data in " + fname(fn) + " [path: " + p.String() + "]"
			}
		}
	}
	if n == 0 {
		return false, "no coercer call found"
	}
	return true, fmt.Sprintf("all %d decision paths that call a coercer do so after the absence test returned false (data != nil)", n)
}

// structProviderBuiltFromStructs: every StructDataProvider literal stores a
// reflect.Value guarded by Kind() == Struct.
func (P *Prog) structProviderBuiltFromStructs() (bool, string) {
	n := 0
	ok := true
	why := ""
	for _, fn := range P.Funcs {
		eachInstr(fn, func(b *ssa.BasicBlock, _ int, in ssa.Instruction) {
			st, isSt := in.(*ssa.Store)
			if !isSt {
				return
			}
			_, f := fieldVar(st.Addr)
			if f == nil || P.roleName(f) != "value" {
				return
			}
			owner := P.fieldOwner(f)
			if owner == nil || owner.Obj().Name() != "StructDataProvider" {
				return
			}
			n++
			is, _ := P.kindFacts(b, st.Val)
			if !is[rkStruct] {
				ok = false
				why = "StructDataProvider is built at " + P.ipos(in) + " from a value not known to be a struct"
			}
		})
	}
	if n == 0 {
		return false, "no construction site of StructDataProvider found"
	}
	if !ok {
		return false, why
	}
	return true, fmt.Sprintf("all %d construction sites store a reflect.Value under a Kind()==Struct guard", n)
}

// sliceCoercerReturnsSlice: the default Slice coercer returns its input only
// under Kind()==Slice and otherwise a slice literal.
func (P *Prog) sliceCoercerReturnsSlice() (bool, string) {
	fn := P.fn("zog/conf.DefaultCoercers.Slice(func)")
	if fn == nil {
		return false, "default slice coercer not found"
	}
	ok := true
	n := 0
	eachInstr(fn, func(b *ssa.BasicBlock, _ int, in ssa.Instruction) {
		rt, isR := in.(*ssa.Return)
		if !isR || len(rt.Results) != 2 {
			return
		}
		if !isNilConst(rt.Results[1]) {
			return
		}
		n++
		v := cv(rt.Results[0])
		if mi, isMI := v.(*ssa.MakeInterface); isMI {
			if _, isSl := mi.X.Type().Underlying().(*types.Slice); isSl {
				return
			}
		}
		if v == ssa.Value(fn.Params[0]) {
			// under Kind() == Slice of reflect.TypeOf(data)
			for _, gd := range guardsOf(b) {
				// `Kind() == Slice` taken, or `Kind() != Slice` not taken
				if bo, isBO := gd.If.Cond.(*ssa.BinOp); isBO && ((bo.Op == token.EQL && gd.True) || (bo.Op == token.NEQ && !gd.True)) {
					if k, isK := constInt(bo.Y); isK && k == rkSlice {
						return
					}
				}
			}
		}
		ok = false
	})
	if ok && n > 0 {
		return true, "conf.DefaultCoercers.Slice returns its input only when its Kind is Slice, otherwise a one-element slice literal"
	}
	return false, "the default slice coercer can return a non-slice value"
}

var _ = sort.Strings

// paramValidAtCallSites: rv is a reflect.Value parameter and at every static
// call site the actual argument is known valid (a Kind test dominates the
// call, or it is reflect.ValueOf of a non-nil value).
func (P *Prog) paramValidAtCallSites(rv ssa.Value, depth int) bool {
	p, ok := cv(rv).(*ssa.Parameter)
	if !ok || depth > 2 {
		return false
	}
	fn := p.Parent()
	idx := -1
	for i, q := range fn.Params {
		if q == p {
			idx = i
		}
	}
	n := 0
	okAll := true
	// every call that can reach fn: static calls, and the calls of a func value / interface method that the
	// call graph resolves to it (a constructor picked out of a table by kind)
	for _, site := range P.buildModCG().sites[originOf(fn)] {
		in, isInstr := site.(ssa.Instruction)
		if !isInstr {
			continue
		}
		ci := callOf(in)
		if ci == nil || idx >= len(ci.args()) {
			okAll = false
			continue
		}
		n++
		a := ci.args()[idx]
		b := in.Block()
		is, _ := P.kindFacts(b, a)
		if len(is) > 0 || P.valueOfNonNil(b, a) || P.paramValidAtCallSites(a, depth+1) {
			continue
		}
		okAll = false
	}
	return n > 0 && okAll
}

// typeEqualityGuard: b is dominated by `rv.Type() == X` (true).
func (P *Prog) typeEqualityGuard(b *ssa.BasicBlock, rv ssa.Value) bool {
	for _, gd := range guardsOf(b) {
		bo, ok := gd.If.Cond.(*ssa.BinOp)
		if !ok || !((bo.Op == token.EQL && gd.True) || (bo.Op == token.NEQ && !gd.True)) {
			continue
		}
		for _, side := range []ssa.Value{bo.X, bo.Y} {
			if c, ok := side.(*ssa.Call); ok {
				if ci := callOf(c); ci.static != nil && ci.static.Name() == "Type" && isPkgFunc(ci.static, "reflect") && sameReflectValue(c.Call.Args[0], rv) {
					return true
				}
			}
		}
	}
	return false
}

// deadBehindUnsetHook: b is dominated by the non-nil side of a nil test of a package-level variable (read directly or
// with an atomic Load) that nothing reachable from the public API ever writes.
func (P *Prog) deadBehindUnsetHook(b *ssa.BasicBlock) bool {
	for _, gd := range guardsOf(b) {
		x, eq, isN := isNilCompare(gd.If.Cond)
		if !isN || gd.True == eq {
			continue // (the side on which the value is nil)
		}
		var g *ssa.Global
		switch y := cv(x).(type) {
		case *ssa.UnOp:
			if y.Op == token.MUL {
				g = rootGlobalOf(y.X)
			}
		case *ssa.Call:
			if ci := callOf(y); ci.static != nil && isPkgFunc(ci.static, "sync/atomic") && strings.HasPrefix(ci.static.Name(), "Load") && len(ci.args()) > 0 {
				g = rootGlobalOf(ci.args()[0])
			}
		}
		if g != nil && P.neverWritten(g) {
			return true
		}
	}
	return false
}

// onlyCalledBehindUnsetHook: fn is an unexported function every call of which sits in code that is dead behind a hook
// nobody installs (`if hook != nil { hook(describe(x)) }`).
func (P *Prog) onlyCalledBehindUnsetHook(fn *ssa.Function) bool {
	if fn.Parent() != nil {
		return false
	}
	sites, closed := P.closedCallSites(fn)
	if !closed || len(sites) == 0 {
		return false
	}
	for _, site := range sites {
		in, ok := site.(ssa.Instruction)
		if !ok || !P.deadBehindUnsetHook(in.Block()) {
			return false
		}
	}
	return true
}

// valueOfParamValidAtCallSites: rv is reflect.ValueOf(p) taken inside an unexported function of its `any` parameter p
// (the caller used to pass the reflect.Value, now the callee reflects again): valid when at every call site the
// caller has itself reflected on the same argument and established its kind there (`x := reflect.ValueOf(val);
// switch x.Kind() { case reflect.Map: ... newAnyMapDataProvider[T](val)`).
func (P *Prog) valueOfParamValidAtCallSites(rv ssa.Value) bool {
	c, ok := cv(rv).(*ssa.Call)
	if !ok {
		return false
	}
	if ci := callOf(c); ci.static == nil || ci.static.String() != "reflect.ValueOf" || len(c.Call.Args) != 1 {
		return false
	}
	p, ok := cv(c.Call.Args[0]).(*ssa.Parameter)
	if !ok {
		return false
	}
	fn := p.Parent()
	idx := -1
	for i, q := range fn.Params {
		if q == p {
			idx = i
		}
	}
	n, okAll := 0, true
	for _, site := range P.buildModCG().sites[originOf(fn)] {
		in, isInstr := site.(ssa.Instruction)
		if !isInstr {
			continue
		}
		ci := callOf(in)
		if ci == nil || idx < 0 || idx >= len(ci.args()) {
			okAll = false
			continue
		}
		n++
		a := cv(ci.args()[idx])
		b := in.Block()
		found := false
		eachInstr(in.Parent(), func(_ *ssa.BasicBlock, _ int, in2 ssa.Instruction) {
			c2, ok := in2.(*ssa.Call)
			if !ok || found {
				return
			}
			if ci2 := callOf(c2); ci2.static == nil || ci2.static.String() != "reflect.ValueOf" || len(c2.Call.Args) != 1 || cv(c2.Call.Args[0]) != a {
				return
			}
			if is, _ := P.kindFacts(b, c2); len(is) > 0 {
				found = true
			}
		})
		if !found {
			okAll = false
		}
	}
	return n > 0 && okAll
}

// cmpNeverPanics: == on two values of static type t cannot panic (no interface-typed part whose dynamic type could be
// uncomparable).
func cmpNeverPanics(t types.Type) bool {
	switch u := t.Underlying().(type) {
	case *types.Basic, *types.Pointer, *types.Chan:
		return true
	case *types.Struct:
		for i := 0; i < u.NumFields(); i++ {
			if !cmpNeverPanics(u.Field(i).Type()) {
				return false
			}
		}
		return true
	case *types.Array:
		return cmpNeverPanics(u.Elem())
	}
	return false
}

// foreignNumber: the bound is computed (through arithmetic, conversions, min/max) from a field of a struct type of
// another module or from the result of a non-module, non-builtin function that is not about the sliced value itself
// (len(x), strings.Index(x, ...) are about x). Returns a description, or "".
func foreignNumber(v ssa.Value, about ssa.Value, depth int) string {
	if depth > 6 {
		return ""
	}
	switch x := v.(type) {
	case *ssa.BinOp:
		if s := foreignNumber(x.X, about, depth+1); s != "" {
			return s
		}
		return foreignNumber(x.Y, about, depth+1)
	case *ssa.Convert:
		return foreignNumber(x.X, about, depth+1)
	case *ssa.ChangeType:
		return foreignNumber(x.X, about, depth+1)
	case *ssa.Phi:
		for _, e := range x.Edges {
			if s := foreignNumber(e, about, depth+1); s != "" {
				return s
			}
		}
	case *ssa.UnOp:
		if x.Op == token.MUL {
			if fa, ok := x.X.(*ssa.FieldAddr); ok {
				if _, f := fieldVar(fa); f != nil && f.Pkg() != nil && !inModule(f.Pkg().Path()) {
					return "the field " + f.Name() + " of " + typeStr(fa.X.Type())
				}
			}
		}
	case *ssa.Call:
		ci := callOf(x)
		if ci.builtin == "min" || ci.builtin == "max" {
			for _, a := range x.Call.Args {
				if s := foreignNumber(a, about, depth+1); s != "" {
					return s
				}
			}
			return ""
		}
		if ci.builtin != "" {
			return ""
		}
		for _, a := range x.Call.Args {
			if sameValue(a, about) {
				return "" // a position within the value itself
			}
		}
	}
	return ""
}

// helperVouchesCanInterface: the value is result #0 of a module helper `field, ok := s.readableField(key)`, the block
// lies on the true edge of that same call's boolean result, and inside the helper that result is true only where
// CanInterface() of the returned field holds: a return of constant true is dominated by the test, or the result is the
// test itself (possibly as the last operand of a conjunction, which SSA renders as a phi with false edges).
func (P *Prog) helperVouchesCanInterface(b *ssa.BasicBlock, v ssa.Value) bool {
	ex, ok := cv(v).(*ssa.Extract)
	if !ok {
		return false
	}
	call, ok := ex.Tuple.(*ssa.Call)
	if !ok {
		return false
	}
	callee := callOf(call).static
	if callee == nil || callee.Blocks == nil || !inModule(funcPkgPath(callee)) {
		return false
	}
	// which boolean result is tested true on the way to b?
	okIdx := -1
	for _, gd := range guardsOf(b) {
		c, pol := gd.If.Cond, gd.True
		if u, isU := c.(*ssa.UnOp); isU && u.Op == token.NOT {
			c, pol = u.X, !pol
		}
		if e2, isEx := c.(*ssa.Extract); isEx && e2.Tuple == ssa.Value(call) && pol {
			okIdx = e2.Index
		}
	}
	if okIdx < 0 {
		return false
	}
	var implies func(x ssa.Value, field ssa.Value, depth int) bool
	implies = func(x ssa.Value, field ssa.Value, depth int) bool {
		if depth > 4 {
			return false
		}
		switch y := x.(type) {
		case *ssa.Const:
			bv, isB := constBool(y)
			return isB && !bv // constant false vouches for nothing and is never taken as "ok"
		case *ssa.Call:
			ci := callOf(y)
			return ci.static != nil && isPkgFunc(ci.static, "reflect") && ci.static.Name() == "CanInterface" && sameReflectValue(y.Call.Args[0], field)
		case *ssa.Phi:
			for _, e := range y.Edges {
				if !implies(e, field, depth+1) {
					return false
				}
			}
			return true
		}
		return false
	}
	all, n := true, 0
	eachInstr(callee, func(rb *ssa.BasicBlock, _ int, in ssa.Instruction) {
		rt, isRet := in.(*ssa.Return)
		if !isRet {
			return
		}
		rvs, okRV := retVals(rt)
		if !okRV {
			rvs = rt.Results
		}
		if ex.Index >= len(rvs) || okIdx >= len(rvs) {
			all = false
			return
		}
		n++
		field, okv := rvs[ex.Index], rvs[okIdx]
		if bv, isB := constBool(cv(okv)); isB {
			if bv && !P.guardedByCall(rb, "CanInterface", field, true) {
				all = false
			}
			return
		}
		if !implies(cv(okv), field, 0) {
			all = false
		}
	})
	return all && n > 0
}
