package main

import (
	"fmt"
	"go/ast"
	"go/token"
	"go/types"
	"sort"
	"strings"

	"golang.org/x/tools/go/ssa"
)

func init() { register("C03", checkC03) }

// optionKind: is t one of the option function types, and which?
func (P *Prog) optionKind(t types.Type) string {
	R := P.roles
	sig, ok := t.Underlying().(*types.Signature)
	if !ok || sig.Params().Len() != 1 || sig.Results().Len() != 0 {
		return ""
	}
	pt := sig.Params().At(0).Type()
	switch {
	case P.isPtrTo(pt, R.Test):
		return "TestOption"
	case P.isPtrTo(pt, R.ExecCtx):
		return "ExecOption"
	case sameNamed(pt, R.ZogSchemaN):
		return "SchemaOption"
	}
	return ""
}

func checkC03(P *Prog, r *Result) {
	R := P.roles
	r.Explanation = "Decides the small structural part of 'the destination holds the documented coercion': (option-effective) every option constructor (TestOption/SchemaOption/ExecOption) returns a " +
		"closure that has an effect on its argument into which every constructor parameter flows; (opts-applied) every schema constructor ranges over its SchemaOptions and applies each to the " +
		"schema it returns; (default-coercer) each constructor initialises its coercer from the overridable conf.Coercers global of the matching type; (coerced-value-stored) the primitive pipeline " +
		"stores exactly the coercer's result for ctx.Data on the err==nil path; (index-agreement) slice element i of the source is processed into destination element i at path [i], 0<=i<len, " +
		"destination allocated with len==cap==source length; (struct-writes-by-field) the destination struct is written only through the addressed field of a schema key; " +
		"(pointer-alloc) a present pointer input allocates only when nil. The value semantics of the coercers themselves (strconv/time/fmt) are not decided."
	// ---- option-effective ----
	nOpt := 0
	for _, fn := range P.Funcs {
		if fn.Parent() != nil || !ast.IsExported(fn.Name()) || fn.Signature.Results().Len() != 1 {
			continue
		}
		kind := P.optionKind(fn.Signature.Results().At(0).Type())
		if kind == "" {
			continue
		}
		if strings.Contains(funcPkgPath(fn), "/tutils") {
			continue
		}
		nOpt++
		r.sawFunc(fname(fn))
		c := fname(fn)
		// what is returned?
		var retv ssa.Value
		eachInstr(fn, func(_ *ssa.BasicBlock, _ int, in ssa.Instruction) {
			if rt, ok := in.(*ssa.Return); ok && len(rt.Results) == 1 {
				retv = cv(rt.Results[0])
			}
		})
		params := fn.Params
		if fn.Signature.Recv() != nil {
			params = params[1:]
		}
		switch x := retv.(type) {
		case *ssa.MakeClosure:
			cl := x.Fn.(*ssa.Function)
			eff, why := P.closureEffect(cl, kind)
			if !eff {
				r.bad("C03/option-effective", c, P.pos(cl.Pos()), fmt.Sprintf("the %s returned by %s has no effect on its argument (%s): the option is silently ignored", kind, fn.Name(), why))
				continue
			}
			// every parameter must flow into the closure's effect
			var unused []string
			for _, p := range params {
				if !P.paramReachesEffect(fn, cl, p) {
					unused = append(unused, p.Name())
				}
			}
			if len(unused) > 0 {
				r.bad("C03/option-effective", c, P.pos(cl.Pos()), fmt.Sprintf("parameter(s) %s of %s do not flow into the option's effect", strings.Join(unused, ","), fn.Name()))
				continue
			}
			r.ok("C03/option-effective", c, P.pos(cl.Pos()), kind+": "+why)
		case *ssa.Call:
			ci := callOf(x)
			if ci.static != nil && P.optionKind(ci.static.Signature.Results().At(0).Type()) == kind {
				// delegating constructor: every parameter must be passed on (possibly captured by a closure argument)
				var unused []string
				for _, p := range params {
					used := false
					for _, a := range x.Call.Args {
						if valueMentionsParam(a, p, 6) {
							used = true
						}
					}
					if !used {
						unused = append(unused, p.Name())
					}
				}
				if len(unused) > 0 {
					r.bad("C03/option-effective", c, P.ipos(x), fmt.Sprintf("parameter(s) %s are not passed on to %s", strings.Join(unused, ","), fname(ci.static)))
				} else {
					r.ok("C03/option-effective", c, P.ipos(x), "delegates to "+fname(ci.static)+" passing every parameter")
				}
			} else {
				r.undecided("C03/option-effective", c, P.ipos(x), "option constructor returns the result of an unrecognised call")
			}
		case *ssa.Function:
			eff, why := P.closureEffect(x, kind)
			if eff {
				r.ok("C03/option-effective", c, P.pos(x.Pos()), kind+": "+why)
			} else {
				r.bad("C03/option-effective", c, P.pos(x.Pos()), "returned function has no effect on its argument: "+why)
			}
		default:
			r.undecided("C03/option-effective", c, P.pos(fn.Pos()), "cannot identify the returned option function")
		}
	}
	r.floor("C03/option-effective", 5)

	// ---- opts-applied + default-coercer ----
	nCtor := 0
	for _, fn := range P.Funcs {
		if fn.Signature.Recv() != nil || !fn.Signature.Variadic() || fn.Signature.Results().Len() != 1 {
			continue
		}
		last := fn.Signature.Params().At(fn.Signature.Params().Len() - 1)
		sl, ok := last.Type().Underlying().(*types.Slice)
		if !ok || P.optionKind(sl.Elem()) != "SchemaOption" {
			continue
		}
		if !R.isKind(fn.Signature.Results().At(0).Type()) {
			continue
		}
		nCtor++
		r.sawFunc(fname(fn))
		c := fname(fn)
		optsParam := ssa.Value(fn.Params[len(fn.Params)-1])
		var retv ssa.Value
		eachInstr(fn, func(_ *ssa.BasicBlock, _ int, in ssa.Instruction) {
			if rt, ok := in.(*ssa.Return); ok {
				retv = cv(rt.Results[0])
			}
		})
		// delegating constructor (Float -> Float64(opts...))
		if call, ok := retv.(*ssa.Call); ok {
			ci := callOf(call)
			passes := false
			for _, a := range call.Call.Args {
				if cv(a) == optsParam {
					passes = true
				}
			}
			if ci.static != nil && passes {
				r.ok("C03/opts-applied", c, P.ipos(call), "delegates to "+fname(ci.static)+" passing the options")
			} else {
				r.bad("C03/opts-applied", c, P.ipos(call), "constructor does not pass its options on")
			}
			continue
		}
		applied := false
		var applyBlk *ssa.BasicBlock
		eachInstr(fn, func(b *ssa.BasicBlock, _ int, in ssa.Instruction) {
			ci := callOf(in)
			if ci == nil || !ci.dynamic || len(ci.args()) != 1 {
				return
			}
			// callee is an element of the options parameter; argument is the returned object
			fromOpts := false
			for _, rt := range P.rootsOf(ci.instr.Common().Value) {
				if rt.kind == rkParam && rt.v == optsParam {
					fromOpts = true
				}
			}
			if fromOpts && cvi(ci.args()[0]) == retv {
				applied = true
				applyBlk = b
			}
		})
		inLoopOverAll := false
		if applyBlk != nil {
			for _, nl := range naturalLoops(fn) {
				if nl.body[applyBlk] {
					// rangeindex loop over the options: header compares against len(opts)
					for _, in := range nl.header.Instrs {
						if ph, ok := in.(*ssa.Phi); ok && ph.Comment == "rangeindex" {
							inLoopOverAll = true
						}
					}
				}
			}
		}
		if applied && inLoopOverAll {
			r.ok("C03/opts-applied", c, P.pos(fn.Pos()), "every SchemaOption is called with the schema that is returned")
		} else {
			r.bad("C03/opts-applied", c, P.pos(fn.Pos()), "the constructor does not apply every given SchemaOption to the schema it returns: WithCoercer / Time.Format are ignored")
		}
		// default coercer
		P.checkDefaultCoercer(r, fn, retv)
	}
	r.floor("C03/opts-applied", 5)
	// the Time constructor is a package-level func value
	_ = nCtor

	P.checkCoercedValueStored(r)
	P.checkCoercionTable(r, "C03/coercion-table")
	P.checkIndexAgreement(r)
	P.checkStructWritesByField(r)
	P.checkPointerAlloc(r)
	P.checkFieldNameRule(r, "C03/field-name-rule")
	// the record the fields are read from is the input: a map of a named type that failed the plain-map assertion is
	// converted, not replaced by the assertion's zero value (C14's rule) - else every leaf stays untouched, silently
	shareRule(P, r, checkC14, "C14/provider-from-checked-value", nil, "C03/input-record-not-dropped", 1)
	// "destination fields the schema does not name are never written": the field map of a schema is the one its author
	// declared - a derivation that writes into its receiver's map (Merge on top of a shallow clone) gives the base the
	// other operand's fields, and the base then writes them (C16's rule)
	shareRule(P, r, checkC16, "C16/operands-read-only", nil, "C03/schema-fields-as-declared", 2)
	// with no issues reported a leaf holds the coercion of *its* input: a catch value replaces it only when that
	// node itself failed, never because Exit / CanCatch were left set by a sibling or an earlier element (C05's rule)
	shareRule(P, r, checkC05, "C05/confinement", nil, "C03/catch-value-only-on-own-failure", 10)
	// "absent optional inputs leave their destination untouched": default > required > optional, and the catch value is
	// for failures only - an absent optional node with a Catch is skipped, not caught (C04's decision rule)
	shareRule(P, r, checkC04, "C04/decision-shape", nil, "C03/absent-optional-untouched", 5)
	// "slice length and element order equal the input's": a request whose body could not be decoded is not a record with
	// the undecodable pairs left out - `ParseForm` skips them, so accepting its partial result (`err != nil && len(r.Form)
	// == 0`) turns tags=red&tags=50%off&tags=blue into [red blue] with no issue (C15's rule on the front ends)
	shareRule(P, r, checkC15, "C15/decode-failure", func(o Obligation) bool { return strings.Contains(o.Construct, "/zhttp.") || strings.Contains(o.Construct, "/zjson.") }, "C03/undecodable-source-is-not-a-partial-record", 2)
}

// closureEffect: does option closure cl act on its argument?
func (P *Prog) closureEffect(cl *ssa.Function, kind string) (bool, string) {
	if len(cl.Params) != 1 {
		return false, "not a one-argument function"
	}
	arg := ssa.Value(cl.Params[0])
	var effects []string
	eachInstr(cl, func(_ *ssa.BasicBlock, _ int, in ssa.Instruction) {
		switch x := in.(type) {
		case *ssa.Store:
			if b, f := fieldVar(x.Addr); f != nil && cv(b) == arg {
				effects = append(effects, "stores "+f.Name())
			}
		default:
			ci := callOf(in)
			if ci == nil {
				return
			}
			args := ci.args()
			if len(args) == 0 || cvi(args[0]) != arg {
				return
			}
			if ci.invoke != nil {
				effects = append(effects, "calls "+ci.invoke.Name()+" on the schema")
			} else if ci.static != nil && len(P.writeSites(ci.static)) > 0 {
				effects = append(effects, "calls "+fname(ci.static))
			}
		}
	})
	if len(effects) == 0 {
		return false, "no store to and no mutating call on the argument"
	}
	return true, strings.Join(uniqSorted(effects), ", ")
}

// paramReachesEffect: constructor parameter p is captured by cl and used in a
// store to / call on cl's argument (directly or through a nested closure or a
// call whose result is used there).
func (P *Prog) paramReachesEffect(ctor, cl *ssa.Function, p *ssa.Parameter) bool {
	arg := ssa.Value(cl.Params[0])
	found := false
	eachInstr(cl, func(_ *ssa.BasicBlock, _ int, in ssa.Instruction) {
		switch x := in.(type) {
		case *ssa.Store:
			if b, f := fieldVar(x.Addr); f != nil && cv(b) == arg && valueMentionsParam(x.Val, p, 8) {
				found = true
			}
		default:
			ci := callOf(in)
			if ci == nil {
				return
			}
			args := ci.args()
			if len(args) == 0 || cvi(args[0]) != arg {
				return
			}
			for _, a := range args[1:] {
				if valueMentionsParam(a, p, 8) {
					found = true
				}
			}
		}
	})
	return found
}

// valueMentionsParam: v is computed from parameter p (through canon, closure
// captures, calls and nested closures' bodies).
func valueMentionsParam(v ssa.Value, p *ssa.Parameter, depth int) bool {
	if depth == 0 || v == nil {
		return false
	}
	v = cv(v)
	if v == ssa.Value(p) {
		return true
	}
	switch x := v.(type) {
	case *ssa.FreeVar:
		if b := freeVarBinding(x); b != nil {
			if al, ok := b.(*ssa.Alloc); ok {
				for _, st := range storesTo(al) {
					if valueMentionsParam(st.Val, p, depth-1) {
						return true
					}
				}
			}
			return valueMentionsParam(b, p, depth-1)
		}
		return false
	case *ssa.MakeClosure:
		for _, b := range x.Bindings {
			if valueMentionsParam(b, p, depth-1) {
				return true
			}
			// binding is an Alloc holding the param
			if al, ok := b.(*ssa.Alloc); ok {
				for _, st := range storesTo(al) {
					if valueMentionsParam(st.Val, p, depth-1) {
						return true
					}
				}
			}
		}
		return false
	case *ssa.UnOp:
		if x.Op == token.MUL {
			if fv, ok := x.X.(*ssa.FreeVar); ok {
				if b := freeVarBinding(fv); b != nil {
					if al, ok := b.(*ssa.Alloc); ok {
						for _, st := range storesTo(al) {
							if valueMentionsParam(st.Val, p, depth-1) {
								return true
							}
						}
					}
				}
			}
		}
	}
	if in, ok := v.(ssa.Instruction); ok {
		var ops []*ssa.Value
		for _, op := range in.Operands(ops) {
			if *op != nil && valueMentionsParam(*op, p, depth-1) {
				return true
			}
		}
	}
	return false
}

// checkDefaultCoercer: the constructor stores into the `coercer` field a value
// read from the overridable conf.Coercers global (directly or in a closure),
// of the field matching the destination type.
func (P *Prog) checkDefaultCoercer(r *Result, fn *ssa.Function, obj ssa.Value) {
	want := ""
	res := fn.Signature.Results().At(0).Type()
	n := namedOf(res)
	if n == nil {
		return
	}
	switch n.Obj().Name() {
	case "StringSchema":
		want = "String"
	case "BoolSchema":
		want = "Bool"
	case "TimeSchema":
		want = "Time"
	case "SliceSchema":
		want = "Slice"
	case "NumberSchema":
		if ta := n.TypeArgs(); ta != nil && ta.Len() == 1 {
			if b, ok := ta.At(0).Underlying().(*types.Basic); ok {
				if b.Info()&types.IsInteger != 0 {
					want = "Int"
				} else if b.Info()&types.IsFloat != 0 {
					want = "Float64"
				}
			}
		}
	}
	if want == "" {
		return
	}
	c := fname(fn)
	var stored ssa.Value
	eachInstr(fn, func(_ *ssa.BasicBlock, _ int, in ssa.Instruction) {
		if st, ok := in.(*ssa.Store); ok {
			if b, f := fieldVar(st.Addr); f != nil && P.roleName(f) == "coercer" && cv(b) == obj {
				stored = st.Val
			}
		}
	})
	if stored == nil {
		r.bad("C03/default-coercer", c, P.pos(fn.Pos()), "constructor does not set a default coercer")
		return
	}
	// loads of conf.Coercers.<want> in the stored value or in the stored closure's body
	var fields []string
	var globals []string
	note := func(v ssa.Value) {
		if b, f := loadOfField(v); f != nil {
			if g, ok := b.(*ssa.Global); ok {
				fields = append(fields, f.Name())
				globals = append(globals, g.Name())
			}
		}
	}
	sv := stored
	if ct, ok := sv.(*ssa.ChangeType); ok {
		sv = ct.X
	}
	note(sv)
	// a coercer assembled by a closure factory: the closure it returns, the functions and closures handed
	// to it, and the unexported helpers those call
	if cl, env, _ := P.storedCoercer(fn); cl != nil && len(env) > 0 {
		seenF := map[*ssa.Function]bool{}
		var scan func(f *ssa.Function, d int)
		scan = func(f *ssa.Function, d int) {
			if f == nil || seenF[f] || d > 3 || f.Blocks == nil {
				return
			}
			seenF[f] = true
			eachInstr(f, func(_ *ssa.BasicBlock, _ int, in ssa.Instruction) {
				if v, ok := in.(ssa.Value); ok {
					note(v)
				}
				if ci := callOf(in); ci != nil && ci.static != nil && formulaHelper(ci.static) {
					scan(ci.static, d+1)
				}
			})
		}
		scan(cl, 0)
		for _, v := range env {
			switch y := v.(type) {
			case *ssa.FieldAddr:
				// the address of the configured coercer handed to the factory, dereferenced when the coercer runs
				if g, ok := y.X.(*ssa.Global); ok {
					if _, f := fieldVar(y); f != nil {
						fields = append(fields, f.Name())
						globals = append(globals, g.Name())
					}
				}
			case *ssa.Function:
				if inModule(funcPkgPath(y)) {
					scan(y, 1)
				}
			case *ssa.MakeClosure:
				if g, ok := y.Fn.(*ssa.Function); ok {
					scan(g, 1)
				}
			}
		}
	}
	if mc, ok := sv.(*ssa.MakeClosure); ok {
		eachInstr(mc.Fn.(*ssa.Function), func(_ *ssa.BasicBlock, _ int, in ssa.Instruction) {
			if v, ok := in.(ssa.Value); ok {
				note(v)
			}
		})
	}
	if f, ok := sv.(*ssa.Function); ok {
		eachInstr(f, func(_ *ssa.BasicBlock, _ int, in ssa.Instruction) {
			if v, ok := in.(ssa.Value); ok {
				note(v)
			}
		})
	}
	okc := false
	for i := range fields {
		if fields[i] == want && globals[i] == "Coercers" {
			okc = true
		}
	}
	if okc {
		r.ok("C03/default-coercer", c, P.pos(fn.Pos()), "default coercer is conf.Coercers."+want+" (the overridable global)")
	} else {
		r.bad("C03/default-coercer", c, P.pos(fn.Pos()), fmt.Sprintf("default coercer is not read from conf.Coercers.%s (found %v of %v): global coercer overrides or the type's documented coercion are bypassed", want, fields, globals))
	}
}

// checkCoercedValueStored: in the Parse pipeline the destination receives the
// coercer's result for ctx.Data, on the err == nil path only.
func (P *Prog) checkCoercedValueStored(r *Result) {
	R := P.roles
	for _, pl := range R.Pipelines {
		// only the pipeline that has a coercer parameter
		// (the call may live in a phase helper of the pipeline: units, each under its call-site bindings)
		var coercerCall *ssa.Call
		argIsData := false
		for _, u := range P.nodeUnits(pl) {
			u.with(func() {
				eachInstr(u.fn, func(_ *ssa.BasicBlock, _ int, in ssa.Instruction) {
					if c, ok := in.(*ssa.Call); ok {
						if ci := callOf(c); ci.dynamic && P.roleOf(c.Call.Value) == "coercer" {
							coercerCall = c
							// argument is ctx.Data
							_, f := loadOfField(cv(c.Call.Args[0]))
							argIsData = f != nil && sameField(f, R.FData)
						}
					}
				})
			})
		}
		if coercerCall == nil {
			continue
		}
		r.sawFunc(fname(pl))
		c := fname(pl)
		var problems []string
		if !argIsData {
			problems = append(problems, "the coercer is not applied to the node's input (ctx.Data)")
		}
		// on the decision paths of the pipeline (helpers entered): the destination receives the coercer's result
		// (DEST=coerced) on every path where the coercion succeeded and the node goes on, and on no other
		stored := false
		paths, capHit := P.nodePaths(pl)
		if capHit {
			problems = append(problems, "too many paths to enumerate")
		}
		for _, p := range paths {
			ok, failed := false, false
			for _, it := range p.items {
				if it.kind == "COERCE-ERR" {
					ok, failed = it.val == "F", it.val == "T"
				}
			}
			has := p.has("DEST", "coerced")
			// a present value reaches the tests only through the coercer: a shortcut for data that already has the
			// destination's type (`if v, ok := ctx.Data.(T); ok { *dest = v }`) bypasses a coercer the user configured
			// to refuse some values of that type
			present, coerced := false, false
			for _, it := range p.items {
				switch {
				case it.kind == "ZERO" && it.val == "F":
					present = true
				case it.kind == "COERCE":
					coerced = true
				case present && !coerced && (it.kind == "TESTS" || (it.kind == "DEST" && it.val != "catch" && it.val != "default")):
					problems = append(problems, "a present input reaches the destination or the tests without passing through the coercer  [path: "+p.String()+"]")
					present = false
				}
			}
			switch {
			case ok && has:
				stored = true
			case ok && !has:
				problems = append(problems, "a path on which the coercion succeeded does not store its result into the destination  [path: "+p.String()+"]")
			case failed && has:
				problems = append(problems, "the coercer's result is stored although the coercion failed  [path: "+p.String()+"]")
			}
		}
		if !stored {
			problems = append(problems, "the coercer's result is not stored into the destination on the err == nil path")
		}
		if len(problems) > 0 {
			r.bad("C03/coerced-value-stored", c, P.ipos(coercerCall), strings.Join(problems, "; "))
		} else {
			r.ok("C03/coerced-value-stored", c, P.ipos(coercerCall), "*dest = coercer(ctx.Data).(T) under err == nil")
		}
	}
	r.floor("C03/coerced-value-stored", 1)
}

// checkIndexAgreement for the two slice loops.
func (P *Prog) checkIndexAgreement(r *Result) {
	R := P.roles
	for _, fn := range []*ssa.Function{R.Process["SliceSchema"], R.Validate["SliceSchema"]} {
		if fn == nil {
			r.undecided("C03/index-agreement", "SliceSchema", "-", "method not found")
			continue
		}
		r.sawFunc(fname(fn))
		c := fname(fn)
		_ = P.newCatchAnalysis
		// the loop containing the child dispatch
		var disp ssa.Instruction
		eachInstr(fn, func(_ *ssa.BasicBlock, _ int, in ssa.Instruction) {
			// the child is run by an interface call of the node method, or by a helper that is handed the child
			// context and runs it (`subCtx.RunChild(&k, item, ptr, typ, v.schema.process)`)
			if ci := callOf(in); ci != nil && (ci.invoke != nil || ci.static != nil) && P.dispatchLike(ci) {
				if _, isNodeCall := R.Dispatch[ci.static]; !isNodeCall {
					disp = in
				}
			}
		})
		if disp == nil {
			r.bad("C03/index-agreement", c, P.pos(fn.Pos()), "no per-element dispatch found")
			continue
		}
		var loop *natLoop
		for _, nl := range naturalLoops(fn) {
			nl := nl
			if nl.body[disp.Block()] {
				loop = &nl
			}
		}
		if loop == nil {
			r.bad("C03/index-agreement", c, P.ipos(disp), "the child schema is not run inside a loop over the elements")
			continue
		}
		// induction variable: header phi [0, phi+1]
		var iv *ssa.Phi
		for _, in := range loop.header.Instrs {
			ph, ok := in.(*ssa.Phi)
			if !ok {
				continue
			}
			zero, inc := false, false
			for _, e := range ph.Edges {
				if k, ok := constInt(e); ok && k == 0 {
					zero = true
				}
				if bo, ok := e.(*ssa.BinOp); ok && bo.Op == token.ADD && bo.X == ssa.Value(ph) {
					if k, ok := constInt(bo.Y); ok && k == 1 {
						inc = true
					}
				}
			}
			if zero && inc {
				iv = ph
			}
		}
		var problems []string
		if iv == nil {
			problems = append(problems, "no induction variable 0,1,2,... found")
		} else {
			// bound: iv < src.Len()
			var lenRecv ssa.Value
			if iff := condOf(loop.header); iff != nil {
				if bo, ok := iff.Cond.(*ssa.BinOp); ok && bo.Op == token.LSS && bo.X == ssa.Value(iv) {
					if c2, ok := bo.Y.(*ssa.Call); ok {
						if ci := callOf(c2); ci.static != nil && isPkgFunc(ci.static, "reflect") && ci.static.Name() == "Len" {
							lenRecv = c2.Call.Args[0]
						}
					}
				}
			}
			if lenRecv == nil {
				problems = append(problems, "loop bound is not `i < source.Len()`")
			}
			// every reflect Index call in the loop uses iv; the path segment uses iv
			nIndex := 0
			sprintfOK := false
			for b := range loop.body {
				for _, in := range b.Instrs {
					// the segment: fmt.Sprintf("[%d]", i), "[" + strconv.Itoa(i) + "]", or a helper returning one of them for its argument i
					if v, isV := in.(ssa.Value); isV && isIndexSegment(v, iv, 0) {
						sprintfOK = true
					}
					c2, ok := in.(*ssa.Call)
					if !ok {
						continue
					}
					ci := callOf(c2)
					if ci.static != nil && isPkgFunc(ci.static, "reflect") && ci.static.Name() == "Index" {
						nIndex++
						if c2.Call.Args[1] != ssa.Value(iv) {
							problems = append(problems, "an element is selected with an index other than the loop variable at "+P.ipos(in))
						}
					}
					if ci.static != nil && ci.static.String() == "fmt.Sprintf" {
						if s, ok := constString(c2.Call.Args[0]); ok && s == "[%d]" && sliceLitHas(c2.Call.Args[1], iv) {
							sprintfOK = true
						}
					}
				}
			}
			// every iteration runs the child schema: no way round the dispatch from the loop's head back to it (a
			// `continue` for null items leaves their slot at the zero value, with no `required` issue and no Default)
			if db := disp.Block(); db != nil && loop.body[db] {
				seen := map[*ssa.BasicBlock]bool{}
				var work []*ssa.BasicBlock
				for _, sc := range loop.header.Succs {
					if loop.body[sc] && sc != db {
						work = append(work, sc)
					}
				}
				skips := false
				for len(work) > 0 && !skips {
					b := work[len(work)-1]
					work = work[:len(work)-1]
					if seen[b] {
						continue
					}
					seen[b] = true
					for _, sc := range b.Succs {
						switch {
						case sc == loop.header:
							skips = true
						case sc == db || !loop.body[sc]:
						default:
							work = append(work, sc)
						}
					}
				}
				if skips && loop.header != db {
					problems = append(problems, "some iteration of the element loop goes round the child schema (a `continue` before the dispatch): that element is neither tested nor defaulted nor reported as required")
				}
			}
			wantIdx := 2
			if R.Dispatch[fn] == "validate" {
				wantIdx = 1
			}
			if nIndex < wantIdx {
				problems = append(problems, fmt.Sprintf("%d reflect Index selections in the element loop (expected %d)", nIndex, wantIdx))
			}
			if !sprintfOK {
				problems = append(problems, "the path segment of an element is not \"[i]\" of the same loop variable")
			}
			if R.Dispatch[fn] == "process" && lenRecv != nil {
				// destination allocation MakeSlice(t, n, n) with n = src.Len()
				okAlloc := false
				allocBlocks := map[*ssa.BasicBlock]bool{}
				nDestSets := 0
				for _, w := range P.writeSites(fn) {
					if w.viaReflect && w.what == "reflect.Set" && !loop.body[w.in.Block()] {
						nDestSets++
					}
				}
				eachInstr(fn, func(bb *ssa.BasicBlock, _ int, in ssa.Instruction) {
					c2, ok := in.(*ssa.Call)
					if !ok {
						return
					}
					ci := callOf(c2)
					if ci.static != nil && isPkgFunc(ci.static, "reflect") && ci.static.Name() == "MakeSlice" && len(c2.Call.Args) == 3 {
						l1, ok1 := c2.Call.Args[1].(*ssa.Call)
						l2, ok2 := c2.Call.Args[2].(*ssa.Call)
						if ok1 && ok2 && callOf(l1).static != nil && callOf(l1).static.Name() == "Len" && callOf(l2).static != nil && callOf(l2).static.Name() == "Len" &&
							cv(l1.Call.Args[0]) == cv(lenRecv) && cv(l2.Call.Args[0]) == cv(lenRecv) {
							okAlloc = true
							allocBlocks[bb] = true
						}
					}
				})
				if !okAlloc {
					problems = append(problems, "the destination slice is not allocated with len == cap == source length")
				} else {
					// every path into the element loop must perform that allocation, and it must be the only way the destination is set
					for _, pred := range loop.header.Preds {
						if loop.body[pred] {
							continue
						}
						if !allocBlocks[pred] {
							dom := false
							for ab := range allocBlocks {
								if ab.Dominates(pred) {
									dom = true
								}
							}
							if !dom {
								problems = append(problems, "some path reaches the element loop without allocating a fresh destination slice: elements the schema does not write keep what the destination held before")
							}
						}
					}
					if nDestSets > 1 {
						problems = append(problems, fmt.Sprintf("the destination slice is set in %d places before the element loop (expected exactly one fresh allocation)", nDestSets))
					}
				}
			}
		}
		if len(problems) > 0 {
			r.bad("C03/index-agreement", c, P.ipos(disp), strings.Join(uniqSorted(problems), "; "))
		} else {
			r.ok("C03/index-agreement", c, P.ipos(disp), "source[i] -> destination[i] at path [i], i = 0..len-1")
		}
	}
	r.floor("C03/index-agreement", 1)
}

// sliceLitHas: variadic []any{..} holding (an interface of) v.
func sliceLitHas(sl ssa.Value, v ssa.Value) bool {
	s, ok := sl.(*ssa.Slice)
	if !ok {
		return false
	}
	al, ok := s.X.(*ssa.Alloc)
	if !ok || al.Referrers() == nil {
		return false
	}
	for _, rf := range *al.Referrers() {
		if ia, ok := rf.(*ssa.IndexAddr); ok && ia.Referrers() != nil {
			for _, u := range *ia.Referrers() {
				if st, ok := u.(*ssa.Store); ok && cvi(st.Val) == v {
					return true
				}
			}
		}
	}
	return false
}

func (P *Prog) checkStructWritesByField(r *Result) {
	R := P.roles
	for _, fn := range []*ssa.Function{R.Process["StructSchema"], R.Validate["StructSchema"]} {
		if fn == nil {
			continue
		}
		r.sawFunc(fname(fn))
		// reflect.Value of the destination struct: reflect.ValueOf(ctx.ValPtr).Elem()
		// (in the node method or in a helper it shares with its twin: `v.eachField(ctx, step, source)`)
		var structVals []ssa.Value
		var bad []string
		fieldSel := 0
		for _, u := range P.nodeUnits(fn) {
			u.with(func() {
				eachInstr(u.fn, func(_ *ssa.BasicBlock, _ int, in ssa.Instruction) {
					c, ok := in.(*ssa.Call)
					if !ok {
						return
					}
					ci := callOf(c)
					if ci.static != nil && isPkgFunc(ci.static, "reflect") && ci.static.Name() == "Elem" {
						if c2, ok := c.Call.Args[0].(*ssa.Call); ok && callOf(c2).static != nil && callOf(c2).static.Name() == "ValueOf" {
							if _, f := loadOfField(cv(c2.Call.Args[0])); f != nil && sameField(f, R.FValPtr) {
								structVals = append(structVals, c)
							}
						}
					}
				})
			})
		}
		for _, u := range P.nodeUnits(fn) {
			for _, w := range P.writeSites(u.fn) {
				if !w.viaReflect {
					continue
				}
				for _, sv := range structVals {
					if cv(w.target) == sv {
						bad = append(bad, fmt.Sprintf("%s on the whole destination struct at %s", w.what, P.ipos(w.in)))
					}
				}
			}
		}
		// field selection must be by this iteration's schema key: Value.FieldByName(k), or Value.FieldByIndex /
		// Field with an index taken from Type().FieldByName(k) in the same iteration, where k is computed purely
		// from the loop key (capitalisation, a helper) — never read from a cache or another object
		for _, lr := range P.schemaLoopRegions(fn) {
			lr := lr
			lr.each(func(_ *regionPart, _ *ssa.BasicBlock, in ssa.Instruction) {
				c, ok := in.(*ssa.Call)
				if !ok {
					return
				}
				ci := callOf(c)
				if ci.static == nil || !isPkgFunc(ci.static, "reflect") || len(c.Call.Args) != 2 {
					return
				}
				switch ci.static.Name() {
				case "FieldByName", "FieldByIndex", "Field":
					if pureFromKey(c.Call.Args[1], lr.loop.key, 12) {
						fieldSel++
					} else {
						bad = append(bad, fmt.Sprintf("the field selected at %s is not determined by this iteration's schema key alone (a cached or foreign index can name another field)", P.ipos(in)))
					}
				}
			})
		}
		if len(structVals) == 0 {
			bad = append(bad, "destination struct value (reflect.ValueOf(ctx.ValPtr).Elem()) not found")
		}
		if fieldSel == 0 {
			bad = append(bad, "fields are not addressed by name inside the schema loop")
		}
		if len(bad) > 0 {
			r.bad("C03/struct-writes-by-field", fname(fn), P.pos(fn.Pos()), strings.Join(bad, "; "))
		} else {
			r.ok("C03/struct-writes-by-field", fname(fn), P.pos(fn.Pos()), fmt.Sprintf("no reflect write on the whole struct; %d by-name field selection(s) in the schema loop", fieldSel))
		}
	}
	r.floor("C03/struct-writes-by-field", 1)
}

// checkPointerAlloc: PointerSchema.process allocates only when the destination
// pointer is nil, and hands the (possibly new) pointee to the child.
func (P *Prog) checkPointerAlloc(r *Result) {
	R := P.roles
	fn := R.Process["PointerSchema"]
	if fn == nil {
		r.undecided("C03/pointer-alloc", "PointerSchema.process", "-", "method not found")
		return
	}
	r.sawFunc(fname(fn))
	var problems []string
	nSet := 0
	var sites []writeSite
	for _, u := range P.nodeUnits(fn) {
		sites = append(sites, P.writeSites(u.fn)...) // also in a helper such as `allocIfNil(ptr)`
	}
	for _, w := range sites {
		if !w.viaReflect || w.what != "reflect.Set" {
			continue
		}
		nSet++
		// value must be reflect.New(...)
		args := callOf(w.in).args()
		isNew := false
		if c, ok := cv(args[1]).(*ssa.Call); ok {
			if ci := callOf(c); ci.static != nil && isPkgFunc(ci.static, "reflect") && ci.static.Name() == "New" {
				isNew = true
			}
		}
		if !isNew {
			problems = append(problems, "the destination pointer is set to something other than a fresh reflect.New at "+P.ipos(w.in))
		}
		// guarded by IsNil() true
		guarded := false
		for _, gd := range guardsOf(w.in.Block()) {
			if c, ok := gd.If.Cond.(*ssa.Call); ok {
				if ci := callOf(c); ci.static != nil && ci.static.Name() == "IsNil" && gd.True && cv(c.Call.Args[0]) == cv(w.target) {
					guarded = true
				}
			}
		}
		if !guarded {
			problems = append(problems, "the destination pointer is overwritten even when it already points to a value ("+P.ipos(w.in)+")")
		}
	}
	if nSet == 0 {
		problems = append(problems, "a nil destination pointer is never allocated for a present input")
	}
	// the allocation must happen after the absent check: not reachable on the isZero path
	if len(problems) > 0 {
		r.bad("C03/pointer-alloc", fname(fn), P.pos(fn.Pos()), strings.Join(problems, "; "))
	} else {
		r.ok("C03/pointer-alloc", fname(fn), P.pos(fn.Pos()), "allocates reflect.New only when the destination pointer is nil")
	}
	r.floor("C03/pointer-alloc", 1)
}

// ---------------------------------------------------------------------
// C03/coercion-table: which operation each default coercer applies to each
// input type. The success paths of every coercer are rendered as
// "<input type> | <value conditions> ⇒ <result>" (3.5) and compared with the
// table frozen from the documentation. This decides the documented coercion at
// the level of *which library operation is applied to which input type under
// which condition*; the semantics of strconv/time/fmt themselves are trusted.
// ---------------------------------------------------------------------

var coercionTable = map[string][]string{
	"zog/conf.DefaultCoercers.Bool(func)": {
		`bool |  ⇒ val.(bool)`,
		`string | (val.(string) == "on") ⇒ true`,
		`string | (val.(string) != "on") ∧ (val.(string) == "off") ⇒ false`,
		`string | (val.(string) != "on") ∧ (val.(string) != "off") ∧ (strconv.ParseBool(val.(string))#1 == nil) ⇒ strconv.ParseBool(val.(string))#0`,
		`int | (val.(int) == 0) ⇒ false`,
		`int | (val.(int) != 0) ∧ (val.(int) == 1) ⇒ true`,
	},
	"zog/conf.DefaultCoercers.String(func)": {
		`string |  ⇒ val.(string)`,
		`any |  ⇒ fmt.Sprintf("%v", [val])`,
	},
	"zog/conf.DefaultCoercers.Int(func)": {
		`int |  ⇒ val.(int)`,
		`int64 | (int64(int(val.(int64))) == val.(int64)) ⇒ int(val.(int64))`,
		`int32 |  ⇒ int(val.(int32))`,
		`string | (strconv.Atoi(val.(string))#1 == nil) ⇒ strconv.Atoi(val.(string))#0`,
		`float64 | (math.Trunc(val.(float64)) >= MININT) ∧ (math.Trunc(val.(float64)) < -MININT) ⇒ int(math.Trunc(val.(float64)))`,
		`bool | val.(bool) ⇒ 1`,
		`bool | !val.(bool) ⇒ 0`,
	},
	"zog/conf.DefaultCoercers.Float64(func)": {
		`int |  ⇒ float64(val.(int))`,
		`string | (strconv.ParseFloat(val.(string), 64)#1 == nil) ⇒ strconv.ParseFloat(val.(string), 64)#0`,
		`float64 |  ⇒ val.(float64)`,
		`float32 |  ⇒ float64(val.(float32))`,
	},
	"zog/conf.DefaultCoercers.Slice(func)": {
		`any | (reflect.TypeOf(val).Kind() == 23) ⇒ val`,
		`any | (reflect.TypeOf(val).Kind() != 23) ⇒ [val]`,
	},
	"zog/conf.TimeCoercerFactory$1": {
		`time.Time |  ⇒ val.(time.Time)`,
		`string | (call $0(val.(string))#1 == nil) ⇒ call $0(val.(string))#0`,
		`int |  ⇒ time.Unix(int64(val.(int)), 0)`,
		`int64 |  ⇒ time.Unix(val.(int64), 0)`,
	},
	"zog/conf.init$TIME-DEFAULT-FORMAT": {
		`any |  ⇒ time.Parse("2006-01-02T15:04:05Z07:00", val)`,
	},
	"(zog.TimeFunc).Format$1": {
		`any |  ⇒ time.Parse($0, val)`,
	},
	"zog.Int32$1": {
		`int | (call @Coercers.Int(val)#1 == nil) ∧ (call @Coercers.Int(val)#0.(int) >= -2147483648) ∧ (call @Coercers.Int(val)#0.(int) <= 2147483647) ⇒ int32(call @Coercers.Int(val)#0.(int))`,
		`any | (call @Coercers.Int(val)#1 == nil) ⇒ call @Coercers.Int(val)#0`,
	},
	"zog.Int64$1": {
		`int | (call @Coercers.Int(val)#1 == nil) ⇒ int64(call @Coercers.Int(val)#0.(int))`,
		`any | (call @Coercers.Int(val)#1 == nil) ⇒ call @Coercers.Int(val)#0`,
	},
	"zog.Float32$1": {
		`float64 | (call @Coercers.Float64(val)#1 == nil) ∧ (call @Coercers.Float64(val)#0.(float64) <= 340282346638528859811704183484516925440) ∧ (call @Coercers.Float64(val)#0.(float64) >= -340282346638528859811704183484516925440) ⇒ float32(call @Coercers.Float64(val)#0.(float64))`,
		`any | (call @Coercers.Float64(val)#1 == nil) ⇒ call @Coercers.Float64(val)#0`,
	},
}

// storedCoercer: the coercer a kind constructor stores into the schema it builds: the closure (or
// function), and — when it comes from a closure factory such as a generic `narrowingCoercer(wide, narrow)` —
// the binding of the factory's parameters and type parameters at that call.
func (P *Prog) storedCoercer(ctor *ssa.Function) (cl *ssa.Function, env map[ssa.Value]ssa.Value, targs map[string]types.Type) {
	if ctor == nil {
		return nil, nil, nil
	}
	var stored ssa.Value
	eachInstr(ctor, func(_ *ssa.BasicBlock, _ int, in ssa.Instruction) {
		if st, ok := in.(*ssa.Store); ok {
			if _, f := fieldVar(st.Addr); f != nil && P.roleName(f) == "coercer" && P.roles.kindFieldSet[f.Origin()] != nil {
				stored = st.Val
			}
		}
	})
	if stored == nil {
		// the constructor hands its coercer to a shared builder (`newNumberSchema[T](coerceFloat32, opts)`) that stores
		// that parameter into the coercer field
		eachInstr(ctor, func(_ *ssa.BasicBlock, _ int, in ssa.Instruction) {
			c, ok := in.(*ssa.Call)
			if !ok || stored != nil {
				return
			}
			g := callOf(c).static
			if g == nil || g.Blocks == nil || !inModule(funcPkgPath(g)) {
				return
			}
			eachInstr(g, func(_ *ssa.BasicBlock, _ int, in2 ssa.Instruction) {
				st, ok := in2.(*ssa.Store)
				if !ok {
					return
				}
				if _, f := fieldVar(st.Addr); f == nil || P.roleName(f) != "coercer" || P.roles.kindFieldSet[f.Origin()] == nil {
					return
				}
				for k, prm := range g.Params {
					if cvi(st.Val) == ssa.Value(prm) && k < len(c.Call.Args) {
						stored = c.Call.Args[k]
					}
				}
			})
		})
	}
	if stored == nil {
		return nil, nil, nil
	}
	switch x := cvi(stored).(type) {
	case *ssa.MakeClosure:
		f, _ := x.Fn.(*ssa.Function)
		return f, nil, nil
	case *ssa.Function:
		return x, nil, nil
	case *ssa.Call:
		fac := callOf(x).static
		if fac == nil || fac.Blocks == nil || !inModule(funcPkgPath(fac)) {
			return nil, nil, nil
		}
		var made *ssa.MakeClosure
		nRet := 0
		eachInstr(fac, func(_ *ssa.BasicBlock, _ int, in ssa.Instruction) {
			if rt, ok := in.(*ssa.Return); ok && len(rt.Results) == 1 {
				nRet++
				if m, ok := cvi(rt.Results[0]).(*ssa.MakeClosure); ok {
					made = m
				}
			}
		})
		if made == nil || nRet != 1 {
			return nil, nil, nil
		}
		env = map[ssa.Value]ssa.Value{}
		for k, prm := range fac.Params {
			if k < len(x.Call.Args) {
				env[prm] = x.Call.Args[k]
			}
		}
		targs = map[string]types.Type{}
		if inst := x.Call.StaticCallee(); inst != nil {
			tps := fac.TypeParams()
			tas := inst.TypeArgs()
			for i := 0; tps != nil && i < tps.Len() && i < len(tas); i++ {
				targs[tps.At(i).Obj().Name()] = tas[i]
			}
		}
		f, _ := made.Fn.(*ssa.Function)
		return f, env, targs
	}
	return nil, nil, nil
}

// coercionRows renders the success paths of a coercer.
func (P *Prog) coercionRows(fn *ssa.Function) ([]string, []string) {
	return P.coercionRowsEnv(fn, nil, nil)
}

func (P *Prog) coercionRowsEnv(fn *ssa.Function, env map[ssa.Value]ssa.Value, targs map[string]types.Type) ([]string, []string) {
	var sh predShape
	if len(env) == 0 && len(targs) == 0 {
		sh = P.predicateShape(fn)
	} else {
		sh = P.predicateShape3(fn, env, nil, targs)
	}
	if len(sh.problems) > 0 {
		return nil, sh.problems
	}
	var rows []string
	for _, p := range sh.paths {
		ret := p.ret
		if strings.HasPrefix(ret, "(nil, ") {
			continue // error path
		}
		val := ret
		if strings.HasPrefix(ret, "(") && strings.HasSuffix(ret, "#1)") {
			// `return f(x)` passing a (value, error) pair through
			inner := strings.TrimSuffix(strings.TrimPrefix(ret, "("), "#1)")
			if i := strings.Index(inner, "#0, "); i >= 0 && inner[:i] == inner[i+4:] {
				val = inner[:i]
			}
		} else if strings.HasPrefix(ret, "(") && strings.HasSuffix(ret, ", nil)") {
			val = strings.TrimSuffix(strings.TrimPrefix(ret, "("), ", nil)")
		} else if strings.HasPrefix(ret, "(nil, ") {
			continue
		}
		typ := "any"
		var conds []string
		for _, a := range p.conds {
			if strings.HasPrefix(a, "!ok(") {
				continue
			}
			if strings.HasPrefix(a, "ok(") {
				// ok(x.(T)) : the input type is the last positive assertion
				inner := strings.TrimSuffix(strings.TrimPrefix(a, "ok("), ")")
				if i := strings.LastIndex(inner, ".("); i >= 0 {
					typ = strings.TrimSuffix(inner[i+2:], ")")
				}
				continue
			}
			conds = append(conds, a)
		}
		rows = append(rows, fmt.Sprintf("%s | %s ⇒ %s", typ, strings.Join(conds, " ∧ "), val))
	}
	for i := range rows {
		rows[i] = normaliseCoercionRow(P, rows[i])
	}
	sort.Strings(rows)
	return uniq(rows), nil
}

func normaliseCoercionRow(P *Prog, s string) string {
	// variadic argument lists print as an unnamed slice literal
	s = strings.ReplaceAll(s, "?*ssa.Slice", "[val]")
	// the platform's int bounds
	min := "-9223372036854775808"
	if P.Sizes != nil && P.Sizes.Sizeof(types.Typ[types.Int]) == 4 {
		min = "-2147483648"
	}
	s = strings.ReplaceAll(s, "< "+strings.TrimPrefix(min, "-")+")", "< -MININT)")
	s = strings.ReplaceAll(s, ">= "+min+")", ">= MININT)")
	return s
}

func (P *Prog) checkCoercionTable(r *Result, rule string) {
	// locate the closure passed to TimeCoercerFactory for the default Time coercer
	find := func(key string) *ssa.Function {
		if key == "zog/conf.init$TIME-DEFAULT-FORMAT" {
			var out *ssa.Function
			for _, fn := range P.Funcs {
				if fn.Synthetic != "package initializer" || funcPkgPath(fn) != pkgConf {
					continue
				}
				eachInstr(fn, func(_ *ssa.BasicBlock, _ int, in ssa.Instruction) {
					ci := callOf(in)
					if ci != nil && ci.static != nil && ci.static.Name() == "TimeCoercerFactory" && len(ci.args()) == 1 {
						switch a := ci.args()[0].(type) {
						case *ssa.Function:
							out = a
						case *ssa.MakeClosure:
							out = a.Fn.(*ssa.Function)
						}
					}
				})
			}
			return out
		}
		return P.fn(key)
	}
	for _, key := range sortedKeys(coercionTable) {
		fn := find(key)
		var env map[ssa.Value]ssa.Value
		var targs map[string]types.Type
		if ctor := P.fn(strings.TrimSuffix(key, "$1")); strings.HasSuffix(key, "$1") && ctor != nil {
			// the adapter coercers of the numeric kinds: whatever the constructor stores as its coercer
			// (a closure literal, or the product of a closure factory), not "its first closure"
			if f2, e2, t2 := P.storedCoercer(ctor); f2 != nil {
				fn, env, targs = f2, e2, t2
			}
		}
		c := key
		if fn == nil {
			r.undecided(rule, c, "-", "coercer function not found")
			continue
		}
		r.sawFunc(fname(fn))
		rows, probs := P.coercionRowsEnv(fn, env, targs)
		// a factory that is handed the *address* of a configured coercer (`narrowingCoercer(&conf.Coercers.Int, ...)`)
		// and calls `(*base)(data)`: that call is the call of the configured coercer, read when the coercer runs
		for prm, arg := range env {
			pp, isP := prm.(*ssa.Parameter)
			fa, isFA := arg.(*ssa.FieldAddr)
			if !isP || !isFA {
				continue
			}
			g, isG := fa.X.(*ssa.Global)
			_, f := fieldVar(fa)
			if !isG || f == nil {
				continue
			}
			for k, q := range pp.Parent().Params {
				if q == pp {
					for j := range rows {
						rows[j] = strings.ReplaceAll(rows[j], fmt.Sprintf("*$%d(", k), "@"+g.Name()+"."+f.Name()+"(")
					}
				}
			}
		}
		sort.Strings(rows)
		if len(probs) > 0 {
			r.undecided(rule, c, P.pos(fn.Pos()), "coercer has an unrecognised shape: "+strings.Join(probs, "; "))
			continue
		}
		want := append([]string{}, coercionTable[key]...)
		sort.Strings(want)
		var missing, extra []string
		have := map[string]bool{}
		for _, x := range rows {
			have[x] = true
		}
		wantSet := map[string]bool{}
		for _, x := range want {
			wantSet[x] = true
			if !have[x] {
				missing = append(missing, "documented but not implemented: "+x)
			}
		}
		for _, x := range rows {
			if !wantSet[x] {
				extra = append(extra, "implemented but not documented:  "+x)
			}
		}
		if len(missing)+len(extra) == 0 {
			r.ok(rule, c, P.pos(fn.Pos()), fmt.Sprintf("%d success path(s) = the documented coercion table", len(rows)), rows...)
		} else {
			r.bad(rule, c, P.pos(fn.Pos()), "the coercer does not apply the documented operation to each input type (input type | conditions ⇒ result)", append(missing, extra...)...)
		}
	}
	r.floor(rule, 11)

	if rule == "C03/coercion-table" {
		P.checkCoercerResultTypes(r, "C03/coercer-result-type")
	}
}

// checkCoercerResultTypes: every success path of a default coercer returns the
// documented Go type (the pipeline asserts v.(T) unchecked).
func (P *Prog) checkCoercerResultTypes(r *Result, rule string) {
	wantType := map[string]string{
		"zog/conf.DefaultCoercers.Bool(func)": "bool", "zog/conf.DefaultCoercers.String(func)": "string",
		"zog/conf.DefaultCoercers.Int(func)": "int", "zog/conf.DefaultCoercers.Float64(func)": "float64",
		"zog/conf.TimeCoercerFactory$1": "time.Time",
	}
	for _, key := range sortedKeys(wantType) {
		fn := P.fn(key)
		if fn == nil {
			continue
		}
		var bad []string
		n := 0
		eachInstr(fn, func(_ *ssa.BasicBlock, _ int, in ssa.Instruction) {
			rt, ok := in.(*ssa.Return)
			if !ok || len(rt.Results) != 2 || !isNilConst(rt.Results[1]) {
				return
			}
			n++
			v := rt.Results[0]
			t := ""
			if mi, ok := v.(*ssa.MakeInterface); ok {
				t = typeStr(mi.X.Type())
			} else {
				t = "interface value of unknown dynamic type (" + shortName(v.String()) + ")"
			}
			if t != wantType[key] {
				bad = append(bad, fmt.Sprintf("returns %s at %s", t, P.ipos(in)))
			}
		})
		if len(bad) > 0 {
			r.bad(rule, key, P.pos(fn.Pos()), fmt.Sprintf("a success path of the default coercer does not return a %s: the pipeline's `v.(T)` panics or the adapters mis-handle it: %s", wantType[key], strings.Join(bad, "; ")))
		} else {
			r.ok(rule, key, P.pos(fn.Pos()), fmt.Sprintf("all %d success returns have static type %s", n, wantType[key]))
		}
	}
	r.floor(rule, 5)
}

// pureFromKey: v is computed from the loop key x by pure steps only (string operations, unexported
// helpers and strings/unicode functions applied to it, a reflect.Type.FieldByName lookup of it and the
// fields of that result) — no map or cache read, no field of another object. Values that travel inside a
// local struct (a `structField{name, meta}` returned by a resolving helper and handed to a method by value)
// are followed field by field.
func pureFromKey(v, x ssa.Value, depth int) bool {
	return pureFromKeyF(v, x, depth*3, nil)
}

// pureFromKeyF: the component of v selected by the field path (outermost first) is pure in x.
func pureFromKeyF(v, x ssa.Value, depth int, path []int) bool {
	if depth <= 0 || v == nil {
		return false
	}
	if v == x {
		return true
	}
	if substEnv != nil {
		if sv, ok := substEnv[v]; ok && sv != v {
			return pureFromKeyF(sv, x, depth-1, path)
		}
	}
	rec := func(w ssa.Value) bool { return pureFromKeyF(w, x, depth-1, path) }
	switch t := v.(type) {
	case *ssa.Const:
		return true
	case *ssa.UnOp:
		if t.Op != token.MUL {
			return rec(t.X)
		}
		switch a := t.X.(type) {
		case *ssa.Alloc:
			return pureAllocF(a, x, depth-1, path)
		case *ssa.FieldAddr:
			if al, ok := a.X.(*ssa.Alloc); ok {
				return pureAllocF(al, x, depth-1, append([]int{a.Field}, path...))
			}
			// a field of a nested local struct: &(&al.f).g
			if fa2, ok := a.X.(*ssa.FieldAddr); ok {
				if al, ok := fa2.X.(*ssa.Alloc); ok {
					return pureAllocF(al, x, depth-1, append([]int{fa2.Field, a.Field}, path...))
				}
			}
		}
		return false
	case *ssa.Field:
		return pureFromKeyF(t.X, x, depth-1, append([]int{t.Field}, path...))
	case *ssa.Phi:
		for _, e := range t.Edges {
			if !rec(e) {
				return false
			}
		}
		return true
	case *ssa.BinOp:
		return rec(t.X) && rec(t.Y)
	case *ssa.ChangeType:
		return rec(t.X)
	case *ssa.Convert:
		return rec(t.X)
	case *ssa.Slice:
		return rec(t.X)
	case *ssa.Index:
		if b, ok := t.X.Type().Underlying().(*types.Basic); ok && b.Info()&types.IsString != 0 {
			return rec(t.X)
		}
		return false
	case *ssa.Lookup:
		if b, ok := t.X.Type().Underlying().(*types.Basic); ok && b.Info()&types.IsString != 0 {
			return rec(t.X)
		}
		return false // a map read: a cache
	case *ssa.Extract:
		if c, ok := t.Tuple.(*ssa.Call); ok {
			if res, entered := pureHelperResult(c, t.Index, x, depth-1, path); entered {
				return res
			}
		}
		return rec(t.Tuple)
	case *ssa.Call:
		ci := callOf(t)
		switch {
		case ci.builtin != "":
			for _, a := range t.Call.Args {
				if !pureFromKeyF(a, x, depth-1, nil) {
					return false
				}
			}
			return true
		case ci.invoke != nil && ci.invoke.Name() == "FieldByName" && strings.HasSuffix(t.Call.Value.Type().String(), "reflect.Type"):
			return len(t.Call.Args) == 1 && pureFromKeyF(t.Call.Args[0], x, depth-1, nil)
		case ci.static != nil && formulaHelper(ci.static):
			// a module helper is entered: what it returns, under the binding of its parameters
			if res, entered := pureHelperResult(t, 0, x, depth-1, path); entered {
				return res
			}
			return false
		case ci.static != nil && (isPkgFunc(ci.static, "strings") || isPkgFunc(ci.static, "unicode") || isPkgFunc(ci.static, "unicode/utf8")):
			if len(t.Call.Args) == 0 {
				return false
			}
			for _, a := range t.Call.Args {
				if !pureFromKeyF(a, x, depth-1, nil) {
					return false
				}
			}
			return true
		}
	}
	return false
}

// pureAllocF: the component `path` of the local variable al is pure in x: every store that can
// define it (a store of the whole variable, or of the field the path starts with) stores a pure value;
// a component that is never stored is the zero value. The variable must not escape.
func pureAllocF(al *ssa.Alloc, x ssa.Value, depth int, path []int) bool {
	if depth <= 0 || al.Referrers() == nil {
		return false
	}
	n := 0
	var walk func(addr ssa.Value, rest []int) bool
	walk = func(addr ssa.Value, rest []int) bool {
		for _, rf := range *addr.Referrers() {
			switch u := rf.(type) {
			case *ssa.Store:
				if u.Addr != addr {
					return false // the address itself is stored somewhere
				}
				if ld, isLd := u.Val.(*ssa.UnOp); isLd && ld.Op == token.MUL && ld.X == addr {
					continue // `*t0 = *t0` (named results are copied onto themselves before a return)
				}
				n++
				if !pureFromKeyF(u.Val, x, depth-1, rest) {
					return false
				}
			case *ssa.FieldAddr:
				if len(rest) > 0 && u.Field != rest[0] {
					// another field: irrelevant, but it must not escape either
					if !addrOnlyLoadedOrStored(u) {
						return false
					}
					continue
				}
				if len(rest) == 0 {
					// the whole variable is wanted: every field store matters
					if !walk(u, nil) {
						return false
					}
					continue
				}
				if !walk(u, rest[1:]) {
					return false
				}
			case *ssa.UnOp, *ssa.DebugRef:
			default:
				return false
			}
		}
		return true
	}
	if !walk(al, path) {
		return false
	}
	return n > 0 || len(path) > 0
}

func addrOnlyLoadedOrStored(a ssa.Value) bool {
	for _, rf := range *a.Referrers() {
		switch u := rf.(type) {
		case *ssa.Store:
			if u.Addr != a {
				return false
			}
		case *ssa.UnOp, *ssa.DebugRef:
		case *ssa.FieldAddr:
			if !addrOnlyLoadedOrStored(u) {
				return false
			}
		default:
			return false
		}
	}
	return true
}

// pureHelperResult enters a module helper: result #idx of every return, under the binding of the
// helper's parameters to the call's arguments, must be pure in x.
func pureHelperResult(c *ssa.Call, idx int, x ssa.Value, depth int, path []int) (res, entered bool) {
	callee := callOf(c).static
	if callee == nil || !formulaHelper(callee) || depth <= 0 {
		return false, false
	}
	saved := substEnv
	env := map[ssa.Value]ssa.Value{}
	for k, v2 := range saved {
		env[k] = v2
	}
	for k, prm := range callee.Params {
		if k < len(c.Call.Args) {
			env[prm] = c.Call.Args[k]
		}
	}
	substEnv = env
	defer func() { substEnv = saved }()
	n, all := 0, true
	eachInstr(callee, func(_ *ssa.BasicBlock, _ int, in ssa.Instruction) {
		rt, ok := in.(*ssa.Return)
		if !ok {
			return
		}
		vals, ok := retVals(rt)
		if !ok {
			return
		}
		if idx >= len(vals) {
			all = false
			return
		}
		n++
		if !pureFromKeyF(vals[idx], x, depth-1, path) {
			all = false
		}
	})
	return n > 0 && all, true
}

// isIndexSegment: v is the path segment "[i]" of the loop variable iv: fmt.Sprintf("[%d]", iv),
// "[" + strconv.Itoa(iv) + "]" (or FormatInt(int64(iv), 10)), or the result of a module helper that returns such an
// expression of its parameter, called with iv.
func isIndexSegment(v, iv ssa.Value, depth int) bool {
	if depth > 2 {
		return false
	}
	isIV := func(a ssa.Value) bool {
		a = cv(a)
		if cvt, ok := a.(*ssa.Convert); ok {
			a = cv(cvt.X)
		}
		return a == iv || cv(a) == cv(iv)
	}
	switch x := v.(type) {
	case *ssa.BinOp:
		if x.Op != token.ADD {
			return false
		}
		rs, okR := constString(x.Y)
		inner, okI := x.X.(*ssa.BinOp)
		if !okR || rs != "]" || !okI || inner.Op != token.ADD {
			return false
		}
		ls, okL := constString(inner.X)
		cnv, okC := inner.Y.(*ssa.Call)
		if !okL || ls != "[" || !okC {
			return false
		}
		cc := callOf(cnv)
		if cc.static == nil {
			return false
		}
		switch cc.static.String() {
		case "strconv.Itoa":
			return isIV(cnv.Call.Args[0])
		case "strconv.FormatInt":
			k, okK := constInt(cnv.Call.Args[1])
			return okK && k == 10 && isIV(cnv.Call.Args[0])
		}
		return false
	case *ssa.Call:
		cc := callOf(x)
		if cc.static == nil {
			return false
		}
		if cc.static.String() == "fmt.Sprintf" {
			s, ok := constString(x.Call.Args[0])
			return ok && s == "[%d]" && sliceLitHas(x.Call.Args[1], iv)
		}
		if !formulaHelper(cc.static) && !(cc.static.Blocks != nil && inModule(funcPkgPath(cc.static))) {
			return false
		}
		// a helper: every return is the segment of the parameter that receives iv
		callee := cc.static
		saved := substEnv
		substEnv = map[ssa.Value]ssa.Value{}
		for k, v2 := range saved {
			substEnv[k] = v2
		}
		for k, prm := range callee.Params {
			if k < len(x.Call.Args) {
				substEnv[prm] = x.Call.Args[k]
			}
		}
		defer func() { substEnv = saved }()
		n, all := 0, true
		eachInstr(callee, func(_ *ssa.BasicBlock, _ int, in ssa.Instruction) {
			if rt, ok := in.(*ssa.Return); ok && len(rt.Results) == 1 {
				n++
				if !isIndexSegment(rt.Results[0], iv, depth+1) {
					all = false
				}
			}
		})
		return n > 0 && all
	}
	return false
}

// checkFieldNameRule: a schema key names the destination field whose name is the key with an initial ASCII
// lower-case letter turned into upper case ("name" -> Name, "zip" -> Zip, "Name" -> Name). In the code units of the
// struct node, both modes, the subtraction of 32 from the key's first byte happens exactly when that byte is in
// 'a'..'z': the comparisons that guard it are evaluated on all 256 byte values. A range that leaves out 'a' or 'z'
// makes every key starting with that letter miss its field (the node panics "missing expected schema key").
func (P *Prog) checkFieldNameRule(r *Result, rule string) {
	R := P.roles
	firstByteOf := func(v ssa.Value) ssa.Value {
		v = cv(v)
		if c, ok := v.(*ssa.Convert); ok {
			v = cv(c.X)
		}
		// s[0] of a string is an ssa.Index (an ssa.Lookup in older forms of the IR)
		var x, idx ssa.Value
		switch lk := v.(type) {
		case *ssa.Index:
			x, idx = lk.X, lk.Index
		case *ssa.Lookup:
			x, idx = lk.X, lk.Index
		default:
			return nil
		}
		if b, isB := x.Type().Underlying().(*types.Basic); !isB || b.Info()&types.IsString == 0 {
			return nil
		}
		if k, isK := constInt(idx); !isK || k != 0 {
			return nil
		}
		return cv(x)
	}
	for _, mode := range []struct {
		name string
		fn   *ssa.Function
	}{{"process", R.Process["StructSchema"]}, {"validate", R.Validate["StructSchema"]}} {
		if mode.fn == nil {
			r.undecided(rule, "StructSchema."+mode.name, "-", "method not found")
			continue
		}
		n := 0
		var problems []string
		for _, u := range P.allUnits(mode.fn) {
			u := u
			u.with(func() {
				eachInstr(u.fn, func(b *ssa.BasicBlock, _ int, in ssa.Instruction) {
					// the upper-casing site: `key[0] - 32`, or strings.ToUpper of the key's first byte (`key[:1]`),
					// which under the same guard is the same byte
					var str ssa.Value
					switch x := in.(type) {
					case *ssa.BinOp:
						if x.Op != token.SUB {
							return
						}
						if k, isK := constInt(x.Y); !isK || k != 32 {
							return
						}
						str = firstByteOf(x.X)
					case *ssa.Call:
						ci := callOf(x)
						if ci.static == nil || len(x.Call.Args) != 1 {
							return
						}
						switch ci.static.String() {
						case "strings.ToUpper":
							arg := cv(x.Call.Args[0])
							if sl, ok := arg.(*ssa.Slice); ok {
								if hi, isK := constInt(sl.High); isK && hi == 1 {
									if lo, isL := constInt(sl.Low); sl.Low == nil || (isL && lo == 0) {
										if bt, isB := sl.X.Type().Underlying().(*types.Basic); isB && bt.Info()&types.IsString != 0 {
											str = cv(sl.X)
										}
									}
								}
							} else if cvt, ok := arg.(*ssa.Convert); ok {
								str = firstByteOf(cvt.X)
							}
						case "unicode.ToUpper":
							str = firstByteOf(x.Call.Args[0])
						}
					default:
						return
					}
					if str == nil {
						return
					}
					n++
					// the byte values for which every guard on the way here holds
					accepted := 0
					lo, hi := -1, -1
					for bv := int64(0); bv < 256; bv++ {
						all, known := true, false
						for _, gd := range guardsOf(b) {
							cmp, ok := cv(gd.If.Cond).(*ssa.BinOp)
							if !ok {
								continue
							}
							var k int64
							var isK bool
							var op token.Token
							switch {
							case firstByteOf(cmp.X) == str:
								k, isK = constInt(cmp.Y)
								op = cmp.Op
							case firstByteOf(cmp.Y) == str:
								k, isK = constInt(cmp.X)
								// mirror the operator: k OP byte
								op = map[token.Token]token.Token{token.LSS: token.GTR, token.LEQ: token.GEQ, token.GTR: token.LSS, token.GEQ: token.LEQ, token.EQL: token.EQL, token.NEQ: token.NEQ}[cmp.Op]
							default:
								continue
							}
							if !isK {
								continue
							}
							known = true
							var holds bool
							switch op {
							case token.LSS:
								holds = bv < k
							case token.LEQ:
								holds = bv <= k
							case token.GTR:
								holds = bv > k
							case token.GEQ:
								holds = bv >= k
							case token.EQL:
								holds = bv == k
							case token.NEQ:
								holds = bv != k
							}
							if holds != gd.True {
								all = false
							}
						}
						if known && all {
							accepted++
							if lo < 0 {
								lo = int(bv)
							}
							hi = int(bv)
						}
					}
					if accepted != 26 || lo != 'a' || hi != 'z' {
						problems = append(problems, fmt.Sprintf("the first byte of the key is turned to upper case for %d byte values, %d..%d, instead of exactly 'a'..'z' (97..122) at %s", accepted, lo, hi, P.ipos(in)))
					}
				})
			})
		}
		c := "StructSchema." + mode.name
		switch {
		case n == 0:
			r.undecided(rule, c, P.pos(mode.fn.Pos()), "no `key[0] - 32` found in the struct node's code: the rule that maps a schema key to its field name is written in a form this rule does not know")
		case len(problems) > 0:
			r.bad(rule, c, P.pos(mode.fn.Pos()), strings.Join(uniqSorted(problems), "; "))
		default:
			r.ok(rule, c, P.pos(mode.fn.Pos()), "key[0] is turned to upper case exactly when it is in 'a'..'z'")
		}
	}
	r.floor(rule, 2)
}
