package main

import (
	"fmt"
	"go/types"
	"os"
	"sort"
	"strings"

	"golang.org/x/tools/go/ssa"
)

func init() {
	register("C08", checkC08)
	register("C19", checkC19)
}

func checkC08(P *Prog, r *Result) {
	r.Explanation = "Decides race freedom of library-owned state by construction: every write instruction (stores, map updates, append/copy/delete, reflect setters, known std mutators) " +
		"in every function reachable from Parse/Validate and the front ends is classified by the owner of the memory it modifies (address-root walk through fields, loads, " +
		"closure captures, call results and call-site actuals); writes may only touch memory local to the call, per-call pooled objects, or the caller's destination. " +
		"Also: no goroutine/channel/lock use in execution code, pooled objects are never stored into schema/global memory, and pooled objects have a single owner (C07/release). " +
		"It does not decide that concurrent results equal sequential ones at run time, nor races with configuration writes or inside user callbacks."
	r.Assumptions = []string{
		"std-library calls other than the modelled mutators (reflect setters, maps.Copy, sort/slices sorters, copy/append/delete/clear) do not write through their arguments",
		"configuration globals (conf.IssueFormatter, conf.Coercers, zhttp.Config) are written only at start-up, as documented",
	}
	g := P.buildModCG()
	E := P.execSet(g)
	fns := sortedFuncs(E)
	P.checkEffectsRule(r, g, "C08/write-effects", fns, map[memClass]string{
		mcSchema:  "schema objects are shared between goroutines",
		mcGlobal:  "package-level variables are shared between goroutines",
		mcFreeVar: "closure captures live as long as the schema and are shared between goroutines",
	})
	r.floor("C08/write-effects", 80)

	// no-go: no goroutines, channels, or sync primitives other than Pool.Get/Put
	nGo := 0
	for _, fn := range fns {
		var bad []string
		eachInstr(fn, func(_ *ssa.BasicBlock, _ int, in ssa.Instruction) {
			switch x := in.(type) {
			case *ssa.Go:
				bad = append(bad, "go statement at "+P.ipos(in))
			case *ssa.Send, *ssa.Select:
				bad = append(bad, "channel operation at "+P.ipos(in))
			case *ssa.UnOp:
				if x.Op.String() == "<-" {
					bad = append(bad, "channel receive at "+P.ipos(in))
				}
			default:
				if ci := callOf(in); ci != nil && ci.static != nil && (isPkgFunc(ci.static, "sync") || isPkgFunc(ci.static, "sync/atomic")) {
					if !isSyncPoolMethod(ci, "Get") && !isSyncPoolMethod(ci, "Put") {
						bad = append(bad, "sync call "+ci.static.String()+" at "+P.ipos(in))
					}
				}
			}
		})
		nGo++
		if len(bad) > 0 {
			r.bad("C08/no-go", fname(fn), P.pos(fn.Pos()), "execution code starts goroutines or synchronises: "+strings.Join(bad, "; "))
		} else {
			r.ok("C08/no-go", fname(fn), P.pos(fn.Pos()), "no go/channel/sync use")
		}
	}
	r.floor("C08/no-go", 80)

	// single-owner: a pooled object is only ever stored into local or per-call memory
	for _, fn := range fns {
		eachInstr(fn, func(_ *ssa.BasicBlock, _ int, in ssa.Instruction) {
			var val, target ssa.Value
			switch x := in.(type) {
			case *ssa.Store:
				val, target = x.Val, x.Addr
			case *ssa.MapUpdate:
				val, target = x.Value, x.Map
			default:
				return
			}
			if !P.isPooledType(cvi(val).Type()) {
				return
			}
			if _, isPtr := cvi(val).Type().Underlying().(*types.Pointer); !isPtr {
				return
			}
			c := fmt.Sprintf("%s#store:%s", fname(fn), typeStr(cvi(val).Type()))
			var bad []string
			for _, rt := range P.rootsOf(target) {
				if _, isMU := in.(*ssa.MapUpdate); isMU {
					rt = rt.with(step{load: true})
				}
				for _, cl := range P.resolveUnknownParam(g, P.classifyIn(fn, rt), 0, map[*ssa.Parameter]bool{}) {
					switch cl.class {
					case mcSchema, mcGlobal, mcFreeVar, mcInput:
						bad = append(bad, fmt.Sprintf("%s memory [%s]", cl.class, cl.rt))
					}
				}
			}
			if len(bad) > 0 {
				r.bad("C08/single-owner", c, P.ipos(in), "a recycled per-call object is stored into shared memory and outlives its execution: "+strings.Join(uniqSorted(bad), "; "))
			} else {
				r.ok("C08/single-owner", c, P.ipos(in), "pooled object stored only into local/per-call memory")
			}
		})
	}
	r.floor("C08/single-owner", 4)
	// no package-level object of a per-call pooled type (an issue shared by every execution that receives it)
	tmpG := NewResult(r.Prop, r.Tier)
	P.checkNoGlobalPooledObject(tmpG)
	for _, o := range tmpG.Obls {
		o.Rule = "C08/no-global-pooled-object"
		r.Obls = append(r.Obls, o)
		r.Instances[o.Rule]++
	}
	P.checkReleaseInto(r, "C08/single-owner-release")
	P.checkReleaseMultiplicity(r, "C08/single-owner-multiplicity")

	// informational: globals read by execution code
	reads := map[string]bool{}
	for _, fn := range fns {
		eachInstr(fn, func(_ *ssa.BasicBlock, _ int, in ssa.Instruction) {
			var ops []*ssa.Value
			for _, op := range in.Operands(ops) {
				if g, ok := (*op).(*ssa.Global); ok && inModule(g.Pkg.Pkg.Path()) {
					reads[shortName(g.String())] = true
				}
			}
		})
	}
	var rl []string
	for k := range reads {
		rl = append(rl, k)
	}
	sort.Strings(rl)
	r.Extra["globals_read_by_execution_code"] = rl
	// who writes those globals outside initialisers
	writers := map[string][]string{}
	for _, fn := range P.Funcs {
		if E[fn] {
			continue
		}
		for _, w := range P.writeSites(fn) {
			for _, rt := range P.rootsOf(w.target) {
				if rt.kind == rkGlobal && reads[shortName(rt.v.String())] && fn.Synthetic == "" {
					writers[shortName(rt.v.String())] = append(writers[shortName(rt.v.String())], fname(fn))
				}
			}
		}
	}
	for k, v := range writers {
		r.info("global %s (read by execution code) is written by configuration function(s): %s", k, strings.Join(uniqSorted(v), ", "))
	}
}

func uniqSorted(s []string) []string {
	sort.Strings(s)
	return uniq(s)
}

// checkReleaseInto re-uses C07's release rule under another rule name.
func (P *Prog) checkReleaseInto(r *Result, rule string) {
	tmp := NewResult(r.Prop, r.Tier)
	P.checkRelease(tmp)
	for _, o := range tmp.Obls {
		o.Rule = rule
		r.Obls = append(r.Obls, o)
		r.Instances[rule]++
	}
	r.floor(rule, 40)
	for f := range tmp.FuncsSeen {
		r.sawFunc(f)
	}
}

func checkC19(P *Prog, r *Result) {
	R := P.roles
	r.Explanation = "Decides three structural clauses: (a) no write instruction in any function reachable from Parse/Validate modifies memory owned by the schema " +
		"(receiver fields, tests, Params maps, default/catch values, captured test parameters) or by the input data (SchemaCtx.Data, provider contents); " +
		"(b) no reference-typed value that derives from a schema field (e.g. a slice-valued Default) is stored into the destination without a copy; " +
		"(c) in Validate mode the destination is written only on default/catch paths (and Preprocess's documented assignment). " +
		"It does not decide deep-snapshot equality at run time nor aliasing introduced by user callbacks."
	r.Assumptions = []string{
		"std-library calls other than the modelled mutators do not write through their arguments (http.Request.ParseForm populating r.Form is net/http's documented behaviour and not counted as modifying input data)",
		"time.Time values are immutable (their *Location is never written)",
	}
	g := P.buildModCG()
	E := P.execSet(g)
	fns := sortedFuncs(E)
	P.checkEffectsRule(r, g, "C19/no-schema-or-input-writes", fns, map[memClass]string{
		mcSchema: "the schema must behave identically on every later use",
		mcInput:  "Parse must not modify the data it is given",
	})
	r.floor("C19/no-schema-or-input-writes", 80)

	// (b) default-not-aliased
	nb := 0
	for _, fn := range fns {
		for _, w := range P.writeSites(fn) {
			isDest := false
			for _, c := range P.classesOfWrite(w) {
				for _, cc := range P.resolveUnknownParam(g, c, 0, map[*ssa.Parameter]bool{}) {
					if cc.class == mcDest {
						isDest = true
					}
				}
			}
			if !isDest {
				continue
			}
			var val ssa.Value
			switch x := w.in.(type) {
			case *ssa.Store:
				val = x.Val
			case *ssa.MapUpdate:
				val = x.Value
			default:
				ci := callOf(w.in)
				if ci != nil && len(ci.args()) >= 2 && (strings.HasPrefix(w.what, "reflect.Set") && w.what != "reflect.SetLen" && w.what != "reflect.SetCap") {
					val = ci.args()[1]
				} else if ci != nil && ci.builtin == "append" && len(ci.args()) >= 2 {
					val = ci.args()[1]
				}
			}
			if val == nil {
				continue
			}
			nb++
			c := fmt.Sprintf("%s#%s", fname(fn), destWriteName(w))
			if !isRefLike(val.Type()) {
				r.ok("C19/default-not-aliased", c, P.ipos(w.in), "value stored into the destination has a value-only type ("+typeStr(val.Type())+")")
				continue
			}
			var bad []string
			if os.Getenv("ZOGCHECK_DEBUG") != "" {
				fmt.Println("DEBUG reflike", typeStr(val.Type()), debugRefLike(val.Type()))
			}
			for _, rt := range P.rootsOf(val) {
				for _, cl := range P.resolveUnknownParam(g, P.classifyIn(fn, rt), 0, map[*ssa.Parameter]bool{}) {
					if cl.class == mcSchema {
						bad = append(bad, cl.rt.String())
					}
				}
			}
			if len(bad) > 0 {
				r.bad("C19/default-not-aliased", c, P.ipos(w.in), "a reference-typed value owned by the schema is stored into the destination without a copy: mutating the destination mutates the schema: "+shortName(w.in.String()), uniqSorted(bad)...)
			} else {
				r.ok("C19/default-not-aliased", c, P.ipos(w.in), "stored reference does not derive from schema-owned memory")
			}
		}
	}
	r.floor("C19/default-not-aliased", 5)

	// (c) validate-mode destination writes only on default / catch paths
	var vfns []*ssa.Function
	for _, k := range sortedKeys(R.Validate) {
		vfns = append(vfns, R.Validate[k])
	}
	for _, pl := range R.Pipelines {
		if strings.Contains(strings.ToLower(pl.Name()), "validat") {
			vfns = append(vfns, pl)
		}
	}
	isRole := func(f *types.Var) bool {
		return f != nil && (P.roleName(f) == "defaultVal" || P.roleName(f) == "catch" || sameField(f, R.FCanCatch))
	}
	for _, fn := range vfns {
		all := []*ssa.Function{fn}
		all = append(all, fn.AnonFuncs...)
		nw := 0
		var bad []string
		for _, f := range all {
			for _, w := range P.writeSites(f) {
				isDest := false
				for _, c := range P.classesOfWrite(w) {
					for _, cc := range P.resolveUnknownParam(g, c, 0, map[*ssa.Parameter]bool{}) {
						if cc.class == mcDest {
							isDest = true
						}
					}
				}
				if !isDest {
					continue
				}
				nw++
				// allowed: guarded by a test of defaultVal / catch / CanCatch, or value derives from those
				okW := false
				for _, gd := range guardsOf(w.in.Block()) {
					if P.condMentionsRole(gd.If.Cond, isRole, fn) {
						okW = true
					}
				}
				if !okW && R.kindOfFunc(fn) == "PreprocessSchema" {
					okW = true // documented: Validate stores the preprocessed value
				}
				if !okW {
					bad = append(bad, fmt.Sprintf("%s at %s: %s", w.what, P.ipos(w.in), shortName(w.in.String())))
				}
			}
		}
		r.sawFunc(fname(fn))
		if len(bad) > 0 {
			r.bad("C19/validate-write-sites", fname(fn), P.pos(fn.Pos()), "Validate writes the validated value outside a default/catch path: "+strings.Join(bad, "; "))
		} else {
			r.ok("C19/validate-write-sites", fname(fn), P.pos(fn.Pos()), fmt.Sprintf("%d destination write(s), all under a default/catch guard", nw))
		}
	}
	r.floor("C19/validate-write-sites", 5)
	// a nil destination pointer gets a fresh allocation, never a pointer taken from the input (C03's rule):
	// otherwise defaults, coerced values and transform results are written into the caller's data
	shareRule(P, r, checkC03, "C03/pointer-alloc", nil, "C19/dest-not-aliased-to-input", 1)
}

func destWriteName(w writeSite) string {
	switch w.in.(type) {
	case *ssa.Store:
		return "store:" + typeStr(w.in.(*ssa.Store).Val.Type())
	}
	return w.what
}

// condMentionsRole: the branch condition is computed from a load of a role
// field (directly, through a parameter the dispatch methods bind to that
// field, or through a nil comparison).
func (P *Prog) condMentionsRole(cond ssa.Value, isRole func(*types.Var) bool, fn *ssa.Function) bool {
	seen := map[ssa.Value]bool{}
	var walk func(v ssa.Value, d int) bool
	walk = func(v ssa.Value, d int) bool {
		if v == nil || seen[v] || d > 8 {
			return false
		}
		seen[v] = true
		v = cv(v)
		if _, f := loadOfField(v); f != nil && isRole(f) {
			return true
		}
		switch x := v.(type) {
		case *ssa.BinOp:
			return walk(x.X, d+1) || walk(x.Y, d+1)
		case *ssa.UnOp:
			return walk(x.X, d+1)
		case *ssa.Phi:
			for _, e := range x.Edges {
				if walk(e, d+1) {
					return true
				}
			}
		case *ssa.Parameter:
			// parameters of the primitive pipelines bound to the role field at every call site
			if f := P.paramBoundField(x); f != nil && isRole(f) {
				return true
			}
		}
		return false
	}
	return walk(cond, 0)
}
