package main

import (
	"fmt"
	"go/token"
	"reflect"
	"go/types"
	"os"
	"sort"
	"strings"

	"golang.org/x/tools/go/ssa"
)

func init() {
	register("C08", checkC08)
	register("C19", checkC19)
}

func checkC08(P *Prog, r *Result) {
	r.Explanation = "Decides race freedom of library-owned state by construction: every write instruction (stores, map updates, append/copy/delete, reflect setters, known std mutators) " +
		"in every function reachable from Parse/Validate and the front ends is classified by the owner of the memory it modifies (address-root walk through fields, loads, " +
		"closure captures, call results and call-site actuals); writes may only touch memory local to the call, per-call pooled objects, or the caller's destination. " +
		"Also: no goroutine/channel/lock use in execution code, pooled objects are never stored into schema/global memory, and pooled objects have a single owner (C07/release). " +
		"It does not decide that concurrent results equal sequential ones at run time, nor races with configuration writes or inside user callbacks."
	r.Assumptions = []string{
		"std-library calls other than the modelled mutators (reflect setters, maps.Copy, sort/slices sorters, copy/append/delete/clear) do not write through their arguments",
		"configuration globals (conf.IssueFormatter, conf.Coercers, zhttp.Config) are written only at start-up, as documented",
	}
	g := P.buildModCG()
	E := P.execSet(g)
	fns := sortedFuncs(E)
	P.checkEffectsRule(r, g, "C08/write-effects", fns, map[memClass]string{
		mcSchema:  "schema objects are shared between goroutines",
		mcGlobal:  "package-level variables are shared between goroutines",
		mcFreeVar: "closure captures live as long as the schema and are shared between goroutines",
	})
	r.floor("C08/write-effects", 80)

	P.checkPoolNewFresh(r, "C08/pool-new-fresh")
	// no-go: no goroutines, channels, or sync primitives other than Pool.Get/Put
	nGo := 0
	for _, fn := range fns {
		var bad []string
		eachInstr(fn, func(_ *ssa.BasicBlock, _ int, in ssa.Instruction) {
			switch x := in.(type) {
			case *ssa.Go:
				bad = append(bad, "go statement at "+P.ipos(in))
			case *ssa.Send, *ssa.Select:
				bad = append(bad, "channel operation at "+P.ipos(in))
			case *ssa.UnOp:
				if x.Op.String() == "<-" {
					bad = append(bad, "channel receive at "+P.ipos(in))
				}
			default:
				if ci := callOf(in); ci != nil && ci.static != nil && (isPkgFunc(ci.static, "sync") || isPkgFunc(ci.static, "sync/atomic")) {
					if !isSyncPoolMethod(ci, "Get") && !isSyncPoolMethod(ci, "Put") {
						// an atomic update of a package-level variable that execution code never reads (a counter), or
						// an atomic load of one that nothing ever stores to (a hook nobody installs), synchronises nothing
						// that an execution depends on
						if isPkgFunc(ci.static, "sync/atomic") && len(ci.args()) > 0 {
							if g := rootGlobalOf(ci.args()[0]); g != nil {
								if atomicWriteOnly(ci) && P.writeOnlyInExecution(g) {
									return
								}
								if strings.HasPrefix(ci.static.Name(), "Load") && P.neverWritten(g) {
									return
								}
							}
						}
						bad = append(bad, "sync call "+ci.static.String()+" at "+P.ipos(in))
					}
				}
			}
		})
		nGo++
		if len(bad) > 0 {
			r.bad("C08/no-go", fname(fn), P.pos(fn.Pos()), "execution code starts goroutines or synchronises: "+strings.Join(bad, "; "))
		} else {
			r.ok("C08/no-go", fname(fn), P.pos(fn.Pos()), "no go/channel/sync use")
		}
	}
	r.floor("C08/no-go", 80)

	// single-owner: a pooled object is only ever stored into local or per-call memory
	for _, fn := range fns {
		eachInstr(fn, func(_ *ssa.BasicBlock, _ int, in ssa.Instruction) {
			var val, target ssa.Value
			switch x := in.(type) {
			case *ssa.Store:
				val, target = x.Val, x.Addr
			case *ssa.MapUpdate:
				val, target = x.Value, x.Map
			default:
				return
			}
			if !P.isPooledType(cvi(val).Type()) {
				return
			}
			if _, isPtr := cvi(val).Type().Underlying().(*types.Pointer); !isPtr {
				return
			}
			c := fmt.Sprintf("%s#store:%s", fname(fn), typeStr(cvi(val).Type()))
			var bad []string
			for _, rt := range P.rootsOf(target) {
				if _, isMU := in.(*ssa.MapUpdate); isMU {
					rt = rt.with(step{load: true})
				}
				for _, cl := range P.resolveUnknownParam(g, P.classifyIn(fn, rt), 0, map[*ssa.Parameter]bool{}) {
					switch cl.class {
					case mcSchema, mcGlobal, mcFreeVar, mcInput:
						bad = append(bad, fmt.Sprintf("%s memory [%s]", cl.class, cl.rt))
					}
				}
			}
			if len(bad) > 0 {
				r.bad("C08/single-owner", c, P.ipos(in), "a recycled per-call object is stored into shared memory and outlives its execution: "+strings.Join(uniqSorted(bad), "; "))
			} else {
				r.ok("C08/single-owner", c, P.ipos(in), "pooled object stored only into local/per-call memory")
			}
		})
	}
	r.floor("C08/single-owner", 4)
	// no package-level object of a per-call pooled type (an issue shared by every execution that receives it)
	tmpG := NewResult(r.Prop, r.Tier)
	P.checkNoGlobalPooledObject(tmpG)
	for _, o := range tmpG.Obls {
		o.Rule = "C08/no-global-pooled-object"
		r.Obls = append(r.Obls, o)
		r.Instances[o.Rule]++
	}
	P.checkReleaseInto(r, "C08/single-owner-release")
	// an issue a callback returns wrapped inside an ordinary error stays the callback's: only an error that *is* a
	// *ZogIssue is adopted (and written: Dtype, Message; pooled by Collect). errors.As digs a shared sentinel issue out of
	// fmt.Errorf("%w") and every goroutine then writes it (C12's rule on IssueFromUnknownError)
	shareRule(P, r, checkC12, "C12/unknown-error-shape", nil, "C08/wrapped-issue-not-adopted", 1)
	P.checkReleaseMultiplicity(r, "C08/single-owner-multiplicity")

	// informational: globals read by execution code
	reads := map[string]bool{}
	for _, fn := range fns {
		eachInstr(fn, func(_ *ssa.BasicBlock, _ int, in ssa.Instruction) {
			var ops []*ssa.Value
			for _, op := range in.Operands(ops) {
				if g, ok := (*op).(*ssa.Global); ok && inModule(g.Pkg.Pkg.Path()) {
					reads[shortName(g.String())] = true
				}
			}
		})
	}
	var rl []string
	for k := range reads {
		rl = append(rl, k)
	}
	sort.Strings(rl)
	r.Extra["globals_read_by_execution_code"] = rl
	// who writes those globals outside initialisers
	writers := map[string][]string{}
	for _, fn := range P.Funcs {
		if E[fn] {
			continue
		}
		for _, w := range P.writeSites(fn) {
			for _, rt := range P.rootsOf(w.target) {
				if rt.kind == rkGlobal && reads[shortName(rt.v.String())] && fn.Synthetic == "" {
					writers[shortName(rt.v.String())] = append(writers[shortName(rt.v.String())], fname(fn))
				}
			}
		}
	}
	for k, v := range writers {
		r.info("global %s (read by execution code) is written by configuration function(s): %s", k, strings.Join(uniqSorted(v), ", "))
	}
}

func uniqSorted(s []string) []string {
	sort.Strings(s)
	return uniq(s)
}

// checkReleaseInto re-uses C07's release rule under another rule name.
func (P *Prog) checkReleaseInto(r *Result, rule string) {
	tmp := NewResult(r.Prop, r.Tier)
	P.checkRelease(tmp)
	for _, o := range tmp.Obls {
		o.Rule = rule
		r.Obls = append(r.Obls, o)
		r.Instances[rule]++
	}
	r.floor(rule, 40)
	for f := range tmp.FuncsSeen {
		r.sawFunc(f)
	}
}

func checkC19(P *Prog, r *Result) {
	R := P.roles
	r.Explanation = "Decides three structural clauses: (a) no write instruction in any function reachable from Parse/Validate modifies memory owned by the schema " +
		"(receiver fields, tests, Params maps, default/catch values, captured test parameters) or by the input data (SchemaCtx.Data, provider contents); " +
		"(b) no reference-typed value that derives from a schema field (e.g. a slice-valued Default) is stored into the destination without a copy; " +
		"(c) in Validate mode the destination is written only on default/catch paths (and Preprocess's documented assignment). " +
		"It does not decide deep-snapshot equality at run time nor aliasing introduced by user callbacks."
	r.Assumptions = []string{
		"std-library calls other than the modelled mutators do not write through their arguments (http.Request.ParseForm populating r.Form is net/http's documented behaviour and not counted as modifying input data)",
		"time.Time values are immutable (their *Location is never written)",
	}
	g := P.buildModCG()
	E := P.execSet(g)
	fns := sortedFuncs(E)
	P.checkEffectsRule(r, g, "C19/no-schema-or-input-writes", fns, map[memClass]string{
		mcSchema: "the schema must behave identically on every later use",
		mcInput:  "Parse must not modify the data it is given",
	})
	r.floor("C19/no-schema-or-input-writes", 80)

	// (a') the write-effect rule treats what a node writes through its ValPtr as "the destination". That holds
	// only if every value ever stored into a node context's ValPtr (a child's destination pointer) points into the
	// destination: never into schema-owned memory (an element of a slice-valued Default) or into the input.
	nvp := 0
	for _, fn := range fns {
		eachInstr(fn, func(_ *ssa.BasicBlock, _ int, in ssa.Instruction) {
			var val ssa.Value
			switch x := in.(type) {
			case *ssa.Store:
				if _, f := fieldVar(x.Addr); f != nil && sameField(f, R.FValPtr) {
					val = x.Val
				}
			default:
				// the destPtr argument of the context constructors
				if ci := callOf(in); ci != nil && ci.static != nil {
					if _, isCtor := P.sharedCatchAnalysis().ctors[ci.static]; isCtor {
						for i, prm := range ci.static.Params {
							if i < len(ci.args()) && P.paramStoredInto(ci.static, prm, R.FValPtr) {
								val = ci.args()[i]
							}
						}
					}
				}
			}
			if val == nil {
				return
			}
			nvp++
			c := fmt.Sprintf("%s#ValPtr@%d", fname(fn), nvp)
			var bad []string
			for _, rt := range P.rootsOf(val) {
				cl := P.classifyIn(fn, rt)
				if cl.class == mcSchema || cl.class == mcInput || cl.class == mcGlobal {
					bad = append(bad, fmt.Sprintf("%s [%s]", cl.class, cl.rt))
				}
			}
			if len(bad) > 0 {
				r.bad("C19/child-destination", c, P.ipos(in), "a node is handed a destination pointer into memory that is not the destination ("+strings.Join(uniqSorted(bad), "; ")+"): its defaults, coerced values, catch values and transforms are written there")
			} else {
				r.ok("C19/child-destination", c, P.ipos(in), "the destination pointer handed on derives from the destination only")
			}
		})
	}
	r.floor("C19/child-destination", 6)

	// (b) default-not-aliased
	nb := 0
	for _, fn := range fns {
		for _, w := range P.writeSites(fn) {
			isDest := false
			for _, c := range P.classesOfWrite(w) {
				for _, cc := range P.resolveUnknownParam(g, c, 0, map[*ssa.Parameter]bool{}) {
					if cc.class == mcDest {
						isDest = true
					}
				}
			}
			if !isDest {
				continue
			}
			var val ssa.Value
			switch x := w.in.(type) {
			case *ssa.Store:
				val = x.Val
			case *ssa.MapUpdate:
				val = x.Value
			default:
				ci := callOf(w.in)
				if ci != nil && len(ci.args()) >= 2 && (strings.HasPrefix(w.what, "reflect.Set") && w.what != "reflect.SetLen" && w.what != "reflect.SetCap") {
					val = ci.args()[1]
				} else if ci != nil && ci.builtin == "append" && len(ci.args()) >= 2 {
					val = ci.args()[1]
				}
			}
			if val == nil {
				continue
			}
			nb++
			c := fmt.Sprintf("%s#%s", fname(fn), destWriteName(w))
			if !isRefLike(val.Type()) {
				r.ok("C19/default-not-aliased", c, P.ipos(w.in), "value stored into the destination has a value-only type ("+typeStr(val.Type())+")")
				continue
			}
			var bad []string
			if os.Getenv("ZOGCHECK_DEBUG") != "" {
				fmt.Println("DEBUG reflike", typeStr(val.Type()), debugRefLike(val.Type()))
			}
			if c2, isCall := cvi(val).(*ssa.Call); isCall && isDeepCloneFn(callOf(c2).static) {
				r.ok("C19/default-not-aliased", c, P.ipos(w.in), "the value stored is a deep clone ("+fname(callOf(c2).static)+")")
				continue
			}
			for _, rt := range P.rootsOf(val) {
				for _, cl := range P.resolveUnknownParam(g, P.classifyIn(fn, rt), 0, map[*ssa.Parameter]bool{}) {
					if cl.class == mcSchema {
						bad = append(bad, cl.rt.String())
					}
				}
			}
			// ... nor the input's own container, when this node goes on to write the elements of its destination (the
			// element schemas are given `dest.Index(i).Addr()`): Parse would be writing coerced items into the caller's slice
			var inputBad []string
			if strings.HasPrefix(w.what, "reflect.Set") {
				writesElems := false
				eachInstr(fn, func(_ *ssa.BasicBlock, _ int, in2 ssa.Instruction) {
					if c2 := callOf(in2); c2 != nil && c2.static != nil && isPkgFunc(c2.static, "reflect") && c2.static.Name() == "Addr" {
						if c3, ok := cvi(c2.args()[0]).(*ssa.Call); ok && callOf(c3).static != nil && callOf(c3).static.Name() == "Index" {
							writesElems = true
						}
					}
				})
				if writesElems {
					for _, rt := range P.rootsOf(val) {
						for _, cl := range P.resolveUnknownParam(g, P.classifyIn(fn, rt), 0, map[*ssa.Parameter]bool{}) {
							if cl.class == mcInput {
								inputBad = append(inputBad, cl.rt.String())
							}
						}
					}
				}
			}
			if len(bad) > 0 {
				r.bad("C19/default-not-aliased", c, P.ipos(w.in), "a reference-typed value owned by the schema is stored into the destination without a copy: mutating the destination mutates the schema: "+shortName(w.in.String()), uniqSorted(bad)...)
			} else if len(inputBad) > 0 {
				r.bad("C19/default-not-aliased", c, P.ipos(w.in), "the destination is set to a container that is (part of) the input data and its elements are then written through it: Parse modifies the slice it was given as input: "+shortName(w.in.String()), uniqSorted(inputBad)...)
			} else {
				r.ok("C19/default-not-aliased", c, P.ipos(w.in), "stored reference does not derive from schema-owned memory")
			}
		}
	}
	// ... and a copy has to be deep: what is copied element by element into a fresh container that then becomes the
	// destination (`reflect.Copy(cp, def)`, `cp.Index(i).Set(def.Index(i))`) still shares the inner slices, maps and
	// pointers of each element with the schema's default - `[][]string`, `[]struct{ Values []string }`. Accepted: an
	// element that went through a recursive clone (a module function over reflect.Value that calls itself and allocates).
	schemaOwned := func(fn *ssa.Function, v ssa.Value) []string {
		var bad []string
		for _, rt := range P.rootsOf(v) {
			for _, cl := range P.resolveUnknownParam(g, P.classifyIn(fn, rt), 0, map[*ssa.Parameter]bool{}) {
				if cl.class == mcSchema {
					bad = append(bad, cl.rt.String())
				}
			}
		}
		return uniqSorted(bad)
	}
	isDeepClone := isDeepCloneFn
	// the value is the result of a deep clone - here, or (for a parameter of an unexported helper) at every call site
	var clonedHere func(fn *ssa.Function, v ssa.Value, depth int) (bool, string)
	clonedHere = func(fn *ssa.Function, v ssa.Value, depth int) (bool, string) {
		switch x := cvi(v).(type) {
		case *ssa.Call:
			if isDeepClone(callOf(x).static) {
				return true, fname(callOf(x).static)
			}
		case *ssa.Parameter:
			if depth > 2 || x.Parent() != fn {
				return false, ""
			}
			idx := -1
			for i, q := range fn.Params {
				if q == x {
					idx = i
				}
			}
			sites, closed := P.closedCallSites(fn)
			if idx < 0 || !closed || len(sites) == 0 {
				return false, ""
			}
			name := ""
			for _, site := range sites {
				args := site.Common().Args
				if idx >= len(args) {
					return false, ""
				}
				ok, nm := clonedHere(site.Parent(), args[idx], depth+1)
				if !ok {
					return false, ""
				}
				name = nm
			}
			return true, name
		}
		return false, ""
	}
	for _, fn := range fns {
		if cloneShaped(fn) {
			for _, in := range cloneUnsound(fn) {
				r.bad("C19/default-not-aliased", fname(fn)+"#clone-returns-its-argument", P.ipos(in), "a recursive clone hands back its own argument where that may hold references: the argument is not known to be nil and not known to be of a scalar kind here (`if v.Len() == 0 { return v }` returns the caller's own empty map, or its empty slice with spare capacity, which the next writer fills in place)")
			}
		}
	}
	ns := 0
	for _, fn := range fns {
		if isDeepClone(fn) {
			continue // the clone itself: it copies a struct whole before it replaces the fields it can set
		}
		eachInstr(fn, func(_ *ssa.BasicBlock, _ int, in ssa.Instruction) {
			ci := callOf(in)
			if ci == nil || ci.static == nil || !isPkgFunc(ci.static, "reflect") {
				return
			}
			var src ssa.Value
			switch {
			case ci.static.Name() == "Copy" && len(ci.args()) == 2:
				src = ci.args()[1]
				if ok, nm := clonedHere(fn, src, 0); ok {
					ns++
					r.ok("C19/default-not-aliased", fmt.Sprintf("%s#element-copy@%d", fname(fn), ns), P.ipos(in), "the elements copied are those of a deep clone ("+nm+")")
					return
				}
			case ci.static.Name() == "Set" && len(ci.args()) == 2:
				// element of a fresh container: recv is (MakeSlice(...)|New(...).Elem()).Index(i) ...
				fresh := false
				for _, rt := range P.rootsOf(ci.args()[0]) {
					if c2, isCall := rt.v.(*ssa.Call); isCall && callOf(c2).static != nil && isPkgFunc(callOf(c2).static, "reflect") {
						switch callOf(c2).static.Name() {
						case "MakeSlice", "New", "MakeMap", "MakeMapWithSize":
							fresh = true
						}
					}
				}
				if !fresh {
					return
				}
				src = ci.args()[1]
				if ok, nm := clonedHere(fn, src, 0); ok {
					ns++
					r.ok("C19/default-not-aliased", fmt.Sprintf("%s#element-copy@%d", fname(fn), ns), P.ipos(in), "the element is a deep clone ("+nm+")")
					return
				}
			default:
				return
			}
			if bad := schemaOwned(fn, src); len(bad) > 0 {
				ns++
				r.bad("C19/default-not-aliased", fmt.Sprintf("%s#shallow-copy@%d", fname(fn), ns), P.ipos(in), "elements owned by the schema are copied one level deep into a value that becomes the destination: the slices, maps and pointers inside each element stay shared with the schema's default (a nested default such as [][]string is modified through the result of the first call)", bad...)
			}
		})
	}
	// ... nor does schema-owned memory become a child's *input*: an element schema may keep what it is given (a custom
	// schema of a slice type stores its data as the destination), so the items of a Default handed to the element
	// schemas in Parse are items of a clone
	nd := 0
	for _, fn := range fns {
		eachInstr(fn, func(_ *ssa.BasicBlock, _ int, in ssa.Instruction) {
			var val ssa.Value
			if st, ok := in.(*ssa.Store); ok {
				if _, f := fieldVar(st.Addr); f != nil && sameField(f, R.FData) {
					val = st.Val
				}
			}
			if ci := callOf(in); ci != nil && (P.isSchemaCtxMethod(ci, "NewSchemaCtx")) && len(ci.args()) > 1 {
				val = ci.args()[1]
			}
			if val == nil || !isRefLike(val.Type()) {
				return
			}
			nd++
			c := fmt.Sprintf("%s#child-data@%d", fname(fn), nd)
			// (the memory meant is what a builder stored as a Default or Catch value: the field schemas themselves are
			// handed to nobody as data, though a provider call that takes a key may be said to "alias its arguments")
			var bad []string
			for _, rt := range P.rootsOf(val) {
				viaValueRole := false
				for _, st := range rt.path {
					if st.field != nil {
						if rn := P.roleName(st.field); rn == "defaultVal" || rn == "catch" {
							viaValueRole = true
						}
					}
				}
				if !viaValueRole {
					continue
				}
				for _, cl := range P.resolveUnknownParam(g, P.classifyIn(fn, rt), 0, map[*ssa.Parameter]bool{}) {
					if cl.class == mcSchema {
						bad = append(bad, cl.rt.String())
					}
				}
			}
			bad = uniqSorted(bad)
			if len(bad) > 0 {
				r.bad("C19/default-not-aliased", c, P.ipos(in), "memory owned by the schema (a Default) is handed to a child node as its input data without a clone: a child that keeps its input (a custom schema of a slice, map or pointer type does `*dest = data`) makes the destination share it, and writing to the result changes the schema's default", bad...)
			} else {
				r.ok("C19/default-not-aliased", c, P.ipos(in), "the child's input data does not derive from schema-owned memory")
			}
		})
	}
	r.floor("C19/default-not-aliased", 5)

	// (c) validate-mode destination writes only on default / catch paths
	var vfns []*ssa.Function
	for _, k := range sortedKeys(R.Validate) {
		vfns = append(vfns, R.Validate[k])
	}
	for _, pl := range R.Pipelines {
		if strings.Contains(strings.ToLower(pl.Name()), "validat") {
			vfns = append(vfns, pl)
		}
	}
	isRole := func(f *types.Var) bool {
		return f != nil && (P.roleName(f) == "defaultVal" || P.roleName(f) == "catch" || sameField(f, R.FCanCatch))
	}
	for _, fn := range vfns {
		all := []*ssa.Function{fn}
		all = append(all, fn.AnonFuncs...)
		nw := 0
		var bad []string
		for _, f := range all {
			for _, w := range P.writeSites(f) {
				isDest := false
				for _, c := range P.classesOfWrite(w) {
					for _, cc := range P.resolveUnknownParam(g, c, 0, map[*ssa.Parameter]bool{}) {
						if cc.class == mcDest {
							isDest = true
						}
					}
				}
				if !isDest {
					continue
				}
				nw++
				// allowed: guarded by a test of defaultVal / catch / CanCatch, or value derives from those
				okW := false
				for _, gd := range guardsOf(w.in.Block()) {
					if P.condMentionsRole(gd.If.Cond, isRole, fn) {
						okW = true
					}
				}
				// or what is written is the default / catch value itself (when it may be written is C04's and C05's
				// business: decision-shape, swallow-implies-catch-store)
				if st, isSt := w.in.(*ssa.Store); isSt && !okW && P.condMentionsRole(st.Val, isRole, fn) {
					okW = true
				}
				if !okW && R.kindOfFunc(fn) == "PreprocessSchema" {
					okW = true // documented: Validate stores the preprocessed value
				}
				if !okW {
					bad = append(bad, fmt.Sprintf("%s at %s: %s", w.what, P.ipos(w.in), shortName(w.in.String())))
				}
			}
		}
		r.sawFunc(fname(fn))
		if len(bad) > 0 {
			r.bad("C19/validate-write-sites", fname(fn), P.pos(fn.Pos()), "Validate writes the validated value outside a default/catch path: "+strings.Join(bad, "; "))
		} else {
			r.ok("C19/validate-write-sites", fname(fn), P.pos(fn.Pos()), fmt.Sprintf("%d destination write(s), all under a default/catch guard", nw))
		}
	}
	r.floor("C19/validate-write-sites", 5)
	// a nil destination pointer gets a fresh allocation, never a pointer taken from the input (C03's rule):
	// otherwise defaults, coerced values and transform results are written into the caller's data
	shareRule(P, r, checkC03, "C03/pointer-alloc", nil, "C19/dest-not-aliased-to-input", 1)
	// a map handed in with an option is read, not adopted: the execution writes only into maps it made (C07's rule)
	shareRule(P, r, checkC07, "C07/pooled-map-owned", nil, "C19/option-maps-not-adopted", 0)
	// values captured by a test closure (a OneOf list, the wanted values of a ContainsAll) belong to the schema: an
	// execution that writes through a captured variable changes what the next execution tests (C08's write-effects rule,
	// which classifies closure-capture roots)
	shareRule(P, r, checkC08, "C08/write-effects", nil, "C19/captured-values-read-only", 30)
	// "a schema behaves identically on its first and on every later use": nothing a use leaves on a recycled context
	// reaches the next use (C07's re-initialisation rule on the node context; no floor: see shareRule)
	shareRule(P, r, checkC07, "C07/reinit", func(o Obligation) bool { return strings.Contains(o.Construct, "#zog/internals.SchemaCtx.") }, "C19/same-on-later-use", 0)
}

func destWriteName(w writeSite) string {
	switch w.in.(type) {
	case *ssa.Store:
		return "store:" + typeStr(w.in.(*ssa.Store).Val.Type())
	}
	return w.what
}

// condMentionsRole: the branch condition is computed from a load of a role
// field (directly, through a parameter the dispatch methods bind to that
// field, or through a nil comparison).
func (P *Prog) condMentionsRole(cond ssa.Value, isRole func(*types.Var) bool, fn *ssa.Function) bool {
	seen := map[ssa.Value]bool{}
	var walk func(v ssa.Value, d int) bool
	walk = func(v ssa.Value, d int) bool {
		if v == nil || seen[v] || d > 8 {
			return false
		}
		seen[v] = true
		v = cv(v)
		if _, f := loadOfField(v); f != nil && isRole(f) {
			return true
		}
		switch x := v.(type) {
		case *ssa.BinOp:
			return walk(x.X, d+1) || walk(x.Y, d+1)
		case *ssa.UnOp:
			return walk(x.X, d+1)
		case *ssa.Phi:
			for _, e := range x.Edges {
				if walk(e, d+1) {
					return true
				}
			}
		case *ssa.Parameter:
			// parameters of the primitive pipelines bound to the role field at every call site
			if f := P.paramBoundField(x); f != nil && isRole(f) {
				return true
			}
		}
		return false
	}
	return walk(cond, 0)
}

// checkPoolNewFresh: what a sync.Pool's New function hands out shares no memory with anything else: the
// object is allocated in New and nothing reference-like (slice, map, pointer, channel, func, interface holding
// one) reaches it from outside the call - not from a package-level variable and not from a value captured by
// the New closure (`newPool(proto)`: `v := proto; return &v` copies a slice *header*, so every pooled object
// built from `make([]string, 0, 5)` writes into the same backing array from whichever goroutines hold them).
func (P *Prog) checkPoolNewFresh(r *Result, rule string) {
	n := 0
	for _, fn := range P.Funcs {
		eachInstr(fn, func(_ *ssa.BasicBlock, _ int, in ssa.Instruction) {
			st, ok := in.(*ssa.Store)
			if !ok {
				return
			}
			fa, ok := st.Addr.(*ssa.FieldAddr)
			if !ok {
				return
			}
			_, f := fieldVar(fa)
			if f == nil || f.Name() != "New" || typeStr(fa.X.Type()) != "*sync.Pool" {
				return
			}
			var newFn *ssa.Function
			switch y := cv(st.Val).(type) {
			case *ssa.MakeClosure:
				newFn, _ = y.Fn.(*ssa.Function)
			case *ssa.Function:
				newFn = y
			}
			n++
			c := fmt.Sprintf("%s#Pool.New@%d", fname(fn), n)
			if newFn == nil || newFn.Blocks == nil {
				r.undecided(rule, c, P.ipos(in), "the New function of the pool is not a function literal of the module")
				return
			}
			r.sawFunc(fname(newFn))
			var bad []string
			eachInstr(newFn, func(_ *ssa.BasicBlock, _ int, in2 ssa.Instruction) {
				rt, ok := in2.(*ssa.Return)
				if !ok || len(rt.Results) != 1 {
					return
				}
				v := rt.Results[0]
				if mi, ok := v.(*ssa.MakeInterface); ok {
					v = mi.X
				}
				al, ok := v.(*ssa.Alloc)
				if !ok || al.Parent() != newFn {
					bad = append(bad, "New does not return an object it allocates itself ("+P.ipos(in2)+")")
					return
				}
				// everything stored into the fresh object
				var visit func(addr ssa.Value)
				visit = func(addr ssa.Value) {
					for _, rf := range *addr.Referrers() {
						switch u := rf.(type) {
						case *ssa.Store:
							if u.Addr == addr {
								if why := P.sharesMemory(u.Val, 0); why != "" {
									bad = append(bad, "the new object is initialised with memory that exists outside the call ("+why+", "+P.ipos(u)+"): every object of the pool aliases it")
								}
							}
						case *ssa.FieldAddr:
							visit(u)
						case *ssa.IndexAddr:
							visit(u)
						}
					}
				}
				visit(al)
			})
			if len(bad) > 0 {
				r.bad(rule, c, P.pos(newFn.Pos()), strings.Join(uniqSorted(bad), "; "))
			} else {
				r.ok(rule, c, P.pos(newFn.Pos()), "New allocates its result and stores nothing reference-like from outside into it")
			}
		})
	}
	r.floor(rule, 1) // (one generic `newPool[T]()` may build every pool: a floor of half the pools fired on that merge)
}

// sharesMemory: v is (or contains) a reference to memory that exists independently of the current call:
// a made slice/map/chan or an address that reaches here through a captured variable, a parameter or a
// package-level variable. "" when v is a constant, a zero value, or built from such. depth 0 = inside New.
func (P *Prog) sharesMemory(v ssa.Value, depth int) string {
	if v == nil || depth > 6 {
		return ""
	}
	if !typeHasRefs(v.Type(), 0) {
		return ""
	}
	switch x := v.(type) {
	case *ssa.Const:
		return ""
	case *ssa.MakeSlice, *ssa.MakeMap, *ssa.MakeChan, *ssa.MakeClosure:
		if depth == 0 {
			return "" // made inside New itself: fresh per call
		}
		return "a " + strings.TrimPrefix(fmt.Sprintf("%T", x), "*ssa.Make") + " made once, outside New"
	case *ssa.Alloc:
		if depth == 0 {
			return ""
		}
		return "memory allocated once, outside New"
	case *ssa.Slice:
		return P.sharesMemory(x.X, depth)
	case *ssa.ChangeType:
		return P.sharesMemory(x.X, depth)
	case *ssa.Convert:
		return P.sharesMemory(x.X, depth)
	case *ssa.MakeInterface:
		return P.sharesMemory(x.X, depth)
	case *ssa.UnOp:
		if x.Op != token.MUL {
			return ""
		}
		switch a := x.X.(type) {
		case *ssa.Global:
			return "the package-level variable " + a.Name()
		case *ssa.FreeVar:
			if b := freeVarBinding(a); b != nil {
				if al, ok := b.(*ssa.Alloc); ok {
					for _, st := range storesTo(al) {
						if why := P.sharesMemory(st.Val, depth+1); why != "" {
							return why
						}
					}
					return ""
				}
				return P.sharesMemory(b, depth+1)
			}
			return "a captured variable"
		case *ssa.Alloc:
			// a local: whatever was stored into it (whole, or through its fields)
			why := ""
			var visit func(addr ssa.Value)
			visit = func(addr ssa.Value) {
				for _, rf := range *addr.Referrers() {
					switch u := rf.(type) {
					case *ssa.Store:
						if u.Addr == addr && why == "" {
							why = P.sharesMemory(u.Val, depth)
						}
					case *ssa.FieldAddr:
						visit(u)
					case *ssa.IndexAddr:
						visit(u)
					}
				}
			}
			visit(a)
			return why
		}
		return "memory read through a pointer"
	case *ssa.Parameter:
		fn := x.Parent()
		idx := -1
		for i, q := range fn.Params {
			if q == x {
				idx = i
			}
		}
		nSites := 0
		for _, caller := range P.Funcs {
			why := ""
			eachInstr(caller, func(_ *ssa.BasicBlock, _ int, in ssa.Instruction) {
				ci := callOf(in)
				if ci == nil || ci.static != originOf(fn) || idx < 0 || idx >= len(ci.args()) {
					return
				}
				nSites++
				if w := P.sharesMemory(ci.args()[idx], depth+1); w != "" && why == "" {
					why = w + " (argument at " + P.ipos(in) + ")"
				}
			})
			if why != "" {
				return why
			}
		}
		if nSites == 0 {
			return "a parameter whose callers are not visible"
		}
		return ""
	case *ssa.Phi:
		for _, e := range x.Edges {
			if why := P.sharesMemory(e, depth); why != "" {
				return why
			}
		}
		return ""
	case *ssa.Call:
		if depth == 0 {
			return "" // produced by a call inside New (e.g. a constructor): owned by this object
		}
		return "the result of a call made once, outside New"
	}
	return ""
}

// typeHasRefs: values of the type can hold a reference to other memory.
func typeHasRefs(t types.Type, depth int) bool {
	if depth > 6 {
		return true
	}
	switch u := t.Underlying().(type) {
	case *types.Basic:
		return u.Kind() == types.UnsafePointer
	case *types.Struct:
		for i := 0; i < u.NumFields(); i++ {
			if typeHasRefs(u.Field(i).Type(), depth+1) {
				return true
			}
		}
		return false
	case *types.Array:
		return typeHasRefs(u.Elem(), depth+1)
	}
	return true
}

// paramStoredInto: the constructor stores its parameter prm into field f of the object it builds.
func (P *Prog) paramStoredInto(ctor *ssa.Function, prm *ssa.Parameter, f *types.Var) bool {
	found := false
	for _, u := range P.allUnits(ctor) {
		u.with(func() {
			eachInstr(u.fn, func(_ *ssa.BasicBlock, _ int, in ssa.Instruction) {
				if st, ok := in.(*ssa.Store); ok {
					if _, sf := fieldVar(st.Addr); sf != nil && sameField(sf, f) && cv(st.Val) == ssa.Value(prm) {
						found = true
					}
				}
			})
		})
	}
	return found
}

// isDeepCloneFn: a module function that calls itself and allocates containers with reflect - a recursive clone - and
// is *sound* as one: wherever it returns its own argument instead of a copy, that argument is known to be nil
// (`if v.IsNil() { return v }`) or known not to be of a kind that holds references (the default of its Kind switch,
// after slice, map, pointer, interface, array and struct were taken out). `if v.Len() == 0 { return v }` hands back the
// caller's own empty map, or its empty slice with spare capacity.
var deepCloneMemo = map[*ssa.Function]bool{}
var theProg *Prog

func isDeepCloneFn(f *ssa.Function) bool {
	if f == nil || f.Blocks == nil || !inModule(funcPkgPath(f)) {
		return false
	}
	if v, ok := deepCloneMemo[f]; ok {
		return v
	}
	deepCloneMemo[f] = false
	res := cloneShaped(f) && len(cloneUnsound(f)) == 0
	deepCloneMemo[f] = res
	return res
}

// cloneShaped: calls itself - directly, or through the helpers of its group of pure reflect functions
// (`deepCopyElems(dst, src)` calling back) - and the group allocates containers with reflect.
func cloneShaped(f *ssa.Function) bool {
	if f == nil || f.Blocks == nil || !inModule(funcPkgPath(f)) {
		return false
	}
	group := []*ssa.Function{f}
	if theProg != nil {
		if ms, ok := theProg.reflectCluster(f); ok {
			group = ms
		}
	}
	inGroup := map[*ssa.Function]bool{}
	for _, g := range group {
		inGroup[g] = true
	}
	self, alloc := false, false
	for _, g := range group {
		eachInstr(g, func(_ *ssa.BasicBlock, _ int, in ssa.Instruction) {
			if ci := callOf(in); ci != nil && ci.static != nil {
				if ci.static == f {
					self = true
				}
				if isPkgFunc(ci.static, "reflect") && (ci.static.Name() == "MakeSlice" || ci.static.Name() == "MakeMapWithSize" || ci.static.Name() == "MakeMap") {
					alloc = true
				}
			}
		})
	}
	return self && alloc
}

// cloneUnsound: the returns of a clone-shaped function that hand back the argument itself where it may hold references.
func cloneUnsound(f *ssa.Function) []ssa.Instruction {
	if theProg == nil || len(f.Params) != 1 {
		return nil
	}
	prm := ssa.Value(f.Params[0])
	var bad []ssa.Instruction
	eachInstr(f, func(b *ssa.BasicBlock, _ int, in ssa.Instruction) {
		rt, ok := in.(*ssa.Return)
		if !ok || len(rt.Results) != 1 {
			return
		}
		v := cv(rt.Results[0])
		if u, isU := v.(*ssa.UnOp); isU && u.Op == token.MUL {
			// the spilled parameter read back
			if al, isAl := u.X.(*ssa.Alloc); isAl {
				if sts := storesTo(al); len(sts) == 1 && cv(sts[0].Val) == prm {
					v = prm
				}
			}
		}
		if v != prm {
			return
		}
		for _, gd := range guardsOf(b) {
			if c, isC := gd.If.Cond.(*ssa.Call); isC && gd.True {
				if ci := callOf(c); ci.static != nil && isPkgFunc(ci.static, "reflect") && ci.static.Name() == "IsNil" {
					return
				}
			}
		}
		_, not := theProg.kindFactsFrom(guardsOf(b), prm)
		for _, k := range []int64{int64(reflect.Slice), int64(reflect.Map), int64(reflect.Pointer), int64(reflect.Interface), int64(reflect.Array), int64(reflect.Struct)} {
			if !not[k] {
				bad = append(bad, in)
				return
			}
		}
	})
	// ... and it is deep for every kind it handles: somewhere under `Kind() == K`, for each reference-bearing K, the
	// clone calls itself (directly or through a helper of its group) - a struct copied whole with `cp.Set(v)` and no
	// copy of its fields, or a pointer re-allocated without copying what it points to, shares or loses the inside
	group := map[*ssa.Function]bool{f: true}
	if ms, ok := theProg.reflectCluster(f); ok {
		for _, g := range ms {
			group[g] = true
		}
	}
	reaches := map[*ssa.Function]bool{}
	for changed := true; changed; {
		changed = false
		for g := range group {
			if reaches[g] {
				continue
			}
			eachInstr(g, func(_ *ssa.BasicBlock, _ int, in ssa.Instruction) {
				if ci := callOf(in); ci != nil && ci.static != nil && (ci.static == f || reaches[ci.static]) && !reaches[g] {
					reaches[g] = true
					changed = true
				}
			})
		}
	}
	for _, k := range []int64{int64(reflect.Slice), int64(reflect.Map), int64(reflect.Pointer), int64(reflect.Interface), int64(reflect.Array), int64(reflect.Struct)} {
		handled, recurses := false, false
		var at ssa.Instruction
		for _, b := range f.Blocks {
			is, _ := theProg.kindFactsFrom(guardsOf(b), prm)
			if !is[k] {
				continue
			}
			handled = true
			for _, in := range b.Instrs {
				if at == nil {
					at = in
				}
				if ci := callOf(in); ci != nil && ci.static != nil && (ci.static == f || (group[ci.static] && reaches[ci.static])) {
					recurses = true
				}
			}
		}
		if handled && !recurses && at != nil {
			bad = append(bad, at)
		}
	}
	return bad
}
