package main

import (
	"fmt"
	"go/token"
	"go/types"
	"sort"
	"strconv"
	"strings"

	"golang.org/x/tools/go/ssa"
)

func init() {
	register("C14", checkC14)
	register("C15", checkC15)
}

// factoryCalls: dynamic calls of a DpFactory value obtained by asserting ctx.Data.
func (P *Prog) factoryCalls(fn *ssa.Function) []*ssa.Call {
	R := P.roles
	var out []*ssa.Call
	eachInstr(fn, func(_ *ssa.BasicBlock, _ int, in ssa.Instruction) {
		c, ok := in.(*ssa.Call)
		if !ok || !callOf(c).dynamic {
			return
		}
		v := cvi(c.Call.Value)
		if _, f := loadOfField(v); f != nil && sameField(f, R.FData) {
			out = append(out, c)
		}
	})
	return out
}

// hasFactoryPath: some decision path of fn (helpers inlined) calls a provider factory taken from ctx.Data.
func (P *Prog) hasFactoryPath(fn *ssa.Function) bool {
	paths, _ := P.nodePaths(fn)
	for _, p := range paths {
		if p.has("CALL-FACTORY", "") {
			return true
		}
	}
	return false
}

func checkC14(P *Prog, r *Result) {
	_ = P.roles
	r.Explanation = "Decides the structural part of front-end equivalence: (getbyfield-agreement) all DataProvider implementations resolve a field the same way — key := GetKeyFromField(field, fallback, own tag); " +
		"return own Get(key), key — the empty provider returning (nil, fallback); (factory-once) a decoding factory taken from ctx.Data is consumed once per execution: after it has been called, " +
		"every child dispatched receives a context whose Data was overwritten with a value derived after the call, never the factory again; (factory-twins) both places that accept a factory " +
		"handle it identically: call, on error exactly one issue and return, else continue; (nested-from-parent) nested struct schemas obtain their provider from the parent provider. " +
		"Equality of destination and issues across renderings of one record is value-level and not decided."
	P.checkGetByFieldAgreement(r, "C14/getbyfield-agreement")
	P.checkProviderFromCheckedValue(r, "C14/provider-from-checked-value")
	// a list sent as `tags[]=` is a list in every front end: a single blank value is a one-element list as it is in JSON
	// and in a Go map, not a scalar that reads as absent (C15's rule)
	shareRule(P, r, checkC15, "C15/list-key-always-list", nil, "C14/list-presentation-agrees", 1)
	P.checkNoBoxedReflectValue(r, "C14/typed-map-leaves-unboxed")
	P.checkEnvLeafFormula(r, "C14/env-leaf-is-trimmed-value")
	// what a Preprocess function is given is the input leaf itself, whichever front end delivered it (C12's rule on the
	// callback's argument)
	shareRule(P, r, checkC12, "C12/callback-arg", func(o Obligation) bool { return strings.Contains(o.Construct, "Preprocess") }, "C14/preprocess-sees-the-leaf-as-delivered", 1)
	r.floor("C14/getbyfield-agreement", 3)
	// the key of a field depends only on (field, schema key, the provider's own tag): the canonical return table
	P.checkTagPriority(r, "C14/key-resolution")
	// string-typed leaves (form/query/env) become the same values as typed leaves (maps/JSON) through the
	// documented string rows of the coercers
	P.checkCoercionTable(r, "C14/string-leaf-coercion")

	// ---- factory-once (on the decision paths, helpers inlined) ----
	for _, fn := range P.nodeFuncs() {
		paths, capHit := P.nodePaths(fn)
		var fcs []ssa.Instruction
		seenFc := map[ssa.Instruction]bool{}
		for _, p := range paths {
			for _, it := range p.items {
				if it.kind == "CALL-FACTORY" && !seenFc[it.in] {
					seenFc[it.in] = true
					fcs = append(fcs, it.in)
				}
			}
		}
		if len(fcs) == 0 {
			continue
		}
		sort.Slice(fcs, func(i, j int) bool { return fcs[i].Pos() < fcs[j].Pos() })
		r.sawFunc(fname(fn))
		for i, fc := range fcs {
			c := fmt.Sprintf("%s#factory@%d", fname(fn), i+1)
			if capHit {
				r.undecided("C14/factory-once", c, P.ipos(fc), "too many paths to enumerate")
				continue
			}
			var problems []string
			for _, p := range paths {
				at := -1
				for k, it := range p.items {
					if it.kind == "CALL-FACTORY" && it.in == fc {
						at = k
					}
				}
				if at < 0 {
					continue
				}
				// contexts whose Data was given a value derived after the factory call
				fresh := map[ssa.Value]bool{}
				for _, it := range p.items[at+1:] {
					switch it.kind {
					case "CTX-DATA", "NEWCTX":
						if it.aux != nil {
							fresh[it.aux] = it.val == "fresh"
							// `subCtx.Data = ctx.Data` after a helper stored the factory's result into ctx.Data
							if st, isSt := it.in.(*ssa.Store); isSt && it.val == "same" {
								if src, _ := loadOfField(cvi(st.Val)); src != nil && fresh[cv(src)] {
									fresh[it.aux] = true
								}
							}
						}
					case "CHILD":
						if it.aux != nil && !fresh[it.aux] {
							problems = append(problems, fmt.Sprintf("the child dispatched at %s receives a context whose Data can still be the already-consumed factory: the body would be decoded a second time (EOF / invalid_json)", P.ipos(it.in)))
						}
					}
				}
			}
			// the factory's result must be used
			used := false
			if fcv, ok := fc.(*ssa.Call); ok {
				if refs := fcv.Referrers(); refs != nil {
					for _, rf := range *refs {
						if ex, ok := rf.(*ssa.Extract); ok && ex.Index == 0 && ex.Referrers() != nil && len(*ex.Referrers()) > 0 {
							used = true
						}
					}
				}
			}
			if !used {
				problems = append(problems, "the provider returned by the factory is discarded")
			}
			if len(problems) > 0 {
				r.bad("C14/factory-once", c, P.ipos(fc), strings.Join(uniqSorted(problems), "; "))
			} else {
				r.ok("C14/factory-once", c, P.ipos(fc), "after the factory call every child context carries data derived from its result")
			}
		}
	}
	r.floor("C14/factory-once", 1)

	// ---- factory-twins ----
	sig := map[string]string{}
	for _, fn := range P.nodeFuncs() {
		if !P.hasFactoryPath(fn) {
			continue
		}
		paths, _ := P.nodePaths(fn)
		var errPaths, okPaths []string
		for _, p := range paths {
			if !p.has("CALL-FACTORY", "") {
				continue
			}
			if p.has("FACTORY-ERR", "T") {
				iss := p.count("ISSUE")
				errPaths = append(errPaths, fmt.Sprintf("issues=%d child=%v tests=%v end=%s", iss, p.has("CHILD", ""), p.has("TESTS", ""), p.end))
			} else if p.has("FACTORY-ERR", "F") {
				okPaths = append(okPaths, "continues")
			} else {
				okPaths = append(okPaths, "error-not-tested")
			}
		}
		s := "on error: " + strings.Join(uniqSorted(errPaths), " | ") + "; else: " + strings.Join(uniqSorted(okPaths), " | ")
		sig[fname(fn)] = s
	}
	wantSig := "on error: issues=1 child=false tests=false end=RETURN; else: continues"
	for _, k := range sortedKeys(sig) {
		if sig[k] == wantSig {
			r.ok("C14/factory-twins", k, "-", sig[k])
		} else {
			r.bad("C14/factory-twins", k, "-", "factory handling differs from the documented protocol (call; on error exactly one issue and stop; else continue with the result): "+sig[k])
		}
	}
	r.floor("C14/factory-twins", 1)

	// ---- nested-from-parent ----
	P.checkTagReachesNested(r, "C14/nested-from-parent")
	P.checkFrontEndProviderNeverNil(r, "C14/front-end-provider-never-nil")
	// which rendering of a request is read (query vs body, by method and media type) is part of "the same
	// record through every front end": C15's source-selection table
	shareRule(P, r, checkC15, "C15/dispatch-table", nil, "C14/source-selection", 4)
	// nothing about the front end of one call (its tag, its provider) survives in the pooled execution objects
	// into the next call: C07's reinit rule on the execution and node contexts
	shareRule(P, r, checkC07, "C07/reinit", func(o Obligation) bool {
		return strings.Contains(o.Construct, "#zog/internals.ExecCtx.") || strings.Contains(o.Construct, "#zog/internals.SchemaCtx.")
	}, "C14/no-front-end-state-carried", 0)
}

// requestTableByInterpretation decides zhttp.Request when it is not written as the documented nest of switches.
// The function may look at the request only through r.Method and the Content-Type header, compare strings only
// with constants, and take the header apart only at ';' (strings.Cut / Index / IndexByte and slicing at that
// index). Its behaviour then depends on the input through finitely many classes: the method equal to one of
// the string constants of the code or to none of them, the media type likewise, and whether parameters follow
// the media type. It is interpreted (symexec.go) on one representative per class; anything outside that
// vocabulary makes the run undecided.
func (P *Prog) requestTableByInterpretation(fn *ssa.Function) (string, string) {
	if len(fn.Params) != 1 {
		return "undecided", "unexpected signature"
	}
	consts := map[string]bool{"GET": true, "HEAD": true, "application/json": true, "application/x-www-form-urlencoded": true}
	seen := map[*ssa.Function]bool{}
	var collect func(f *ssa.Function, d int)
	collect = func(f *ssa.Function, d int) {
		if f == nil || seen[f] || d > 3 || f.Blocks == nil {
			return
		}
		seen[f] = true
		eachInstr(f, func(_ *ssa.BasicBlock, _ int, in ssa.Instruction) {
			var ops []*ssa.Value
			for _, op := range in.Operands(ops) {
				if s, ok := constString(*op); ok && s != ";" && s != "Content-Type" {
					consts[s] = true
				}
			}
			if ci := callOf(in); ci != nil && ci.static != nil && inModule(funcPkgPath(ci.static)) {
				collect(ci.static, d+1)
			}
		})
	}
	collect(fn, 0)
	reps := append(sortedKeys(consts), "zz-none-of-the-constants")
	for _, method := range reps {
		for _, media := range reps {
			for _, params := range []bool{false, true} {
				header := media
				if params {
					header = media + "; charset=utf-8"
				}
				class := fmt.Sprintf("method %q, Content-Type %q", method, header)
				oracle := func(callee string, args []symVal) (symVal, bool) {
					str := func(i int) (string, bool) {
						if i >= len(args) || args[i].kind != svStr {
							return "", false
						}
						u, err := strconv.Unquote(args[i].name)
						return u, err == nil
					}
					q := func(s string) symVal { return symVal{kind: svStr, name: strconv.Quote(s)} }
					switch callee {
					case "(net/http.Header).Get":
						if k, ok := str(1); ok && k == "Content-Type" && args[0].kind == svOpaque && args[0].name == "r.Header" {
							return q(header), true
						}
					case "strings.Cut":
						a, ok1 := str(0)
						sep, ok2 := str(1)
						if ok1 && ok2 && sep == ";" {
							before, after, found := strings.Cut(a, sep)
							return symVal{kind: svTuple, tuple: []symVal{q(before), q(after), {kind: svBool, b: found}}}, true
						}
					case "strings.Index":
						a, ok1 := str(0)
						sep, ok2 := str(1)
						if ok1 && ok2 && sep == ";" {
							return symVal{kind: svInt, i: int64(strings.Index(a, sep))}, true
						}
					case "strings.IndexByte", "strings.IndexRune":
						if a, ok := str(0); ok && len(args) == 2 && args[1].kind == svInt && args[1].i == ';' {
							return symVal{kind: svInt, i: int64(strings.IndexByte(a, ';'))}, true
						}
					}
					return symVal{}, false
				}
				se := newSymExec(oracle)
				se.fieldLoad = func(path string) (symVal, bool) {
					switch path {
					case "r.Method":
						return symVal{kind: svStr, name: strconv.Quote(method)}, true
					case "r.Header":
						return symVal{kind: svOpaque, name: "r.Header"}, true
					}
					return symVal{}, false
				}
				if !se.run(fn, []symVal{{kind: svOpaque, name: "r"}}) {
					if se.panics != "" {
						return "bad", class + ": panics (" + se.panics + ")"
					}
					return "undecided", se.problem
				}
				want := "call @Config.Parsers.Query"
				if method != "GET" && method != "HEAD" {
					switch media {
					case "application/json":
						want = "call @Config.Parsers.JSON"
					case "application/x-www-form-urlencoded":
						want = "call @Config.Parsers.Form"
					}
				}
				if len(se.ret) != 1 || se.ret[0].kind != svStr || se.ret[0].name != want {
					got := "?"
					if len(se.ret) == 1 {
						got = se.ret[0].String()
					}
					return "bad", class + ": " + got + ", documented: " + want
				}
			}
		}
	}
	return "ok", ""
}

func checkC15(P *Prog, r *Result) {
	R := P.roles
	r.Explanation = "Decides zhttp's source selection and failure protocol structurally: (dispatch-table) the decision tree of zhttp.Request, extracted from its SSA as (path condition -> parser slot called), " +
		"equals the documented table GET|HEAD -> Query; else media type application/json -> JSON, application/x-www-form-urlencoded -> Form, otherwise Query, with the media type obtained by cutting " +
		"the Content-Type header at ';'; (decode-failure) in zjson.Decode and the form parser every failing path returns (nil, issue with the documented code) and in the struct/pointer pipelines a " +
		"factory error yields exactly one issue, no child, no destination write; (list-scalar-absent) the url.Values provider returns a boxed list only for a present entry; " +
		"(empty-object) the provider handed to the struct pipeline can never be a nil interface. RFC-level media-type normalisation (case, whitespace) is value-level and not claimed."
	// ---- dispatch-table ----
	if fn := P.fn("zog/zhttp.Request"); fn != nil {
		r.sawFunc(fname(fn))
		sh := P.predicateShape(fn)
		var rows []string
		for _, p := range sh.paths {
			rows = append(rows, strings.Join(p.conds, " ∧ ")+" ⇒ "+p.ret)
		}
		got := strings.Join(rows, "\n")
		ct := `strings.Cut((net/http.Header).Get(val.Header, "Content-Type"), ";")#0`
		want := strings.Join([]string{
			`(val.Method == "GET") ⇒ call @Config.Parsers.Query(val)`,
			`(val.Method != "GET") ∧ (val.Method == "HEAD") ⇒ call @Config.Parsers.Query(val)`,
			`(val.Method != "GET") ∧ (val.Method != "HEAD") ∧ (` + ct + ` == "application/json") ⇒ call @Config.Parsers.JSON(val)`,
			`(val.Method != "GET") ∧ (val.Method != "HEAD") ∧ (` + ct + ` != "application/json") ∧ (` + ct + ` == "application/x-www-form-urlencoded") ⇒ call @Config.Parsers.Form(val)`,
			`(val.Method != "GET") ∧ (val.Method != "HEAD") ∧ (` + ct + ` != "application/json") ∧ (` + ct + ` != "application/x-www-form-urlencoded") ⇒ call @Config.Parsers.Query(val)`,
		}, "\n")
		// order-insensitive comparison of the decision table
		if strings.Join(uniqSorted(strings.Split(got, "\n")), "\n") == strings.Join(uniqSorted(strings.Split(want, "\n")), "\n") {
			r.ok("C15/dispatch-table", "zhttp.Request", P.pos(fn.Pos()), "GET|HEAD→Query; application/json→JSON; application/x-www-form-urlencoded→Form; otherwise Query; media type = Content-Type cut at ';'")
		} else if verdict, detail := P.requestTableByInterpretation(fn); verdict == "ok" {
			r.ok("C15/dispatch-table", "zhttp.Request", P.pos(fn.Pos()), "GET|HEAD→Query; application/json→JSON; application/x-www-form-urlencoded→Form; otherwise Query; media type = Content-Type cut at ';' (decided by interpretation on the classes of method × media type × parameters present)")
		} else if verdict == "bad" {
			r.bad("C15/dispatch-table", "zhttp.Request", P.pos(fn.Pos()), "the source-selection table of zhttp.Request differs from the documented one", detail)
		} else {
			r.bad("C15/dispatch-table", "zhttp.Request", P.pos(fn.Pos()), "the source-selection table of zhttp.Request differs from the documented one", "expected:\n"+want, "found:\n"+got, "interpretation: "+detail)
		}
	} else {
		r.broken("anchor zhttp.Request not found")
	}
	// the parser slots hold the right parsers: JSON reads the body through zjson.Decode, Form calls ParseForm and reads r.Form, Query reads r.URL.Query()
	slot := func(name string) *ssa.Function { return P.fn("zog/zhttp.Config.Parsers." + name + "(func)") }
	if f := slot("JSON"); f != nil {
		okJ := false
		eachInstr(f, func(_ *ssa.BasicBlock, _ int, in ssa.Instruction) {
			if ci := callOf(in); ci != nil && ci.static != nil && fname(ci.static) == "zog/parsers/zjson.Decode" {
				if _, fl := loadOfField(cvi(ci.args()[0])); fl != nil && fl.Name() == "Body" {
					okJ = true
				}
			}
		})
		if okJ {
			r.ok("C15/dispatch-table", "Config.Parsers.JSON", P.pos(f.Pos()), "decodes r.Body with zjson.Decode")
		} else {
			r.bad("C15/dispatch-table", "Config.Parsers.JSON", P.pos(f.Pos()), "the JSON slot does not decode the request body with zjson.Decode")
		}
	} else {
		r.undecided("C15/dispatch-table", "Config.Parsers.JSON", "-", "slot initialiser not found")
	}
	for _, nm := range []string{"Form", "Query"} {
		f := returnedClosure(P.fn("zog/zhttp.Config.Parsers." + nm + "(func)"))
		if f == nil {
			r.undecided("C15/dispatch-table", "Config.Parsers."+nm, "-", "slot initialiser not found")
			continue
		}
		r.sawFunc(fname(f))
		src := ""
		parseForm := false
		eachInstr(f, func(_ *ssa.BasicBlock, _ int, in ssa.Instruction) {
			ci := callOf(in)
			if ci == nil || ci.static == nil {
				return
			}
			if ci.static.String() == "(*net/http.Request).ParseForm" {
				parseForm = true
			}
		})
		// the url.Values the provider is built over (directly, or through a helper such as form(values, &tag))
		// (every provider the parser can build: a second source behind a condition - `if r.Form != nil` - counts)
		srcs := map[string]bool{}
		for _, b := range P.valuesProviderBuilds(f) {
			one := "?"
			if _, fl := loadOfField(b.data); fl != nil {
				one = "r." + fl.Name()
			}
			if c, ok := b.data.(*ssa.Call); ok && callOf(c).static != nil {
				one = callOf(c).static.String()
			}
			srcs[one] = true
		}
		for k := range srcs {
			src = k
		}
		if len(srcs) > 1 {
			var ks []string
			for k := range srcs {
				ks = append(ks, k)
			}
			sort.Strings(ks)
			src = strings.Join(ks, " | ")
		}
		switch {
		case nm == "Form" && parseForm && src == "r.Form":
			r.ok("C15/dispatch-table", "Config.Parsers.Form", P.pos(f.Pos()), "ParseForm then r.Form (body plus query, as net/http defines)")
		case nm == "Query" && src == "(*net/url.URL).Query":
			r.ok("C15/dispatch-table", "Config.Parsers.Query", P.pos(f.Pos()), "r.URL.Query()")
		default:
			r.bad("C15/dispatch-table", "Config.Parsers."+nm, P.pos(f.Pos()), fmt.Sprintf("the %s slot does not read its documented source (source: %q, ParseForm called: %v)", nm, src, parseForm))
		}
	}
	r.floor("C15/dispatch-table", 3)

	// ---- decode-failure ----
	P.checkDecodeFailure(r)
	// ---- list-scalar-absent ----
	P.checkAbsentAtProvider(r, "C15/list-scalar-absent", func(fn *ssa.Function) bool { return funcPkgPath(fn) == pkgZhttp })
	r.floor("C15/list-scalar-absent", 1)
	P.checkListKeyAlwaysList(r, "C15/list-key-always-list")
	// ---- empty-object: provider never a nil interface ----
	P.checkProviderNonNil(r, "C15/empty-object")
	P.checkProviderPassedThrough(r, "C15/front-end-provider-passed-through")
	P.checkSourceOpenWhileRead(r)
	// "exactly one top-level issue": the issue of an undecodable request is reported on a context whose catch flag is
	// clean - a recycled context that still carries CanCatch swallows it and Parse returns nil (C01's rule)
	shareRule(P, r, checkC01, "C01/child-clean", func(o Obligation) bool {
		return strings.Contains(o.Construct, "StructSchema") || strings.Contains(o.Construct, "PointerSchema")
	}, "C15/issue-not-swallowed", 4)
	// a request factory decides from the request alone: it keeps nothing between calls (a memoised result makes the
	// second schema that is handed the same factory see an empty record instead of the decode failure) - C08's
	// write-effects rule on the front-end packages
	shareRule(P, r, checkC08, "C08/write-effects", func(o Obligation) bool {
		return strings.Contains(o.Construct, "/zjson.") || strings.Contains(o.Construct, "/zhttp.")
	}, "C15/factory-stateless", 1)
	_ = R
}

func (P *Prog) checkDecodeFailure(r *Result) {
	R := P.roles
	codeF := structField(R.ZogIssue, "Code")
	type spec struct{ fn, code string }
	for _, sp := range []spec{{"zog/parsers/zjson.Decode$1", "invalid_json"}, {"zog/zhttp.Config.Parsers.Form(func)$1", "invalid_form"}} {
		fn := peelDelegation(returnedClosure(P.fn(strings.TrimSuffix(sp.fn, "$1"))))
		if fn == nil {
			r.undecided("C15/decode-failure", sp.fn, "-", "closure not found")
			continue
		}
		r.sawFunc(fname(fn))
		var problems []string
		nFail, nOK := 0, 0
		// encoding/json refuses a document whose top level is not an object only when it decodes into a map (or a
		// struct); decoding into `any` accepts every document, and then the success return has to lie behind a checked
		// assertion that the decoded value is a map
		decodesIntoAny := ""
		eachInstr(fn, func(_ *ssa.BasicBlock, _ int, in ssa.Instruction) {
			c, ok := in.(*ssa.Call)
			if !ok || callOf(c).static == nil {
				return
			}
			var dst ssa.Value
			switch callOf(c).static.String() {
			case "(*encoding/json.Decoder).Decode":
				dst = c.Call.Args[1]
			case "encoding/json.Unmarshal":
				dst = c.Call.Args[1]
			default:
				return
			}
			v := cv(dst)
			if mi, isMI := v.(*ssa.MakeInterface); isMI {
				v = cv(mi.X)
			}
			if pt, isP := v.Type().Underlying().(*types.Pointer); isP {
				switch pt.Elem().Underlying().(type) {
				case *types.Map, *types.Struct:
				default:
					decodesIntoAny = P.ipos(in)
				}
			} else {
				decodesIntoAny = P.ipos(in)
			}
		})
		eachInstr(fn, func(b *ssa.BasicBlock, _ int, in ssa.Instruction) {
			rt, ok := in.(*ssa.Return)
			if !ok || len(rt.Results) != 2 {
				return
			}
			rv, okRV := retVals(rt)
			if !okRV {
				return
			}
			prov, iss := rv[0], rv[1]
			// a return is the success return iff it is reached knowing that the decoding error is nil and not knowing the
			// decoded value to be nil; every other return reports a failure. (Failure-first code reaches its success
			// return on the false edges of `err != nil` and `m == nil`; success-first code tests `err == nil && m != nil`
			// and falls through to the one failure return.)
			errNil, valNil := false, false
			for _, gd := range guardsOf(b) {
				x, eq, isN := isNilCompare(gd.If.Cond)
				if !isN {
					continue
				}
				isNil := gd.True == eq
				if types.Identical(x.Type(), types.Universe.Lookup("error").Type()) {
					if isNil {
						errNil = true
					}
				} else if isNil {
					valNil = true // decoded value is nil
				}
			}
			failGuard := !errNil || valNil
			if failGuard {
				nFail++
				if !isNilConst(prov) {
					problems = append(problems, "a failing decode still returns a provider at "+P.ipos(in))
				}
				issv := cv(iss)
				// the issue may be built by a helper (`invalidJSON(err)`): the literal it returns
				if hc, isCall := issv.(*ssa.Call); isCall {
					if callee := callOf(hc).static; callee != nil && callee.Blocks != nil && inModule(funcPkgPath(callee)) {
						var ret ssa.Value
						nRet := 0
						eachInstr(callee, func(_ *ssa.BasicBlock, _ int, in2 ssa.Instruction) {
							if rt2, ok := in2.(*ssa.Return); ok && len(rt2.Results) == 1 {
								nRet++
								ret = cv(rt2.Results[0])
							}
						})
						if nRet == 1 && ret != nil {
							issv = ret
						}
					}
				}
				al, ok := issv.(*ssa.Alloc)
				code := ""
				if ok && al.Referrers() != nil {
					for _, rf := range *al.Referrers() {
						if fa, ok := rf.(*ssa.FieldAddr); ok {
							if _, f := fieldVar(fa); f != nil && sameField(f, codeF) && fa.Referrers() != nil {
								for _, u := range *fa.Referrers() {
									if st, ok := u.(*ssa.Store); ok {
										code, _ = constString(st.Val)
									}
								}
							}
						}
					}
				}
				if code != sp.code {
					problems = append(problems, fmt.Sprintf("a failing decode returns an issue with code %q (documented: %s) at %s", code, sp.code, P.ipos(in)))
				}
			} else {
				nOK++
				if !isNilConst(iss) {
					problems = append(problems, "a successful decode returns a non-nil issue at "+P.ipos(in))
				}
				if decodesIntoAny != "" && sp.code == "invalid_json" {
					isMap := false
					for _, gd := range guardsOf(b) {
						if ex, isEx := gd.If.Cond.(*ssa.Extract); isEx && ex.Index == 1 && gd.True {
							if ta, isTA := ex.Tuple.(*ssa.TypeAssert); isTA && ta.CommaOk {
								if _, m := ta.AssertedType.Underlying().(*types.Map); m {
									isMap = true
								}
							}
						}
					}
					if !isMap {
						problems = append(problems, "the document is decoded into a value of any type ("+decodesIntoAny+") and the success return at "+P.ipos(in)+" is not behind a checked assertion that it is an object: a JSON array, string, number or boolean body is accepted as an empty record instead of being reported as "+sp.code)
					}
				}
			}
		})
		// every error result of a decoding call must be tested
		eachInstr(fn, func(_ *ssa.BasicBlock, _ int, in ssa.Instruction) {
			c, ok := in.(*ssa.Call)
			if !ok {
				return
			}
			ci := callOf(c)
			if ci.static == nil {
				return
			}
			n := ci.static.String()
			if n == "(*encoding/json.Decoder).Decode" || n == "(*net/http.Request).ParseForm" {
				tested := false
				if c.Referrers() != nil {
					for _, rf := range *c.Referrers() {
						if bo, ok := rf.(*ssa.BinOp); ok {
							if _, _, isN := isNilCompare(bo); isN {
								tested = true
							}
						}
					}
				}
				if !tested {
					problems = append(problems, "the error returned by "+n+" is not checked")
				}
			}
		})
		if nFail == 0 {
			problems = append(problems, "no failing path found")
		}
		if len(problems) > 0 {
			r.bad("C15/decode-failure", sp.fn, P.pos(fn.Pos()), strings.Join(uniqSorted(problems), "; "))
		} else {
			r.ok("C15/decode-failure", sp.fn, P.pos(fn.Pos()), fmt.Sprintf("%d failing path(s) return (nil, %s issue); %d success path(s) return (provider, nil)", nFail, sp.code, nOK))
		}
	}
	// pipelines: factory error -> exactly one issue, no child, no destination write
	for _, fn := range P.nodeFuncs() {
		if !P.hasFactoryPath(fn) {
			continue
		}
		r.sawFunc(fname(fn))
		paths, _ := P.nodePaths(fn)
		var problems []string
		n := 0
		for _, p := range paths {
			if !p.has("FACTORY-ERR", "T") {
				continue
			}
			n++
			if p.count("ISSUE") != 1 {
				problems = append(problems, fmt.Sprintf("%d issues on the factory-error path", p.count("ISSUE")))
			}
			if p.has("CHILD", "") || p.has("TESTS", "") || p.has("CALL-TEST", "") || p.has("DEST", "") || p.end != "RETURN" {
				problems = append(problems, "after an undecodable request the schema still runs or the destination is written  [path: "+p.String()+"]")
			}
		}
		if n == 0 {
			problems = append(problems, "the factory's error result is never tested")
		}
		if len(problems) > 0 {
			r.bad("C15/decode-failure", fname(fn), P.pos(fn.Pos()), strings.Join(uniqSorted(problems), "; "))
		} else {
			r.ok("C15/decode-failure", fname(fn), P.pos(fn.Pos()), fmt.Sprintf("%d factory-error path(s): exactly one issue, then return; no child, test or destination write", n))
		}
	}
	r.floor("C15/decode-failure", 2)
}

// checkProviderNonNil: every DataProvider value on which the struct pipeline
// invokes a method is non-nil on all paths: none of the functions whose result
// can flow there returns a nil interface constant, unless the use is guarded
// by a nil test.
func (P *Prog) checkProviderNonNil(r *Result, rule string) {
	R := P.roles
	// functions returning DataProvider that can return a nil interface
	nilReturners := map[*ssa.Function]string{}
	for _, fn := range P.Funcs {
		res := fn.Signature.Results()
		for i := 0; i < res.Len(); i++ {
			if P.isDataProviderIface(res.At(i).Type()) {
				idx := i
				eachInstr(fn, func(b *ssa.BasicBlock, _ int, in ssa.Instruction) {
					rt, ok := in.(*ssa.Return)
					if !ok || idx >= len(rt.Results) {
						return
					}
					rvs, okRV := retVals(rt)
					if !okRV {
						return
					}
					if isNilConst(rvs[idx]) {
						// a nil provider returned together with a non-nil error/issue is the failure protocol
						other := false
						for j, rv := range rvs {
							if j != idx && !isNilConst(rv) {
								other = true
							}
						}
						if !other {
							nilReturners[fn] = P.ipos(in)
						}
					}
				})
			}
		}
	}
	// invoke sites on DataProvider values in node functions
	n := 0
	var siteFns []*ssa.Function
	siteOwner := map[*ssa.Function]*ssa.Function{}
	for _, nf := range P.nodeFuncs() {
		// the node function and its closures / helpers (a field loop whose body is a closure handed to an iteration helper)
		for _, u := range P.nodeUnits(nf) {
			if _, dup := siteOwner[u.fn]; !dup {
				siteOwner[u.fn] = nf
				siteFns = append(siteFns, u.fn)
			}
		}
	}
	for _, fn := range siteFns {
		nf := siteOwner[fn]
		eachInstr(fn, func(b *ssa.BasicBlock, _ int, in ssa.Instruction) {
			ci := callOf(in)
			if ci == nil || ci.invoke == nil || !P.isDataProviderIface(ci.instr.Common().Value.Type()) {
				return
			}
			n++
			c := fmt.Sprintf("%s#invoke:%s", fname(nf), ci.invoke.Name())
			recv := ci.instr.Common().Value
			// a variable of the enclosing function captured by this closure: decided where the closure is
			// created, flow-sensitively (the `if dp == nil { dp = &Empty{} }` repair precedes the closure)
			if u, ok := recv.(*ssa.UnOp); ok && u.Op == token.MUL {
				if fv, ok := u.X.(*ssa.FreeVar); ok {
					if al, ok := freeVarBinding(fv).(*ssa.Alloc); ok {
						if why := capturedNonNil(al, fn); why == "" {
							r.ok(rule, c, P.ipos(in), "captured provider variable is definitely non-nil where the closure is created and not written afterwards")
							return
						}
					}
				}
			}
			// guarded by a nil test?
			for _, gd := range guardsOf(b) {
				if x, eq, isN := isNilCompare(gd.If.Cond); isN && cv(x) == cv(recv) && gd.True != eq {
					r.ok(rule, c, P.ipos(in), "provider tested for nil before use")
					return
				}
			}
			// where can the value come from?
			var sources []string
			bad := false
			var walk func(v ssa.Value, d int)
			seen := map[ssa.Value]bool{}
			resIdx := map[ssa.Value]int{}
			walk = func(v ssa.Value, d int) {
				if v == nil || seen[v] || d > 8 {
					return
				}
				seen[v] = true
				switch x := v.(type) {
				case *ssa.Phi:
					for i, e := range x.Edges {
						// an edge taken only when the value was tested non-nil is safe
						pb := x.Block().Preds[i]
						safe := false
						for _, gd := range append(guardsOf(pb), guardsOfEdge(pb, x.Block())...) {
							if y, eq, isN := isNilCompare(gd.If.Cond); isN && cv(y) == cv(e) && gd.True != eq {
								safe = true
							}
						}
						if !safe {
							walk(e, d+1)
						}
					}
				case *ssa.Extract:
					resIdx[x.Tuple] = x.Index
					walk(x.Tuple, d+1)
				case *ssa.Const:
					if x.Value == nil {
						bad = true
						sources = append(sources, "nil constant")
					}
				case *ssa.Call:
					cc := callOf(x)
					switch {
					case cc.static != nil:
						sources = append(sources, fname(cc.static))
						if pos, isNil := P.mayReturnNilProvider(cc.static, nilReturners, map[*ssa.Function]bool{}); isNil {
							bad = true
							sources = append(sources, "  which can return a nil provider without an error at "+pos)
						}
						// a module helper: the values it returns on its non-failing returns (merges,
						// locals; direct calls and nil constants were decided just above)
						if cc.static.Blocks != nil && inModule(funcPkgPath(cc.static)) {
							idx := resIdx[v]
							eachInstr(cc.static, func(_ *ssa.BasicBlock, _ int, in2 ssa.Instruction) {
								rt, ok := in2.(*ssa.Return)
								if !ok || idx >= len(rt.Results) {
									return
								}
								rvs, okRV := retVals(rt)
								if !okRV {
									return
								}
								for j, rv := range rvs {
									if j == idx {
										continue
									}
									if b2, isB := constBool(rv); isB && !b2 {
										return // (nil, false): the failure protocol, tested by the caller
									}
								}
								// returned only after it was tested non-nil (`if dp == nil { return &Empty{}, true }; return dp, true`)
								for _, gd := range guardsOf(in2.Block()) {
									if y, eq, isN := isNilCompare(gd.If.Cond); isN && cv(y) == cv(rvs[idx]) && gd.True != eq {
										return
									}
								}
								switch cv(rvs[idx]).(type) {
								case *ssa.Phi, *ssa.UnOp, *ssa.Extract, *ssa.MakeInterface:
									walk(cv(rvs[idx]), d+1)
								}
							})
						}
					case cc.dynamic:
						// a factory: any module closure of that signature
						for f2, pos := range nilReturners {
							if f2.Signature.Results().Len() == 2 && stripRecvIdent(f2, x) {
								bad = true
								sources = append(sources, fname(f2)+" can return (nil, nil) at "+pos)
							}
						}
						sources = append(sources, "DpFactory result")
						// factories built from functions that may return nil providers
						for _, f2 := range P.Funcs {
							if !stripRecvIdent(f2, x) {
								continue
							}
							eachInstr(f2, func(_ *ssa.BasicBlock, _ int, in2 ssa.Instruction) {
								rt, ok := in2.(*ssa.Return)
								if !ok || len(rt.Results) != 2 {
									return
								}
								rvs, okRV := retVals(rt)
								if !okRV || !isNilConst(rvs[1]) {
									return
								}
								if c3, ok := cv(rvs[0]).(*ssa.Call); ok {
									if c3i := callOf(c3); c3i.static != nil {
										if pos, isNil := P.mayReturnNilProvider(c3i.static, nilReturners, map[*ssa.Function]bool{}); isNil {
											bad = true
											sources = append(sources, fmt.Sprintf("%s returns the result of %s, which can be a nil provider (%s)", fname(f2), fname(c3i.static), pos))
										}
									}
								}
							})
						}
					}
				case *ssa.MakeInterface, *ssa.Alloc:
					sources = append(sources, "concrete provider")
				case *ssa.Parameter:
					// a provider handed to an unexported helper: whatever its call sites pass
					g := x.Parent()
					if sites, closed := P.closedCallSites(g); closed {
						for i, q := range g.Params {
							if q != x {
								continue
							}
							for _, site := range sites {
								if i < len(site.Common().Args) {
									walk(site.Common().Args[i], d+1)
								}
							}
						}
					}
				case *ssa.UnOp:
					addr := x.X
					// (a variable of the enclosing function read by a closure: whatever is stored into it anywhere)
					if fv, ok := addr.(*ssa.FreeVar); ok {
						if b := freeVarBinding(fv); b != nil {
							addr = b
						}
					}
					if al, ok := addr.(*ssa.Alloc); ok {
						for _, st := range storesTo(al) {
							walk(st.Val, d+1)
						}
					}
				}
			}
			walk(recv, 0)
			if bad {
				r.bad(rule, c, P.ipos(in), "a method is invoked on a DataProvider that can be a nil interface: an empty record ({} / empty map) makes Parse panic with a nil dereference", uniqSorted(sources)...)
			} else {
				r.ok(rule, c, P.ipos(in), "provider cannot be a nil interface on any path", uniqSorted(sources)...)
			}
		})
	}
	r.floor(rule, 1)
	_ = R
	_ = token.ADD
}

// isDataProviderIface: t is (an alias of) the DataProvider interface.
func (P *Prog) isDataProviderIface(t types.Type) bool {
	it, ok := t.Underlying().(*types.Interface)
	if !ok || it.NumMethods() == 0 {
		return false
	}
	return types.Identical(it, P.roles.DataProvider)
}

// stripRecvIdent: f2 has exactly the signature of the dynamic callee of call.
func stripRecvIdent(f2 *ssa.Function, call *ssa.Call) bool {
	sig, ok := call.Call.Value.Type().Underlying().(*types.Signature)
	if !ok {
		return false
	}
	return types.Identical(stripRecv(f2.Signature), sig)
}

// nilGuardedByLen: the nil-returning return at block b of fn is taken only
// when len(param i) == 0; returns i (or -1).
func nilReturnLenParam(fn *ssa.Function, b *ssa.BasicBlock) int {
	for _, gd := range guardsOf(b) {
		bo, ok := gd.If.Cond.(*ssa.BinOp)
		if !ok || bo.Op != token.EQL || !gd.True {
			continue
		}
		c, ok := bo.X.(*ssa.Call)
		if !ok || callOf(c).builtin != "len" {
			continue
		}
		if k, ok := constInt(bo.Y); !ok || k != 0 {
			continue
		}
		for i, p := range fn.Params {
			if cv(c.Call.Args[0]) == ssa.Value(p) {
				return i
			}
		}
	}
	return -1
}

// mayReturnNilProvider: can a call of fn return a nil DataProvider together
// with a nil error? Follows tail calls through module functions; a callee that
// returns nil only when len(param)==0 is discharged at call sites guarded by
// len(actual) != 0.
func (P *Prog) mayReturnNilProvider(fn *ssa.Function, nilReturners map[*ssa.Function]string, seen map[*ssa.Function]bool) (string, bool) {
	if fn == nil || fn.Blocks == nil || seen[fn] {
		return "", false
	}
	seen[fn] = true
	if pos, ok := nilReturners[fn]; ok {
		return pos, true
	}
	res := ""
	found := false
	eachInstr(fn, func(b *ssa.BasicBlock, _ int, in ssa.Instruction) {
		rt, ok := in.(*ssa.Return)
		if !ok || len(rt.Results) == 0 {
			return
		}
		rvs, okRV := retVals(rt)
		if !okRV {
			return
		}
		// other results non-nil (error) => failure protocol
		for j := 1; j < len(rvs); j++ {
			if !isNilConst(rvs[j]) {
				return
			}
		}
		c, ok := cv(rvs[0]).(*ssa.Call)
		if !ok {
			return
		}
		ci := callOf(c)
		if ci.static == nil || !inModule(funcPkgPath(ci.static)) {
			return
		}
		pos, isNil := P.mayReturnNilProvider(ci.static, nilReturners, seen)
		if !isNil {
			return
		}
		// discharge by a len guard at this call site
		if idx := P.nilOnlyWhenEmptyParam(ci.static, nilReturners); idx >= 0 && idx < len(c.Call.Args) {
			for _, gd := range guardsOf(b) {
				bo, ok := gd.If.Cond.(*ssa.BinOp)
				if !ok {
					continue
				}
				lc, ok := bo.X.(*ssa.Call)
				if !ok || callOf(lc).builtin != "len" || !sameValue(lc.Call.Args[0], c.Call.Args[idx]) {
					continue
				}
				if k, ok := constInt(bo.Y); ok && k == 0 {
					if (bo.Op == token.EQL && !gd.True) || (bo.Op == token.NEQ && gd.True) || (bo.Op == token.GTR && gd.True) {
						return
					}
				}
			}
		}
		res, found = pos+" (via "+fname(ci.static)+")", true
	})
	return res, found
}

// nilOnlyWhenEmptyParam: fn's only nil-provider return is guarded by len(param i) == 0.
func (P *Prog) nilOnlyWhenEmptyParam(fn *ssa.Function, nilReturners map[*ssa.Function]string) int {
	if _, ok := nilReturners[fn]; !ok {
		return -1
	}
	idx := -2
	eachInstr(fn, func(b *ssa.BasicBlock, _ int, in ssa.Instruction) {
		rt, ok := in.(*ssa.Return)
		if !ok || len(rt.Results) == 0 {
			return
		}
		rvs, okRV := retVals(rt)
		if !okRV || !isNilConst(rvs[0]) {
			return
		}
		i := nilReturnLenParam(fn, b)
		if idx == -2 {
			idx = i
		} else if idx != i {
			idx = -1
		}
	})
	if idx == -2 {
		return -1
	}
	return idx
}

// capturedNonNil: the local variable al of the enclosing function, captured by closure cl, holds a non-nil
// interface whenever cl can run: at the MakeClosure of cl the variable is definitely non-nil (forward
// must-analysis over the parent's blocks: a store of a boxed concrete value makes it non-nil, a branch on
// `load(al) == nil` makes it non-nil on the other edge) and no store to it can follow. Returns "" or why not.
func capturedNonNil(al *ssa.Alloc, cl *ssa.Function) string {
	par := al.Parent()
	if par == nil || cl.Parent() != par {
		return "captured through more than one closure level"
	}
	var mcs []*ssa.MakeClosure
	eachInstr(par, func(_ *ssa.BasicBlock, _ int, in ssa.Instruction) {
		if mc, ok := in.(*ssa.MakeClosure); ok && mc.Fn == cl {
			mcs = append(mcs, mc)
		}
	})
	if len(mcs) != 1 {
		return "closure created at several places"
	}
	mc := mcs[0]
	// stores to the variable anywhere but in the parent (another closure writing it) defeat the argument
	stores := storesTo(al)
	for _, st := range stores {
		if st.Parent() != par {
			return "the variable is written inside a closure"
		}
	}
	const unk, nn, unvisited = 0, 1, -1
	in := map[*ssa.BasicBlock]int{}
	for _, b := range par.Blocks {
		in[b] = unvisited
	}
	in[par.Blocks[0]] = unk
	stateAtMC := unvisited
	storeAfterMC := false
	for changed, iter := true, 0; changed && iter < 60; iter++ {
		changed = false
		for _, b := range par.Blocks {
			cur := in[b]
			if cur == unvisited {
				continue
			}
			var lastLoad ssa.Value // a load of al with no store to al after it in this block
			for _, ins := range b.Instrs {
				switch x := ins.(type) {
				case *ssa.Store:
					if x.Addr == ssa.Value(al) {
						lastLoad = nil
						if definitelyNonNil(cv(x.Val)) {
							cur = nn
						} else {
							cur = unk
						}
					}
				case *ssa.UnOp:
					if x.Op == token.MUL && x.X == ssa.Value(al) {
						lastLoad = x
					}
				case *ssa.MakeClosure:
					if x == mc {
						stateAtMC = cur
					}
				}
			}
			for k, sct := range b.Succs {
				out := cur
				if iff := condOf(b); iff != nil && lastLoad != nil {
					if x, eq, isN := isNilCompare(iff.Cond); isN && x == lastLoad {
						// eq: cond is `v == nil`; edge 0 is the true edge
						if (eq && k == 1) || (!eq && k == 0) {
							out = nn
						}
					}
				}
				switch {
				case in[sct] == unvisited:
					in[sct] = out
					changed = true
				case in[sct] == nn && out == unk:
					in[sct] = unk
					changed = true
				}
			}
		}
	}
	// no store after the closure exists
	for _, st := range stores {
		if st.Block() == mc.Block() {
			if instrIndex(st) > instrIndex(mc) {
				storeAfterMC = true
			}
		} else if reach(mc.Block(), nil)[st.Block()] && st.Block() != mc.Block() {
			if !st.Block().Dominates(mc.Block()) || reachFromSuccs(mc.Block(), nil)[st.Block()] {
				storeAfterMC = true
			}
		}
	}
	switch {
	case stateAtMC != nn:
		return "the variable may be a nil interface where the closure is created"
	case storeAfterMC:
		return "the variable can be written after the closure was created"
	}
	return ""
}

// valuesProviderBuilds: the url.Values-backed providers a front-end closure
// builds, in the closure itself or in a helper it calls (`form(values, &tag)`):
// for every composite value of a provider type with a url.Values field, the
// value stored into that field and the one stored into its *string tag field,
// resolved to the closure's own values through the helper's call-site bindings.
type provBuild struct {
	data, tag ssa.Value
	in        ssa.Instruction
}

func (P *Prog) valuesProviderBuilds(fn *ssa.Function) []provBuild {
	var out []provBuild
	isValues := func(t types.Type) bool { return typeStr(t) == "net/url.Values" }
	isTag := func(t types.Type) bool {
		pt, ok := t.Underlying().(*types.Pointer)
		return ok && types.Identical(pt.Elem(), types.Typ[types.String])
	}
	for _, u := range P.allUnits(fn) {
		u.with(func() {
			per := map[*ssa.Alloc]*provBuild{}
			var order []*ssa.Alloc
			eachInstr(u.fn, func(_ *ssa.BasicBlock, _ int, in ssa.Instruction) {
				st, ok := in.(*ssa.Store)
				if !ok {
					return
				}
				fa, ok := st.Addr.(*ssa.FieldAddr)
				if !ok {
					return
				}
				al, ok := fa.X.(*ssa.Alloc)
				if !ok {
					return
				}
				elem := al.Type().Underlying().(*types.Pointer).Elem()
				stT, ok := elem.Underlying().(*types.Struct)
				if !ok || !P.isProviderType(elem) {
					return
				}
				ft := stT.Field(fa.Field).Type()
				if !isValues(ft) && !isTag(ft) {
					return
				}
				b := per[al]
				if b == nil {
					b = &provBuild{in: in}
					per[al] = b
					order = append(order, al)
				}
				if isValues(ft) {
					b.data = cv(st.Val)
				} else {
					b.tag = cv(st.Val)
				}
			})
			for _, al := range order {
				if per[al].data != nil {
					out = append(out, *per[al])
				}
			}
		})
	}
	return out
}

// checkSourceOpenWhileRead: a front end that closes its source (the request body handed to zjson.Decode is an
// io.Closer) does so after it has read it: every Close in the decoding code of the front-end packages is deferred, or
// no read of a source (Decoder.Decode, ParseForm, ParseMultipartForm, io.ReadAll, Read) is reachable from it. A body
// closed first makes every well-formed request an invalid_json / invalid_form one.
func (P *Prog) checkSourceOpenWhileRead(r *Result) {
	isRead := func(ci *callInfo) bool {
		name := ""
		switch {
		case ci.static != nil:
			name = ci.static.Name()
		case ci.invoke != nil:
			name = ci.invoke.Name()
		}
		switch name {
		case "Decode", "ParseForm", "ParseMultipartForm", "ReadAll", "Read", "ReadFrom":
			return true
		}
		return false
	}
	n := 0
	for _, fn := range P.Funcs {
		pp := funcPkgPath(fn)
		if !strings.HasSuffix(pp, "/zjson") && !strings.HasSuffix(pp, "/zhttp") {
			continue
		}
		eachInstr(fn, func(b *ssa.BasicBlock, idx int, in ssa.Instruction) {
			ci := callOf(in)
			if ci == nil {
				return
			}
			isClose := (ci.invoke != nil && ci.invoke.Name() == "Close") || (ci.static != nil && ci.static.Name() == "Close")
			if !isClose {
				return
			}
			n++
			c := fmt.Sprintf("%s#Close@%d", fname(fn), n)
			if _, isDefer := in.(*ssa.Defer); isDefer {
				r.ok("C15/source-open-while-read", c, P.ipos(in), "the source is closed by a deferred call: after it was read")
				return
			}
			// a read reachable after this Close?
			var readAt ssa.Instruction
			for j := idx + 1; j < len(b.Instrs); j++ {
				if c2 := callOf(b.Instrs[j]); c2 != nil && isRead(c2) {
					readAt = b.Instrs[j]
				}
			}
			for rb := range reachFromSuccs(b, nil) {
				for _, in2 := range rb.Instrs {
					if c2 := callOf(in2); c2 != nil && isRead(c2) && readAt == nil {
						readAt = in2
					}
				}
			}
			if readAt != nil {
				r.bad("C15/source-open-while-read", c, P.ipos(in), "the source is closed before it is read ("+P.ipos(readAt)+"): a well-formed body cannot be decoded and is reported as invalid")
			} else {
				r.ok("C15/source-open-while-read", c, P.ipos(in), "no read of a source follows this Close")
			}
		})
	}
	r.floor("C15/source-open-while-read", 1)
	// ... and the JSON front end hands the *whole* body to the decoder: nothing of the source is consumed by a byte-level
	// read outside encoding/json (skipping to the first '{' "because we only accept objects anyway" turns
	// `[{"admin":true}]` and `name=x&meta={"admin":true}` into objects)
	nr := 0
	for _, fn := range P.Funcs {
		if !strings.HasSuffix(funcPkgPath(fn), "/zjson") {
			continue
		}
		eachInstr(fn, func(_ *ssa.BasicBlock, _ int, in ssa.Instruction) {
			ci := callOf(in)
			if ci == nil {
				return
			}
			name, pkg := "", ""
			switch {
			case ci.static != nil:
				name, pkg = ci.static.Name(), funcPkgPath(ci.static)
			case ci.invoke != nil:
				name = ci.invoke.Name()
				if ci.invoke.Pkg() != nil {
					pkg = ci.invoke.Pkg().Path()
				}
			}
			if pkg == "encoding/json" || inModule(pkg) {
				return
			}
			switch name {
			case "Read", "ReadByte", "ReadBytes", "ReadString", "ReadRune", "ReadLine", "ReadSlice", "Discard", "ReadAll", "ReadFull", "ReadAtLeast", "Copy", "CopyN", "WriteTo", "Seek", "Scan":
				nr++
				r.bad("C15/source-open-while-read", fmt.Sprintf("%s#raw-read@%d", fname(fn), nr), P.ipos(in), "the JSON front end consumes bytes of its source with "+name+" outside the decoder: what is skipped is never validated, so a body that is not a JSON object can be decoded as the object it happens to contain")
			}
		})
	}
}

// checkProviderFromCheckedValue: the record a provider is built from is the input itself: a value obtained from the
// input by a comma-ok assertion (`m, ok := x.Interface().(map[string]T)`) reaches a provider constructor only along
// edges on which that assertion's ok was tested true. Handing on the zero value of a failed assertion builds a provider
// over a nil map: every field of the input reads as absent, with no issue.
func (P *Prog) checkProviderFromCheckedValue(r *Result, rule string) {
	okOf := func(cond ssa.Value, ta *ssa.TypeAssert) (isOK, negated bool) {
		c := cond
		neg := false
		if u, ok := c.(*ssa.UnOp); ok && u.Op == token.NOT {
			c, neg = u.X, true
		}
		if ex, ok := c.(*ssa.Extract); ok && ex.Index == 1 && ex.Tuple == ssa.Value(ta) {
			return true, neg
		}
		return false, false
	}
	holdsAt := func(ta *ssa.TypeAssert, gds []guard) bool {
		for _, gd := range gds {
			if is, neg := okOf(gd.If.Cond, ta); is && gd.True != neg {
				return true
			}
		}
		return false
	}
	n := 0
	for _, fn := range P.Funcs {
		if !strings.HasSuffix(funcPkgPath(fn), "/internals") || fn.Blocks == nil {
			continue
		}
		eachInstr(fn, func(b *ssa.BasicBlock, _ int, in ssa.Instruction) {
			c, ok := in.(*ssa.Call)
			if !ok {
				return
			}
			ci := callOf(c)
			if ci.static == nil || !inModule(funcPkgPath(ci.static)) || ci.static.Signature.Results().Len() == 0 || !P.isDataProviderIface(ci.static.Signature.Results().At(0).Type()) {
				return
			}
			for ai, a := range c.Call.Args {
				var bad string
				seen := map[ssa.Value]bool{}
				// okTrue: a boolean known to be true where v is used and that travels in parallel with v (`m, ok = ...`
				// re-assigned together and merged by two phis of one block: on the edge that carries m_i, ok is ok_i)
				trueBoolsAt := func(gds []guard) []ssa.Value {
					var out []ssa.Value
					for _, gd := range gds {
						c := gd.If.Cond
						pol := gd.True
						if u, ok := c.(*ssa.UnOp); ok && u.Op == token.NOT {
							c, pol = u.X, !pol
						}
						if pol {
							out = append(out, c)
						}
					}
					return out
				}
				var walk func(v ssa.Value, gds []guard, okTrue []ssa.Value, d int)
				walk = func(v ssa.Value, gds []guard, okTrue []ssa.Value, d int) {
					if v == nil || d > 8 || bad != "" {
						return
					}
					seen[v] = true
					switch x := v.(type) {
					case *ssa.ChangeType:
						walk(x.X, gds, okTrue, d+1)
					case *ssa.MakeInterface:
						walk(x.X, gds, okTrue, d+1)
					case *ssa.Phi:
						for i, e := range x.Edges {
							pb := x.Block().Preds[i]
							egds := append(append([]guard{}, guardsOf(pb)...), guardsOfEdge(pb, x.Block())...)
							var par []ssa.Value
							for _, t := range append(append([]ssa.Value{}, okTrue...), trueBoolsAt(gds)...) {
								if tp, isPhi := t.(*ssa.Phi); isPhi && tp.Block() == x.Block() && i < len(tp.Edges) {
									par = append(par, tp.Edges[i])
								}
							}
							walk(e, egds, par, d+1)
						}
					case *ssa.Extract:
						ta, isTA := x.Tuple.(*ssa.TypeAssert)
						if !isTA || !ta.CommaOk || x.Index != 0 {
							return
						}
						n++
						parOK := false
						for _, t := range okTrue {
							if ex, isEx := t.(*ssa.Extract); isEx && ex.Index == 1 && ex.Tuple == ssa.Value(ta) {
								parOK = true
							}
						}
						if !parOK && !holdsAt(ta, gds) {
							bad = "the value of the comma-ok assertion at " + P.ipos(ta) + " reaches " + fname(ci.static) + " on a path where the assertion was not tested to have succeeded: a provider is built over the zero value and every field of the input reads as absent"
						}
					}
				}
				walk(a, guardsOf(b), nil, 0)
				if bad != "" {
					r.bad(rule, fmt.Sprintf("%s#%s.arg%d", fname(fn), fname(ci.static), ai), P.ipos(in), bad)
				} else if len(seen) > 0 {
					for v := range seen {
						if ex, isEx := v.(*ssa.Extract); isEx {
							if ta, isTA := ex.Tuple.(*ssa.TypeAssert); isTA && ta.CommaOk {
								r.ok(rule, fmt.Sprintf("%s#%s.arg%d", fname(fn), fname(ci.static), ai), P.ipos(in), "the asserted input reaches the provider only where the assertion succeeded")
								break
							}
						}
					}
				}
			}
		})
	}
	if n == 0 {
		r.broken("vacuous: no comma-ok assertion flows into a provider constructor")
	}
}

// checkListKeyAlwaysList: "a parameter whose name ends in [] is always a list": in the Get of the url.Values provider
// some return of the boxed []string is control-dependent on a test of the key's "[]" suffix (a comparison of a slice of
// the key with "[]", strings.HasSuffix / CutSuffix with "[]", or a module helper that returns such a test). Folding the
// special case into the general one ("one value is a scalar") turns `tags[]=` with a single blank value into an absent
// field where the same record as JSON or as a Go map has a one-element list.
func (P *Prog) checkListKeyAlwaysList(r *Result, rule string) {
	var suffixTest func(v ssa.Value, d int) bool
	suffixTest = func(v ssa.Value, d int) bool {
		if d > 4 || v == nil {
			return false
		}
		switch x := cv(v).(type) {
		case *ssa.UnOp:
			if x.Op == token.NOT {
				return suffixTest(x.X, d+1)
			}
		case *ssa.BinOp:
			if x.Op == token.EQL || x.Op == token.NEQ {
				for _, side := range []ssa.Value{x.X, x.Y} {
					if s, ok := constString(side); ok && s == "[]" {
						return true
					}
				}
			}
		case *ssa.Extract:
			if c, ok := x.Tuple.(*ssa.Call); ok {
				return suffixTest(c, d+1)
			}
		case *ssa.Phi:
			for _, e := range x.Edges {
				if suffixTest(e, d+1) {
					return true
				}
			}
		case *ssa.Call:
			ci := callOf(x)
			if ci.static == nil {
				return false
			}
			switch ci.static.String() {
			case "strings.HasSuffix", "strings.CutSuffix":
				if len(x.Call.Args) == 2 {
					if s, ok := constString(x.Call.Args[1]); ok && s == "[]" {
						return true
					}
				}
				return false
			}
			if ci.static.Blocks != nil && inModule(funcPkgPath(ci.static)) {
				found := false
				eachInstr(ci.static, func(_ *ssa.BasicBlock, _ int, in ssa.Instruction) {
					if rt, ok := in.(*ssa.Return); ok {
						for _, rv := range rt.Results {
							if suffixTest(rv, d+1) {
								found = true
							}
						}
					}
					// (`len(k) > 2 && strings.HasSuffix(k, "[]")` returned through a phi of the two tests)
					if iff, ok := in.(*ssa.If); ok && suffixTest(iff.Cond, d+1) {
						found = true
					}
				})
				return found
			}
		}
		return false
	}
	n := 0
	for _, fn := range P.Funcs {
		if fn.Name() != "Get" || fn.Parent() != nil || fn.Signature.Recv() == nil || funcPkgPath(fn) != pkgZhttp || !P.isProviderType(fn.Signature.Recv().Type()) {
			continue
		}
		n++
		r.sawFunc(fname(fn))
		ok := false
		for _, u := range P.allUnits(fn) {
			u := u
			u.with(func() {
				eachInstr(u.fn, func(b *ssa.BasicBlock, _ int, in ssa.Instruction) {
					rt, isRt := in.(*ssa.Return)
					if !isRt || len(rt.Results) == 0 {
						return
					}
					// a boxed list of strings ([]string, or url.Values' element type), returned directly or through a
					// result variable (`out = v` ... `return out`: each edge of the merged value under its own guards)
					var look func(v ssa.Value, gds []guard, d int)
					look = func(v ssa.Value, gds []guard, d int) {
						if d > 4 || v == nil {
							return
						}
						if ph, isPhi := v.(*ssa.Phi); isPhi {
							for i, e := range ph.Edges {
								pb := ph.Block().Preds[i]
								look(e, append(append([]guard{}, guardsOf(pb)...), guardsOfEdge(pb, ph.Block())...), d+1)
							}
							return
						}
						mi, isMI := v.(*ssa.MakeInterface)
						if !isMI {
							return
						}
						sl, isSl := mi.X.Type().Underlying().(*types.Slice)
						if !isSl {
							return
						}
						if bt, isB := sl.Elem().Underlying().(*types.Basic); !isB || bt.Info()&types.IsString == 0 {
							return
						}
						for _, gd := range gds {
							if suffixTest(gd.If.Cond, 0) {
								ok = true
							}
						}
					}
					look(rt.Results[0], guardsOf(b), 0)
				})
			})
		}
		if ok {
			r.ok(rule, fname(fn), P.pos(fn.Pos()), "the list is returned as a list under the test of the key's \"[]\" suffix")
		} else {
			r.bad(rule, fname(fn), P.pos(fn.Pos()), "no return of the list of values depends on the key ending in \"[]\": a `name[]` parameter with one value is handed over as a scalar, and a blank one reads as absent where the same record as JSON or a Go map is a one-element list")
		}
	}
	if n == 0 {
		r.undecided(rule, "urlDataProvider.Get", "-", "the Get method of the url.Values provider was not found")
	}
}

// checkNoBoxedReflectValue: a record given as a typed Go map (map[string]int, a named map type) is copied into the
// provider's map[string]any leaf by leaf; a leaf must go in as the value it holds (`v.Interface()`), not as the
// reflect.Value that describes it - boxed into `any` that compiles, and every coercer then sees a reflect.Value
// where the same record as JSON or as map[string]any gives it a number. The rule: in the module's execution code a
// reflect.Value is never converted to an interface and then stored (into a map, a slice, a field) or returned;
// handing one to fmt or to a panic is not data flow.
func (P *Prog) checkNoBoxedReflectValue(r *Result, rule string) {
	n := 0
	for _, fn := range P.Funcs {
		if !inModule(funcPkgPath(fn)) || strings.Contains(funcPkgPath(fn), "/tutils") || fn.Synthetic != "" {
			continue
		}
		eachInstr(fn, func(_ *ssa.BasicBlock, _ int, in ssa.Instruction) {
			mi, ok := in.(*ssa.MakeInterface)
			if !ok {
				return
			}
			nt := namedOf(mi.X.Type())
			if nt == nil || nt.Obj().Pkg() == nil || nt.Obj().Pkg().Path() != "reflect" || nt.Obj().Name() != "Value" {
				return
			}
			if _, isPtr := mi.X.Type().Underlying().(*types.Pointer); isPtr {
				return
			}
			stored := ""
			if refs := mi.Referrers(); refs != nil {
				for _, rf := range *refs {
					switch x := rf.(type) {
					case *ssa.MapUpdate:
						if x.Value == ssa.Value(mi) {
							stored = "stored as a map element"
						}
					case *ssa.Store:
						if x.Val == ssa.Value(mi) {
							stored = "stored"
						}
					case *ssa.Return:
						stored = "returned"
					}
				}
			}
			if stored == "" {
				return
			}
			n++
			r.bad(rule, fmt.Sprintf("%s#boxed-reflect-value@%d", fname(fn), n), P.ipos(in), "a reflect.Value is converted to an interface and "+stored+" as data (Interface() is missing): the leaves of a typed Go map reach the schemas as reflect.Value and fail to coerce, where the same record as JSON or map[string]any parses")
		})
	}
	if n == 0 {
		r.ok(rule, "module", "-", "no reflect.Value is boxed into an interface and stored or returned as data")
	}
}

// checkEnvLeafFormula: the documented per-source difference of the environment front end is whitespace trimming and
// nothing else. The provider's Get therefore is, on its single path, TrimSpace of the variable's value: the formula
// of the method (helpers entered, locals resolved) is compared with that row. Unquoting, lower-casing, expanding or
// defaulting the value there makes env the one front end where `'tis` or `"x"` is not the value that was given.
func (P *Prog) checkEnvLeafFormula(r *Result, rule string) {
	n := 0
	for _, fn := range P.Funcs {
		if fn.Name() != "Get" || fn.Parent() != nil || fn.Signature.Recv() == nil || !strings.HasSuffix(funcPkgPath(fn), "/zenv") || !P.isProviderType(fn.Signature.Recv().Type()) || len(fn.Params) != 2 {
			continue
		}
		n++
		r.sawFunc(fname(fn))
		sh := P.predicateShapeNamed(fn, map[ssa.Value]string{fn.Params[0]: "recv", fn.Params[1]: "key"})
		var rows []string
		for _, p := range sh.paths {
			rows = append(rows, strings.Join(p.conds, " ∧ ")+" ⇒ "+p.ret)
		}
		okRow := len(sh.problems) == 0 && len(sh.paths) == 1 && len(sh.paths[0].conds) == 0 &&
			(sh.paths[0].ret == "strings.TrimSpace(os.Getenv(key))" || sh.paths[0].ret == "strings.TrimSpace(syscall.Getenv(key)#0)")
		if okRow {
			r.ok(rule, fname(fn), P.pos(fn.Pos()), "Get(key) = strings.TrimSpace(os.Getenv(key))", rows...)
		} else {
			r.bad(rule, fname(fn), P.pos(fn.Pos()), "the environment provider's Get is not TrimSpace of the variable's value: the same record given through env differs from the other front ends by more than the documented whitespace trimming", rows...)
		}
	}
	if n == 0 {
		r.undecided(rule, "zenv provider Get", "-", "not found")
	}
}

// checkFrontEndProviderNeverNil: a front end presents every record it has decoded - an empty one too - through its own
// provider, the one that knows the source tag. Every function outside the package that declares DataProvider whose
// result list has a DataProvider is looked at return by return (phis edge by edge): a nil provider constant may be
// returned only together with a non-nil error/issue (the failure protocol). A nil provider on a success path makes
// the struct pipeline substitute an EmptyDataProvider that has no source tag (fields of an empty query are named by
// their zog tag or schema key, fields of a non-empty one by their query tag) and makes Ptr(Struct) read the record as
// absent. The nil-for-empty convention of the in-package map provider is F17c, recorded under nested-from-parent.
func (P *Prog) checkFrontEndProviderNeverNil(r *Result, rule string) {
	home := pkgInternals
	for _, fn := range P.Funcs {
		pp := funcPkgPath(fn)
		if fn.Blocks == nil || !inModule(pp) || pp == home || pp == modPath {
			continue
		}
		res := fn.Signature.Results()
		idx := -1
		for i := 0; i < res.Len(); i++ {
			if P.isDataProviderIface(res.At(i).Type()) {
				idx = i
			}
		}
		if idx < 0 {
			continue
		}
		var bad []string
		nret := 0
		eachInstr(fn, func(b *ssa.BasicBlock, _ int, in ssa.Instruction) {
			rt, ok := in.(*ssa.Return)
			if !ok || idx >= len(rt.Results) {
				return
			}
			rvs, okRV := retVals(rt)
			if !okRV {
				return
			}
			nret++
			// the values returned along one incoming edge (results merged by phis of the return's block)
			type row []ssa.Value
			rows := []row{rvs}
			if ph, isPhi := rvs[idx].(*ssa.Phi); isPhi && ph.Block() == b {
				rows = nil
				for e := range ph.Edges {
					rw := make(row, len(rvs))
					for j, v := range rvs {
						if pj, ok := v.(*ssa.Phi); ok && pj.Block() == b && e < len(pj.Edges) {
							rw[j] = pj.Edges[e]
						} else {
							rw[j] = v
						}
					}
					rows = append(rows, rw)
				}
			}
			for _, rw := range rows {
				if !isNilConst(cvi(rw[idx])) && !isNilConst(rw[idx]) {
					continue
				}
				failure := false
				for j, v := range rw {
					if j != idx && !isNilConst(v) {
						failure = true // an error / issue that is not the nil constant accompanies it
					}
				}
				if !failure {
					bad = append(bad, "nil provider returned without an error at "+P.ipos(in))
				}
			}
		})
		if nret == 0 {
			continue
		}
		if len(bad) > 0 {
			r.bad(rule, fname(fn), P.pos(fn.Pos()), strings.Join(uniqSorted(bad), "; ")+": the struct pipeline replaces a nil provider by an empty provider without this front end's tag, and Ptr(Struct) reads the record as absent")
		} else {
			r.ok(rule, fname(fn), P.pos(fn.Pos()), fmt.Sprintf("%d return(s): a nil provider only together with an error or issue", nret))
		}
	}
	r.floor(rule, 2)
}

// checkProviderPassedThrough: the function that turns an arbitrary input value into a provider hands a value that
// already is a provider on as it is, whatever its reflect kind: the comma-ok assertion `val.(DataProvider)` dominates
// every return that builds some other provider (only `val == nil` may be answered before it). zhttp's form/query
// provider is a struct value, not a pointer: an assertion made only for pointer kinds wraps it into a struct provider
// and every parameter of the request reads as absent.
func (P *Prog) checkProviderPassedThrough(r *Result, rule string) {
	shaped := func(fn *ssa.Function) bool {
		if fn == nil || fn.Blocks == nil || funcPkgPath(fn) != pkgInternals || fn.Parent() != nil || len(fn.Params) != 1 {
			return false
		}
		it, ok := fn.Params[0].Type().Underlying().(*types.Interface)
		res := fn.Signature.Results()
		return ok && it.NumMethods() == 0 && res.Len() == 2 && P.isDataProviderIface(res.At(0).Type())
	}
	// the value asserted is the parameter, or the loop variable that starts as the parameter (pointers followed in a loop)
	var fromParam func(v ssa.Value, fn *ssa.Function, d int) bool
	fromParam = func(v ssa.Value, fn *ssa.Function, d int) bool {
		v = cv(v)
		if v == ssa.Value(fn.Params[0]) {
			return true
		}
		if ph, ok := v.(*ssa.Phi); ok && d < 4 {
			for _, e := range ph.Edges {
				if fromParam(e, fn, d+1) {
					return true
				}
			}
		}
		return false
	}
	findTA := func(fn *ssa.Function) *ssa.TypeAssert {
		var ta *ssa.TypeAssert
		eachInstr(fn, func(_ *ssa.BasicBlock, _ int, in ssa.Instruction) {
			if t, ok := in.(*ssa.TypeAssert); ok && t.CommaOk && fromParam(t.X, fn, 0) && P.isDataProviderIface(t.AssertedType) {
				ta = t
			}
		})
		return ta
	}
	for _, fn0 := range P.Funcs {
		// the API-level entry (exported); an entry that only delegates (a tracing wrapper) is followed one step
		if !shaped(fn0) || fn0.Object() == nil || !fn0.Object().Exported() || len(fn0.TypeArgs()) > 0 {
			continue
		}
		fn := fn0
		ta := findTA(fn)
		if ta == nil {
			eachInstr(fn0, func(_ *ssa.BasicBlock, _ int, in ssa.Instruction) {
				if c, ok := in.(*ssa.Call); ok {
					if g := callOf(c).static; g != nil && g != fn0 && shaped(g) && len(c.Call.Args) == 1 && cv(c.Call.Args[0]) == ssa.Value(fn0.Params[0]) && findTA(g) != nil {
						fn = g
					}
				}
			})
			ta = findTA(fn)
		}
		if ta == nil {
			r.bad(rule, fname(fn), P.pos(fn.Pos()), "an input that already is a DataProvider is not recognised: no comma-ok assertion of the parameter to DataProvider")
			continue
		}
		var bad []string
		eachInstr(fn, func(b *ssa.BasicBlock, _ int, in ssa.Instruction) {
			rt, ok := in.(*ssa.Return)
			if !ok {
				return
			}
			rvs, okRV := retVals(rt)
			if !okRV || len(rvs) != 2 || isNilConst(rvs[0]) || ta.Block().Dominates(b) {
				return
			}
			for _, gd := range guardsOf(b) {
				if bo, ok := gd.If.Cond.(*ssa.BinOp); ok && ((bo.Op == token.EQL && gd.True) || (bo.Op == token.NEQ && !gd.True)) {
					if (fromParam(bo.X, fn, 0) && isNilConst(bo.Y)) || (fromParam(bo.Y, fn, 0) && isNilConst(bo.X)) {
						return
					}
				}
			}
			bad = append(bad, P.ipos(in))
		})
		if len(bad) > 0 {
			r.bad(rule, fname(fn), P.pos(fn.Pos()), "a provider is built for the input at "+strings.Join(bad, ", ")+" on a path that has not asked whether the input already is a DataProvider (the assertion at "+P.ipos(ta)+" is made for some kinds only): a front end's provider of another kind is wrapped and its record reads as empty")
		} else {
			r.ok(rule, fname(fn), P.pos(fn.Pos()), "the assertion to DataProvider dominates every return that builds another provider (val == nil excepted)")
		}
	}
	r.floor(rule, 1)
}
