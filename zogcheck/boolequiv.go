package main

import (
	"sort"
	"strings"
)

// Propositional equivalence of two canonical formulas.
//
// The formulas of small pure functions (rule_c20.go) are rendered as a
// disjunction of conjunctions of atoms, one conjunction per decision path.
// That rendering follows the shape of the code: `if x == nil { return true };
// return f(x)` and `return x == nil || f(x)` give the same disjunction, but
// `!IsValid(ValueOf(x)) || IsZero(..)` and `x == nil || IsZero(..)` do not,
// although they are the same predicate. Comparing the strings would make a
// behaviour-preserving rewrite look like a change. So two formulas are compared
// as boolean functions of their atoms: atoms that are complements of one
// another (`a == b` / `a != b`, `a < b` / `a >= b`, `!p`) share one variable,
// a small set of identities of the standard library maps synonymous atoms to
// one (`reflect.ValueOf(x).IsValid()` is `x != nil`), and the truth tables are
// compared over all assignments. Equal strings are trivially equivalent, so
// this only ever accepts more than the string comparison did; what it accepts
// is exactly the propositional consequences of the listed identities.

// splitTop splits s at the separator where the parenthesis depth is zero.
func splitTop(s, sep string) []string {
	var out []string
	depth, start := 0, 0
	for i := 0; i < len(s); i++ {
		switch s[i] {
		case '(', '[', '{':
			depth++
		case ')', ']', '}':
			depth--
		}
		if depth == 0 && strings.HasPrefix(s[i:], sep) {
			out = append(out, s[start:i])
			start = i + len(sep)
			i += len(sep) - 1
		}
	}
	return append(out, s[start:])
}

// complementOps: `(a <op> b)` is the negation of `(a <op'> b)`.
var complementOps = map[string]string{"!=": "==", ">=": "<", ">": "<="}

// atomVar reduces a literal to (variable, polarity).
func atomVar(lit string) (string, bool) {
	lit = strings.TrimSpace(lit)
	pos := true
	for strings.HasPrefix(lit, "!") {
		lit = strings.TrimSpace(lit[1:])
		pos = !pos
	}
	// synonyms
	const isValid = "(reflect.Value).IsValid(reflect.ValueOf("
	if strings.HasPrefix(lit, isValid) && strings.HasSuffix(lit, "))") {
		lit = "(" + lit[len(isValid):len(lit)-2] + " != nil)"
	}
	// comparison complements: `(a != b)` is the variable `(a == b)` negated
	if strings.HasPrefix(lit, "(") && strings.HasSuffix(lit, ")") {
		inner := lit[1 : len(lit)-1]
		for op, base := range complementOps {
			parts := splitTop(inner, " "+op+" ")
			if len(parts) == 2 {
				return "(" + parts[0] + " " + base + " " + parts[1] + ")", !pos
			}
		}
	}
	return lit, pos
}

type boolLit struct {
	v   string
	pos bool
}

// parseDNF: the disjunction of conjunctions; a leading `[domain] ` and `∃: ` markers are kept as part of
// the structure (they must agree verbatim).
func parseDNF(s string) (prefix string, disj [][]boolLit) {
	if strings.HasPrefix(s, "[") {
		if i := strings.Index(s, "] "); i > 0 {
			prefix, s = s[:i+2], s[i+2:]
		}
	}
	for _, d := range splitTop(s, "  ∨  ") {
		var conj []boolLit
		for _, a := range splitTop(d, " ∧ ") {
			a = strings.TrimSpace(a)
			if a == "" || a == "true" {
				continue
			}
			v, pos := atomVar(a)
			conj = append(conj, boolLit{v, pos})
		}
		disj = append(disj, conj)
	}
	return
}

// formulaEquiv: the two DNF renderings denote the same boolean function of their atoms.
func formulaEquiv(a, b string) bool {
	if a == b {
		return true
	}
	pa, da := parseDNF(a)
	pb, db := parseDNF(b)
	if pa != pb {
		return false
	}
	// quantified disjuncts (`∃: ...`) are compared structurally only
	if strings.Contains(a, "∃: ") || strings.Contains(b, "∃: ") {
		return false
	}
	vars := map[string]bool{}
	for _, d := range append(append([][]boolLit{}, da...), db...) {
		for _, l := range d {
			vars[l.v] = true
		}
	}
	var names []string
	for v := range vars {
		names = append(names, v)
	}
	sort.Strings(names)
	if len(names) > 14 {
		return false
	}
	eval := func(d [][]boolLit, asg map[string]bool) bool {
		for _, conj := range d {
			ok := true
			for _, l := range conj {
				if asg[l.v] != l.pos {
					ok = false
					break
				}
			}
			if ok {
				return true
			}
		}
		return false
	}
	asg := map[string]bool{}
	for m := 0; m < 1<<len(names); m++ {
		for i, n := range names {
			asg[n] = m&(1<<i) != 0
		}
		if eval(da, asg) != eval(db, asg) {
			return false
		}
	}
	return true
}

// A decision table: mutually exclusive condition paths, each with a result.
type decisionRow struct {
	conds []string
	ret   string
}

// tablesEquiv: for every assignment of the atoms, the row selected in a and the row selected in b (the first
// whose conditions all hold) have the same result; an assignment that selects no row in one table must select
// none in the other.
func tablesEquiv(a, b []decisionRow) bool {
	type row struct {
		lits []boolLit
		ret  string
	}
	conv := func(t []decisionRow) []row {
		var out []row
		for _, r := range t {
			var ls []boolLit
			for _, c := range r.conds {
				v, pos := atomVar(c)
				ls = append(ls, boolLit{v, pos})
			}
			out = append(out, row{ls, r.ret})
		}
		return out
	}
	ra, rb := conv(a), conv(b)
	vars := map[string]bool{}
	for _, t := range [][]row{ra, rb} {
		for _, r := range t {
			for _, l := range r.lits {
				vars[l.v] = true
			}
		}
	}
	var names []string
	for v := range vars {
		names = append(names, v)
	}
	sort.Strings(names)
	if len(names) > 14 {
		return false
	}
	sel := func(t []row, asg map[string]bool) string {
		for _, r := range t {
			ok := true
			for _, l := range r.lits {
				if asg[l.v] != l.pos {
					ok = false
					break
				}
			}
			if ok {
				return r.ret
			}
		}
		return "\x00none"
	}
	asg := map[string]bool{}
	for m := 0; m < 1<<len(names); m++ {
		for i, n := range names {
			asg[n] = m&(1<<i) != 0
		}
		if sel(ra, asg) != sel(rb, asg) {
			return false
		}
	}
	return true
}

// parseDecisionRows reads lines of the form `c1 ∧ c2 ⇒ ret`.
func parseDecisionRows(s string) []decisionRow {
	var out []decisionRow
	for _, line := range strings.Split(s, "\n") {
		parts := splitTop(line, " ⇒ ")
		if len(parts) != 2 {
			continue
		}
		var conds []string
		for _, c := range splitTop(parts[0], " ∧ ") {
			if c = strings.TrimSpace(c); c != "" {
				conds = append(conds, c)
			}
		}
		out = append(out, decisionRow{conds, strings.TrimSpace(parts[1])})
	}
	return out
}
