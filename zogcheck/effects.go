package main

import (
	"fmt"
	"go/ast"
	"go/token"
	"go/types"
	"sort"
	"strings"

	"golang.org/x/tools/go/ssa"
)

// ---------------------------------------------------------------------
// Address roots (DESIGN 3.1): where does the memory an instruction writes
// (or the value a call receives) come from?
// ---------------------------------------------------------------------

type rootKind int

const (
	rkLocal   rootKind = iota // Alloc / Make* / composite literal / fresh result in this call
	rkParam                   // function parameter (v is *ssa.Parameter)
	rkFreeVar                 // unresolved closure capture
	rkGlobal                  // package-level variable
	rkPoolGet                 // result of (*sync.Pool).Get
	rkConst                   // constant / nil / function value
	rkOpaque                  // result of an external call we do not model (treated as fresh)
)

type step struct {
	field *types.Var // FieldAddr/Field selection (nil for index/deref)
	load  bool       // dereference: moves from a location to the object the stored reference points to
}

type root struct {
	kind rootKind
	v    ssa.Value
	path []step // from root towards the value
}

func (rt root) String() string {
	var sb strings.Builder
	switch rt.kind {
	case rkLocal:
		sb.WriteString("local")
	case rkParam:
		p := rt.v.(*ssa.Parameter)
		sb.WriteString("param " + p.Name() + " of " + fname(p.Parent()))
	case rkFreeVar:
		sb.WriteString("capture " + rt.v.Name())
	case rkGlobal:
		sb.WriteString("global " + shortName(rt.v.String()))
	case rkPoolGet:
		sb.WriteString("Pool.Get()")
	case rkConst:
		sb.WriteString("const")
	case rkOpaque:
		sb.WriteString("external-result")
	}
	for _, s := range rt.path {
		if s.field != nil {
			sb.WriteString("." + s.field.Name())
		}
		if s.load {
			sb.WriteString("->")
		}
	}
	return sb.String()
}

func (rt root) with(s step) root {
	np := make([]step, len(rt.path), len(rt.path)+1)
	copy(np, rt.path)
	np = append(np, s)
	if len(np) > 12 {
		np = np[len(np)-12:]
	}
	return root{rt.kind, rt.v, np}
}

type rootCtx struct {
	P     *Prog
	depth int
	seen  map[ssa.Value]bool
}

// reflect.Value methods / functions whose result aliases (is derived from)
// the receiver / first argument.
var reflectAlias = map[string]bool{
	"Elem": true, "Field": true, "FieldByName": true, "FieldByIndex": true, "Index": true, "Addr": true,
	"Interface": true, "Slice": true, "Slice3": true, "MapIndex": true, "Convert": true, "Indirect": true,
	"ValueOf": true, "FieldByNameFunc": true, "Pointer": true, "UnsafePointer": true,
}

// reflect writers: method name -> index of the written reflect.Value among args (receiver = 0).
var reflectWriters = map[string]int{
	"Set": 0, "SetBool": 0, "SetInt": 0, "SetUint": 0, "SetFloat": 0, "SetString": 0, "SetBytes": 0,
	"SetLen": 0, "SetCap": 0, "SetMapIndex": 0, "SetComplex": 0, "SetPointer": 0, "SetZero": 0, "SetIterKey": 0, "SetIterValue": 0,
	"Copy": 0, "Clear": 0, "Grow": 0,
}

func isPkgFunc(fn *ssa.Function, pkg string) bool {
	if fn == nil {
		return false
	}
	if fn.Pkg != nil {
		return fn.Pkg.Pkg.Path() == pkg
	}
	if o := fn.Object(); o != nil && o.Pkg() != nil {
		return o.Pkg().Path() == pkg
	}
	return false
}

// rootsOf walks the definition of v back to its roots.
func (P *Prog) rootsOf(v ssa.Value) []root {
	rc := &rootCtx{P: P, seen: map[ssa.Value]bool{}}
	return dedupRoots(rc.roots(v))
}

func dedupRoots(rs []root) []root {
	seen := map[string]bool{}
	var out []root
	for _, r := range rs {
		k := fmt.Sprintf("%d|%p|%s", r.kind, r.v, r.String())
		if !seen[k] {
			seen[k] = true
			out = append(out, r)
		}
	}
	return out
}

func mapRoots(rs []root, s step) []root {
	out := make([]root, len(rs))
	for i, r := range rs {
		out[i] = r.with(s)
	}
	return out
}

func (rc *rootCtx) roots(v ssa.Value) []root {
	if v == nil {
		return nil
	}
	if rc.seen[v] {
		return nil
	}
	rc.seen[v] = true
	defer delete(rc.seen, v)
	if rc.depth > 60 {
		return []root{{kind: rkOpaque, v: v}}
	}
	rc.depth++
	defer func() { rc.depth-- }()

	if substEnv != nil {
		if s, ok := substEnv[v]; ok && s != v {
			return rc.roots(s)
		}
	}
	switch x := v.(type) {
	case *ssa.Parameter:
		return []root{{kind: rkParam, v: x}}
	case *ssa.FreeVar:
		if b := freeVarBinding(x); b != nil {
			return rc.roots(b)
		}
		return []root{{kind: rkFreeVar, v: x}}
	case *ssa.Global:
		return []root{{kind: rkGlobal, v: x}}
	case *ssa.Const, *ssa.Function, *ssa.Builtin:
		return []root{{kind: rkConst, v: v}}
	case *ssa.Alloc:
		return []root{{kind: rkLocal, v: x}}
	case *ssa.MakeSlice, *ssa.MakeMap, *ssa.MakeChan, *ssa.MakeClosure:
		return []root{{kind: rkLocal, v: v}}
	case *ssa.FieldAddr:
		_, f := fieldVar(x)
		return mapRoots(rc.roots(x.X), step{field: f})
	case *ssa.Field:
		_, f := fieldVar(x)
		return mapRoots(rc.roots(x.X), step{field: f})
	case *ssa.IndexAddr:
		return rc.roots(x.X)
	case *ssa.Index:
		return rc.roots(x.X)
	case *ssa.Lookup:
		return mapRoots(rc.roots(x.X), step{load: true})
	case *ssa.Slice:
		return rc.roots(x.X)
	case *ssa.ChangeType:
		return rc.roots(x.X)
	case *ssa.Convert:
		return rc.roots(x.X)
	case *ssa.ChangeInterface:
		return rc.roots(x.X)
	case *ssa.MakeInterface:
		return rc.roots(x.X)
	case *ssa.SliceToArrayPointer:
		return rc.roots(x.X)
	case *ssa.TypeAssert:
		return rc.roots(x.X)
	case *ssa.BinOp:
		return []root{{kind: rkConst, v: v}}
	case *ssa.Range:
		return rc.roots(x.X)
	case *ssa.Next:
		return mapRoots(rc.roots(x.Iter), step{load: true})
	case *ssa.Extract:
		return rc.roots(x.Tuple)
	case *ssa.Phi:
		var out []root
		for _, e := range x.Edges {
			out = append(out, rc.roots(e)...)
		}
		return out
	case *ssa.UnOp:
		if x.Op != token.MUL {
			return []root{{kind: rkConst, v: v}}
		}
		// load from an address
		addr := x.X
		if fv, ok := addr.(*ssa.FreeVar); ok {
			if b := freeVarBinding(fv); b != nil {
				addr = b
			}
		}
		if al, ok := addr.(*ssa.Alloc); ok {
			// a local variable: the loaded value is whatever was stored
			sts := storesTo(al)
			if len(sts) == 0 {
				return []root{{kind: rkLocal, v: al}}
			}
			var out []root
			for _, st := range sts {
				out = append(out, rc.roots(st.Val)...)
			}
			return out
		}
		return mapRoots(rc.roots(addr), step{load: true})
	case *ssa.Call:
		return rc.callRoots(x)
	}
	return []root{{kind: rkOpaque, v: v}}
}

func (rc *rootCtx) callRoots(c *ssa.Call) []root {
	ci := callOf(c)
	cc := c.Common()
	switch {
	case ci.builtin != "":
		switch ci.builtin {
		case "append":
			out := rc.roots(cc.Args[0])
			out = append(out, root{kind: rkLocal, v: c})
			return out
		default:
			return []root{{kind: rkConst, v: c}}
		}
	case ci.static != nil:
		fn := ci.static
		if fn.String() == "(*sync.Pool).Get" {
			return []root{{kind: rkPoolGet, v: c}}
		}
		if isPkgFunc(fn, "reflect") {
			if reflectAlias[fn.Name()] && len(cc.Args) > 0 {
				rs := rc.roots(cc.Args[0])
				if fn.Name() == "Elem" || fn.Name() == "Indirect" {
					// pointer/interface dereference keeps us in referenced memory; no field is
					// crossed, so no step is recorded
					return rs
				}
				return rs
			}
			return []root{{kind: rkLocal, v: c}}
		}
		if fn.Blocks == nil || !inModule(funcPkgPath(fn)) {
			return []root{{kind: rkOpaque, v: c}}
		}
		// a recursive clone returns memory of its own (what it hands back uncloned are scalars and nil containers)
		if isDeepCloneFn(fn) {
			return []root{{kind: rkLocal, v: c}}
		}
		// module callee: substitute actuals into the roots of its returned values
		return rc.moduleCallRoots(c, fn)
	default:
		// dynamic call or interface invoke: the result may alias the receiver or any argument
		var out []root
		for _, a := range ci.args() {
			if isRefLike(a.Type()) {
				out = append(out, rc.roots(a)...)
			}
		}
		if cc.IsInvoke() && len(out) == 0 {
			out = append(out, rc.roots(cc.Value)...)
		}
		out = append(out, root{kind: rkOpaque, v: c})
		return out
	}
}

func (rc *rootCtx) moduleCallRoots(c *ssa.Call, fn *ssa.Function) []root {
	var rets []root
	retRootsMemo, retRootsBusy := rc.P.retRootsMemo, rc.P.retRootsBusy
	if m, ok := retRootsMemo[fn]; ok {
		rets = m
	} else if retRootsBusy[fn] {
		return []root{{kind: rkOpaque, v: c}}
	} else {
		retRootsBusy[fn] = true
		sub := &rootCtx{P: rc.P, seen: map[ssa.Value]bool{}}
		withoutSubst(func() {
			eachInstr(fn, func(_ *ssa.BasicBlock, _ int, in ssa.Instruction) {
				if ret, ok := in.(*ssa.Return); ok {
					for _, rv := range ret.Results {
						rets = append(rets, sub.roots(rv)...)
					}
				}
			})
		})
		rets = dedupRoots(rets)
		retRootsMemo[fn] = rets
		delete(retRootsBusy, fn)
	}
	args := c.Common().Args
	var out []root
	for _, r := range rets {
		if r.kind == rkParam {
			p := r.v.(*ssa.Parameter)
			if p.Parent() == fn {
				idx := -1
				for i, q := range fn.Params {
					if q == p {
						idx = i
					}
				}
				if idx >= 0 && idx < len(args) {
					for _, ar := range rc.roots(args[idx]) {
						nr := ar
						for _, s := range r.path {
							nr = nr.with(s)
						}
						out = append(out, nr)
					}
					continue
				}
			}
		}
		if r.kind == rkLocal {
			out = append(out, root{kind: rkLocal, v: c, path: r.path})
			continue
		}
		out = append(out, r)
	}
	if len(out) == 0 {
		out = append(out, root{kind: rkLocal, v: c})
	}
	return out
}

// isRefLike: values of this type can share mutable memory with their source.
func isRefLike(t types.Type) bool {
	if _, isTP := types.Unalias(t).(*types.TypeParam); isTP {
		return typeParamRefLike(t)
	}
	switch u := t.Underlying().(type) {
	case *types.Pointer, *types.Slice, *types.Map, *types.Chan, *types.Signature, *types.Interface:
		return true
	case *types.Struct:
		if n, ok := types.Unalias(t).(*types.Named); ok && n.Obj().Pkg() != nil {
			p, name := n.Obj().Pkg().Path(), n.Obj().Name()
			if p == "time" && name == "Time" {
				return false // *Location is immutable
			}
			if p == "reflect" && name == "Value" {
				return true
			}
		}
		for i := 0; i < u.NumFields(); i++ {
			if isRefLike(u.Field(i).Type()) {
				return true
			}
		}
		return false
	case *types.Array:
		return isRefLike(u.Elem())
	case *types.Tuple:
		for i := 0; i < u.Len(); i++ {
			if isRefLike(u.At(i).Type()) {
				return true
			}
		}
		return false
	}
	return false
}

func typeParamRefLike(t types.Type) bool {
	if tp, ok := types.Unalias(t).(*types.TypeParam); ok {
		// a type parameter whose type set contains only value types is not ref-like
		if it, ok := tp.Constraint().Underlying().(*types.Interface); ok {
			all := true
			any := false
			for i := 0; i < it.NumEmbeddeds(); i++ {
				any = true
				if !embeddedIsValueOnly(it.EmbeddedType(i)) {
					all = false
				}
			}
			if any && all {
				return false
			}
		}
		return true
	}
	return false
}

func embeddedIsValueOnly(t types.Type) bool {
	switch u := types.Unalias(t).(type) {
	case *types.Union:
		for i := 0; i < u.Len(); i++ {
			if !embeddedIsValueOnly(u.Term(i).Type()) {
				return false
			}
		}
		return true
	case *types.Named:
		if it, ok := u.Underlying().(*types.Interface); ok {
			ok2 := it.NumEmbeddeds() > 0
			for i := 0; i < it.NumEmbeddeds(); i++ {
				if !embeddedIsValueOnly(it.EmbeddedType(i)) {
					ok2 = false
				}
			}
			return ok2
		}
		return !isRefLike(u)
	}
	return !isRefLike(t)
}

// ---------------------------------------------------------------------
// Classification of memory by owner.
// ---------------------------------------------------------------------

type memClass int

const (
	mcLocal memClass = iota
	mcPooled
	mcDest
	mcSchema
	mcInput
	mcGlobal
	mcFreeVar
	mcUnknownParam
)

func (c memClass) String() string {
	return [...]string{"local", "per-call(pooled)", "destination", "schema", "input", "global", "closure-capture", "unknown-param"}[c]
}

// fieldDerefClass: following the reference stored in field f leads to memory
// of this class (ok=false: keep the current class).
func (P *Prog) fieldDerefClass(f *types.Var) (memClass, bool) {
	R := P.roles
	switch {
	case sameField(f, R.FValPtr):
		return mcDest, true
	case sameField(f, R.FData):
		return mcInput, true
	case sameField(f, R.FExecCtx), sameField(f, R.FPath):
		return mcPooled, true
	case sameField(f, R.FTest):
		return mcSchema, true
	}
	owner := P.fieldOwner(f)
	if owner == nil {
		return 0, false
	}
	switch {
	case sameNamed(owner, R.ExecCtx), sameNamed(owner, R.ErrsMap), sameNamed(owner, R.ErrsList):
		return mcPooled, true
	case sameNamed(owner, R.ZogIssue):
		switch f.Name() {
		case "Params":
			return mcSchema, true // the test's own Params map is shared with the issue
		case "Value":
			return mcInput, true
		}
		return mcLocal, true
	case sameNamed(owner, R.Test):
		return mcSchema, true
	case R.isKind(owner):
		return mcSchema, true
	}
	for _, pv := range R.Providers {
		if sameNamed(owner, pv) {
			return mcInput, true
		}
	}
	return 0, false
}

// fieldOwner finds the named module struct type declaring field f.
func (P *Prog) fieldOwner(f *types.Var) *types.Named {
	if P.fieldOwnerMemo == nil {
		P.fieldOwnerMemo = map[*types.Var]*types.Named{}
		fieldOwnerMemo := P.fieldOwnerMemo
		for _, p := range P.Pkgs {
			if !inModule(p.PkgPath) {
				continue
			}
			sc := p.Types.Scope()
			for _, name := range sc.Names() {
				tn, ok := sc.Lookup(name).(*types.TypeName)
				if !ok {
					continue
				}
				n, ok := types.Unalias(tn.Type()).(*types.Named)
				if !ok {
					continue
				}
				if st, ok := n.Underlying().(*types.Struct); ok {
					for i := 0; i < st.NumFields(); i++ {
						fieldOwnerMemo[st.Field(i).Origin()] = n
					}
				}
			}
		}
	}
	return P.fieldOwnerMemo[f.Origin()]
}

func (P *Prog) isPooledType(t types.Type) bool {
	R := P.roles
	n := namedOf(t)
	if n == nil {
		return false
	}
	for _, k := range []*types.Named{R.SchemaCtx, R.ExecCtx, R.ZogIssue, R.ErrsMap, R.ErrsList, R.PathB} {
		if sameNamed(n, k) {
			return true
		}
	}
	if n.Obj().Pkg() != nil && n.Obj().Pkg().Path() == "strings" && n.Obj().Name() == "Builder" {
		return true
	}
	return false
}

func (P *Prog) isProviderType(t types.Type) bool {
	n := namedOf(t)
	if n == nil {
		return false
	}
	for _, pv := range P.roles.Providers {
		if sameNamed(n, pv) {
			return true
		}
	}
	return false
}

// entryParamClass: the role of a parameter of an exported entry point.
func (P *Prog) entryParamClass(p *ssa.Parameter) (memClass, bool) {
	fn := p.Parent()
	isEntry := false
	for _, e := range P.roles.EntryPoints {
		if e == fn {
			isEntry = true
		}
	}
	if !isEntry {
		return 0, false
	}
	idx := -1
	for i, q := range fn.Params {
		if q == p {
			idx = i
		}
	}
	switch fn.Name() {
	case "Parse":
		switch idx {
		case 1:
			return mcInput, true
		case 2:
			return mcDest, true
		}
	case "Validate":
		if idx == 1 {
			return mcDest, true
		}
	}
	if idx >= 1 {
		return mcLocal, true // options
	}
	return 0, false
}

type classified struct {
	class memClass
	rt    root
}

// escapingClosure: fn (a closure) can outlive the activation of its parent:
// its MakeClosure value is used other than as the callee of a call/defer.
func escapingClosure(fn *ssa.Function) bool {
	par := fn.Parent()
	if par == nil {
		return false
	}
	esc := false
	eachInstr(par, func(_ *ssa.BasicBlock, _ int, in ssa.Instruction) {
		mc, ok := in.(*ssa.MakeClosure)
		if !ok || mc.Fn != fn {
			return
		}
		if refs := mc.Referrers(); refs != nil {
			for _, rf := range *refs {
				switch u := rf.(type) {
				case *ssa.Defer:
					if u.Call.Value != mc {
						esc = true
					}
				case *ssa.Call:
					if u.Call.Value != mc {
						esc = true
					}
				case *ssa.DebugRef:
				default:
					esc = true
				}
			}
		}
	})
	return esc
}

// sharedCapture: value v belongs to an ancestor function of `in`, and some
// closure between them escapes: the memory is shared between calls of the
// closure (and between goroutines).
func sharedCapture(v ssa.Value, in *ssa.Function) bool {
	var owner *ssa.Function
	switch x := v.(type) {
	case *ssa.Parameter:
		owner = x.Parent()
	case ssa.Instruction:
		owner = x.Parent()
	}
	if owner == nil || in == nil || owner == in {
		return false
	}
	for f := in; f != nil && f != owner; f = f.Parent() {
		if escapingClosure(f) {
			return true
		}
	}
	return false
}

// classifyIn classifies memory as seen from a write in function fn: locals of
// an enclosing function captured by an escaping closure are shared state.
func (P *Prog) classifyIn(fn *ssa.Function, rt root) classified {
	c := P.classify(rt)
	if (rt.kind == rkLocal || rt.kind == rkParam) && c.class == mcLocal && sharedCapture(rt.v, fn) {
		c.class = mcFreeVar
	}
	return c
}

// classify a root+path.
func (P *Prog) classify(rt root) classified {
	var cur memClass
	switch rt.kind {
	case rkLocal, rkConst, rkOpaque:
		cur = mcLocal
	case rkPoolGet:
		cur = mcPooled
	case rkGlobal:
		cur = mcGlobal
	case rkFreeVar:
		cur = mcFreeVar
	case rkParam:
		p := rt.v.(*ssa.Parameter)
		t := p.Type()
		switch {
		case P.isPooledType(t):
			cur = mcPooled
		case P.roles.isKind(t):
			cur = mcSchema
		case sameNamed(namedOf(t), P.roles.Test):
			cur = mcSchema
		case P.isProviderType(t):
			cur = mcInput
		default:
			if c, ok := P.entryParamClass(p); ok {
				cur = c
			} else if !isRefLike(t) {
				cur = mcLocal
			} else {
				cur = mcUnknownParam
			}
		}
	}
	var last *types.Var
	for _, s := range rt.path {
		if s.field != nil {
			last = s.field
		}
		if s.load {
			if last != nil {
				if c, ok := P.fieldDerefClass(last); ok {
					cur = c
				}
			}
			last = nil
		}
	}
	return classified{cur, rt}
}

// ---------------------------------------------------------------------
// Write instructions.
// ---------------------------------------------------------------------

type writeSite struct {
	fn     *ssa.Function
	in     ssa.Instruction
	target ssa.Value // the address / map / slice / reflect.Value written through
	what   string
	// for reflect writes the target's referenced memory is written (not the local reflect.Value)
	viaReflect bool
}

// stdlib functions that mutate memory reachable from an argument: name -> arg index.
var stdMutators = map[string]int{
	"maps.Copy": 0, "maps.DeleteFunc": 0, "maps.Insert": 0, "slices.Sort": 0, "slices.SortFunc": 0, "slices.SortStableFunc": 0,
	"slices.Reverse": 0, "sort.Slice": 0, "sort.SliceStable": 0, "sort.Strings": 0, "sort.Ints": 0, "sort.Float64s": 0, "sort.Sort": 0,
	"sort.Stable": 0, "reflect.Copy": 0, "clear": 0,
	// caches and counters: sync.Map / sync.Once / sync/atomic write the memory of their receiver (first argument)
	"sync.Store": 0, "sync.LoadOrStore": 0, "sync.LoadAndDelete": 0, "sync.Delete": 0, "sync.Swap": 0, "sync.CompareAndSwap": 0,
	"sync.CompareAndDelete": 0, "sync.Clear": 0, "sync.Do": 0,
	"atomic.Store": 0, "atomic.Add": 0, "atomic.Swap": 0, "atomic.CompareAndSwap": 0, "atomic.And": 0, "atomic.Or": 0,
	"atomic.StoreInt32": 0, "atomic.StoreInt64": 0, "atomic.StoreUint32": 0, "atomic.StoreUint64": 0, "atomic.StorePointer": 0, "atomic.StoreUintptr": 0,
	"atomic.AddInt32": 0, "atomic.AddInt64": 0, "atomic.AddUint32": 0, "atomic.AddUint64": 0, "atomic.AddUintptr": 0,
	"atomic.SwapInt32": 0, "atomic.SwapInt64": 0, "atomic.SwapUint32": 0, "atomic.SwapUint64": 0, "atomic.SwapPointer": 0,
	"atomic.CompareAndSwapInt32": 0, "atomic.CompareAndSwapInt64": 0, "atomic.CompareAndSwapUint32": 0, "atomic.CompareAndSwapUint64": 0, "atomic.CompareAndSwapPointer": 0,
}

func (P *Prog) writeSites(fn *ssa.Function) []writeSite {
	var out []writeSite
	eachInstr(fn, func(_ *ssa.BasicBlock, _ int, in ssa.Instruction) {
		switch x := in.(type) {
		case *ssa.Store:
			out = append(out, writeSite{fn: fn, in: in, target: x.Addr, what: "store"})
		case *ssa.MapUpdate:
			out = append(out, writeSite{fn: fn, in: in, target: x.Map, what: "map update"})
		case *ssa.Send:
			out = append(out, writeSite{fn: fn, in: in, target: x.Chan, what: "channel send"})
		default:
			ci := callOf(in)
			if ci == nil {
				return
			}
			cc := ci.instr.Common()
			switch {
			case ci.builtin == "delete" || ci.builtin == "copy" || ci.builtin == "clear":
				out = append(out, writeSite{fn: fn, in: in, target: cc.Args[0], what: ci.builtin})
			case ci.builtin == "append":
				// append may write the backing array of its first argument in place
				if _, isConstNil := cc.Args[0].(*ssa.Const); !isConstNil {
					out = append(out, writeSite{fn: fn, in: in, target: cc.Args[0], what: "append (in-place when capacity allows)"})
				}
			case ci.static != nil && isPkgFunc(ci.static, "reflect"):
				if idx, ok := reflectWriters[ci.static.Name()]; ok && idx < len(cc.Args) {
					out = append(out, writeSite{fn: fn, in: in, target: cc.Args[idx], what: "reflect." + ci.static.Name(), viaReflect: true})
				}
			case ci.static != nil && !inModule(funcPkgPath(ci.static)):
				name := ci.static.Name()
				if ci.static.Pkg != nil {
					name = ci.static.Pkg.Pkg.Name() + "." + name
				} else if o := ci.static.Object(); o != nil && o.Pkg() != nil {
					name = o.Pkg().Name() + "." + name
				}
				if idx, ok := stdMutators[name]; ok && idx < len(cc.Args) {
					out = append(out, writeSite{fn: fn, in: in, target: cc.Args[idx], what: name})
				}
			}
		}
	})
	return out
}

// classesOfWrite classifies the memory a write site modifies.
func (P *Prog) classesOfWrite(w writeSite) []classified {
	var out []classified
	// a field store into an object whose static type is one of the per-call pooled
	// structs (*ZogIssue, *SchemaCtx, ...) writes per-call memory by the ownership
	// argument of C07, however the pointer was obtained (e.g. asserted from an error).
	if st, ok := w.in.(*ssa.Store); ok {
		if base, f := fieldVar(st.Addr); f != nil && P.isPooledType(base.Type()) {
			if _, isPtr := base.Type().Underlying().(*types.Pointer); isPtr {
				return []classified{{class: mcPooled, rt: root{kind: rkOpaque, v: base}}}
			}
		}
	}
	for _, rt := range P.rootsOf(w.target) {
		switch w.in.(type) {
		case *ssa.MapUpdate:
			// the map object is what the value refers to: one more dereference
			rt = rt.with(step{load: true})
		}
		if w.what != "store" {
			// builtin / reflect / std mutators write the memory the value refers to
			if _, isMU := w.in.(*ssa.MapUpdate); !isMU {
				rt = rt.with(step{load: true})
			}
		}
		out = append(out, P.classifyIn(w.fn, rt))
	}
	return out
}

// ---------------------------------------------------------------------
// Module call graph (static + interface dispatch over module types +
// signature-matched function values).
// ---------------------------------------------------------------------

type modCG struct {
	P       *Prog
	callees map[*ssa.Function][]*ssa.Function
	// addrTaken: functions used as values (closures and named)
	addrTaken []*ssa.Function
	// call sites per callee
	sites map[*ssa.Function][]ssa.CallInstruction
}

func (P *Prog) buildModCG() *modCG {
	if P.modCGMemo != nil {
		return P.modCGMemo
	}
	g := &modCG{P: P, callees: map[*ssa.Function][]*ssa.Function{}, sites: map[*ssa.Function][]ssa.CallInstruction{}}
	P.modCGMemo = g
	taken := map[*ssa.Function]bool{}
	takenSigs := map[*ssa.Function][]*types.Signature{}
	for _, fn := range P.Funcs {
		eachInstr(fn, func(_ *ssa.BasicBlock, _ int, in ssa.Instruction) {
			var ops []*ssa.Value
			isCallee := func(v ssa.Value) bool {
				if c, ok := in.(ssa.CallInstruction); ok && !c.Common().IsInvoke() && c.Common().Value == v {
					return true
				}
				return false
			}
			for _, op := range in.Operands(ops) {
				if *op == nil {
					continue
				}
				switch f := (*op).(type) {
				case *ssa.Function:
					if !isCallee(f) && inModule(funcPkgPath(f)) {
						taken[originOf(f)] = true
						// the signature the value has where it is taken: that of the instance for a generic function
						takenSigs[originOf(f)] = append(takenSigs[originOf(f)], stripRecv(f.Signature))
					}
				case *ssa.MakeClosure:
					_ = f
				}
			}
			if mc, ok := in.(*ssa.MakeClosure); ok {
				taken[originOf(mc.Fn.(*ssa.Function))] = true
			}
		})
	}
	// package-level var initialisers reference functions from init: covered above (init is in Funcs)
	for f := range taken {
		if f.Blocks != nil {
			g.addrTaken = append(g.addrTaken, f)
		}
	}
	sort.Slice(g.addrTaken, func(i, j int) bool { return fname(g.addrTaken[i]) < fname(g.addrTaken[j]) })

	// methods by name for interface dispatch
	methodsByName := map[string][]*ssa.Function{}
	for _, fn := range P.Funcs {
		if fn.Signature.Recv() != nil && fn.Parent() == nil {
			methodsByName[fn.Name()] = append(methodsByName[fn.Name()], fn)
		}
	}
	for _, fn := range P.Funcs {
		seen := map[*ssa.Function]bool{}
		add := func(c *ssa.Function, site ssa.CallInstruction) {
			if c == nil || c.Blocks == nil {
				return
			}
			if site != nil {
				g.sites[c] = append(g.sites[c], site)
			}
			if !seen[c] {
				seen[c] = true
				g.callees[fn] = append(g.callees[fn], c)
			}
		}
		eachInstr(fn, func(_ *ssa.BasicBlock, _ int, in ssa.Instruction) {
			if mc, ok := in.(*ssa.MakeClosure); ok {
				// a closure created here may be called later by whoever receives it; for
				// reachability we conservatively treat creation as a potential call edge only via
				// signature matching below (not here).
				_ = mc
			}
			ci := callOf(in)
			if ci == nil {
				return
			}
			switch {
			case ci.static != nil:
				if inModule(funcPkgPath(ci.static)) {
					add(ci.static, ci.instr)
				}
			case ci.invoke != nil:
				it, _ := ci.instr.Common().Value.Type().Underlying().(*types.Interface)
				for _, m := range methodsByName[ci.invoke.Name()] {
					if it == nil || P.implementsByName(m, it) {
						add(m, ci.instr)
					}
				}
			case ci.dynamic:
				ft := &funcTracer{P: P, seen: map[ssa.Value]bool{}, out: map[*ssa.Function]bool{}}
				ft.trace(ci.instr.Common().Value, 0)
				for f := range ft.out {
					add(f, ci.instr)
				}
				for _, m := range ft.invokes {
					for _, impl := range methodsByName[m.Name()] {
						add(impl, ci.instr)
					}
				}
				if ft.unknown {
					// value flow could not be followed: fall back to every address-taken module
					// function of the same signature (sound, coarse)
					sig, _ := ci.instr.Common().Value.Type().Underlying().(*types.Signature)
					for _, f := range g.addrTaken {
						match := sig != nil && types.Identical(stripRecv(f.Signature), sig)
						for _, ts := range takenSigs[f] {
							if sig != nil && types.Identical(ts, sig) {
								match = true
							}
						}
						if match {
							add(f, ci.instr)
						}
					}
				}
			}
		})
	}
	return g
}

func stripRecv(s *types.Signature) *types.Signature {
	if s.Recv() == nil && s.TypeParams().Len() == 0 {
		return s
	}
	return types.NewSignatureType(nil, nil, nil, s.Params(), s.Results(), s.Variadic())
}

// implementsByName: the receiver type of method m has (by name) every method
// of interface it. Name-based so that uninstantiated generic kinds count.
func (P *Prog) implementsByName(m *ssa.Function, it *types.Interface) bool {
	n := namedOf(m.Signature.Recv().Type())
	if n == nil {
		return false
	}
	have := map[string]bool{}
	for i := 0; i < n.Origin().NumMethods(); i++ {
		have[n.Origin().Method(i).Name()] = true
	}
	// embedded pointer fields promote methods (SchemaCtx embeds *ExecCtx)
	if st, ok := n.Underlying().(*types.Struct); ok {
		for i := 0; i < st.NumFields(); i++ {
			if st.Field(i).Embedded() {
				if en := namedOf(st.Field(i).Type()); en != nil {
					for j := 0; j < en.Origin().NumMethods(); j++ {
						have[en.Origin().Method(j).Name()] = true
					}
				}
			}
		}
	}
	for i := 0; i < it.NumMethods(); i++ {
		if !have[it.Method(i).Name()] {
			return false
		}
	}
	return true
}

// reachableFrom computes the module functions reachable from roots, including
// closures created by reachable functions whose signature is called somewhere
// reachable (handled by dynamic edges) and deferred closures.
func (g *modCG) reachableFrom(roots []*ssa.Function) map[*ssa.Function]bool {
	seen := map[*ssa.Function]bool{}
	var w []*ssa.Function
	push := func(f *ssa.Function) {
		if f != nil && !seen[f] && f.Blocks != nil {
			seen[f] = true
			w = append(w, f)
		}
	}
	for _, r := range roots {
		push(r)
	}
	for len(w) > 0 {
		f := w[len(w)-1]
		w = w[:len(w)-1]
		for _, c := range g.callees[f] {
			push(c)
		}
	}
	return seen
}

// providerMakers: every module function or closure that returns a DataProvider
// (front-end factories and the helpers they build their provider with,
// whatever they are called): execution code even when only reached through a
// function value.
func (P *Prog) providerMakers() []*ssa.Function {
	var out []*ssa.Function
	for _, fn := range P.Funcs {
		res := fn.Signature.Results()
		for i := 0; i < res.Len(); i++ {
			if it, ok := res.At(i).Type().Underlying().(*types.Interface); ok && P.roles.DataProvider != nil && types.Identical(it, P.roles.DataProvider) {
				out = append(out, fn)
				break
			}
		}
	}
	return out
}

// execSet: functions reachable from Parse/Validate entry points and the front
// ends (the execution-reachable set E of DESIGN section 2).
func (P *Prog) execSet(g *modCG) map[*ssa.Function]bool {
	var roots []*ssa.Function
	roots = append(roots, P.roles.EntryPoints...)
	for _, name := range []string{"zog/parsers/zjson.Decode", "zog/zhttp.Request", "zog/zhttp.form", "zog/zenv.NewDataProvider"} {
		if f := P.fn(name); f != nil {
			roots = append(roots, f)
		}
	}
	// provider methods are execution code even if only reached through the interface
	for _, fn := range P.Funcs {
		if fn.Signature.Recv() != nil && fn.Parent() == nil && P.isProviderType(fn.Signature.Recv().Type()) {
			roots = append(roots, fn)
		}
	}
	roots = append(roots, P.providerMakers()...)
	return g.reachableFrom(roots)
}

func debugRefLike(t types.Type) string {
	tp, ok := types.Unalias(t).(*types.TypeParam)
	if !ok {
		return fmt.Sprintf("not typeparam: %T", t)
	}
	it, ok := tp.Constraint().Underlying().(*types.Interface)
	if !ok {
		return "constraint not interface"
	}
	s := fmt.Sprintf("embeddeds=%d methods=%d:", it.NumEmbeddeds(), it.NumMethods())
	for i := 0; i < it.NumEmbeddeds(); i++ {
		s += fmt.Sprintf(" [%T %v valueonly=%v]", it.EmbeddedType(i), it.EmbeddedType(i), embeddedIsValueOnly(it.EmbeddedType(i)))
	}
	return s
}

// funcTracer follows a func-typed value back to the module functions it can
// denote: function constants, closures, parameters (through the actual
// arguments at every static call site), closure captures, locals, struct
// fields (through every store to that field in the module), results of
// module calls and phis. Values supplied by code outside the module (parameters
// of exported API functions without internal callers) denote user functions,
// which are outside the analysed program. `unknown` is set when the flow
// cannot be followed.
type funcTracer struct {
	P       *Prog
	seen    map[ssa.Value]bool
	out     map[*ssa.Function]bool
	unknown bool
	seenSl  map[ssa.Value]bool
	invokes []*types.Func // interface methods reached through method-expression wrappers
}

func (ft *funcTracer) trace(v ssa.Value, depth int) {
	if v == nil || ft.seen[v] {
		return
	}
	ft.seen[v] = true
	if depth > 12 {
		ft.unknown = true
		return
	}
	P := ft.P
	switch x := v.(type) {
	case *ssa.Function:
		if x.Synthetic != "" && x.Blocks != nil {
			ft.throughWrapper(x)
			return
		}
		if inModule(funcPkgPath(x)) {
			ft.out[originOf(x)] = true
		}
	case *ssa.MakeClosure:
		if g := x.Fn.(*ssa.Function); g.Synthetic != "" && g.Blocks != nil {
			ft.throughWrapper(g)
			return
		}
		ft.out[originOf(x.Fn.(*ssa.Function))] = true
	case *ssa.Const:
		// nil func
	case *ssa.ChangeType:
		ft.trace(x.X, depth+1)
	case *ssa.MakeInterface:
		ft.trace(x.X, depth+1)
	case *ssa.Phi:
		for _, e := range x.Edges {
			ft.trace(e, depth+1)
		}
	case *ssa.Parameter:
		fn := x.Parent()
		idx := -1
		for i, p := range fn.Params {
			if p == x {
				idx = i
			}
		}
		n := 0
		for _, caller := range P.Funcs {
			eachInstr(caller, func(_ *ssa.BasicBlock, _ int, in ssa.Instruction) {
				ci := callOf(in)
				if ci == nil || ci.static != fn {
					return
				}
				args := ci.args()
				if idx < len(args) {
					n++
					ft.trace(args[idx], depth+1)
				}
			})
		}
		if n == 0 {
			if fn.Parent() != nil || !isExportedAPI(fn) {
				// a closure or unexported function whose callers we cannot see statically
				ft.unknown = true
			}
			// else: supplied by the library's user: outside the analysed program
		}
	case *ssa.FreeVar:
		if b := freeVarBinding(x); b != nil {
			ft.trace(b, depth+1)
		} else {
			ft.unknown = true
		}
	case *ssa.Alloc:
		for _, st := range storesTo(x) {
			ft.trace(st.Val, depth+1)
		}
	case *ssa.UnOp:
		if x.Op != token.MUL {
			ft.unknown = true
			return
		}
		switch a := x.X.(type) {
		case *ssa.Alloc, *ssa.FreeVar:
			ft.trace(a, depth+1)
		case *ssa.Global:
			// package-level func variable: every store to it
			for _, fn := range P.Funcs {
				eachInstr(fn, func(_ *ssa.BasicBlock, _ int, in ssa.Instruction) {
					if st, ok := in.(*ssa.Store); ok && st.Addr == ssa.Value(a) {
						ft.trace(st.Val, depth+1)
					}
				})
			}
		case *ssa.FieldAddr:
			_, f := fieldVar(a)
			ft.traceField(f, depth)
		case *ssa.IndexAddr:
			// element of a slice of funcs (options, postTransforms): trace the slice
			ft.traceSliceElems(a.X, depth+1)
		default:
			ft.unknown = true
		}
	case *ssa.Field:
		_, f := fieldVar(x)
		ft.traceField(f, depth)
	case *ssa.Extract:
		switch t := x.Tuple.(type) {
		case *ssa.Call:
			ft.traceCallResult(t, x.Index, depth)
		case *ssa.TypeAssert:
			ft.trace(t.X, depth+1)
		default:
			ft.unknown = true
		}
	case *ssa.TypeAssert:
		ft.trace(x.X, depth+1)
	case *ssa.Call:
		ft.traceCallResult(x, 0, depth)
	default:
		ft.unknown = true
	}
}

func isExportedAPI(fn *ssa.Function) bool {
	if fn.Object() == nil {
		return false
	}
	return fn.Object().Exported()
}

// throughWrapper: the synthetic wrapper of a method value or method expression (`v.process`,
// `ZogSchema.process`, `(*T).m`) stands for the method it calls: a concrete method, or - for an interface
// method - every implementation (recorded in ft.invokes and resolved by the call graph).
func (ft *funcTracer) throughWrapper(w *ssa.Function) {
	eachInstr(w, func(_ *ssa.BasicBlock, _ int, in ssa.Instruction) {
		c, ok := in.(ssa.CallInstruction)
		if !ok {
			return
		}
		cc := c.Common()
		if cc.IsInvoke() {
			ft.invokes = append(ft.invokes, cc.Method)
			return
		}
		if sc := cc.StaticCallee(); sc != nil && inModule(funcPkgPath(sc)) {
			ft.out[originOf(sc)] = true
		}
	})
}

func (ft *funcTracer) traceField(f *types.Var, depth int) {
	P := ft.P
	if f == nil {
		ft.unknown = true
		return
	}
	// context fields carrying input data: func values asserted out of them come from the caller
	if sameField(f, P.roles.FData) || sameField(f, P.roles.FValPtr) {
		// zhttp/zjson factories are module closures of DpFactory type: found by signature
		ft.unknown = true
		return
	}
	n := 0
	for _, fn := range P.Funcs {
		eachInstr(fn, func(_ *ssa.BasicBlock, _ int, in ssa.Instruction) {
			st, ok := in.(*ssa.Store)
			if !ok {
				return
			}
			if _, sf := fieldVar(st.Addr); sf != nil && sameField(sf, f) {
				n++
				ft.trace(st.Val, depth+1)
			}
		})
	}
	// composite literals of anonymous struct globals (zhttp.Config.Parsers) store through nested FieldAddr: covered above
	_ = n
}

func (ft *funcTracer) traceSliceElems(sl ssa.Value, depth int) {
	P := ft.P
	sl = cv(sl)
	if ft.seenSl == nil {
		ft.seenSl = map[ssa.Value]bool{}
	}
	if ft.seenSl[sl] {
		return
	}
	ft.seenSl[sl] = true
	if depth > 14 {
		ft.unknown = true
		return
	}
	switch x := sl.(type) {
	case *ssa.Parameter:
		// variadic options / role slices: elements come from callers
		fn := x.Parent()
		idx := -1
		for i, p := range fn.Params {
			if p == x {
				idx = i
			}
		}
		n := 0
		for _, caller := range P.Funcs {
			eachInstr(caller, func(_ *ssa.BasicBlock, _ int, in ssa.Instruction) {
				ci := callOf(in)
				if ci == nil || ci.static != fn || idx >= len(ci.args()) {
					return
				}
				n++
				ft.traceSliceElems(ci.args()[idx], depth+1)
			})
		}
		if n == 0 && (fn.Parent() != nil || !isExportedAPI(fn)) {
			ft.unknown = true
		}
	case *ssa.UnOp:
		if _, f := loadOfField(x); f != nil {
			// role slice of a schema (tests, postTransforms): elements appended by builder methods
			for _, fn := range P.Funcs {
				eachInstr(fn, func(_ *ssa.BasicBlock, _ int, in ssa.Instruction) {
					st, ok := in.(*ssa.Store)
					if !ok {
						return
					}
					if _, sf := fieldVar(st.Addr); sf != nil && sameField(sf, f) {
						if c, ok := st.Val.(*ssa.Call); ok && callOf(c).builtin == "append" && len(c.Call.Args) == 2 {
							ft.traceSliceElems(c.Call.Args[1], depth+1)
						}
					}
				})
			}
			return
		}
		ft.unknown = true
	case *ssa.Slice:
		// slice literal: stores into the backing array
		if al, ok := x.X.(*ssa.Alloc); ok && al.Referrers() != nil {
			for _, rf := range *al.Referrers() {
				if ia, ok := rf.(*ssa.IndexAddr); ok && ia.Referrers() != nil {
					for _, u := range *ia.Referrers() {
						if st, ok := u.(*ssa.Store); ok {
							ft.trace(st.Val, depth+1)
						}
					}
				}
			}
			return
		}
		ft.traceSliceElems(x.X, depth+1)
	case *ssa.Const, *ssa.MakeSlice:
	case *ssa.Phi:
		for _, e := range x.Edges {
			ft.traceSliceElems(e, depth+1)
		}
	default:
		ft.unknown = true
	}
}

func (ft *funcTracer) traceCallResult(c *ssa.Call, idx int, depth int) {
	ci := callOf(c)
	if ci.static == nil || ci.static.Blocks == nil || !inModule(funcPkgPath(ci.static)) {
		if ci.static != nil && !inModule(funcPkgPath(ci.static)) {
			return // std function returning a func: not a module function
		}
		ft.unknown = true
		return
	}
	eachInstr(ci.static, func(_ *ssa.BasicBlock, _ int, in ssa.Instruction) {
		if rt, ok := in.(*ssa.Return); ok {
			if rvs, ok := retVals(rt); ok && idx < len(rvs) {
				ft.trace(rvs[idx], depth+1)
			}
		}
	})
}

// ---------- state nobody reads ----------

// globalUse summarises how the module's package-level variables are used by execution code: a variable that execution
// code writes but never reads (a counter bumped with atomic.Add, a "last duration" that only a debug helper outside
// the execution prints) cannot carry anything from one execution into another; a variable that nothing writes after
// the package initialiser (a trace hook nobody installs) is a constant. Both are reported by their use, not by their
// name or type.
type globalUseInfo struct {
	readInE    map[*ssa.Global]bool
	writtenAny map[*ssa.Global]bool // written anywhere outside a package initialiser
}

func rootGlobalOf(v ssa.Value) *ssa.Global {
	for d := 0; d < 6 && v != nil; d++ {
		switch x := v.(type) {
		case *ssa.Global:
			return x
		case *ssa.FieldAddr:
			v = x.X
		case *ssa.IndexAddr:
			v = x.X
		default:
			return nil
		}
	}
	return nil
}

// atomicWriteOnly: the call only writes its receiver / first argument (sync/atomic Add, Store, Swap, And, Or).
func atomicWriteOnly(ci *callInfo) bool {
	if ci == nil || ci.static == nil || !isPkgFunc(ci.static, "sync/atomic") {
		return false
	}
	n := ci.static.Name()
	for _, p := range []string{"Add", "Store", "Swap", "And", "Or"} {
		if strings.HasPrefix(n, p) {
			return true
		}
	}
	return false
}

func (P *Prog) globalUse() *globalUseInfo {
	if P.globalUseMemo != nil {
		return P.globalUseMemo
	}
	gu := &globalUseInfo{readInE: map[*ssa.Global]bool{}, writtenAny: map[*ssa.Global]bool{}}
	cg := P.buildModCG()
	E := P.execSet(cg)
	// code a user of the public API can cause to run: everything reachable from an exported function or method. A
	// write that sits in an unexported function nothing calls (a `setTraceHook` kept for the library's own debugging)
	// does not happen
	var apiRoots []*ssa.Function
	for _, fn := range P.Funcs {
		if fn.Parent() == nil && ast.IsExported(fn.Name()) && inModule(funcPkgPath(fn)) {
			apiRoots = append(apiRoots, fn)
		}
	}
	live := cg.reachableFrom(apiRoots)
	for f := range E {
		live[f] = true
	}
	for _, fn := range P.Funcs {
		if fn.Synthetic == "package initializer" {
			continue
		}
		top := fn
		for top.Parent() != nil {
			top = top.Parent()
		}
		if !live[fn] && !live[top] {
			continue
		}
		inE := E[fn]
		eachInstr(fn, func(_ *ssa.BasicBlock, _ int, in ssa.Instruction) {
			switch in.(type) {
			case *ssa.FieldAddr, *ssa.IndexAddr:
				return // an address computation: its own users are looked at
			}
			ci := callOf(in)
			for i, op := range in.Operands(nil) {
				if op == nil || *op == nil {
					continue
				}
				g := rootGlobalOf(*op)
				if g == nil {
					continue
				}
				write := false
				if st, ok := in.(*ssa.Store); ok && st.Addr == *op {
					write = true
				}
				if ci != nil && atomicWriteOnly(ci) && len(ci.args()) > 0 && ci.args()[0] == *op {
					// (the result of Add/Swap is a read only if it is used)
					if v, isV := in.(ssa.Value); !isV || v.Referrers() == nil || len(*v.Referrers()) == 0 {
						write = true
					}
				}
				_ = i
				if write {
					gu.writtenAny[g] = true
				} else if inE {
					gu.readInE[g] = true
				}
			}
		})
	}
	P.globalUseMemo = gu
	return gu
}

// writeOnlyInExecution: execution code never reads g.
func (P *Prog) writeOnlyInExecution(g *ssa.Global) bool { return g != nil && !P.globalUse().readInE[g] }

// neverWritten: nothing outside the package initialiser writes g.
func (P *Prog) neverWritten(g *ssa.Global) bool { return g != nil && !P.globalUse().writtenAny[g] }
