package main

import (
	"encoding/json"
	"fmt"
	"os"
	"path/filepath"
	"sort"
	"strings"
	"time"
)

type Status string

const (
	Discharged Status = "discharged"
	Violated   Status = "violated"
	Undecided  Status = "undecided"
)

// Obligation is one instance of a rule on one construct. Keyed by
// Rule+Construct; line numbers are informative only.
type Obligation struct {
	Rule      string   `json:"rule"`
	Construct string   `json:"construct"`
	Status    Status   `json:"status"`
	Pos       string   `json:"pos,omitempty"`
	Detail    string   `json:"detail,omitempty"`
	Facts     []string `json:"facts,omitempty"`
	Known     bool     `json:"known_finding,omitempty"`
}

func (o Obligation) Key() string { return o.Rule + " " + o.Construct }

// Result accumulates what one property check covered.
type Result struct {
	Prop        string
	Tier        string
	Explanation string
	Assumptions []string
	Obls        []Obligation
	Instances   map[string]int // rule -> instance count
	Floors      map[string]int // rule -> minimum instance count confirmed by hand
	FuncsSeen   map[string]bool
	CallSites   int
	Broken      []string // reasons the check itself is broken (exit 2)
	Info        []string // informational notes listed in evidence
	Extra       map[string]any
	Exhaustive  bool
}

func NewResult(prop, tier string) *Result {
	return &Result{Prop: prop, Tier: tier, Instances: map[string]int{}, Floors: map[string]int{},
		FuncsSeen: map[string]bool{}, Extra: map[string]any{}}
}

func (r *Result) add(rule, construct string, st Status, pos, detail string, facts ...string) {
	r.Obls = append(r.Obls, Obligation{Rule: rule, Construct: construct, Status: st, Pos: pos, Detail: detail, Facts: facts})
	r.Instances[rule]++
}
func (r *Result) ok(rule, construct, pos, detail string, facts ...string) {
	r.add(rule, construct, Discharged, pos, detail, facts...)
}
func (r *Result) bad(rule, construct, pos, detail string, facts ...string) {
	r.add(rule, construct, Violated, pos, detail, facts...)
}
func (r *Result) undecided(rule, construct, pos, detail string, facts ...string) {
	r.add(rule, construct, Undecided, pos, "cannot decide: "+detail, facts...)
}
func (r *Result) floor(rule string, n int) { r.Floors[rule] = n }
func (r *Result) broken(format string, a ...any) {
	r.Broken = append(r.Broken, fmt.Sprintf(format, a...))
}
func (r *Result) info(format string, a ...any) { r.Info = append(r.Info, fmt.Sprintf(format, a...)) }
func (r *Result) sawFunc(name string)          { r.FuncsSeen[name] = true }

// ---- known findings ----

type KnownFinding struct {
	Property  string `json:"property"`
	Rule      string `json:"rule"`
	Construct string `json:"construct"`
	What      string `json:"what"`
}

type KnownFile struct {
	Comment  string         `json:"_comment,omitempty"`
	Findings []KnownFinding `json:"findings"`
	Fixed    []string       `json:"fixed"`
}

func loadKnown(path string) (*KnownFile, error) {
	b, err := os.ReadFile(path)
	if err != nil {
		if os.IsNotExist(err) {
			return &KnownFile{}, nil
		}
		return nil, err
	}
	var k KnownFile
	if err := json.Unmarshal(b, &k); err != nil {
		return nil, fmt.Errorf("%s: %w", path, err)
	}
	return &k, nil
}

// ---- finishing: print, evidence, exit code ----

func (r *Result) finish(verifDir string, start time.Time, seed int, checkerCmd string) int {
	known, err := loadKnown(filepath.Join(verifDir, "known_findings.json"))
	if err != nil {
		r.broken("known_findings.json unreadable: %v", err)
		known = &KnownFile{}
	}
	// vacuity floors
	rules := make([]string, 0, len(r.Floors))
	for k := range r.Floors {
		rules = append(rules, k)
	}
	sort.Strings(rules)
	for _, rule := range rules {
		if r.Instances[rule] < r.Floors[rule] {
			r.broken("vacuous: rule %s matched %d instances, floor is %d (confirmed by hand on the pinned tree)", rule, r.Instances[rule], r.Floors[rule])
		}
	}
	sort.SliceStable(r.Obls, func(i, j int) bool { return r.Obls[i].Key() < r.Obls[j].Key() })
	// dedupe identical keys (keep worst)
	rank := map[Status]int{Discharged: 0, Undecided: 1, Violated: 2}
	var ded []Obligation
	for _, o := range r.Obls {
		if n := len(ded); n > 0 && ded[n-1].Key() == o.Key() {
			if rank[o.Status] > rank[ded[n-1].Status] {
				ded[n-1] = o
			}
			continue
		}
		ded = append(ded, o)
	}
	r.Obls = ded

	evDir := filepath.Join(verifDir, "evidence")
	os.MkdirAll(evDir, 0o755)
	vioDir := filepath.Join(evDir, r.Prop+".violations")
	os.RemoveAll(vioDir)

	nViol, nKnown, nDis := 0, 0, 0
	var lines []string
	for i := range r.Obls {
		o := &r.Obls[i]
		if o.Status == Discharged {
			nDis++
			continue
		}
		matched := false
		if o.Status == Violated {
			for _, k := range known.Findings {
				if k.Property == r.Prop && k.Rule == o.Rule && k.Construct == o.Construct {
					matched = true
					o.Known = true
					lines = append(lines, fmt.Sprintf("KNOWN-FINDING: property=%s %s %s: %s", r.Prop, o.Rule, o.Construct, k.What))
					break
				}
			}
		}
		if matched {
			nKnown++
			continue
		}
		nViol++
		os.MkdirAll(vioDir, 0o755)
		path := filepath.Join(vioDir, fmt.Sprintf("%d.json", nViol))
		b, _ := json.MarshalIndent(map[string]any{
			"property": r.Prop, "rule": o.Rule, "construct": o.Construct, "status": o.Status,
			"position": o.Pos, "detail": o.Detail, "facts": o.Facts,
			"rerun": checkerCmd,
		}, "", " ")
		os.WriteFile(path, b, 0o644)
		fmt.Printf("%s %s %s at %s: %s\n", strings.ToUpper(string(o.Status)), o.Rule, o.Construct, o.Pos, o.Detail)
		for _, f := range o.Facts {
			fmt.Printf("    %s\n", f)
		}
		lines = append(lines, fmt.Sprintf("VIOLATION property=%s replay=%s", r.Prop, path))
	}
	for _, b := range r.Broken {
		fmt.Printf("BROKEN-CHECK property=%s: %s\n", r.Prop, b)
	}
	for _, l := range lines {
		fmt.Println(l)
	}

	// samples: a handful of real obligations of each rule
	perRule := map[string]int{}
	var samples []any
	for _, o := range r.Obls {
		if perRule[o.Rule] >= 2 && o.Status == Discharged {
			continue
		}
		perRule[o.Rule]++
		samples = append(samples, o)
		if len(samples) >= 60 {
			break
		}
	}
	type ri struct {
		Rule  string `json:"rule"`
		Count int    `json:"instances"`
		Floor int    `json:"floor"`
	}
	var ris []ri
	var rnames []string
	for k := range r.Instances {
		rnames = append(rnames, k)
	}
	sort.Strings(rnames)
	for _, k := range rnames {
		ris = append(ris, ri{k, r.Instances[k], r.Floors[k]})
	}
	var funcs []string
	for f := range r.FuncsSeen {
		funcs = append(funcs, f)
	}
	sort.Strings(funcs)
	cov := map[string]any{
		"explanation":        r.Explanation,
		"obligations":        len(r.Obls),
		"discharged":         nDis,
		"known_findings":     nKnown,
		"undecided_or_new":   nViol,
		"rule_instances":     ris,
		"functions_analysed": len(funcs),
		"functions":          funcs,
		"call_sites":         r.CallSites,
		"samples":            samples,
		"checker_cmd":        checkerCmd,
		"trusted_base": []string{"go/packages + go/types (type checking of /repo's working tree)",
			"golang.org/x/tools v0.29.0 go/ssa (SSA construction) and callgraph/vta over cha",
			"the role tables in zogcheck/roles.go (field and type names of zog's contexts and schemas)"},
		"exhaustive": r.Exhaustive,
		"notes":      r.Info,
	}
	for k, v := range r.Extra {
		cov[k] = v
	}
	if len(samples) == 0 {
		cov["samples"] = []any{"no obligations were produced"}
	}
	if r.Assumptions == nil {
		r.Assumptions = []string{}
	}
	r.Assumptions = append(r.Assumptions,
		"the analysed program is /repo's working tree as type-checked by go/packages; user-supplied callbacks, coercers, providers and formatters are outside it",
		"no unsafe, cgo or go:linkname in the module")
	ev := map[string]any{
		"property_id": r.Prop,
		"tier":        r.Tier,
		"seed":        seed,
		"level":       "other",
		"coverage":    cov,
		"assumptions": r.Assumptions,
		"wall_s":      time.Since(start).Seconds(),
		"violations":  nViol,
	}
	if len(r.Broken) > 0 {
		ev["broken"] = r.Broken
	}
	b, _ := json.MarshalIndent(ev, "", " ")
	if err := os.WriteFile(filepath.Join(evDir, r.Prop+".json"), b, 0o644); err != nil {
		fmt.Printf("BROKEN-CHECK property=%s: cannot write evidence: %v\n", r.Prop, err)
		return 2
	}
	fmt.Printf("%s %s: %d obligations, %d discharged, %d known findings, %d violated/undecided; %d functions analysed\n",
		r.Prop, r.Tier, len(r.Obls), nDis, nKnown, nViol, len(funcs))
	if len(r.Broken) > 0 {
		return 2
	}
	if nViol > 0 {
		return 1
	}
	return 0
}

// shareRule runs another property's check and adopts the obligations of one of its rules (optionally
// filtered) under a rule name of this property: the same structural fact is a necessary condition of both.
// A floor on an adopted rule guards only that the filter still matches something. Rules about *recycled* objects
// (re-initialisation, release, pooled maps) are adopted with floor 0: a tree that stops pooling a type has nothing to
// re-initialise or release, the adopting property holds trivially, and a floor firing there would be a false alarm.
// The source rule keeps its own floor in its own property.
// shareDepth guards against two properties adopting rules from each other (C02 adopts from C10; C10 adopting from C02
// would run each other's checks without end): adoptions are only followed one level deep - a check that runs as the
// source of an adoption does not run its own adoptions.
var shareDepth int

func shareRule(P *Prog, r *Result, src ruleFunc, srcRule string, keep func(o Obligation) bool, newRule string, floor int) {
	if shareDepth > 0 {
		return
	}
	shareDepth++
	defer func() { shareDepth-- }()
	tmp := NewResult(r.Prop, r.Tier)
	src(P, tmp)
	for _, o := range tmp.Obls {
		if o.Rule != srcRule || (keep != nil && !keep(o)) {
			continue
		}
		o.Rule = newRule
		r.Obls = append(r.Obls, o)
		r.Instances[newRule]++
	}
	r.floor(newRule, floor)
}
