package main

import (
	"fmt"
	"go/token"
	"go/types"
	"sort"
	"strings"

	"golang.org/x/tools/go/ssa"
)

// Decision paths of a node function: every acyclic path from entry to a
// return, as a sequence of decision atoms (branch conditions classified by
// role) and events (issue emission, destination stores, child dispatch, test
// loop, push/pop). Loops are traversed once: reaching a loop header a second
// time ends the path with LOOP-BACK.

type pathItem struct {
	kind string // atom or event name
	val  string // for atoms: "T"/"F"; for events: qualifier
	in   ssa.Instruction
	aux  ssa.Value // events about a context: the context value, resolved at the point of the path
}

func (p pathItem) String() string {
	if p.val == "" {
		return p.kind
	}
	return p.kind + "=" + p.val
}

type nodePath struct {
	items []pathItem
	end   string // RETURN, LOOP-BACK, PANIC
}

func (np nodePath) has(kind, val string) bool {
	for _, it := range np.items {
		if it.kind == kind && (val == "" || it.val == val) {
			return true
		}
	}
	return false
}
func (np nodePath) count(kind string) int {
	n := 0
	for _, it := range np.items {
		if it.kind == kind {
			n++
		}
	}
	return n
}
func (np nodePath) index(kind string) int {
	for i, it := range np.items {
		if it.kind == kind {
			return i
		}
	}
	return -1
}
func (np nodePath) String() string {
	var s []string
	for _, it := range np.items {
		s = append(s, it.String())
	}
	return strings.Join(s, " ") + " → " + np.end
}

type pathEnum struct {
	P      *Prog
	fn     *ssa.Function
	ca     *catchAnalysis
	paths  []nodePath
	capHit bool
	// inputMode: some absence predicate in fn is applied to the input (ctx.Data);
	// then nil-tests of the destination are allocation checks, not absence.
	inputMode     bool
	inputModeDone bool
	// inlining state
	trail      []trailEntry
	headers    map[*ssa.Function]map[*ssa.BasicBlock]bool
	decided    map[ssa.Value]bool // stripped condition value -> its value on the current path
	decidedNil map[ssa.Value]bool // value -> whether it is non-nil on the current path (by a test made on the path)
	escaped    map[*ssa.Function]bool
	inlined    map[*ssa.Function]bool
	imprecise  bool
	spec       *pathSpec // nil: the node-function classifiers
}

// zeroSubjectClass: memory class of the value an absence predicate is applied to.
func (pe *pathEnum) zeroSubjectClass(cond ssa.Value) (memClass, bool) {
	c := cv(cond)
	for {
		if u, ok := c.(*ssa.UnOp); ok && u.Op == token.NOT {
			c = cv(u.X)
			continue
		}
		break
	}
	var subj ssa.Value
	switch x := c.(type) {
	case *ssa.Call:
		if len(x.Call.Args) > 0 {
			subj = x.Call.Args[0]
		}
	case *ssa.BinOp:
		if call, ok := x.X.(*ssa.Call); ok && len(call.Call.Args) > 0 {
			subj = call.Call.Args[0]
		}
	}
	if subj == nil {
		return 0, false
	}
	for _, rt := range pe.P.rootsOf(subj) {
		return pe.P.classify(rt).class, true
	}
	return 0, false
}

func (pe *pathEnum) computeInputMode() {
	pe.inputModeDone = true
	eachInstr(pe.fn, func(_ *ssa.BasicBlock, _ int, in ssa.Instruction) {
		iff, ok := in.(*ssa.If)
		if !ok {
			return
		}
		if isZ, _ := pe.rawZeroAtom(iff.Cond); isZ {
			if cl, ok := pe.zeroSubjectClass(iff.Cond); ok && cl == mcInput {
				pe.inputMode = true
			}
		}
	})
}

// zeroAtom: an absence test of the node's value. In a function that decides
// absence on the input, predicates applied to the destination are not absence
// tests (they are allocation checks).
func (pe *pathEnum) zeroAtom(cond ssa.Value) (bool, bool) {
	if !pe.inputModeDone {
		pe.computeInputMode()
	}
	isZ, zt := pe.rawZeroAtom(cond)
	if !isZ {
		return false, false
	}
	if pe.inputMode {
		if cl, ok := pe.zeroSubjectClass(cond); ok && cl != mcInput {
			return false, false
		}
	}
	return isZ, zt
}

// zeroPredicateCall: v is (or negates) a call of one of the absence predicates.
func (pe *pathEnum) rawZeroAtom(cond ssa.Value) (isZeroAtom bool, zeroWhenTrue bool) {
	P := pe.P
	neg := false
	c := cv(cond) // through the substitution: `empty := isZero || x.Len() == 0; if empty` is the same test
	for {
		if u, ok := c.(*ssa.UnOp); ok && u.Op == token.NOT {
			neg = !neg
			c = cv(u.X)
			continue
		}
		break
	}
	if call, ok := c.(*ssa.Call); ok {
		ci := callOf(call)
		name := ""
		if ci.static != nil {
			name = ci.static.Name()
		}
		if ci.dynamic {
			if p, ok := cv(call.Call.Value).(*ssa.Parameter); ok {
				if n, ok := types.Unalias(p.Type()).(*types.Named); ok {
					name = n.Obj().Name()
				}
				if a, ok := p.Type().(*types.Alias); ok {
					name = a.Obj().Name()
				}
			}
		}
		switch name {
		case "IsParseZeroValue", "IsZeroValue", "IsNil", "IsZero", "IsZeroValueFunc":
			return true, !neg
		case "IsValid":
			return true, neg // !IsValid() means absent
		}
	}
	if bo, ok := c.(*ssa.BinOp); ok && (bo.Op == token.EQL || bo.Op == token.NEQ) {
		// X.Len() == 0
		if call, ok := bo.X.(*ssa.Call); ok {
			if ci := callOf(call); ci.static != nil && isPkgFunc(ci.static, "reflect") && ci.static.Name() == "Len" {
				if k, ok := constInt(bo.Y); ok && k == 0 {
					z := bo.Op == token.EQL
					if neg {
						z = !z
					}
					return true, z
				}
			}
		}
	}
	_ = P
	return false, false
}

func (pe *pathEnum) classifyCond(iff *ssa.If) (kind string, trueVal string, falseVal string) {
	P := pe.P
	R := P.roles
	cond := iff.Cond
	if isZ, zt := pe.zeroAtom(cond); isZ {
		if zt {
			return "ZERO", "T", "F"
		}
		return "ZERO", "F", "T"
	}
	if x, eq, ok := isNilCompare(cond); ok {
		// role fields
		switch P.roleOf(x) {
		case "defaultVal":
			if eq {
				return "DEFAULT", "F", "T"
			}
			return "DEFAULT", "T", "F"
		case "required":
			if eq {
				return "REQUIRED", "F", "T"
			}
			return "REQUIRED", "T", "F"
		case "catch":
			if eq {
				return "CATCHSET", "F", "T"
			}
			return "CATCHSET", "T", "F"
		}
		// error results
		if ex, ok := x.(*ssa.Extract); ok {
			if call, ok := ex.Tuple.(*ssa.Call); ok {
				ci := callOf(call)
				what := "ERR"
				switch {
				case ci.dynamic && P.roleOf(call.Call.Value) == "coercer":
					what = "COERCE-ERR"
				case ci.dynamic && P.callbackRole(ci) == "preprocess":
					what = "PREPROCESS-ERR"
				case ci.dynamic:
					what = "FACTORY-ERR"
				case ci.static != nil:
					what = "ERR:" + ci.static.Name()
				}
				if eq {
					return what, "F", "T"
				}
				return what, "T", "F"
			}
		}
		if call, ok := x.(*ssa.Call); ok && P.callbackRole(callOf(call)) == "postTransform" {
			if eq {
				return "PT-ERR", "F", "T"
			}
			return "PT-ERR", "T", "F"
		}
	}
	c := cv(cond)
	if _, f := loadOfField(c); f != nil {
		switch {
		case sameField(f, R.FCanCatch):
			return "CANCATCH", "T", "F"
		case sameField(f, R.FExit):
			return "EXIT", "T", "F"
		}
	}
	if ex, ok := cond.(*ssa.Extract); ok {
		if ta, ok := ex.Tuple.(*ssa.TypeAssert); ok && ex.Index == 1 {
			if strings.Contains(typeStr(ta.AssertedType), "DataProvider, *") || strings.Contains(typeStr(ta.AssertedType), "DpFactory") {
				return "IS-FACTORY", "T", "F"
			}
			return "TYPE-OK", "T", "F"
		}
	}
	neg := false
	cc := cond
	if u, ok := cc.(*ssa.UnOp); ok && u.Op == token.NOT {
		neg, cc = true, u.X
	}
	if call, ok := cc.(*ssa.Call); ok {
		ci := callOf(call)
		if ci.static != nil && ci.static.Name() == "HasErrored" || ci.invoke != nil && ci.invoke.Name() == "HasErrored" {
			if neg {
				return "HASERRORED", "F", "T"
			}
			return "HASERRORED", "T", "F"
		}
	}
	return "", "", ""
}

func (pe *pathEnum) eventsOfInstr(in ssa.Instruction) []pathItem {
	P := pe.P
	var out []pathItem
	ci := callOf(in)
	if _, d := in.(*ssa.Defer); d {
		return nil
	}
	switch {
	case P.isAddIssue(ci):
		kind := "other"
		arg := ci.args()[1]
		// what built the issue?
		var walk func(v ssa.Value, d int)
		walk = func(v ssa.Value, d int) {
			if d > 4 {
				return
			}
			if c, ok := cv(v).(*ssa.Call); ok {
				cc := callOf(c)
				if cc.static != nil {
					switch cc.static.Name() {
					case "IssueFromCoerce":
						kind = "coerce"
						return
					case "IssueFromTest":
						role := P.roleOf(cc.args()[1])
						if role == "required" {
							kind = "required"
						} else {
							kind = "test"
						}
						return
					case "IssueFromUnknownError":
						kind = "wrapped-error"
						return
					}
					if len(cc.args()) > 0 {
						walk(cc.args()[0], d+1)
					}
				}
			}
		}
		walk(arg, 0)
		out = append(out, pathItem{kind: "ISSUE", val: kind, in: in})
	case P.isLenOfRole(in, "tests"):
		out = append(out, pathItem{kind: "TESTS", in: in})
	case P.isTestFuncCall(ci):
		out = append(out, pathItem{kind: "CALL-TEST", in: in})
	case ci != nil && P.callbackRole(ci) == "preprocess":
		out = append(out, pathItem{kind: "CALL-PREPROCESS", in: in})
	case ci != nil && ci.dynamic && P.roleOf(ci.instr.Common().Value) == "coercer":
		out = append(out, pathItem{kind: "COERCE", in: in})
	case ci != nil && ci.dynamic && P.isFactoryValue(ci.instr.Common().Value):
		out = append(out, pathItem{kind: "CALL-FACTORY", in: in})
	case ci != nil && ci.static != nil && ci.static.Name() == "Push" && sameNamed(namedOf(ci.static.Signature.Recv().Type()), P.roles.PathB):
		out = append(out, pathItem{kind: "PUSH", in: in})
	case ci != nil && ci.static != nil && ci.static.Name() == "Pop" && sameNamed(namedOf(ci.static.Signature.Recv().Type()), P.roles.PathB):
		out = append(out, pathItem{kind: "POP", in: in})
	default:
		if name, ok := pe.ca.dispatchCallee(ci); ok {
			if ci.invoke != nil {
				var ctxv ssa.Value
				for _, a := range ci.args() {
					if av := cvi(a); pe.ca.isCtxVal(av) {
						ctxv = av
					}
				}
				out = append(out, pathItem{kind: "CHILD", in: in, aux: ctxv})
			} else {
				for _, pl := range P.roles.Pipelines {
					if pl == ci.static {
						name = "primitive-pipeline"
					}
				}
				out = append(out, pathItem{kind: "DELEGATE", val: name, in: in})
			}
		}
	}
	// a child context is created / given its data
	if ci != nil && (P.isSchemaCtxMethod(ci, "NewSchemaCtx") || P.isSchemaCtxMethod(ci, "NewValidateSchemaCtx")) {
		if c, ok := in.(*ssa.Call); ok {
			v := "fresh"
			for _, a := range ci.args()[1:] {
				if _, vf := loadOfField(cvi(a)); vf != nil && sameField(vf, P.roles.FData) {
					v = "same"
				}
			}
			out = append(out, pathItem{kind: "NEWCTX", val: v, in: in, aux: c})
		}
	}
	if st, ok := in.(*ssa.Store); ok {
		if base, f := fieldVar(st.Addr); f != nil && sameField(f, P.roles.FData) && P.isPtrTo(cv(base).Type(), P.roles.SchemaCtx) {
			v := "fresh"
			if _, vf := loadOfField(cvi(st.Val)); vf != nil && sameField(vf, P.roles.FData) {
				v = "same"
			}
			out = append(out, pathItem{kind: "CTX-DATA", val: v, in: in, aux: cv(base)})
		}
	}
	// resets of the catch flags of a context
	if st, ok := in.(*ssa.Store); ok {
		if base, f := fieldVar(st.Addr); f != nil && P.isPtrTo(cv(base).Type(), P.roles.SchemaCtx) {
			for _, fl := range []*types.Var{P.roles.FCanCatch, P.roles.FExit, P.roles.FHasCaught} {
				if fl != nil && sameField(f, fl) {
					v := "set"
					if c, isC := constBool(st.Val); isC && !c {
						v = "reset"
					}
					out = append(out, pathItem{kind: "FLAG-" + fl.Name(), val: v, in: in})
				}
			}
		}
	}
	// destination writes
	var target, val ssa.Value
	what := ""
	switch x := in.(type) {
	case *ssa.Store:
		target, val, what = x.Addr, x.Val, "store"
	default:
		if ci != nil && ci.static != nil && isPkgFunc(ci.static, "reflect") {
			if _, isW := reflectWriters[ci.static.Name()]; isW && len(ci.args()) >= 2 {
				target, val, what = ci.args()[0], ci.args()[1], "reflect"
			}
		}
	}
	if target != nil {
		isDest := false
		for _, rt := range P.rootsOf(target) {
			if what == "reflect" {
				rt = rt.with(step{load: true})
			}
			if P.classify(rt).class == mcDest {
				isDest = true
			}
		}
		if isDest {
			src := "other"
			if u, ok := val.(*ssa.UnOp); ok && u.Op == token.MUL {
				switch P.roleOf(u.X) {
				case "defaultVal":
					src = "default"
				case "catch":
					src = "catch"
				}
			}
			for _, rt := range P.rootsOf(val) {
				for _, s := range rt.path {
					if s.field != nil && P.roleName(s.field) == "defaultVal" {
						src = "default"
					}
				}
			}
			if ta, ok := cv(val).(*ssa.TypeAssert); ok {
				if ex, ok := cv(ta.X).(*ssa.Extract); ok {
					if c, ok := ex.Tuple.(*ssa.Call); ok && callOf(c).dynamic && P.roleOf(c.Call.Value) == "coercer" {
						src = "coerced"
					}
				}
			}
			if c, ok := cv(val).(*ssa.Call); ok {
				if cc := callOf(c); cc.static != nil && isPkgFunc(cc.static, "reflect") && (cc.static.Name() == "New" || cc.static.Name() == "MakeSlice") {
					src = "alloc"
				}
				// the product of a pure reflect helper (a clone, a typed copy): a copy of the Default when the Default is
				// what it was given, a fresh allocation otherwise
				if cc := callOf(c); src == "other" && cc.static != nil && P.pureValueHelper(cc.static) {
					src = "alloc"
					var fromDefault func(v ssa.Value, depth int) bool
					fromDefault = func(v ssa.Value, depth int) bool {
						if depth > 3 {
							return false
						}
						for _, rt := range P.rootsOf(v) {
							for _, s := range rt.path {
								if s.field != nil && P.roleName(s.field) == "defaultVal" {
									return true
								}
							}
						}
						if c2, ok := cv(v).(*ssa.Call); ok && callOf(c2).static != nil && P.pureValueHelper(callOf(c2).static) {
							for _, a := range c2.Call.Args {
								if fromDefault(a, depth+1) {
									return true
								}
							}
						}
						return false
					}
					for _, a := range c.Call.Args {
						if fromDefault(a, 0) {
							src = "default"
						}
					}
				}
			}
			out = append(out, pathItem{kind: "DEST", val: src, in: in})
		}
	}
	return out
}

// ---------------------------------------------------------------------
// Path engine: enumeration with helper inlining.
//
// The enumeration follows static calls to module helpers that matter to the
// node's decision (they emit an issue, write the destination, call a
// callback, ... transitively) as if their body stood at the call site:
// parameters are bound to the actual arguments, phis to the edge the path
// came in by, and the call's results to the values the callee returned on
// that path, in a substitution environment that canon() and the root walk
// consult. A branch whose condition is a constant under that environment (the
// `ok` result of a helper that returned `nil, false`) or repeats a condition
// already decided on the path is followed on the feasible side only. So the
// paths of a node function do not change when part of its body is moved to a
// helper, which is a behaviour-preserving edit.
// ---------------------------------------------------------------------

// substEnv is the dynamic-scope substitution of the running enumeration (nil
// outside one).
var substEnv map[ssa.Value]ssa.Value

// withoutSubst runs f outside any substitution (for memoised, context-free summaries).
func withoutSubst(f func()) {
	saved := substEnv
	substEnv = nil
	defer func() { substEnv = saved }()
	f()
}

// pathSpec: the classifiers of an enumeration other than the node-function
// one: which conditions are atoms, which instructions are events, and which
// module helpers are entered (those containing an atom or event, transitively).
type pathSpec struct {
	name             string
	cond             func(iff *ssa.If) (kind, tv, fv string)
	events           func(in ssa.Instruction) []pathItem
	keep             func(fn *ssa.Function) bool // never enter fn (its calls are events of the spec)
	condAux          func(iff *ssa.If) ssa.Value // optional: a value attached to the atom (resolved on the path)
	relMemo          map[*ssa.Function]bool
	onReturn         func(rt *ssa.Return) string // optional: rendered into the end of a returning path
	symbolicLoopPhis bool                        // do not bind the phis of loop headers (they stay symbolic: the iteration variable)
	inlineAll        bool                        // enter every module helper (small functions whose atoms only show under the substitution)
	reentrant        bool                        // events are fully resolved when emitted: a helper may be entered again on a path although a value of its first frame escaped
}

func (sp *pathSpec) relevant(P *Prog, fn *ssa.Function) bool {
	if sp.relMemo == nil {
		sp.relMemo = map[*ssa.Function]bool{}
	}
	if v, ok := sp.relMemo[fn]; ok {
		return v
	}
	sp.relMemo[fn] = false
	res := false
	withoutSubst(func() {
		eachInstr(fn, func(_ *ssa.BasicBlock, _ int, in ssa.Instruction) {
			if res {
				return
			}
			if len(sp.events(in)) > 0 {
				res = true
				return
			}
			if iff, ok := in.(*ssa.If); ok {
				if k, _, _ := sp.cond(iff); k != "" {
					res = true
					return
				}
			}
			if ci := callOf(in); ci != nil && ci.static != nil && ci.static.Blocks != nil && inModule(funcPkgPath(ci.static)) && !(sp.keep != nil && sp.keep(ci.static)) {
				if sp.relevant(P, ci.static) {
					res = true
				}
			}
		})
	})
	sp.relMemo[fn] = res
	return res
}

type inlFrame struct {
	fn   *ssa.Function
	call *ssa.Call
	blk  *ssa.BasicBlock
	idx  int
	vh   map[*ssa.BasicBlock]int
}

type trailEntry struct {
	k   ssa.Value
	old ssa.Value
	had bool
}

const maxInlineDepth = 4

func (pe *pathEnum) bind(k, v ssa.Value) {
	if k == nil || v == nil || k == v {
		return
	}
	old, had := substEnv[k]
	pe.trail = append(pe.trail, trailEntry{k, old, had})
	substEnv[k] = v
}

func (pe *pathEnum) undoTo(mark int) {
	for len(pe.trail) > mark {
		e := pe.trail[len(pe.trail)-1]
		pe.trail = pe.trail[:len(pe.trail)-1]
		if e.had {
			substEnv[e.k] = e.old
		} else {
			delete(substEnv, e.k)
		}
	}
}

func (pe *pathEnum) headersOf(fn *ssa.Function) map[*ssa.BasicBlock]bool {
	if h, ok := pe.headers[fn]; ok {
		return h
	}
	h := map[*ssa.BasicBlock]bool{}
	for _, l := range naturalLoops(fn) {
		h[l.header] = true
	}
	if pe.headers == nil {
		pe.headers = map[*ssa.Function]map[*ssa.BasicBlock]bool{}
	}
	pe.headers[fn] = h
	return h
}

// definitelyNonNil: v (already canonical) is never nil.
func definitelyNonNil(v ssa.Value) bool {
	switch x := v.(type) {
	case *ssa.Alloc, *ssa.MakeClosure, *ssa.Function, *ssa.MakeMap, *ssa.MakeSlice, *ssa.MakeChan, *ssa.FieldAddr, *ssa.IndexAddr:
		return true
	case *ssa.MakeInterface:
		_ = x
		return true // a non-nil interface (its dynamic value may be a nil pointer, the interface is not nil)
	case *ssa.Call:
		// the error constructors of the standard library never return nil
		if ci := callOf(x); ci.static != nil {
			switch ci.static.String() {
			case "fmt.Errorf", "errors.New":
				return true
			}
		}
	}
	return false
}

// evalCond: the value of a branch condition if it is a constant under the
// current substitution.
func (pe *pathEnum) evalCond(v ssa.Value) (val bool, known bool) {
	c := cv(v)
	if b, ok := constBool(c); ok {
		return b, true
	}
	switch x := c.(type) {
	case *ssa.UnOp:
		if x.Op == token.NOT {
			if b, ok := pe.evalCond(x.X); ok {
				return !b, true
			}
		}
	case *ssa.BinOp:
		if x.Op != token.EQL && x.Op != token.NEQ {
			return false, false
		}
		a, b := cv(x.X), cv(x.Y)
		an, bn := isNilConst(a), isNilConst(b)
		var eq, ok bool
		switch {
		case an && bn:
			eq, ok = true, true
		case an && definitelyNonNil(b), bn && definitelyNonNil(a):
			eq, ok = false, true
		default:
			ca, okA := a.(*ssa.Const)
			cb, okB := b.(*ssa.Const)
			if okA && okB && ca.Value != nil && cb.Value != nil {
				eq, ok = ca.Value.ExactString() == cb.Value.ExactString(), true
			}
		}
		if ok {
			if x.Op == token.NEQ {
				eq = !eq
			}
			return eq, true
		}
	}
	return false, false
}

// nilCondKey: a stripped condition that compares a value with nil: the value, and whether the comparison is `==`
// (the base form is `x != nil`).
func nilCondKey(c ssa.Value) (ssa.Value, bool, bool) {
	bo, ok := c.(*ssa.BinOp)
	if !ok || (bo.Op != token.EQL && bo.Op != token.NEQ) {
		return nil, false, false
	}
	a, b := cv(bo.X), cv(bo.Y)
	switch {
	case isNilConst(b) && !isNilConst(a):
		return a, bo.Op == token.EQL, true
	case isNilConst(a) && !isNilConst(b):
		return b, bo.Op == token.EQL, true
	}
	return nil, false, false
}

// condKey: the identity of a pure condition value, with negations stripped.
func condKey(v ssa.Value) (ssa.Value, bool) {
	neg := false
	c := cv(v)
	for {
		if u, ok := c.(*ssa.UnOp); ok && u.Op == token.NOT {
			neg = !neg
			c = cv(u.X)
			continue
		}
		break
	}
	return c, neg
}

var anchorNames = map[string]bool{
	"IsParseZeroValue": true, "IsZeroValue": true, "HasErrored": true, "AddIssue": true, "IssueFromTest": true, "IssueFromCoerce": true,
	"IssueFromUnknownError": true, "Issue": true, "NewSchemaCtx": true, "NewValidateSchemaCtx": true, "NewExecCtx": true, "Free": true,
	"TryNewAnyDataProvider": true, "NewMapDataProvider": true,
}

// isAnchor: calls of fn are recognised as such by the atom and event
// classifiers, or fn is a unit of the library's own architecture (a node
// function, pipeline, entry point, context constructor, provider): never inlined.
func (P *Prog) isAnchorFn(fn *ssa.Function) bool {
	R := P.roles
	if anchorNames[fn.Name()] {
		return true
	}
	for _, m := range []map[string]*ssa.Function{R.Process, R.Validate} {
		for _, f := range m {
			if f == fn {
				return true
			}
		}
	}
	for _, f := range R.Pipelines {
		if f == fn {
			return true
		}
	}
	for _, f := range R.EntryPoints {
		if f == fn {
			return true
		}
	}
	if sig := fn.Signature; sig.Recv() != nil {
		n := namedOf(sig.Recv().Type())
		if sameNamed(n, R.PathB) || sameNamed(n, R.ExecCtx) || P.isProviderType(sig.Recv().Type()) {
			return true
		}
	}
	return false
}

// relevant: the body of fn (or of a helper it calls) contains something the
// classifiers report: an event, a role atom, or a write through a parameter.
func (P *Prog) relevantFn(fn *ssa.Function) bool {
	if P.relevantMemo == nil {
		P.relevantMemo = map[*ssa.Function]bool{}
	}
	if v, ok := P.relevantMemo[fn]; ok {
		return v
	}
	P.relevantMemo[fn] = false // recursion guard
	if P.pureValueHelper(fn) {
		return false
	}
	res := false
	ca := P.sharedCatchAnalysis()
	withoutSubst(func() {
		sub := &pathEnum{P: P, fn: fn, ca: ca, inputModeDone: true}
		eachInstr(fn, func(_ *ssa.BasicBlock, _ int, in ssa.Instruction) {
			if res {
				return
			}
			if len(sub.eventsOfInstr(in)) > 0 {
				res = true
				return
			}
			switch x := in.(type) {
			case *ssa.If:
				k, _, _ := sub.classifyCond(x)
				if k != "" && k != "TYPE-OK" && !strings.HasPrefix(k, "ERR:") {
					res = true
				}
			case *ssa.Store:
				for _, rt := range P.rootsOf(x.Addr) {
					if rt.kind == rkParam || rt.kind == rkFreeVar {
						res = true
					}
				}
			}
			if ci := callOf(in); ci != nil {
				switch {
				case ci.dynamic || ci.invoke != nil:
					res = true
				case ci.static != nil && isPkgFunc(ci.static, "reflect"):
					if _, isW := reflectWriters[ci.static.Name()]; isW {
						res = true
					}
				case ci.static != nil && ci.static.Blocks != nil && inModule(funcPkgPath(ci.static)) && !P.isAnchorFn(ci.static):
					if P.relevantFn(ci.static) {
						res = true
					}
				}
			}
		})
	})
	P.relevantMemo[fn] = res
	return res
}

// pureValueHelper: fn computes a value from reflect.Values alone (a recursive deep copy, a converter): it takes no
// context, interface or function, calls nothing but reflect and itself, stores nowhere, and every reflect write it makes
// goes into memory it allocated itself with reflect.MakeSlice / MakeMap / New. Its branches (Kind switches, IsNil
// guards) decide nothing about the node and its calls are not entered on the node's decision paths.
func (P *Prog) pureValueHelper(fn *ssa.Function) bool {
	_, ok := P.reflectCluster(fn)
	return ok
}

// reflectCluster: fn and the module functions it calls (transitively) form a closed group of pure reflect helpers -
// parameters of type reflect.Value / reflect.Type / integers / booleans only, no store outside locals, no call other
// than builtins, reflect, and members of the group - whose reflect writes all land in memory the group allocated: a
// write's target is rooted in a reflect.MakeSlice / New / MakeMap made in the same function, or in a parameter of an
// unexported member every one of whose call sites lies in the group and passes such a fresh value there
// (`deepCopyElems(cp, v)`). Returns the members.
func (P *Prog) reflectCluster(fn *ssa.Function) ([]*ssa.Function, bool) {
	if fn == nil || fn.Blocks == nil || fn.Parent() != nil || len(fn.Params) == 0 {
		return nil, false
	}
	okParam := func(t types.Type) bool {
		switch typeStr(t) {
		case "reflect.Value", "reflect.Type", "reflect.Kind":
			return true
		}
		if b, isB := t.Underlying().(*types.Basic); isB && b.Info()&(types.IsInteger|types.IsBoolean) != 0 {
			return true
		}
		return false
	}
	members := map[*ssa.Function]bool{}
	var order []*ssa.Function
	var visit func(f *ssa.Function) bool
	visit = func(f *ssa.Function) bool {
		if members[f] {
			return true
		}
		if f.Blocks == nil || f.Parent() != nil || !inModule(funcPkgPath(f)) || len(order) > 8 {
			return false
		}
		for _, p := range f.Params {
			if !okParam(p.Type()) {
				return false
			}
		}
		members[f] = true
		order = append(order, f)
		ok := true
		eachInstr(f, func(_ *ssa.BasicBlock, _ int, in ssa.Instruction) {
			if !ok {
				return
			}
			switch in.(type) {
			case *ssa.Store, *ssa.MapUpdate, *ssa.Send, *ssa.Go, *ssa.Defer, *ssa.Panic:
				if st, isSt := in.(*ssa.Store); isSt {
					if al, isAl := st.Addr.(*ssa.Alloc); isAl && al.Parent() == f {
						return // a spilled local
					}
				}
				ok = false
				return
			}
			ci := callOf(in)
			if ci == nil {
				return
			}
			switch {
			case ci.builtin != "":
			case ci.invoke != nil && ci.invoke.Pkg() != nil && ci.invoke.Pkg().Path() == "reflect": // a method of reflect.Type
			case ci.static != nil && isPkgFunc(ci.static, "reflect"):
			case ci.static != nil && inModule(funcPkgPath(ci.static)):
				if !visit(ci.static) {
					ok = false
				}
			default:
				ok = false
			}
		})
		return ok
	}
	if !visit(fn) {
		return nil, false
	}
	// where do the reflect writes land?
	var freshIn func(f *ssa.Function, v ssa.Value, depth int) bool
	freshIn = func(f *ssa.Function, v ssa.Value, depth int) bool {
		if depth > 3 {
			return false
		}
		rs := P.rootsOf(v)
		if len(rs) == 0 {
			return false
		}
		for _, rt := range rs {
			if c2, isCall := rt.v.(*ssa.Call); isCall && callOf(c2).static != nil && isPkgFunc(callOf(c2).static, "reflect") {
				switch callOf(c2).static.Name() {
				case "MakeSlice", "New", "MakeMap", "MakeMapWithSize", "Zero":
					continue
				}
			}
			// the result of a member that returns a fresh value (`newSettable(t)`)
			if c2, isCall := rt.v.(*ssa.Call); isCall && callOf(c2).static != nil && members[callOf(c2).static] {
				continue
			}
			if prm, isP := rt.v.(*ssa.Parameter); isP && prm.Parent() == f && f != fn {
				idx := -1
				for i, q := range f.Params {
					if q == prm {
						idx = i
					}
				}
				sites, closed := P.closedCallSites(f)
				if idx < 0 || !closed || len(sites) == 0 {
					return false
				}
				for _, site := range sites {
					if !members[site.Parent()] || idx >= len(site.Common().Args) || !freshIn(site.Parent(), site.Common().Args[idx], depth+1) {
						return false
					}
				}
				continue
			}
			return false
		}
		return true
	}
	for _, f := range order {
		bad := false
		eachInstr(f, func(_ *ssa.BasicBlock, _ int, in ssa.Instruction) {
			ci := callOf(in)
			if ci == nil || ci.static == nil || !isPkgFunc(ci.static, "reflect") {
				return
			}
			if _, isW := reflectWriters[ci.static.Name()]; isW && !freshIn(f, ci.args()[0], 0) {
				bad = true
			}
		})
		if bad {
			return nil, false
		}
	}
	return order, true
}

// inlinable: the call is followed into its callee.
func (pe *pathEnum) inlinable(ci *callInfo, stack []inlFrame) *ssa.Function {
	if ci == nil {
		return nil
	}
	if _, isCall := ci.instr.(*ssa.Call); !isCall {
		return nil
	}
	fn := ci.static
	if fn == nil && ci.dynamic {
		// a function value that is known on this path: a closure or function passed to the helper we are in
		switch x := cv(ci.instr.Common().Value).(type) {
		case *ssa.Function:
			fn = x
		case *ssa.MakeClosure:
			fn, _ = x.Fn.(*ssa.Function)
		}
	}
	if fn == nil {
		return nil
	}
	if fn.Blocks == nil || !inModule(funcPkgPath(fn)) || len(stack) >= maxInlineDepth {
		return nil
	}
	if pe.spec != nil {
		for _, fr := range stack {
			if fr.fn == fn {
				return nil
			}
		}
		if pe.spec.keep != nil && pe.spec.keep(fn) {
			return nil
		}
		if pe.escaped[fn] && !pe.spec.reentrant {
			pe.imprecise = true
			return nil
		}
		if !pe.spec.inlineAll && !pe.spec.relevant(pe.P, fn) {
			return nil
		}
		return fn
	}
	// the instantiation actually called, when the origin has no body of its own
	if pe.P.isAnchorFn(fn) {
		return nil
	}
	if _, ok := pe.ca.dispatchCallee(ci); ok {
		return nil
	}
	for _, fr := range stack {
		if fr.fn == fn {
			return nil
		}
	}
	if pe.escaped[fn] {
		pe.imprecise = true
		return nil
	}
	if !pe.P.relevantFn(fn) {
		return nil
	}
	return fn
}

func (pe *pathEnum) endPath(items []pathItem, end string) {
	pe.paths = append(pe.paths, nodePath{items: append([]pathItem{}, items...), end: end})
}

// enter block b of the top frame coming from pred (nil at function entry).
func (pe *pathEnum) enter(stack []inlFrame, pred, b *ssa.BasicBlock, items []pathItem, depth int) {
	if len(pe.paths) > 20000 || depth > 600 {
		pe.capHit = true
		return
	}
	top := &stack[len(stack)-1]
	if pe.headersOf(top.fn)[b] {
		if top.vh[b] >= 1 {
			pe.endPath(items, "LOOP-BACK")
			return
		}
		nvh := map[*ssa.BasicBlock]int{}
		for k, v := range top.vh {
			nvh[k] = v
		}
		nvh[b]++
		ns := append([]inlFrame{}, stack...)
		ns[len(ns)-1].vh = nvh
		stack = ns
	}
	if pred != nil && !(pe.spec != nil && pe.spec.symbolicLoopPhis && pe.headersOf(top.fn)[b]) {
		pi := -1
		for i, p := range b.Preds {
			if p == pred {
				pi = i
			}
		}
		if pi >= 0 {
			// phis are parallel: resolve every edge value before binding any
			var phis []*ssa.Phi
			var vals []ssa.Value
			for _, in := range b.Instrs {
				phi, ok := in.(*ssa.Phi)
				if !ok {
					break
				}
				if pi < len(phi.Edges) {
					phis = append(phis, phi)
					vals = append(vals, cv(phi.Edges[pi]))
				}
			}
			for i, phi := range phis {
				pe.bind(phi, vals[i])
			}
		}
	}
	pe.walk(stack, b, 0, items, depth)
}

func (pe *pathEnum) walk(stack []inlFrame, b *ssa.BasicBlock, from int, items []pathItem, depth int) {
	for i := from; i < len(b.Instrs)-1; i++ {
		in := b.Instrs[i]
		if _, isPhi := in.(*ssa.Phi); isPhi {
			continue
		}
		var ev []pathItem
		if pe.spec != nil {
			ev = pe.spec.events(in)
		} else {
			ev = pe.eventsOfInstr(in)
		}
		if len(ev) == 0 {
			if callee := pe.inlinable(callOf(in), stack); callee != nil {
				call := in.(*ssa.Call)
				args := call.Call.Args
				for k, p := range callee.Params {
					if k < len(args) {
						pe.bind(p, args[k]) // the raw argument: conversions such as string(x) stay visible to the printers
					}
				}
				pe.inlined[callee] = true
				// entering an instantiation of a generic helper: its type parameters stand for these arguments
				if inst := call.Call.StaticCallee(); inst != nil {
					if tas := inst.TypeArgs(); len(tas) > 0 {
						if tps := originOf(inst).TypeParams(); tps != nil {
							for k := 0; k < tps.Len() && k < len(tas); k++ {
								typeSubst[tps.At(k)] = tas[k]
							}
						}
					}
				}
				ns := append(append([]inlFrame{}, stack...), inlFrame{fn: callee, call: call, blk: b, idx: i, vh: map[*ssa.BasicBlock]int{}})
				pe.enter(ns, nil, callee.Blocks[0], items, depth+1)
				return
			}
		}
		items = append(items, ev...)
	}
	last := b.Instrs[len(b.Instrs)-1]
	switch t := last.(type) {
	case *ssa.Return:
		if len(stack) == 1 {
			end := "RETURN"
			if pe.spec != nil && pe.spec.onReturn != nil {
				end += " " + pe.spec.onReturn(t)
			}
			pe.endPath(items, end)
			return
		}
		fr := stack[len(stack)-1]
		res, ok := retVals(t)
		if ok {
			if len(res) == 1 {
				v := cv(res[0])
				pe.bind(fr.call, v)
				pe.noteEscape(fr.fn, v)
			} else if len(res) > 1 {
				if refs := fr.call.Referrers(); refs != nil {
					for _, rf := range *refs {
						if ex, ok := rf.(*ssa.Extract); ok && ex.Index < len(res) {
							v := cv(res[ex.Index])
							pe.bind(ex, v)
							pe.noteEscape(fr.fn, v)
						}
					}
				}
			}
		}
		pe.walk(stack[:len(stack)-1], fr.blk, fr.idx+1, items, depth+1)
	case *ssa.Panic:
		pe.endPath(items, "PANIC")
	case *ssa.Jump:
		pe.enter(stack, b, b.Succs[0], items, depth+1)
	case *ssa.If:
		if val, known := pe.evalCond(t.Cond); known {
			k := 0
			if !val {
				k = 1
			}
			pe.enter(stack, b, b.Succs[k], items, depth+1)
			return
		}
		key, neg := condKey(t.Cond)
		if prev, seen := pe.decided[key]; seen {
			k := 0
			if prev == neg { // cond value = prev XOR neg
				k = 1
			}
			pe.enter(stack, b, b.Succs[k], items, depth+1)
			return
		}
		// the same nil test of the same value made by another instruction (a helper tests `err != nil` and returns err;
		// its caller tests the result again)
		nilOf, nilNeg, isNilCmp := nilCondKey(key)
		if isNilCmp {
			if prev, seen := pe.decidedNil[nilOf]; seen {
				// stripped cond = (nilOf != nil) XOR nilNeg; cond = stripped XOR neg
				val := (prev != nilNeg) != neg
				k := 0
				if !val {
					k = 1
				}
				pe.enter(stack, b, b.Succs[k], items, depth+1)
				return
			}
		}
		var kind, tv, fv string
		if pe.spec != nil {
			kind, tv, fv = pe.spec.cond(t)
		} else {
			kind, tv, fv = pe.classifyCond(t)
		}
		top := stack[len(stack)-1]
		if pe.headersOf(top.fn)[b] && kind == "" {
			kind, tv, fv = "LOOP", "iter", "done"
		}
		if kind == "" {
			kind, tv, fv = "COND", "T", "F"
		}
		for k := 0; k < 2; k++ {
			mark := len(pe.trail)
			// what escaped from inlined frames is a fact of the path, not of the enumeration
			savedEsc := make(map[*ssa.Function]bool, len(pe.escaped))
			for f, v := range pe.escaped {
				savedEsc[f] = v
			}
			v := tv
			if k == 1 {
				v = fv
			}
			// the value of the stripped condition on this side
			pe.decided[key] = (k == 0) != neg
			if isNilCmp {
				pe.decidedNil[nilOf] = ((k == 0) != neg) != nilNeg
			}
			atom := pathItem{kind: kind, val: v, in: t}
			if pe.spec != nil && pe.spec.condAux != nil && kind != "COND" {
				atom.aux = pe.spec.condAux(t)
			}
			pe.enter(stack, b, b.Succs[k], append(append([]pathItem{}, items...), atom), depth+1)
			delete(pe.decided, key)
			if isNilCmp {
				delete(pe.decidedNil, nilOf)
			}
			pe.undoTo(mark)
			pe.escaped = savedEsc
		}
	default:
		pe.endPath(items, fmt.Sprintf("?%T", last))
	}
}

// noteEscape: a value of the callee's own frame flows to the caller; the
// callee is then not entered a second time on the path (its parameters and
// phis would be rebound under that value).
func (pe *pathEnum) noteEscape(fn *ssa.Function, v ssa.Value) {
	switch x := v.(type) {
	case *ssa.Const, *ssa.Global, *ssa.Function:
		return
	case *ssa.Parameter:
		if x.Parent() == fn {
			pe.escaped[fn] = true
		}
	case ssa.Instruction:
		if x.Parent() == fn {
			pe.escaped[fn] = true
		}
	}
}

// enumerate all decision paths of fn.
func (P *Prog) nodePaths(fn *ssa.Function) ([]nodePath, bool) {
	if m, ok := P.nodePathsMemo[fn]; ok {
		return m.paths, m.capHit
	}
	res := P.enumPaths(fn, nil)
	if P.nodePathsMemo == nil {
		P.nodePathsMemo = map[*ssa.Function]*pathResult{}
	}
	P.nodePathsMemo[fn] = res
	return res.paths, res.capHit
}

// unitPaths: the decision paths of a code unit of a node function, under the
// unit's substitution (a helper's parameters bound to the call site's actuals).
func (P *Prog) unitPaths(u *nodeUnit) ([]nodePath, bool) {
	if len(u.env) == 0 {
		return P.nodePaths(u.fn)
	}
	res := P.enumPaths(u.fn, u.env)
	return res.paths, res.capHit
}

func (P *Prog) enumPaths(fn *ssa.Function, env map[ssa.Value]ssa.Value) *pathResult {
	return P.enumPathsSpec(fn, env, nil)
}

// enumPathsSpec enumerates the decision paths of fn with the given classifiers.
func (P *Prog) enumPathsSpec(fn *ssa.Function, env map[ssa.Value]ssa.Value, spec *pathSpec) *pathResult {
	pe := &pathEnum{P: P, fn: fn, ca: P.sharedCatchAnalysis(), decided: map[ssa.Value]bool{}, decidedNil: map[ssa.Value]bool{}, escaped: map[*ssa.Function]bool{}, inlined: map[*ssa.Function]bool{}, spec: spec}
	saved := substEnv
	substEnv = map[ssa.Value]ssa.Value{}
	for k, v := range env {
		substEnv[k] = v
	}
	// (type arguments of generic helpers are scoped to one enumeration, like the value substitution)
	savedT := typeSubst
	typeSubst = map[*types.TypeParam]types.Type{}
	for k, v := range savedT {
		typeSubst[k] = v
	}
	defer func() { substEnv = saved; typeSubst = savedT }()
	pe.enter([]inlFrame{{fn: fn, vh: map[*ssa.BasicBlock]int{}}}, nil, fn.Blocks[0], nil, 0)
	var inl []string
	for f := range pe.inlined {
		inl = append(inl, fname(f))
	}
	sort.Strings(inl)
	return &pathResult{paths: pe.paths, capHit: pe.capHit || pe.imprecise, inlined: inl}
}

type pathResult struct {
	paths   []nodePath
	capHit  bool
	inlined []string
}

func (P *Prog) sharedCatchAnalysis() *catchAnalysis {
	if P.catchMemo == nil {
		withoutSubst(func() { P.catchMemo = P.newCatchAnalysis() })
	}
	return P.catchMemo
}

// isFactoryValue: v is a func value asserted out of ctx.Data.
func (P *Prog) isFactoryValue(v ssa.Value) bool {
	_, f := loadOfField(cvi(v))
	return f != nil && sameField(f, P.roles.FData)
}
