package main

import (
	"fmt"
	"go/token"
	"go/types"
	"strings"

	"golang.org/x/tools/go/ssa"
)

// Decision paths of a node function: every acyclic path from entry to a
// return, as a sequence of decision atoms (branch conditions classified by
// role) and events (issue emission, destination stores, child dispatch, test
// loop, push/pop). Loops are traversed once: reaching a loop header a second
// time ends the path with LOOP-BACK.

type pathItem struct {
	kind string // atom or event name
	val  string // for atoms: "T"/"F"; for events: qualifier
	in   ssa.Instruction
}

func (p pathItem) String() string {
	if p.val == "" {
		return p.kind
	}
	return p.kind + "=" + p.val
}

type nodePath struct {
	items []pathItem
	end   string // RETURN, LOOP-BACK, PANIC
}

func (np nodePath) has(kind, val string) bool {
	for _, it := range np.items {
		if it.kind == kind && (val == "" || it.val == val) {
			return true
		}
	}
	return false
}
func (np nodePath) count(kind string) int {
	n := 0
	for _, it := range np.items {
		if it.kind == kind {
			n++
		}
	}
	return n
}
func (np nodePath) index(kind string) int {
	for i, it := range np.items {
		if it.kind == kind {
			return i
		}
	}
	return -1
}
func (np nodePath) String() string {
	var s []string
	for _, it := range np.items {
		s = append(s, it.String())
	}
	return strings.Join(s, " ") + " → " + np.end
}

type pathEnum struct {
	P      *Prog
	fn     *ssa.Function
	ca     *catchAnalysis
	paths  []nodePath
	capHit bool
	// inputMode: some absence predicate in fn is applied to the input (ctx.Data);
	// then nil-tests of the destination are allocation checks, not absence.
	inputMode     bool
	inputModeDone bool
}

// zeroSubjectClass: memory class of the value an absence predicate is applied to.
func (pe *pathEnum) zeroSubjectClass(cond ssa.Value) (memClass, bool) {
	c := cond
	for {
		if u, ok := c.(*ssa.UnOp); ok && u.Op == token.NOT {
			c = u.X
			continue
		}
		break
	}
	var subj ssa.Value
	switch x := c.(type) {
	case *ssa.Call:
		if len(x.Call.Args) > 0 {
			subj = x.Call.Args[0]
		}
	case *ssa.BinOp:
		if call, ok := x.X.(*ssa.Call); ok && len(call.Call.Args) > 0 {
			subj = call.Call.Args[0]
		}
	}
	if subj == nil {
		return 0, false
	}
	for _, rt := range pe.P.rootsOf(subj) {
		return pe.P.classify(rt).class, true
	}
	return 0, false
}

func (pe *pathEnum) computeInputMode() {
	pe.inputModeDone = true
	eachInstr(pe.fn, func(_ *ssa.BasicBlock, _ int, in ssa.Instruction) {
		iff, ok := in.(*ssa.If)
		if !ok {
			return
		}
		if isZ, _ := pe.rawZeroAtom(iff.Cond); isZ {
			if cl, ok := pe.zeroSubjectClass(iff.Cond); ok && cl == mcInput {
				pe.inputMode = true
			}
		}
	})
}

// zeroAtom: an absence test of the node's value. In a function that decides
// absence on the input, predicates applied to the destination are not absence
// tests (they are allocation checks).
func (pe *pathEnum) zeroAtom(cond ssa.Value) (bool, bool) {
	if !pe.inputModeDone {
		pe.computeInputMode()
	}
	isZ, zt := pe.rawZeroAtom(cond)
	if !isZ {
		return false, false
	}
	if pe.inputMode {
		if cl, ok := pe.zeroSubjectClass(cond); ok && cl != mcInput {
			return false, false
		}
	}
	return isZ, zt
}

// zeroPredicateCall: v is (or negates) a call of one of the absence predicates.
func (pe *pathEnum) rawZeroAtom(cond ssa.Value) (isZeroAtom bool, zeroWhenTrue bool) {
	P := pe.P
	neg := false
	c := cond
	for {
		if u, ok := c.(*ssa.UnOp); ok && u.Op == token.NOT {
			neg = !neg
			c = u.X
			continue
		}
		break
	}
	if call, ok := c.(*ssa.Call); ok {
		ci := callOf(call)
		name := ""
		if ci.static != nil {
			name = ci.static.Name()
		}
		if ci.dynamic {
			if p, ok := cv(call.Call.Value).(*ssa.Parameter); ok {
				if n, ok := types.Unalias(p.Type()).(*types.Named); ok {
					name = n.Obj().Name()
				}
				if a, ok := p.Type().(*types.Alias); ok {
					name = a.Obj().Name()
				}
			}
		}
		switch name {
		case "IsParseZeroValue", "IsZeroValue", "IsNil", "IsZero", "IsZeroValueFunc":
			return true, !neg
		case "IsValid":
			return true, neg // !IsValid() means absent
		}
	}
	if bo, ok := c.(*ssa.BinOp); ok && (bo.Op == token.EQL || bo.Op == token.NEQ) {
		// X.Len() == 0
		if call, ok := bo.X.(*ssa.Call); ok {
			if ci := callOf(call); ci.static != nil && isPkgFunc(ci.static, "reflect") && ci.static.Name() == "Len" {
				if k, ok := constInt(bo.Y); ok && k == 0 {
					z := bo.Op == token.EQL
					if neg {
						z = !z
					}
					return true, z
				}
			}
		}
	}
	_ = P
	return false, false
}

func (pe *pathEnum) classifyCond(iff *ssa.If) (kind string, trueVal string, falseVal string) {
	P := pe.P
	R := P.roles
	cond := iff.Cond
	if isZ, zt := pe.zeroAtom(cond); isZ {
		if zt {
			return "ZERO", "T", "F"
		}
		return "ZERO", "F", "T"
	}
	if x, eq, ok := isNilCompare(cond); ok {
		// role fields
		switch P.roleOf(x) {
		case "defaultVal":
			if eq {
				return "DEFAULT", "F", "T"
			}
			return "DEFAULT", "T", "F"
		case "required":
			if eq {
				return "REQUIRED", "F", "T"
			}
			return "REQUIRED", "T", "F"
		case "catch":
			if eq {
				return "CATCHSET", "F", "T"
			}
			return "CATCHSET", "T", "F"
		}
		// error results
		if ex, ok := x.(*ssa.Extract); ok {
			if call, ok := ex.Tuple.(*ssa.Call); ok {
				ci := callOf(call)
				what := "ERR"
				switch {
				case ci.dynamic && P.roleOf(call.Call.Value) == "coercer":
					what = "COERCE-ERR"
				case ci.dynamic && P.callbackRole(ci) == "preprocess":
					what = "PREPROCESS-ERR"
				case ci.dynamic:
					what = "FACTORY-ERR"
				case ci.static != nil:
					what = "ERR:" + ci.static.Name()
				}
				if eq {
					return what, "F", "T"
				}
				return what, "T", "F"
			}
		}
		if call, ok := x.(*ssa.Call); ok && P.callbackRole(callOf(call)) == "postTransform" {
			if eq {
				return "PT-ERR", "F", "T"
			}
			return "PT-ERR", "T", "F"
		}
	}
	c := cv(cond)
	if _, f := loadOfField(c); f != nil {
		switch {
		case sameField(f, R.FCanCatch):
			return "CANCATCH", "T", "F"
		case sameField(f, R.FExit):
			return "EXIT", "T", "F"
		}
	}
	if ex, ok := cond.(*ssa.Extract); ok {
		if ta, ok := ex.Tuple.(*ssa.TypeAssert); ok && ex.Index == 1 {
			if strings.Contains(typeStr(ta.AssertedType), "DataProvider, *") || strings.Contains(typeStr(ta.AssertedType), "DpFactory") {
				return "IS-FACTORY", "T", "F"
			}
			return "TYPE-OK", "T", "F"
		}
	}
	neg := false
	cc := cond
	if u, ok := cc.(*ssa.UnOp); ok && u.Op == token.NOT {
		neg, cc = true, u.X
	}
	if call, ok := cc.(*ssa.Call); ok {
		ci := callOf(call)
		if ci.static != nil && ci.static.Name() == "HasErrored" || ci.invoke != nil && ci.invoke.Name() == "HasErrored" {
			if neg {
				return "HASERRORED", "F", "T"
			}
			return "HASERRORED", "T", "F"
		}
	}
	return "", "", ""
}

func (pe *pathEnum) eventsOfInstr(in ssa.Instruction) []pathItem {
	P := pe.P
	var out []pathItem
	ci := callOf(in)
	if _, d := in.(*ssa.Defer); d {
		return nil
	}
	switch {
	case P.isAddIssue(ci):
		kind := "other"
		arg := ci.args()[1]
		// what built the issue?
		var walk func(v ssa.Value, d int)
		walk = func(v ssa.Value, d int) {
			if d > 4 {
				return
			}
			if c, ok := cv(v).(*ssa.Call); ok {
				cc := callOf(c)
				if cc.static != nil {
					switch cc.static.Name() {
					case "IssueFromCoerce":
						kind = "coerce"
						return
					case "IssueFromTest":
						role := P.roleOf(cc.args()[1])
						if role == "required" {
							kind = "required"
						} else {
							kind = "test"
						}
						return
					case "IssueFromUnknownError":
						kind = "wrapped-error"
						return
					}
					if len(cc.args()) > 0 {
						walk(cc.args()[0], d+1)
					}
				}
			}
		}
		walk(arg, 0)
		out = append(out, pathItem{kind: "ISSUE", val: kind, in: in})
	case P.isLenOfRole(in, "tests"):
		out = append(out, pathItem{kind: "TESTS", in: in})
	case P.isTestFuncCall(ci):
		out = append(out, pathItem{kind: "CALL-TEST", in: in})
	case ci != nil && P.callbackRole(ci) == "preprocess":
		out = append(out, pathItem{kind: "CALL-PREPROCESS", in: in})
	case ci != nil && ci.dynamic && P.roleOf(ci.instr.Common().Value) == "coercer":
		out = append(out, pathItem{kind: "COERCE", in: in})
	case ci != nil && ci.dynamic && P.isFactoryValue(ci.instr.Common().Value):
		out = append(out, pathItem{kind: "CALL-FACTORY", in: in})
	case ci != nil && ci.static != nil && ci.static.Name() == "Push" && sameNamed(namedOf(ci.static.Signature.Recv().Type()), P.roles.PathB):
		out = append(out, pathItem{kind: "PUSH", in: in})
	case ci != nil && ci.static != nil && ci.static.Name() == "Pop" && sameNamed(namedOf(ci.static.Signature.Recv().Type()), P.roles.PathB):
		out = append(out, pathItem{kind: "POP", in: in})
	default:
		if name, ok := pe.ca.dispatchCallee(ci); ok {
			if ci.invoke != nil {
				out = append(out, pathItem{kind: "CHILD", in: in})
			} else {
				for _, pl := range P.roles.Pipelines {
					if pl == ci.static {
						name = "primitive-pipeline"
					}
				}
				out = append(out, pathItem{kind: "DELEGATE", val: name, in: in})
			}
		}
	}
	// resets of the catch flags of a context
	if st, ok := in.(*ssa.Store); ok {
		if base, f := fieldVar(st.Addr); f != nil && P.isPtrTo(cv(base).Type(), P.roles.SchemaCtx) {
			for _, fl := range []*types.Var{P.roles.FCanCatch, P.roles.FExit, P.roles.FHasCaught} {
				if fl != nil && sameField(f, fl) {
					v := "set"
					if c, isC := constBool(st.Val); isC && !c {
						v = "reset"
					}
					out = append(out, pathItem{kind: "FLAG-" + fl.Name(), val: v, in: in})
				}
			}
		}
	}
	// destination writes
	var target, val ssa.Value
	what := ""
	switch x := in.(type) {
	case *ssa.Store:
		target, val, what = x.Addr, x.Val, "store"
	default:
		if ci != nil && ci.static != nil && isPkgFunc(ci.static, "reflect") {
			if _, isW := reflectWriters[ci.static.Name()]; isW && len(ci.args()) >= 2 {
				target, val, what = ci.args()[0], ci.args()[1], "reflect"
			}
		}
	}
	if target != nil {
		isDest := false
		for _, rt := range P.rootsOf(target) {
			if what == "reflect" {
				rt = rt.with(step{load: true})
			}
			if P.classify(rt).class == mcDest {
				isDest = true
			}
		}
		if isDest {
			src := "other"
			if u, ok := val.(*ssa.UnOp); ok && u.Op == token.MUL {
				switch P.roleOf(u.X) {
				case "defaultVal":
					src = "default"
				case "catch":
					src = "catch"
				}
			}
			for _, rt := range P.rootsOf(val) {
				for _, s := range rt.path {
					if s.field != nil && s.field.Name() == "defaultVal" {
						src = "default"
					}
				}
			}
			if ta, ok := val.(*ssa.TypeAssert); ok {
				if ex, ok := ta.X.(*ssa.Extract); ok {
					if c, ok := ex.Tuple.(*ssa.Call); ok && callOf(c).dynamic && P.roleOf(c.Call.Value) == "coercer" {
						src = "coerced"
					}
				}
			}
			if c, ok := cv(val).(*ssa.Call); ok {
				if cc := callOf(c); cc.static != nil && isPkgFunc(cc.static, "reflect") && (cc.static.Name() == "New" || cc.static.Name() == "MakeSlice") {
					src = "alloc"
				}
			}
			out = append(out, pathItem{kind: "DEST", val: src, in: in})
		}
	}
	return out
}

// enumerate all decision paths of fn.
func (P *Prog) nodePaths(fn *ssa.Function) ([]nodePath, bool) {
	pe := &pathEnum{P: P, fn: fn, ca: P.newCatchAnalysis()}
	loops := naturalLoops(fn)
	isHeader := map[*ssa.BasicBlock]bool{}
	for _, l := range loops {
		isHeader[l.header] = true
	}
	var walk func(b *ssa.BasicBlock, items []pathItem, visitedHeaders map[*ssa.BasicBlock]int, depth int)
	walk = func(b *ssa.BasicBlock, items []pathItem, vh map[*ssa.BasicBlock]int, depth int) {
		if len(pe.paths) > 4000 || depth > 200 {
			pe.capHit = true
			return
		}
		if isHeader[b] {
			if vh[b] >= 1 {
				pe.paths = append(pe.paths, nodePath{items: append([]pathItem{}, items...), end: "LOOP-BACK"})
				return
			}
			nvh := map[*ssa.BasicBlock]int{}
			for k, v := range vh {
				nvh[k] = v
			}
			nvh[b]++
			vh = nvh
		}
		for _, in := range b.Instrs {
			items = append(items, pe.eventsOfInstr(in)...)
		}
		last := b.Instrs[len(b.Instrs)-1]
		switch t := last.(type) {
		case *ssa.Return:
			pe.paths = append(pe.paths, nodePath{items: append([]pathItem{}, items...), end: "RETURN"})
		case *ssa.Panic:
			pe.paths = append(pe.paths, nodePath{items: append([]pathItem{}, items...), end: "PANIC"})
		case *ssa.Jump:
			walk(b.Succs[0], items, vh, depth+1)
		case *ssa.If:
			kind, tv, fv := pe.classifyCond(t)
			if isHeader[b] && kind == "" {
				kind, tv, fv = "LOOP", "iter", "done"
			}
			if kind == "" {
				kind, tv, fv = "COND", "T", "F"
			}
			walk(b.Succs[0], append(append([]pathItem{}, items...), pathItem{kind: kind, val: tv, in: t}), vh, depth+1)
			walk(b.Succs[1], append(append([]pathItem{}, items...), pathItem{kind: kind, val: fv, in: t}), vh, depth+1)
		default:
			pe.paths = append(pe.paths, nodePath{items: append([]pathItem{}, items...), end: fmt.Sprintf("?%T", last)})
		}
	}
	walk(fn.Blocks[0], nil, map[*ssa.BasicBlock]int{}, 0)
	return pe.paths, pe.capHit
}

// isFactoryValue: v is a func value asserted out of ctx.Data.
func (P *Prog) isFactoryValue(v ssa.Value) bool {
	_, f := loadOfField(cvi(v))
	return f != nil && sameField(f, P.roles.FData)
}
