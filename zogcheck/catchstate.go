package main

import (
	"fmt"
	"go/ast"
	"go/types"
	"sort"
	"strings"

	"golang.org/x/tools/go/ssa"
)

// Catch-state typestate of *SchemaCtx values (DESIGN 3.3).
//
// Per canonical *SchemaCtx value X and flag f in {CanCatch, Exit, HasCaught}:
// clean (definitely false) or dirty. Forward may-analysis, dirty wins at joins.

type flagState map[ssa.Value]map[*types.Var]bool // value -> flag -> dirty

func (s flagState) clone() flagState {
	o := flagState{}
	for v, m := range s {
		o[v] = map[*types.Var]bool{}
		for f, d := range m {
			o[v][f] = d
		}
	}
	return o
}

// join: dirty wins; a value unknown on one side is taken from the other side
// (it is not yet defined there).
func (s flagState) joinFrom(o flagState) bool {
	changed := false
	for v, m := range o {
		if s[v] == nil {
			s[v] = map[*types.Var]bool{}
			for f, d := range m {
				s[v][f] = d
			}
			changed = true
			continue
		}
		for f, d := range m {
			if d && !s[v][f] {
				s[v][f] = true
				changed = true
			}
		}
	}
	return changed
}

type catchAnalysis struct {
	P               *Prog
	viaValue        map[ssa.Instruction]string // dynamic calls that can dispatch into a node method
	everSetMemo     map[*types.Var]bool
	flags           []*types.Var
	callbackSets    map[*types.Var]bool                           // flags a module-defined test callback (a wrapper stored into Test.Func) sets on the context it is given
	memo            map[*ssa.Function]map[int]map[*types.Var]bool // fn -> param idx -> flags dirty at exit (given clean entry)
	busy            map[*ssa.Function]bool
	summReady       bool
	addCond         bool // (*SchemaCtx).AddIssue sets Exit only under CanCatch
	addIssue        *ssa.Function
	ctors           map[*ssa.Function]fieldSet                    // constructor -> flags definitely stored false
	cleanMemo       map[*ssa.Function]map[int]map[*types.Var]bool // fn -> param idx -> flags definitely false at exit whatever the entry
	cleanBusy       map[*ssa.Function]bool
	addIssueFlags   map[*types.Var]bool    // flags AddIssue (or an unexported helper of it) can set
	addIssueHelpers map[*ssa.Function]bool // unexported SchemaCtx methods called from AddIssue
}

type dispatchSite struct {
	fn         *ssa.Function
	in         ssa.CallInstruction
	callee     string
	ctx        ssa.Value
	dirty      []*types.Var
	inMapRange bool
	// kind: "dispatch" (a child node is entered) or an own-use of the context:
	// "addissue", "callback" (a dynamic call receiving the context), "exit-test"
	kind string
	at   ssa.Instruction
	// kind "helper-call": a static call of a module function that is handed the context
	calleeFn *ssa.Function
	argIdx   int
}

func (P *Prog) newCatchAnalysis() *catchAnalysis {
	R := P.roles
	ca := &catchAnalysis{P: P, memo: map[*ssa.Function]map[int]map[*types.Var]bool{}, busy: map[*ssa.Function]bool{}, ctors: map[*ssa.Function]fieldSet{}}
	for _, f := range []*types.Var{R.FCanCatch, R.FExit, R.FHasCaught} {
		if f != nil {
			ca.flags = append(ca.flags, f)
		}
	}
	// every other boolean field of the node context is a per-node flag of the same kind (a `Failed`, `Aborted` or
	// `Bailed` added next to Exit): held to the same confinement - false at every dispatch into a child - as soon as
	// anything sets it (everSet); a flag nothing sets is inert
	if st, ok := R.SchemaCtx.Underlying().(*types.Struct); ok {
		for i := 0; i < st.NumFields(); i++ {
			f := st.Field(i)
			b, isB := f.Type().Underlying().(*types.Basic)
			if !isB || b.Kind() != types.Bool || f.Embedded() {
				continue
			}
			known := false
			for _, k := range ca.flags {
				if sameField(k, f) {
					known = true
				}
			}
			if !known {
				ca.flags = append(ca.flags, f)
			}
		}
	}
	// what a test callback written in the module can do to the context it receives besides AddIssue: the wrappers
	// that turn a bool predicate into a TFunc take the context as the Ctx interface, assert it to the node context
	// and may set a flag on it (`c.Aborted = true` after a failing fatal test)
	ca.callbackSets = map[*types.Var]bool{}
	for _, fn := range P.Funcs {
		var ctxPs []ssa.Value
		for _, prm := range fn.Params {
			if it, ok := prm.Type().Underlying().(*types.Interface); ok && R.Ctx != nil && types.Identical(it, R.Ctx) {
				ctxPs = append(ctxPs, prm)
			}
		}
		if len(ctxPs) == 0 || !inModule(funcPkgPath(fn)) {
			continue
		}
		eachInstr(fn, func(_ *ssa.BasicBlock, _ int, in ssa.Instruction) {
			st, ok := in.(*ssa.Store)
			if !ok {
				return
			}
			base, f := fieldVar(st.Addr)
			if f == nil {
				return
			}
			for _, fl := range ca.flags {
				if !sameField(fl, f) {
					continue
				}
				if b, isB := constBool(st.Val); isB && !b {
					continue
				}
				for _, cp := range ctxPs {
					if cvi(base) == cp {
						ca.callbackSets[fl] = true
					}
				}
			}
		})
	}
	ca.addIssue = P.fn("(*zog/internals.SchemaCtx).AddIssue")
	// Is every store to Exit in AddIssue — or in a helper it calls, such as `c.swallow(e)` — control-dependent on
	// a load of CanCatch (true edge), in the function of the store or at the call that leads to it?
	if ca.addIssue != nil {
		ca.addCond = true
		ca.addIssueFlags = map[*types.Var]bool{}
		ca.addIssueHelpers = map[*ssa.Function]bool{}
		underCanCatch := func(b *ssa.BasicBlock) bool {
			for _, gd := range guardsOf(b) {
				if _, f := loadOfField(cv(gd.If.Cond)); f != nil && sameField(f, R.FCanCatch) && gd.True {
					return true
				}
			}
			return false
		}
		var scan func(fn *ssa.Function, guarded bool, depth int)
		scan = func(fn *ssa.Function, guarded bool, depth int) {
			if depth > 3 || fn.Blocks == nil {
				return
			}
			eachInstr(fn, func(b *ssa.BasicBlock, _ int, in ssa.Instruction) {
				if st, ok := in.(*ssa.Store); ok {
					if _, f := fieldVar(st.Addr); f != nil {
						for _, fl := range ca.flags {
							if !sameField(f, fl) {
								continue
							}
							if c, isC := constBool(st.Val); isC && !c {
								continue
							}
							ca.addIssueFlags[fl] = true
							if sameField(fl, R.FExit) && !(guarded || underCanCatch(b)) {
								ca.addCond = false
							}
						}
					}
					return
				}
				if ci := callOf(in); ci != nil && ci.static != nil && ci.static != fn && inModule(funcPkgPath(ci.static)) && ci.static.Signature.Recv() != nil &&
					sameNamed(namedOf(ci.static.Signature.Recv().Type()), R.SchemaCtx) && !ast.IsExported(ci.static.Name()) {
					ca.addIssueHelpers[ci.static] = true
					scan(ci.static, guarded || underCanCatch(b), depth+1)
				}
			})
		}
		scan(ca.addIssue, false, 0)
	}
	// constructors: functions returning *SchemaCtx obtained from a pool
	for _, fn := range P.Funcs {
		res := fn.Signature.Results()
		if res.Len() != 1 || !P.isPtrTo(res.At(0).Type(), R.SchemaCtx) || fn.Parent() != nil {
			continue
		}
		var obj ssa.Value
		var blk *ssa.BasicBlock
		var pool *ssa.Global
		idx := 0
		eachInstr(fn, func(b *ssa.BasicBlock, i int, in ssa.Instruction) {
			if ta, ok := in.(*ssa.TypeAssert); ok && P.isPtrTo(ta.AssertedType, R.SchemaCtx) {
				if c, ok := ta.X.(*ssa.Call); ok && isSyncPoolMethod(callOf(c), "Get") {
					obj, blk, idx = ta, b, i
					pool, _ = c.Call.Args[0].(*ssa.Global)
				}
			}
			if al, ok := in.(*ssa.Alloc); ok && al.Heap && sameNamed(al.Type().(*types.Pointer).Elem(), R.SchemaCtx) {
				obj, blk, idx = al, b, i
			}
		})
		if obj == nil {
			continue
		}
		ms := &mustStore{P: P, fn: fn, st: R.SchemaCtx.Underlying().(*types.Struct), isObj: func(v ssa.Value) bool { return v == obj },
			valOK: func(v ssa.Value) bool { b, ok := constBool(v); return ok && !b }}
		fs := ms.run(blk, idx)
		// flags reset to false before every Put into the pool (wipe on release) are clean at every Get as well,
		// unless the constructor stores something else into them
		if pool != nil {
			for f := range P.wipedOnRelease(pool, R.SchemaCtx.Underlying().(*types.Struct), func(v ssa.Value) bool { b, ok := constBool(v); return ok && !b }) {
				storedHere := false
				eachInstr(fn, func(_ *ssa.BasicBlock, _ int, in ssa.Instruction) {
					if st, ok := in.(*ssa.Store); ok {
						if b, ff := fieldVar(st.Addr); ff != nil && ff.Origin() == f && cv(b) == obj {
							storedHere = true
						}
					}
				})
				if !storedHere {
					fs[f] = true
				}
			}
		}
		if al, ok := obj.(*ssa.Alloc); ok && al != nil {
			// fresh zeroed allocation: all flags false unless stored otherwise — treat as clean only for must-stored-false or never-stored flags
			for _, f := range ca.flags {
				stored := false
				eachInstr(fn, func(_ *ssa.BasicBlock, _ int, in ssa.Instruction) {
					if st, ok := in.(*ssa.Store); ok {
						if b, ff := fieldVar(st.Addr); ff != nil && sameField(ff, f) && cv(b) == obj {
							stored = true
						}
					}
				})
				if !stored {
					fs[f.Origin()] = true
				}
			}
		}
		ca.ctors[fn] = fs
	}
	// wrappers: a function whose every return hands out the result of a constructor is a
	// constructor too (NewSchemaCtx -> acquireSchemaCtx); flags it stores afterwards count
	for changed := true; changed; {
		changed = false
		for _, fn := range P.Funcs {
			res := fn.Signature.Results()
			if _, done := ca.ctors[fn]; done || fn.Blocks == nil || res.Len() != 1 || !P.isPtrTo(res.At(0).Type(), R.SchemaCtx) || fn.Parent() != nil {
				continue
			}
			var fs fieldSet
			okW := true
			nRet := 0
			eachInstr(fn, func(_ *ssa.BasicBlock, _ int, in ssa.Instruction) {
				rt, ok := in.(*ssa.Return)
				if !ok {
					return
				}
				rvs, okRV := retVals(rt)
				if !okRV {
					return
				}
				nRet++
				c, ok := cv(rvs[0]).(*ssa.Call)
				if !ok {
					okW = false
					return
				}
				inner, isCtor := ca.ctors[callOf(c).static]
				if callOf(c).static == nil || !isCtor {
					okW = false
					return
				}
				cur := inner.clone()
				eachInstr(fn, func(_ *ssa.BasicBlock, _ int, in2 ssa.Instruction) {
					st, ok := in2.(*ssa.Store)
					if !ok {
						return
					}
					b, ff := fieldVar(st.Addr)
					if ff == nil || cv(b) != ssa.Value(c) {
						return
					}
					if bv, isC := constBool(st.Val); isC && !bv {
						cur[ff.Origin()] = true
					} else {
						delete(cur, ff.Origin())
					}
				})
				if fs == nil {
					fs = cur
				} else {
					fs = fs.intersect(cur)
				}
			})
			if okW && nRet > 0 && fs != nil {
				ca.ctors[fn] = fs
				changed = true
			}
		}
	}
	return ca
}

// exitDirty: flags of parameter idx of fn that may be dirty when fn returns,
// assuming they were clean on entry. Summaries are the least fixpoint over all
// module functions (the analysis is monotone: dirty only grows), so recursion
// through interface dispatch is handled exactly.
func (ca *catchAnalysis) exitDirty(fn *ssa.Function, idx int) map[*types.Var]bool {
	if fn == nil || fn.Blocks == nil {
		return map[*types.Var]bool{}
	}
	if !ca.summReady {
		ca.computeSummaries()
	}
	if m, ok := ca.memo[fn]; ok {
		if r, ok := m[idx]; ok {
			return r
		}
	}
	return map[*types.Var]bool{}
}

func (ca *catchAnalysis) computeSummaries() {
	ca.summReady = true
	var cands []*ssa.Function
	for _, fn := range ca.P.Funcs {
		for _, p := range fn.Params {
			if ca.isCtxVal(p) {
				cands = append(cands, fn)
				break
			}
		}
	}
	for _, fn := range cands {
		ca.memo[fn] = map[int]map[*types.Var]bool{}
	}
	for iter := 0; iter < 20; iter++ {
		changed := false
		for _, fn := range cands {
			_, exit := ca.run(fn, nil)
			for i, p := range fn.Params {
				if !ca.isCtxVal(p) {
					continue
				}
				cur := ca.memo[fn][i]
				if cur == nil {
					cur = map[*types.Var]bool{}
					ca.memo[fn][i] = cur
				}
				for f, d := range exit[ssa.Value(p)] {
					if d && !cur[f] {
						cur[f] = true
						changed = true
					}
				}
			}
		}
		if !changed {
			break
		}
	}
}

func (ca *catchAnalysis) isCtxVal(v ssa.Value) bool {
	return v != nil && ca.P.isPtrTo(v.Type(), ca.P.roles.SchemaCtx)
}

// dispatchCallee classifies a call as a dispatch into a schema node.
func (ca *catchAnalysis) dispatchCallee(ci *callInfo) (string, bool) {
	R := ca.P.roles
	if ci == nil {
		return "", false
	}
	if ci.invoke != nil && (ci.invoke.Name() == ca.P.roles.MProcess || ci.invoke.Name() == ca.P.roles.MValidate) {
		return "ZogSchema." + ci.invoke.Name(), true
	}
	if ci.static != nil {
		if _, ok := R.Dispatch[ci.static]; ok {
			return fname(ci.static), true
		}
		for _, pl := range R.Pipelines {
			if pl == ci.static {
				return fname(ci.static), true
			}
		}
	}
	// a node method called through a func value: `exec(ctx)` where exec is `child.process`, `ZogSchema.validate`
	// or `(*StringSchema).process` handed to an iteration helper
	if ci.dynamic {
		if name, ok := ca.dispatchThroughValue(ci); ok {
			return name, true
		}
	}
	return "", false
}

// dispatchThroughValue: the func value called can be a node method (traced through parameters to the call
// sites' arguments, through locals and through the wrappers of method values and method expressions).
func (ca *catchAnalysis) dispatchThroughValue(ci *callInfo) (string, bool) {
	if ca.viaValue == nil {
		ca.viaValue = map[ssa.Instruction]string{}
	}
	in := ci.instr.(ssa.Instruction)
	if name, ok := ca.viaValue[in]; ok {
		return name, name != ""
	}
	ca.viaValue[in] = ""
	// only calls that are handed a node context can be dispatches
	hasCtx := false
	for _, a := range ci.instr.Common().Args {
		if ca.isCtxVal(a) {
			hasCtx = true
		}
	}
	if !hasCtx {
		return "", false
	}
	R := ca.P.roles
	ft := &funcTracer{P: ca.P, seen: map[ssa.Value]bool{}, out: map[*ssa.Function]bool{}}
	ft.trace(ci.instr.Common().Value, 0)
	name := ""
	for f := range ft.out {
		if _, ok := R.Dispatch[f]; ok {
			name = "func value → " + fname(f)
		}
	}
	for _, m := range ft.invokes {
		if m.Name() == R.MProcess || m.Name() == R.MValidate {
			name = "func value → ZogSchema." + m.Name()
		}
	}
	ca.viaValue[in] = name
	return name, name != ""
}

// run analyses fn; returns the dispatch sites (with dirty flags) and the state
// at function exit (join over returns).
func (ca *catchAnalysis) run(fn *ssa.Function, init flagState) ([]dispatchSite, flagState) {
	P := ca.P
	R := P.roles
	in := map[*ssa.BasicBlock]flagState{}
	entry := flagState{}
	for _, p := range fn.Params {
		if ca.isCtxVal(p) {
			entry[p] = map[*types.Var]bool{}
			for _, f := range ca.flags {
				entry[p][f] = false
			}
		}
	}
	// closures: captured ctx resolves (via canon) to the parent's value; it is clean by the same assumption
	if init != nil {
		entry.joinFrom(init)
	}
	in[fn.Blocks[0]] = entry
	// go/ssa performs no CSE: every `c.ctx` is a new load. Loads of the same field of the same (never
	// reassigned) base are one context: keyed by the first of them.
	loadKey := map[string]ssa.Value{}
	unifyLoads := func(v ssa.Value) ssa.Value {
		b, f := loadOfField(v)
		if f == nil {
			return v
		}
		bb := cv(b)
		// the base must be immutable here: a parameter, or a local spill of one
		if u, ok := bb.(*ssa.UnOp); ok {
			if al, ok := u.X.(*ssa.Alloc); ok {
				if sts := storesTo(al); len(sts) == 1 {
					bb = sts[0].Val
				}
			}
		}
		if al, ok := bb.(*ssa.Alloc); ok {
			if sts := storesTo(al); len(sts) == 1 {
				bb = sts[0].Val
			}
		}
		if _, isP := bb.(*ssa.Parameter); !isP {
			return v
		}
		// the field itself must not be written in this function
		written := false
		eachInstr(fn, func(_ *ssa.BasicBlock, _ int, in ssa.Instruction) {
			if st, ok := in.(*ssa.Store); ok {
				if _, sf := fieldVar(st.Addr); sf != nil && sameField(sf, f) {
					written = true
				}
			}
		})
		if written {
			return v
		}
		k := bb.Name() + "." + f.Name()
		if first, ok := loadKey[k]; ok {
			return first
		}
		loadKey[k] = v
		return v
	}
	// a context reached through a field of a struct parameter (`c.ctx` of `children{ctx, mode}`) in a function
	// that is not a node method: nothing is known about the state it arrives in
	carried := func(v ssa.Value) bool {
		if _, isNode := R.Dispatch[fn]; isNode {
			return false
		}
		b, f := loadOfField(v)
		if f == nil {
			return false
		}
		p, isP := cv(b).(*ssa.Parameter)
		if !isP {
			// a value receiver is spilled: the load is from a local holding the parameter
			if u, ok := cv(b).(*ssa.UnOp); ok {
				if al, ok := u.X.(*ssa.Alloc); ok {
					if sts := storesTo(al); len(sts) == 1 {
						p, isP = sts[0].Val.(*ssa.Parameter)
					}
				}
			}
			if al, ok := b.(*ssa.Alloc); ok && !isP {
				if sts := storesTo(al); len(sts) == 1 {
					p, isP = sts[0].Val.(*ssa.Parameter)
				}
			}
		}
		return isP && p.Parent() == fn && P.carriesCtx(p.Type())
	}
	get := func(st flagState, v ssa.Value) map[*types.Var]bool {
		if st[v] == nil {
			st[v] = map[*types.Var]bool{}
			dirty := carried(v)
			for _, f := range ca.flags {
				// (a flag nothing in the module ever sets cannot arrive set)
				st[v][f] = dirty && ca.everSet(f) // other values first seen (e.g. parent's ctx in a closure) are clean by assumption
			}
		}
		return st[v]
	}
	sitesAt := map[ssa.Instruction]*dispatchSite{}
	usesAt := map[ssa.Instruction]*dispatchSite{}
	type helperKey struct {
		in ssa.Instruction
		ai int
	}
	helperCalls := map[helperKey]*dispatchSite{}
	exit := flagState{}
	mapRangeBlocks := mapRangeBodies(fn)
	changed := true
	for iter := 0; changed && iter < 60; iter++ {
		changed = false
		for _, b := range fn.Blocks {
			st0, ok := in[b]
			if !ok {
				continue
			}
			st := st0.clone()
			for _, ins := range b.Instrs {
				switch x := ins.(type) {
				case *ssa.Store:
					base, f := fieldVar(x.Addr)
					if f == nil {
						continue
					}
					bv := unifyLoads(cv(base))
					if !ca.isCtxVal(bv) {
						continue
					}
					for _, fl := range ca.flags {
						if sameField(f, fl) {
							if c, isC := constBool(x.Val); isC && !c {
								get(st, bv)[fl] = false
							} else {
								get(st, bv)[fl] = true
							}
						}
					}
				case *ssa.If:
					if base, f := loadOfField(cv(x.Cond)); f != nil && sameField(f, R.FExit) {
						bv := unifyLoads(cv(base))
						if ca.isCtxVal(bv) {
							cur := get(st, bv)
							us := usesAt[ins]
							if us == nil {
								us = &dispatchSite{fn: fn, callee: "exit-test", ctx: bv, kind: "exit-test", at: ins}
								usesAt[ins] = us
							}
							// the test is meaningful only after a test ran; what must hold is that Exit was
							// clean when the node started using its context: recorded as dirty-before-own-use
							if cur[R.FCanCatch] {
								has := false
								for _, e := range us.dirty {
									if e == R.FCanCatch {
										has = true
									}
								}
								if !has {
									us.dirty = append(us.dirty, R.FCanCatch)
								}
							}
						}
					}
				case *ssa.Return:
					// deferred closures run now, with the state reached here
					fin := st
					for _, db := range fn.Blocks {
						for _, di := range db.Instrs {
							if df, ok := di.(*ssa.Defer); ok {
								if mc, ok := df.Call.Value.(*ssa.MakeClosure); ok {
									if cl, ok := mc.Fn.(*ssa.Function); ok && cl.Blocks != nil && !ca.busy[cl] {
										ca.busy[cl] = true
										csites, cexit := ca.run(cl, fin)
										delete(ca.busy, cl)
										for _, cs := range csites {
											if cs.kind == "dispatch" || cs.at == nil {
												continue
											}
											us := usesAt[cs.at]
											if us == nil {
												c2 := cs
												usesAt[cs.at] = &c2
												continue
											}
											for _, d := range cs.dirty {
												has := false
												for _, e := range us.dirty {
													if e == d {
														has = true
													}
												}
												if !has {
													us.dirty = append(us.dirty, d)
												}
											}
										}
										fin = fin.clone()
										fin.joinFrom(cexit)
									}
								}
							}
						}
					}
					exit.joinFrom(fin)
				default:
					ci := callOf(ins)
					if ci == nil {
						continue
					}
					if _, isDefer := ins.(*ssa.Defer); isDefer {
						// deferred calls run at exit; their effect on flags cannot precede any dispatch in this function
						continue
					}
					// constructor results
					if c, isCall := ins.(*ssa.Call); isCall && ci.static != nil {
						if fs, isCtor := ca.ctors[ci.static]; isCtor {
							m := map[*types.Var]bool{}
							for _, fl := range ca.flags {
								m[fl] = !fs[fl.Origin()]
							}
							st[c] = m
						}
					}
					name, isDisp := ca.dispatchCallee(ci)
					args := ci.args()
					// a closure handed to a module helper (`v.eachField(structVal, func(...) { ...; child.process(subCtx) })`)
					// runs during the call: whatever it can leave on a context it captured is there afterwards
					var closureExits []flagState
					if ci.static != nil && ci.static.Blocks != nil && inModule(funcPkgPath(ci.static)) {
						for _, a := range args {
							if mc, ok := cv(a).(*ssa.MakeClosure); ok {
								if cl, ok := mc.Fn.(*ssa.Function); ok && cl.Blocks != nil && !ca.busy[cl] {
									ca.busy[cl] = true
									_, cexit := ca.run(cl, st)
									delete(ca.busy, cl)
									closureExits = append(closureExits, cexit)
								}
							}
						}
					}
					for ai, a := range args {
						av := unifyLoads(cvi(a))
						if !ca.isCtxVal(av) {
							continue
						}
						cur := get(st, av)
						useKind := ""
						switch {
						case isDisp:
						case ci.invoke != nil && ci.invoke.Name() == "AddIssue", ci.static != nil && ci.static == ca.addIssue:
							if ai == 0 {
								useKind = "addissue"
							}
						case ci.dynamic:
							useKind = "callback"
						}
						if useKind == "" && !isDisp && ci.static != nil && ci.static.Blocks != nil && inModule(funcPkgPath(ci.static)) && ci.static != ca.addIssue {
							if _, isCtor := ca.ctors[ci.static]; !isCtor {
								// the state the context is in when a helper receives it: the entry state of the
								// helper's own dispatches (allDispatchSites)
								hc := helperCalls[helperKey{ins, ai}]
								if hc == nil {
									hc = &dispatchSite{fn: fn, in: ci.instr, callee: fname(ci.static), ctx: av, kind: "helper-call", at: ins, calleeFn: ci.static, argIdx: ai}
									helperCalls[helperKey{ins, ai}] = hc
								}
								for _, fl := range ca.flags {
									if cur[fl] {
										has := false
										for _, e := range hc.dirty {
											if e == fl {
												has = true
											}
										}
										if !has {
											hc.dirty = append(hc.dirty, fl)
										}
									}
								}
							}
						}
						if useKind != "" {
							us := usesAt[ins]
							if us == nil {
								us = &dispatchSite{fn: fn, in: ci.instr, callee: useKind, ctx: av, kind: useKind, at: ins}
								usesAt[ins] = us
							}
							for _, fl := range ca.flags {
								if cur[fl] {
									has := false
									for _, e := range us.dirty {
										if e == fl {
											has = true
										}
									}
									if !has {
										us.dirty = append(us.dirty, fl)
									}
								}
							}
						}
						if isDisp {
							var dirty []*types.Var
							for _, fl := range ca.flags {
								if cur[fl] {
									dirty = append(dirty, fl)
								}
							}
							ds := sitesAt[ins]
							if ds == nil {
								ds = &dispatchSite{fn: fn, in: ci.instr, callee: name, ctx: av, inMapRange: mapRangeBlocks[b], kind: "dispatch", at: ins}
								sitesAt[ins] = ds
							}
							// accumulate (monotone)
							for _, d := range dirty {
								has := false
								for _, e := range ds.dirty {
									if e == d {
										has = true
									}
								}
								if !has {
									ds.dirty = append(ds.dirty, d)
								}
							}
						}
						// effect of the call on av
						switch {
						case ci.invoke != nil && (ci.invoke.Name() == ca.P.roles.MProcess || ci.invoke.Name() == ca.P.roles.MValidate):
							kinds := R.Process
							if ci.invoke.Name() == ca.P.roles.MValidate {
								kinds = R.Validate
							}
							for _, k := range sortedKeys(kinds) {
								for fl := range ca.exitDirty(kinds[k], 1) {
									cur[fl] = true
								}
							}
						case ci.invoke != nil && ci.invoke.Name() == "AddIssue", ci.static != nil && ci.static == ca.addIssue:
							ca.applyAddIssue(cur)
						case ci.static != nil && inModule(funcPkgPath(ci.static)):
							// a helper that re-initialises the context (`subCtx.NextChild(...)`): the flags it stores
							// `false` on every path, and does not set again, are clean afterwards whatever they were
							dirtyOut := ca.exitDirty(ci.static, ai)
							for fl := range ca.exitClean(ci.static, ai) {
								if !dirtyOut[fl] {
									cur[fl] = false
								}
							}
							for fl := range dirtyOut {
								cur[fl] = true
							}
						case ci.dynamic && isDisp:
							// a node method called through a func value: whatever any node can leave behind
							for _, kinds := range []map[string]*ssa.Function{R.Process, R.Validate} {
								for _, k := range sortedKeys(kinds) {
									for fl := range ca.exitDirty(kinds[k], 1) {
										cur[fl] = true
									}
								}
							}
						case ci.dynamic:
							// a callback receiving the context may call ctx.AddIssue
							ca.applyAddIssue(cur)
							for fl := range ca.callbackSets {
								cur[fl] = true
							}
						}
					}
					for _, ce := range closureExits {
						st.joinFrom(ce)
					}
					// a context carried into a module helper inside a small struct (`fields := children{ctx: subCtx, ...};
					// fields.runWith(child, ...)`): the helper ran children on it; nothing is known about what they left
					if ci.static != nil && ci.static.Blocks != nil && inModule(funcPkgPath(ci.static)) {
						for _, a := range args {
							if !P.carriesCtx(a.Type()) {
								continue
							}
							var holder *ssa.Alloc
							switch x := a.(type) {
							case *ssa.Alloc:
								holder = x
							case *ssa.UnOp:
								holder, _ = x.X.(*ssa.Alloc)
							}
							if holder == nil || holder.Referrers() == nil {
								continue
							}
							for _, rf := range *holder.Referrers() {
								fa, ok := rf.(*ssa.FieldAddr)
								if !ok {
									continue
								}
								for _, stf := range storesTo(fa) {
									av := unifyLoads(cvi(stf.Val))
									if !ca.isCtxVal(av) {
										continue
									}
									cur := get(st, av)
									for _, fl := range ca.flags {
										if ca.everSet(fl) {
											cur[fl] = true
										}
									}
								}
							}
						}
					}
				}
			}
			for _, s := range b.Succs {
				if in[s] == nil {
					in[s] = st.clone()
					changed = true
				} else if in[s].joinFrom(st) {
					changed = true
				}
			}
		}
	}
	var sites []dispatchSite
	for _, ds := range sitesAt {
		sites = append(sites, *ds)
	}
	for _, us := range usesAt {
		sites = append(sites, *us)
	}
	for _, hc := range helperCalls {
		sites = append(sites, *hc)
	}
	sort.SliceStable(sites, func(i, j int) bool {
		a, b := sites[i].at, sites[j].at
		if a.Parent() != b.Parent() {
			return fname(a.Parent()) < fname(b.Parent())
		}
		if a.Block().Index != b.Block().Index {
			return a.Block().Index < b.Block().Index
		}
		return instrIndex(a) < instrIndex(b)
	})
	return sites, exit
}

func instrIndex(in ssa.Instruction) int {
	for i, x := range in.Block().Instrs {
		if x == in {
			return i
		}
	}
	return -1
}

func (ca *catchAnalysis) applyAddIssue(cur map[*types.Var]bool) {
	R := ca.P.roles
	if ca.addIssue == nil {
		return
	}
	if ca.addCond {
		if cur[R.FCanCatch] {
			cur[R.FExit] = true
		}
		// other flags AddIssue (or a helper of it) may store
		for fl := range ca.addIssueFlags {
			if !sameField(fl, R.FExit) {
				cur[fl] = true
			}
		}
		return
	}
	for fl := range ca.addIssueFlags {
		cur[fl] = true
	}
}

// exitClean: flags of parameter idx of fn that are definitely false when fn returns even if they were set on
// entry: the analysis of fn started with every flag of that parameter dirty (dirty wins at joins, so a flag is
// clean at exit only if every path stores false into it after its last possible setting).
func (ca *catchAnalysis) exitClean(fn *ssa.Function, idx int) map[*types.Var]bool {
	res := map[*types.Var]bool{}
	if fn == nil || fn.Blocks == nil || idx >= len(fn.Params) || !ca.isCtxVal(fn.Params[idx]) {
		return res
	}
	if ca.cleanMemo == nil {
		ca.cleanMemo = map[*ssa.Function]map[int]map[*types.Var]bool{}
		ca.cleanBusy = map[*ssa.Function]bool{}
	}
	if m, ok := ca.cleanMemo[fn]; ok {
		if r, ok := m[idx]; ok {
			return r
		}
	}
	if ca.cleanBusy[fn] {
		return res // recursion: claim nothing
	}
	// only functions that store a flag at all can clean one
	stores := false
	eachInstr(fn, func(_ *ssa.BasicBlock, _ int, in ssa.Instruction) {
		if st, ok := in.(*ssa.Store); ok {
			if _, f := fieldVar(st.Addr); f != nil {
				for _, fl := range ca.flags {
					if sameField(f, fl) {
						stores = true
					}
				}
			}
		}
	})
	if stores {
		ca.cleanBusy[fn] = true
		init := flagState{fn.Params[idx]: map[*types.Var]bool{}}
		for _, fl := range ca.flags {
			init[fn.Params[idx]][fl] = true
		}
		_, exit := ca.run(fn, init)
		delete(ca.cleanBusy, fn)
		if st, ok := exit[ssa.Value(fn.Params[idx])]; ok {
			for _, fl := range ca.flags {
				if !st[fl] {
					res[fl] = true
				}
			}
		}
	}
	if ca.cleanMemo[fn] == nil {
		ca.cleanMemo[fn] = map[int]map[*types.Var]bool{}
	}
	ca.cleanMemo[fn][idx] = res
	return res
}

func (ca *catchAnalysis) exitDirtyNoMemo(fn *ssa.Function) map[*types.Var]bool {
	res := map[*types.Var]bool{}
	eachInstr(fn, func(_ *ssa.BasicBlock, _ int, in ssa.Instruction) {
		if st, ok := in.(*ssa.Store); ok {
			if _, f := fieldVar(st.Addr); f != nil {
				for _, fl := range ca.flags {
					if sameField(f, fl) {
						if c, isC := constBool(st.Val); !(isC && !c) {
							res[fl] = true
						}
					}
				}
			}
		}
	})
	return res
}

// mapRangeBodies: blocks inside the body of a `range` over a map.
func mapRangeBodies(fn *ssa.Function) map[*ssa.BasicBlock]bool {
	out := map[*ssa.BasicBlock]bool{}
	for _, l := range mapRangeLoops(fn) {
		for b := range l.body {
			out[b] = true
		}
	}
	return out
}

type rangeLoop struct {
	rng    *ssa.Range
	next   *ssa.Next
	header *ssa.BasicBlock
	body   map[*ssa.BasicBlock]bool // blocks of the loop (header included)
	key    ssa.Value                // extract #1 of next
	val    ssa.Value                // extract #2
}

func mapRangeLoops(fn *ssa.Function) []rangeLoop {
	var out []rangeLoop
	eachInstr(fn, func(b *ssa.BasicBlock, _ int, in ssa.Instruction) {
		nx, ok := in.(*ssa.Next)
		if !ok || nx.IsString {
			return
		}
		rg, ok := nx.Iter.(*ssa.Range)
		if !ok {
			return
		}
		if _, isMap := rg.X.Type().Underlying().(*types.Map); !isMap {
			return
		}
		l := rangeLoop{rng: rg, next: nx, header: b, body: map[*ssa.BasicBlock]bool{}}
		// natural loop of header: blocks dominated by header that can reach header
		for _, c := range fn.Blocks {
			if b.Dominates(c) && (c == b || reach(c, nil)[b]) {
				l.body[c] = true
			}
		}
		if refs := nx.Referrers(); refs != nil {
			for _, r := range *refs {
				if ex, ok := r.(*ssa.Extract); ok {
					switch ex.Index {
					case 1:
						l.key = ex
					case 2:
						l.val = ex
					}
				}
			}
		}
		out = append(out, l)
	})
	return out
}

func flagNames(fs []*types.Var) string {
	var s []string
	for _, f := range fs {
		s = append(s, f.Name())
	}
	sort.Strings(s)
	return strings.Join(s, ",")
}

// allDispatchSites runs the analysis over every module function that contains
// a dispatch call.
func (P *Prog) allDispatchSites(ca *catchAnalysis) []dispatchSite {
	R := P.roles
	hasDispatch := map[*ssa.Function]bool{}
	for _, fn := range P.Funcs {
		eachInstr(fn, func(_ *ssa.BasicBlock, _ int, in ssa.Instruction) {
			if _, ok := ca.dispatchCallee(callOf(in)); ok {
				hasDispatch[fn] = true
			}
		})
	}
	// A node function is entered through a dispatch, and every dispatch is shown to hand over a clean context:
	// it starts clean (induction over the dispatches). A *helper* that dispatches on a context it is given
	// (`subCtx.RunChild(key, data, ptr, child.process)`, `eachItem(sub, n, visit, at)`) is entered by a plain call,
	// from inside a loop, with whatever the previous child left on the context: its entry state is the join of
	// the states at its call sites. Computed to a fixpoint (helpers calling helpers).
	isNode := func(fn *ssa.Function) bool {
		if _, ok := R.Dispatch[fn]; ok {
			return true
		}
		for _, pl := range R.Pipelines {
			if pl == fn {
				return true
			}
		}
		return false
	}
	entry := map[*ssa.Function]flagState{}
	runWith := func(fn *ssa.Function) []dispatchSite {
		if fn.Parent() != nil || entry[fn] == nil {
			return ca.runRepeatable(fn)
		}
		sites, _ := ca.run(fn, entry[fn])
		return sites
	}
	for iter := 0; iter < 4; iter++ {
		grown := false
		for _, caller := range P.Funcs {
			touches := false
			for _, p := range caller.Params {
				if ca.isCtxVal(p) {
					touches = true
				}
			}
			if !touches && !hasDispatch[caller] {
				// contexts can also be locals (constructor results): cheap test on the instructions
				eachInstr(caller, func(_ *ssa.BasicBlock, _ int, in ssa.Instruction) {
					if v, ok := in.(ssa.Value); ok && ca.isCtxVal(v) {
						touches = true
					}
				})
			}
			if !touches {
				continue
			}
			for _, s := range runWith(caller) {
				if s.kind != "helper-call" || s.calleeFn == nil || !hasDispatch[s.calleeFn] || isNode(s.calleeFn) || s.argIdx >= len(s.calleeFn.Params) {
					continue
				}
				prm := ssa.Value(s.calleeFn.Params[s.argIdx])
				if entry[s.calleeFn] == nil {
					entry[s.calleeFn] = flagState{}
				}
				if entry[s.calleeFn][prm] == nil {
					entry[s.calleeFn][prm] = map[*types.Var]bool{}
				}
				for _, fl := range s.dirty {
					if !entry[s.calleeFn][prm][fl] {
						entry[s.calleeFn][prm][fl] = true
						grown = true
					}
				}
			}
		}
		if !grown {
			break
		}
	}
	var out []dispatchSite
	for _, fn := range P.Funcs {
		if !hasDispatch[fn] {
			continue
		}
		for _, s := range runWith(fn) {
			if s.kind == "dispatch" {
				out = append(out, s)
			}
		}
	}
	return out
}

// runRepeatable: run(fn) — and for a closure that can be called more than once (handed to an iteration
// helper, called in a loop; anything but a closure that is only deferred), the least fixpoint in which the
// state of every captured context at the closure's entry includes the state the closure itself leaves behind:
// the second invocation starts where the first one ended.
func (ca *catchAnalysis) runRepeatable(fn *ssa.Function) []dispatchSite {
	if fn.Parent() == nil || !escapingClosure(fn) {
		sites, _ := ca.run(fn, nil)
		return sites
	}
	init := flagState{}
	var sites []dispatchSite
	for iter := 0; iter < 6; iter++ {
		var exit flagState
		sites, exit = ca.run(fn, init)
		grown := false
		for v, fl := range exit {
			// only values defined outside the closure (captured) survive from one invocation to the next
			if in, ok := v.(ssa.Instruction); ok && in.Parent() == fn {
				continue
			}
			if p, ok := v.(*ssa.Parameter); ok && p.Parent() == fn {
				continue
			}
			if init[v] == nil {
				init[v] = map[*types.Var]bool{}
			}
			for f, d := range fl {
				if d && !init[v][f] {
					init[v][f] = true
					grown = true
				}
			}
		}
		if !grown {
			break
		}
	}
	return sites
}

// siteName gives a stable construct name: function + callee + ordinal.
func siteNames(sites []dispatchSite) []string {
	cnt := map[string]int{}
	names := make([]string, len(sites))
	for i, s := range sites {
		k := fname(s.fn) + "#" + s.callee
		cnt[k]++
		names[i] = fmt.Sprintf("%s@%d", k, cnt[k])
	}
	return names
}

// ownUseSites: for every non-pipeline node function, the places where the node
// uses its own context to report (AddIssue), to call user code, or to test
// Exit — with the flags that may be dirty there.
func (P *Prog) ownUseSites(ca *catchAnalysis) []dispatchSite {
	var out []dispatchSite
	isPipeline := map[*ssa.Function]bool{}
	for _, pl := range P.roles.Pipelines {
		isPipeline[pl] = true
	}
	for _, fn := range P.nodeFuncs() {
		if isPipeline[fn] {
			continue
		}
		sites, _ := ca.run(fn, nil)
		for _, s := range sites {
			if s.kind != "dispatch" && s.kind != "helper-call" {
				out = append(out, s)
			}
		}
	}
	return out
}

// dispatchLike: the call runs a child node: a dispatch proper (dispatchCallee), or a static call of a module
// helper that is handed a node context and dispatches on it (`subCtx.RunChild(&key, data, ptr, typ, child.process)`,
// `eachItem(sub, n, visit, at)`), possibly through further helpers.
func (P *Prog) dispatchLike(ci *callInfo) bool {
	if ci == nil {
		return false
	}
	ca := P.sharedCatchAnalysis()
	if _, ok := ca.dispatchCallee(ci); ok {
		return true
	}
	if ci.static == nil || ci.static.Blocks == nil || !inModule(funcPkgPath(ci.static)) {
		return false
	}
	hasCtx := false
	for _, a := range ci.args() {
		if ca.isCtxVal(a) || P.carriesCtx(a.Type()) {
			hasCtx = true
		}
	}
	return hasCtx && P.helperDispatches(ci.static, 0)
}

// carriesCtx: a small struct (or pointer to one) of the module with a node-context field
// (`children{ctx, mode}`), handed to the helper that runs the child on it.
func (P *Prog) carriesCtx(t types.Type) bool {
	if p, ok := t.Underlying().(*types.Pointer); ok {
		t = p.Elem()
	}
	st, ok := t.Underlying().(*types.Struct)
	if !ok || sameNamed(namedOf(t), P.roles.SchemaCtx) {
		return false
	}
	for i := 0; i < st.NumFields(); i++ {
		if P.isPtrTo(st.Field(i).Type(), P.roles.SchemaCtx) {
			return true
		}
	}
	return false
}

func (P *Prog) helperDispatches(fn *ssa.Function, depth int) bool {
	if P.helperDispMemo == nil {
		P.helperDispMemo = map[*ssa.Function]bool{}
	}
	if v, ok := P.helperDispMemo[fn]; ok {
		return v
	}
	P.helperDispMemo[fn] = false
	if depth > 3 {
		return false
	}
	if _, isNode := P.roles.Dispatch[fn]; isNode {
		return false
	}
	for _, pl := range P.roles.Pipelines {
		if pl == fn {
			return false
		}
	}
	ca := P.sharedCatchAnalysis()
	res := false
	eachInstr(fn, func(_ *ssa.BasicBlock, _ int, in ssa.Instruction) {
		ci := callOf(in)
		if ci == nil || res {
			return
		}
		if _, ok := ca.dispatchCallee(ci); ok {
			res = true
			return
		}
		if ci.static != nil && ci.static.Blocks != nil && inModule(funcPkgPath(ci.static)) {
			for _, a := range ci.args() {
				if (ca.isCtxVal(a) || P.carriesCtx(a.Type())) && P.helperDispatches(ci.static, depth+1) {
					res = true
				}
			}
		}
	})
	P.helperDispMemo[fn] = res
	return res
}

// everSet: some store in the module writes something other than the constant false into the flag.
func (ca *catchAnalysis) everSet(f *types.Var) bool {
	if ca.everSetMemo == nil {
		ca.everSetMemo = map[*types.Var]bool{}
		for _, fn := range ca.P.Funcs {
			eachInstr(fn, func(_ *ssa.BasicBlock, _ int, in ssa.Instruction) {
				st, ok := in.(*ssa.Store)
				if !ok {
					return
				}
				_, sf := fieldVar(st.Addr)
				if sf == nil {
					return
				}
				for _, fl := range ca.flags {
					if sameField(sf, fl) {
						if c, isC := constBool(st.Val); !isC || c {
							ca.everSetMemo[fl] = true
						}
					}
				}
			})
		}
	}
	for fl, v := range ca.everSetMemo {
		if sameField(fl, f) && v {
			return true
		}
	}
	return false
}
