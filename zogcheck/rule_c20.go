package main

import (
	"fmt"
	"go/ast"
	"go/constant"
	"go/token"
	"go/types"
	"regexp"
	"sort"
	"strconv"
	"strings"
	"unicode/utf8"

	"golang.org/x/tools/go/ssa"
)

func init() { register("C20", checkC20) }

// ---------- symbolic printing of pure SSA expressions ----------

type symCtx struct {
	fn    *ssa.Function
	phis  map[*ssa.Phi]ssa.Value // resolved phi edges on the current path
	P     *Prog                  // optional: fields are printed by their canonical role
	names map[ssa.Value]string   // optional: names for the function's parameters
	targs map[string]types.Type  // optional: type arguments of the generic helper the code lives in, by parameter name
}

// typeStr prints a type with the type parameters of an enclosing generic helper replaced by the
// arguments it was instantiated with at the call we are looking through.
func (sc *symCtx) typeStr(t types.Type) string {
	if len(sc.targs) > 0 {
		if tp, ok := types.Unalias(t).(*types.TypeParam); ok {
			if a, ok := sc.targs[tp.Obj().Name()]; ok {
				return typeStr(a)
			}
		}
		if p, ok := t.(*types.Pointer); ok {
			return "*" + sc.typeStr(p.Elem())
		}
	}
	return typeStr(t)
}

func (sc *symCtx) fieldName(f *types.Var) string {
	if sc.P != nil {
		return sc.P.roleName(f)
	}
	return f.Name()
}

func (sc *symCtx) sym(v ssa.Value, depth int) string {
	if depth > 25 {
		return "…"
	}
	if substEnv != nil {
		if sv, ok := substEnv[v]; ok && sv != v {
			return sc.sym(sv, depth+1)
		}
	}
	switch x := v.(type) {
	case *ssa.Parameter:
		if n, ok := sc.names[x]; ok {
			return n
		}
		for i, p := range sc.fn.Params {
			if p == x {
				if i == 0 {
					return "val"
				}
				return "ctx"
			}
		}
		// a parameter of the constructor the closure (or the helper we are in) was created for
		if pf := x.Parent(); pf != nil && pf.Parent() == nil && pf != sc.fn {
			off := 0
			if pf.Signature.Recv() != nil {
				off = 1
			}
			for i, pp := range pf.Params {
				if pp == x && i >= off {
					return fmt.Sprintf("$%d", i-off)
				}
			}
		}
		return x.Name()
	case *ssa.FreeVar:
		// a captured constructor parameter is named after its position among the constructor's
		// arguments ($0 = first argument after the receiver), whatever the capture order and through
		// whatever helper it reached the closure
		if b := freeVarBinding(x); b != nil {
			if al, ok := b.(*ssa.Alloc); ok {
				if sts := storesTo(al); len(sts) == 1 {
					switch q := cv(sts[0].Val).(type) {
					case *ssa.Parameter:
						if pf := q.Parent(); pf != nil && pf.Parent() == nil {
							off := 0
							if pf.Signature.Recv() != nil {
								off = 1
							}
							for i, pp := range pf.Params {
								if pp == q && i >= off {
									return fmt.Sprintf("&$%d", i-off)
								}
							}
						}
						// a parameter of the closure being rendered, captured by a callback nested in it
						// (`slices.ContainsFunc(vs, func(x T) bool { v := val.(*T); ... })`)
						if q.Parent() == sc.fn {
							return "&" + sc.sym(q, depth+1)
						}
					case *ssa.Function, *ssa.MakeClosure, *ssa.Const:
						return "&" + sc.sym(q, depth+1)
					default:
						// a local of the function being rendered, captured by a closure nested in it
						// (`got := *val.(*T); slices.ContainsFunc(vs, func(x T) bool { return eq(got, x) })`)
						if al.Parent() == sc.fn {
							return "&" + sc.sym(q, depth+1)
						}
					}
				}
			}
		}
		for i, f := range sc.fn.FreeVars {
			if f == x {
				return fmt.Sprintf("&$%d", i)
			}
		}
		return "&$?"
	case *ssa.Global:
		return "&@" + x.Name()
	case *ssa.Const:
		if x.Value == nil {
			return "nil"
		}
		if x.Value.Kind() == constant.String {
			return fmt.Sprintf("%q", constant.StringVal(x.Value))
		}
		return x.Value.ExactString()
	case *ssa.Function:
		return fname(x)
	case *ssa.TypeAssert:
		return fmt.Sprintf("%s.(%s)", sc.sym(x.X, depth+1), sc.typeStr(x.AssertedType))
	case *ssa.Extract:
		switch t := x.Tuple.(type) {
		case *ssa.TypeAssert:
			if x.Index == 0 {
				return fmt.Sprintf("%s.(%s)", sc.sym(t.X, depth+1), sc.typeStr(t.AssertedType))
			}
			return fmt.Sprintf("ok(%s.(%s))", sc.sym(t.X, depth+1), sc.typeStr(t.AssertedType))
		case *ssa.Next:
			switch x.Index {
			case 0:
				return "more"
			case 1:
				return "k"
			default:
				return "r"
			}
		}
		return fmt.Sprintf("%s#%d", sc.sym(x.Tuple, depth+1), x.Index)
	case *ssa.UnOp:
		switch x.Op {
		case token.MUL:
			s := sc.sym(x.X, depth+1)
			if strings.HasPrefix(s, "&") {
				return s[1:]
			}
			return "*" + s
		case token.NOT:
			return "!" + sc.sym(x.X, depth+1)
		default:
			return x.Op.String() + sc.sym(x.X, depth+1)
		}
	case *ssa.ChangeType:
		if b, ok := x.Type().Underlying().(*types.Basic); ok && b.Kind() == types.String {
			_, isTP := types.Unalias(x.X.Type()).(*types.TypeParam)
			if isTP || !types.IsInterface(x.X.Type()) {
				return "string(" + sc.sym(x.X, depth+1) + ")"
			}
		}
		return sc.sym(x.X, depth+1)
	case *ssa.Convert:
		return sc.typeStr(x.Type()) + "(" + sc.sym(x.X, depth+1) + ")"
	case *ssa.MakeInterface:
		return sc.sym(x.X, depth+1)
	case *ssa.ChangeInterface:
		return sc.sym(x.X, depth+1)
	case *ssa.BinOp:
		// strings.IndexFunc(s, f) >= 0  ==  strings.ContainsFunc(s, f)
		if c, ok := x.X.(*ssa.Call); ok {
			if ci := callOf(c); ci.static != nil && ci.static.String() == "strings.IndexFunc" {
				if k, isK := constInt(x.Y); isK && (x.Op == token.GEQ && k == 0 || x.Op == token.NEQ && k == -1 || x.Op == token.GTR && k == -1) {
					if s, ok := sc.runeAnyOf(c.Call.Args[0], c.Call.Args[1], depth); ok {
						return s
					}
				}
			}
		}
		// rangeindex: phi+1 is the index of the current iteration
		if ph, ok := x.X.(*ssa.Phi); ok && ph.Comment == "rangeindex" && x.Op == token.ADD {
			return "i"
		}
		// len(s) == 0 on a string is s == "" (and len(s) != 0 / > 0 / >= 1 is s != "")
		if c, ok := x.X.(*ssa.Call); ok && callOf(c).builtin == "len" {
			if b, isB := c.Call.Args[0].Type().Underlying().(*types.Basic); isB && b.Info()&types.IsString != 0 {
				if k, isK := constInt(x.Y); isK {
					s := sc.sym(c.Call.Args[0], depth+1)
					switch {
					case lenIsZero(x.Op, k, true):
						return "(" + s + ` == "")`
					case lenIsZero(x.Op, k, false):
						return "(" + s + ` != "")`
					}
				}
			}
		}
		return "(" + sc.sym(x.X, depth+1) + " " + x.Op.String() + " " + sc.sym(x.Y, depth+1) + ")"
	case *ssa.Phi:
		if e, ok := sc.phis[x]; ok {
			return sc.sym(e, depth+1)
		}
		return "i"
	case *ssa.FieldAddr:
		_, f := fieldVar(x)
		s := sc.sym(x.X, depth+1)
		return "&" + strings.TrimPrefix(s, "&") + "." + sc.fieldName(f)
	case *ssa.Field:
		_, f := fieldVar(x)
		return sc.sym(x.X, depth+1) + "." + sc.fieldName(f)
	case *ssa.IndexAddr:
		return "&" + strings.TrimPrefix(sc.sym(x.X, depth+1), "&") + "[" + sc.sym(x.Index, depth+1) + "]"
	case *ssa.Index:
		return sc.sym(x.X, depth+1) + "[" + sc.sym(x.Index, depth+1) + "]"
	case *ssa.Lookup:
		return sc.sym(x.X, depth+1) + "[" + sc.sym(x.Index, depth+1) + "]"
	case *ssa.Range:
		return "range(" + sc.sym(x.X, depth+1) + ")"
	case *ssa.Alloc:
		// local variable: single store => its value
		if sts := storesTo(x); len(sts) == 1 {
			return "&" + sc.sym(sts[0].Val, depth+1)
		}
		return "&local"
	case *ssa.Call:
		ci := callOf(x)
		if s, ok := sc.runeAny(x); ok {
			return s
		}
		if s, ok := sc.sliceAny(x, depth); ok {
			return s
		}
		var args []string
		for _, a := range x.Call.Args {
			args = append(args, sc.sym(a, depth+1))
		}
		name := ci.calleeName()
		if ci.static != nil {
			name = strings.ReplaceAll(ci.static.String(), "github.com/Oudwins/", "")
		}
		if ci.builtin != "" {
			name = ci.builtin
		}
		// fmt.Sprint(x) with a single operand formats it with %v: the same string as fmt.Sprintf("%v", x)
		if name == "fmt.Sprint" && len(args) == 1 && singleVarargElem(x.Call.Args[0]) != nil {
			name, args = "fmt.Sprintf", []string{`"%v"`, args[0]}
		}
		if ci.dynamic {
			name = "call " + sc.sym(x.Call.Value, depth+1)
			// a function value known on this path (a method expression or method value handed to a helper)
			switch f := cv(x.Call.Value).(type) {
			case *ssa.Function:
				name = strings.TrimSuffix(strings.ReplaceAll(f.String(), "github.com/Oudwins/", ""), "$thunk")
			case *ssa.MakeClosure:
				if bf, ok := f.Fn.(*ssa.Function); ok && strings.HasSuffix(bf.Name(), "$bound") && len(f.Bindings) == 1 {
					name = strings.TrimSuffix(strings.ReplaceAll(bf.String(), "github.com/Oudwins/", ""), "$bound")
					args = append([]string{sc.sym(f.Bindings[0], depth+1)}, args...)
				}
			}
		}
		if ci.invoke != nil {
			name = sc.sym(x.Call.Value, depth+1) + "." + ci.invoke.Name()
		}
		return name + "(" + strings.Join(args, ", ") + ")"
	}
	return fmt.Sprintf("?%T", v)
}

// runeAny: `strings.ContainsFunc(s, f)` with f a pure module rune predicate is
// the existential over the runes of s of f's exact rune set, the same formula
// a hand-written `for _, r := range s { if f(r) { return true } }` gets.
func (sc *symCtx) runeAny(c *ssa.Call) (string, bool) {
	ci := callOf(c)
	if ci.static != nil && ci.static.String() == "strings.ContainsAny" && len(c.Call.Args) == 2 {
		return sc.runeAnyOfChars(c.Call.Args[0], c.Call.Args[1], 0)
	}
	if ci.static == nil || ci.static.String() != "strings.ContainsFunc" || len(c.Call.Args) != 2 {
		return "", false
	}
	return sc.runeAnyOf(c.Call.Args[0], c.Call.Args[1], 0)
}

// runeAnyOfChars: `strings.ContainsAny(s, chars)` with chars a constant of valid UTF-8 is the existential over
// the runes of s of the set of runes of chars. (With invalid UTF-8 in chars the library matches U+FFFD as well;
// such a constant is not converted. An invalid byte in s decodes to U+FFFD in a rune loop too, and U+FFFD in the
// set is then matched by both.)
func (sc *symCtx) runeAnyOfChars(str, chars ssa.Value, depth int) (string, bool) {
	k, ok := cv(chars).(*ssa.Const)
	if !ok || k.Value == nil || k.Value.Kind() != constant.String {
		return "", false
	}
	set := constant.StringVal(k.Value)
	if !utf8.ValidString(set) || strings.ContainsRune(set, utf8.RuneError) {
		return "", false
	}
	in := map[int64]bool{}
	var pts []int64
	for _, r := range set {
		if !in[int64(r)] {
			in[int64(r)] = true
			pts = append(pts, int64(r))
		}
	}
	sort.Slice(pts, func(i, j int) bool { return pts[i] < pts[j] })
	var ivs []string
	for i := 0; i < len(pts); {
		j := i
		for j+1 < len(pts) && pts[j+1] == pts[j]+1 {
			j++
		}
		ivs = append(ivs, fmt.Sprintf("[%d,%d]", pts[i], pts[j]))
		i = j + 1
	}
	return "RUNES-ANY[runes of " + sc.sym(str, depth+1) + "]{" + strings.Join(ivs, ",") + "}", true
}

// sliceAny: `slices.ContainsFunc(s, f)` with f a closure or module function whose body is a single
// returned expression is the existential over the elements of s of that expression, the formula a
// hand-written `for _, x := range s { if <expr> { return true } }` gets: ANY[i in [0, len(s))](<expr with x = s[i]>).
func (sc *symCtx) sliceAny(c *ssa.Call, depth int) (string, bool) {
	ci := callOf(c)
	if ci.static == nil || originName(ci.static) != "slices.ContainsFunc" || len(c.Call.Args) != 2 {
		return "", false
	}
	var fn *ssa.Function
	switch y := cv(c.Call.Args[1]).(type) {
	case *ssa.Function:
		fn = y
	case *ssa.MakeClosure:
		fn, _ = y.Fn.(*ssa.Function)
	}
	if fn == nil || len(fn.Blocks) != 1 || len(fn.Params) != 1 || !inModule(funcPkgPath(fn)) {
		return "", false
	}
	rt, ok := fn.Blocks[0].Instrs[len(fn.Blocks[0].Instrs)-1].(*ssa.Return)
	if !ok || len(rt.Results) != 1 {
		return "", false
	}
	seq := sc.sym(c.Call.Args[0], depth+1)
	saved := sc.names
	names := map[ssa.Value]string{}
	for k, v := range saved {
		names[k] = v
	}
	names[fn.Params[0]] = seq + "[i]"
	sc.names = names
	body := sc.sym(rt.Results[0], depth+1)
	sc.names = saved
	return "ANY[i in [0, len(" + seq + "))](" + body + ")", true
}

var sliceAnyRE = regexp.MustCompile(`^ANY\[(i in \[0, len\((.*)\)\))\]\((.*)\)$`)

func (sc *symCtx) runeAnyOf(str, f ssa.Value, depth int) (string, bool) {
	var fn *ssa.Function
	switch y := cv(f).(type) {
	case *ssa.Function:
		fn = y
	case *ssa.MakeClosure:
		if g, ok := y.Fn.(*ssa.Function); ok && len(y.Bindings) == 0 {
			fn = g
		}
	}
	set, ok := runeSetOfFunc(fn)
	if !ok {
		return "", false
	}
	return "RUNES-ANY[runes of " + sc.sym(str, depth+1) + "]{" + set + "}", true
}

var runesAnyRE = regexp.MustCompile(`^RUNES-ANY\[(.*)\]\{([^{}]*)\}$`)

// ---------- path enumeration ----------

type predPath struct {
	conds  []string // conjunction of atoms on this path
	ret    string   // "true", "false" or an expression
	inLoop bool     // the return happens inside the loop body
}

type predShape struct {
	paths    []predPath
	loop     *natLoop
	domain   string // iteration domain when a loop exists
	problems []string
	// rune set (for rune loops): intervals for which the in-loop decision returns true
	runeSet string
}

func negAtom(a string) string {
	if strings.HasPrefix(a, "!") {
		return a[1:]
	}
	// flip comparisons
	for _, p := range [][2]string{{" == ", " != "}, {" != ", " == "}, {" >= ", " < "}, {" < ", " >= "}, {" <= ", " > "}, {" > ", " <= "}} {
		if strings.HasPrefix(a, "(") && strings.HasSuffix(a, ")") && strings.Count(a, p[0]) == 1 && balancedTop(a, p[0]) {
			return strings.Replace(a, p[0], p[1], 1)
		}
	}
	return "!" + a
}

// balancedTop: the operator occurrence is at parenthesis depth 1 of a.
func balancedTop(a, op string) bool {
	idx := strings.Index(a, op)
	depth := 0
	for i, ch := range a {
		if i >= idx {
			break
		}
		switch ch {
		case '(':
			depth++
		case ')':
			depth--
		}
	}
	return depth == 1
}

func (P *Prog) predicateShape(fn *ssa.Function) predShape {
	if m, ok := P.shapeMemo[fn]; ok {
		return m
	}
	sh := P.predicateShape1(fn, nil)
	if P.shapeMemo == nil {
		P.shapeMemo = map[*ssa.Function]predShape{}
	}
	P.shapeMemo[fn] = sh
	return sh
}

// predicateShapeNamed: the shape of fn with its parameters printed under the given names and
// fields under their canonical roles (not memoised).
func (P *Prog) predicateShapeNamed(fn *ssa.Function, names map[ssa.Value]string) predShape {
	return P.predicateShape2(fn, nil, names)
}

// formulaHelper: an unexported module function (not a method of an exported
// API type's contract) whose body is entered when a formula is rendered, so
// that moving part of a predicate into a helper leaves the formula unchanged.
// Exported functions and methods keep their name in the formula: they are
// the vocabulary the frozen tables are written in.
func formulaHelper(f *ssa.Function) bool {
	if f == nil || f.Blocks == nil || !inModule(funcPkgPath(f)) || f.Parent() != nil {
		return false
	}
	return !ast.IsExported(f.Name())
}

// predicateShape1 enumerates the decision paths of fn with the path engine
// (unexported helpers entered, constant and repeated conditions pruned): each
// path is the conjunction of its branch conditions, rendered symbolically, and
// the rendered return value.
func (P *Prog) predicateShape1(fn *ssa.Function, env map[ssa.Value]ssa.Value) predShape {
	return P.predicateShape2(fn, env, nil)
}

func (P *Prog) predicateShape2(fn *ssa.Function, env map[ssa.Value]ssa.Value, names map[ssa.Value]string) predShape {
	return P.predicateShape3(fn, env, names, nil)
}

func (P *Prog) predicateShape3(fn *ssa.Function, env map[ssa.Value]ssa.Value, names map[ssa.Value]string, targs map[string]types.Type) predShape {
	var sh predShape
	loops := naturalLoops(fn)
	if len(loops) > 1 {
		sh.problems = append(sh.problems, "more than one loop")
		return sh
	}
	if len(loops) == 1 {
		sh.loop = &loops[0]
	}
	sc := &symCtx{fn: fn, phis: map[*ssa.Phi]ssa.Value{}}
	if names != nil {
		sc.P, sc.names = P, names
	}
	sc.targs = targs
	if sh.loop != nil {
		if dom, elem, ok := P.flagLoop(sc, fn, sh.loop); ok {
			sh.domain = dom
			sh.paths = []predPath{{ret: elem, inLoop: true}}
			return sh
		}
	}
	spec := &pathSpec{name: "formula", inlineAll: true, symbolicLoopPhis: true}
	spec.keep = func(f *ssa.Function) bool {
		if f.Parent() != nil {
			return false // a closure handed to a helper, known on this path
		}
		return !formulaHelper(f)
	}
	spec.events = func(in ssa.Instruction) []pathItem { return nil }
	spec.cond = func(iff *ssa.If) (string, string, string) {
		b := iff.Block()
		if sh.loop != nil && b == sh.loop.header {
			sh.domain = P.loopDomain(sc, sh.loop, iff)
			return "", "", "" // the engine labels it LOOP iter/done
		}
		if b.Parent() != fn {
			for _, l := range naturalLoops(b.Parent()) {
				if l.header == b {
					return "", "", ""
				}
			}
		}
		c := sc.sym(iff.Cond, 0)
		return "ATOM", c, negAtom(c)
	}
	spec.onReturn = func(rt *ssa.Return) string {
		res, ok := retVals(rt)
		if !ok {
			res = rt.Results
		}
		switch len(res) {
		case 0:
			return "?"
		case 1:
			return sc.sym(res[0], 0)
		}
		var parts []string
		for _, rv := range res {
			parts = append(parts, sc.sym(rv, 0))
		}
		return "(" + strings.Join(parts, ", ") + ")"
	}
	res := P.enumPathsSpec(fn, env, spec)
	if res.capHit {
		sh.problems = append(sh.problems, "path too long")
	}
	for _, p := range res.paths {
		switch {
		case p.end == "LOOP-BACK":
			continue // next iteration
		case p.end == "PANIC":
			sh.problems = append(sh.problems, "predicate can panic explicitly")
			continue
		case !strings.HasPrefix(p.end, "RETURN"):
			sh.problems = append(sh.problems, "unexpected terminator "+p.end)
			continue
		}
		pp := predPath{ret: strings.TrimPrefix(strings.TrimPrefix(p.end, "RETURN"), " ")}
		entered, exhausted := false, false
		for _, it := range p.items {
			switch it.kind {
			case "ATOM":
				pp.conds = append(pp.conds, it.val)
			case "LOOP":
				if sh.loop != nil && it.in.Block() == sh.loop.header {
					if it.val == "iter" {
						entered = true
					} else {
						exhausted = true
					}
				} else {
					sh.problems = append(sh.problems, "a helper of the predicate contains a loop")
				}
			}
		}
		pp.inLoop = entered && !exhausted
		sh.paths = append(sh.paths, pp)
	}
	sh.problems = uniqSorted(sh.problems)
	return sh
}

// flagLoop recognises the search loop written with a result flag instead of a return inside the loop:
//
//	found := false
//	for i := 0; i < n && !found; i++ { found = E(i) }
//	return found
//
// The loop stops at the first i with E(i), so the flag at the exit is "some i in [0, n) has E(i)" - the same formula
// as `for i ... { if E(i) { return true } }; return false`. Demanded: the flag is a header phi that is false on entry
// and E from the latch; the header chain leaves the loop exactly on the counter bound and on the flag being set; the
// body is straight-line and writes nothing; the function's only return returns the flag.
func (P *Prog) flagLoop(sc *symCtx, fn *ssa.Function, l *natLoop) (string, string, bool) {
	h := l.header
	var flag *ssa.Phi
	var latchVal ssa.Value
	for _, in := range h.Instrs {
		ph, ok := in.(*ssa.Phi)
		if !ok {
			break
		}
		if b, isB := ph.Type().Underlying().(*types.Basic); !isB || b.Kind() != types.Bool || len(ph.Edges) != 2 {
			continue
		}
		var inner ssa.Value
		okEntry := false
		for i, e := range ph.Edges {
			if l.body[h.Preds[i]] {
				inner = e
			} else if c, isC := e.(*ssa.Const); isC && c.Value != nil && c.Value.Kind() == constant.Bool && !constant.BoolVal(c.Value) {
				okEntry = true
			}
		}
		if okEntry && inner != nil {
			if flag != nil {
				return "", "", false
			}
			flag, latchVal = ph, inner
		}
	}
	if flag == nil {
		return "", "", false
	}
	// the header chain: Ifs with one successor outside the loop
	dom, sawFlag := "", false
	b := h
	chain := map[*ssa.BasicBlock]bool{}
	var body *ssa.BasicBlock
	for steps := 0; steps < 4; steps++ {
		chain[b] = true
		if b != h {
			for _, in := range b.Instrs[:len(b.Instrs)-1] {
				if _, isDbg := in.(*ssa.DebugRef); !isDbg {
					return "", "", false
				}
			}
		}
		iff, ok := b.Instrs[len(b.Instrs)-1].(*ssa.If)
		if !ok {
			return "", "", false
		}
		tIn, fIn := l.body[b.Succs[0]], l.body[b.Succs[1]]
		if tIn == fIn {
			return "", "", false
		}
		next := b.Succs[0]
		if fIn {
			next = b.Succs[1]
		}
		switch {
		case iff.Cond == ssa.Value(flag) && fIn: // if found { leave }
			sawFlag = true
		case isNotOf(iff.Cond, flag) && tIn: // if !found { continue }
			sawFlag = true
		default:
			if dom != "" || !tIn {
				return "", "", false
			}
			dom = P.loopDomain(sc, l, iff)
			if !strings.HasPrefix(dom, "i in [0, ") {
				return "", "", false
			}
		}
		if sawFlag && dom != "" {
			body = next
			break
		}
		b = next
	}
	if body == nil || !sawFlag || dom == "" {
		return "", "", false
	}
	// straight-line body back to the header, nothing written
	for bb := range l.body {
		if chain[bb] {
			continue
		}
		for _, in := range bb.Instrs {
			switch in.(type) {
			case *ssa.Store, *ssa.MapUpdate, *ssa.Send, *ssa.Go, *ssa.Defer, *ssa.If, *ssa.Panic, *ssa.Return:
				return "", "", false
			}
		}
	}
	// the only return of the function returns the flag
	nRet := 0
	okRet := true
	eachInstr(fn, func(_ *ssa.BasicBlock, _ int, in ssa.Instruction) {
		if rt, isRet := in.(*ssa.Return); isRet {
			nRet++
			if len(rt.Results) != 1 || cv(rt.Results[0]) != ssa.Value(flag) {
				okRet = false
			}
		}
	})
	if nRet != 1 || !okRet {
		return "", "", false
	}
	return dom, sc.sym(latchVal, 0), true
}

func isNotOf(v ssa.Value, x ssa.Value) bool {
	u, ok := v.(*ssa.UnOp)
	return ok && u.Op == token.NOT && u.X == x
}

func (P *Prog) loopDomain(sc *symCtx, l *natLoop, iff *ssa.If) string {
	switch c := iff.Cond.(type) {
	case *ssa.Extract:
		if nx, ok := c.Tuple.(*ssa.Next); ok {
			rg := nx.Iter.(*ssa.Range)
			if nx.IsString {
				return "runes of " + sc.sym(rg.X, 0)
			}
			return "range " + sc.sym(rg.X, 0)
		}
	case *ssa.BinOp:
		if c.Op == token.LSS {
			if ph, ok := c.X.(*ssa.Phi); ok {
				zero := false
				for _, e := range ph.Edges {
					if k, ok := constInt(e); ok && k == 0 {
						zero = true
					}
				}
				if zero {
					return "i in [0, " + sc.sym(c.Y, 0) + ")"
				}
			}
			if bo, ok := c.X.(*ssa.BinOp); ok {
				if ph, ok := bo.X.(*ssa.Phi); ok && ph.Comment == "rangeindex" {
					return "i in [0, " + sc.sym(c.Y, 0) + ")"
				}
			}
		}
	}
	return "loop(" + sc.sym(iff.Cond, 0) + ")"
}

// dnf renders the predicate as the sorted set of conjunctions under which it
// returns true. Type-assertion ok atoms are dropped (a mismatching
// destination type is a configuration error, documented as such).
func (sh predShape) dnf() (string, []string) {
	var conj []string
	var notes []string
	for _, p := range sh.paths {
		if p.ret == "false" {
			continue
		}
		var atoms []string
		for _, a := range p.conds {
			if strings.HasPrefix(a, "ok(") {
				continue
			}
			if strings.HasPrefix(a, "!ok(") {
				atoms = append(atoms, "TYPE-MISMATCH")
				continue
			}
			atoms = append(atoms, a)
		}
		if p.ret != "true" {
			atoms = append(atoms, p.ret)
		}
		if len(atoms) == 0 {
			atoms = []string{"true"}
		}
		pre := ""
		if p.inLoop {
			pre = "∃: "
		}
		conj = append(conj, pre+strings.Join(atoms, " ∧ "))
	}
	sort.Strings(conj)
	conj = uniq(conj)
	s := strings.Join(conj, "  ∨  ")
	if sh.domain != "" {
		s = "[" + sh.domain + "] " + s
	}
	// a single existential over a slice written with slices.ContainsFunc is the formula of the loop; a guard
	// `len(s) != 0` in front of it is absorbed (the existential over an empty slice is false)
	if sh.domain == "" && len(conj) == 1 {
		atoms := splitTop(conj[0], " ∧ ")
		var any []string
		var rest []string
		for _, a := range atoms {
			if m := sliceAnyRE.FindStringSubmatch(a); m != nil {
				any = m
			} else {
				rest = append(rest, a)
			}
		}
		if any != nil {
			okRest := true
			for _, a := range rest {
				if a != "(len("+any[2]+") != 0)" && a != "(len("+any[2]+") > 0)" {
					okRest = false
				}
			}
			if okRest {
				s = "[" + any[1] + "] ∃: " + any[3]
			}
		}
	}
	return s, notes
}

// ---------- exact evaluation of rune predicates ----------

// runeInterp interprets pure rune code: comparisons of one rune value against
// constants, boolean connectives (as control flow or phis), and calls of
// module functions of type func(rune) bool that are themselves such code.
type runeInterp struct {
	consts  map[int64]bool
	okShape bool
	phiVals map[*ssa.Phi]runeVal // values of the phis on the path being run
}

func isRunePredicate(fn *ssa.Function) bool {
	if fn == nil || fn.Blocks == nil || len(fn.Params) != 1 || fn.Signature.Results().Len() != 1 || !inModule(funcPkgPath(fn)) {
		return false
	}
	pb, ok1 := fn.Params[0].Type().Underlying().(*types.Basic)
	rb, ok2 := fn.Signature.Results().At(0).Type().Underlying().(*types.Basic)
	return ok1 && ok2 && pb.Kind() == types.Int32 && rb.Kind() == types.Bool
}

// collect gathers the integer constants the code compares against and checks
// that nothing else than pure rune code occurs in the blocks.
func (ri *runeInterp) collect(blocks []*ssa.BasicBlock, rv ssa.Value, depth int) {
	if depth > 3 {
		ri.okShape = false
		return
	}
	for _, b := range blocks {
		for _, in := range b.Instrs {
			switch x := in.(type) {
			case *ssa.BinOp:
				for _, o := range []ssa.Value{x.X, x.Y} {
					if k, ok := constInt(o); ok {
						ri.consts[k] = true
					}
				}
			case *ssa.Call:
				ci := callOf(x)
				if ci.static != nil && isRunePredicate(ci.static) && len(x.Call.Args) == 1 {
					ri.collect(ci.static.Blocks, ci.static.Params[0], depth+1)
				} else {
					ri.okShape = false
				}
			case *ssa.If, *ssa.Jump, *ssa.Next, *ssa.Extract, *ssa.Phi, *ssa.Return, *ssa.DebugRef, *ssa.UnOp, *ssa.Convert, *ssa.ChangeType:
			default:
				ri.okShape = false
			}
		}
	}
}

type runeVal struct {
	i    int64
	b    bool
	isB  bool
	good bool
}

// value evaluates v with the rune bound to r; prev is the block control came from (for phis).
func (ri *runeInterp) value(v ssa.Value, rv ssa.Value, r int64, prev *ssa.BasicBlock, depth int) runeVal {
	if v == rv {
		return runeVal{i: r, good: true}
	}
	switch x := v.(type) {
	case *ssa.Const:
		if b, ok := constBool(x); ok {
			return runeVal{b: b, isB: true, good: true}
		}
		if k, ok := constInt(x); ok {
			return runeVal{i: k, good: true}
		}
	case *ssa.Convert:
		return ri.value(x.X, rv, r, prev, depth)
	case *ssa.ChangeType:
		return ri.value(x.X, rv, r, prev, depth)
	case *ssa.UnOp:
		if x.Op == token.NOT {
			a := ri.value(x.X, rv, r, prev, depth)
			if a.good && a.isB {
				return runeVal{b: !a.b, isB: true, good: true}
			}
		}
	case *ssa.BinOp:
		a, c := ri.value(x.X, rv, r, prev, depth), ri.value(x.Y, rv, r, prev, depth)
		if !a.good || !c.good {
			return runeVal{}
		}
		if a.isB && c.isB {
			switch x.Op {
			case token.AND:
				return runeVal{b: a.b && c.b, isB: true, good: true}
			case token.OR:
				return runeVal{b: a.b || c.b, isB: true, good: true}
			case token.EQL:
				return runeVal{b: a.b == c.b, isB: true, good: true}
			case token.NEQ, token.XOR:
				return runeVal{b: a.b != c.b, isB: true, good: true}
			}
			return runeVal{}
		}
		if a.isB || c.isB {
			return runeVal{}
		}
		var res bool
		switch x.Op {
		case token.LSS:
			res = a.i < c.i
		case token.LEQ:
			res = a.i <= c.i
		case token.GTR:
			res = a.i > c.i
		case token.GEQ:
			res = a.i >= c.i
		case token.EQL:
			res = a.i == c.i
		case token.NEQ:
			res = a.i != c.i
		case token.ADD:
			return runeVal{i: a.i + c.i, good: true}
		case token.SUB:
			return runeVal{i: a.i - c.i, good: true}
		default:
			return runeVal{}
		}
		return runeVal{b: res, isB: true, good: true}
	case *ssa.Phi:
		if pv, ok := ri.phiVals[x]; ok {
			return pv
		}
	case *ssa.Call:
		ci := callOf(x)
		if ci.static != nil && isRunePredicate(ci.static) && len(x.Call.Args) == 1 && depth < 3 {
			a := ri.value(x.Call.Args[0], rv, r, prev, depth)
			if a.good && !a.isB {
				if res, ok := ri.run(ci.static.Blocks[0], nil, ci.static.Params[0], a.i, nil, depth+1); ok {
					return runeVal{b: res, isB: true, good: true}
				}
			}
		}
	}
	return runeVal{}
}

// run executes from block b until a return (its boolean result) or until
// control reaches stop (the loop header: "continue", reported as false).
func (ri *runeInterp) run(b, prev *ssa.BasicBlock, rv ssa.Value, r int64, stop *ssa.BasicBlock, depth int) (bool, bool) {
	savedPhis := ri.phiVals
	ri.phiVals = map[*ssa.Phi]runeVal{}
	defer func() { ri.phiVals = savedPhis }()
	for steps := 0; steps < 400; steps++ {
		// phis of b take the value of the edge control came in by (evaluated in parallel)
		if prev != nil {
			nv := map[*ssa.Phi]runeVal{}
			for _, in := range b.Instrs {
				ph, ok := in.(*ssa.Phi)
				if !ok {
					break
				}
				for i, p := range b.Preds {
					if p == prev {
						nv[ph] = ri.value(ph.Edges[i], rv, r, prev, depth)
					}
				}
			}
			for k, v := range nv {
				ri.phiVals[k] = v
			}
		}
		last := b.Instrs[len(b.Instrs)-1]
		var next *ssa.BasicBlock
		switch t := last.(type) {
		case *ssa.Return:
			if len(t.Results) != 1 {
				return false, false
			}
			v := ri.value(t.Results[0], rv, r, prev, depth)
			return v.b, v.good && v.isB
		case *ssa.Jump:
			next = b.Succs[0]
		case *ssa.If:
			c := ri.value(t.Cond, rv, r, prev, depth)
			if !c.good || !c.isB {
				return false, false
			}
			if c.b {
				next = b.Succs[0]
			} else {
				next = b.Succs[1]
			}
		default:
			return false, false
		}
		prev, b = b, next
		if stop != nil && b == stop {
			return false, true // continue with the next rune
		}
	}
	return false, false
}

// intervals renders the set of runes for which eval is true, given the
// constants the code compares against (one representative per region).
func (ri *runeInterp) intervals(eval func(r int64) (bool, bool)) (string, bool) {
	var pts []int64
	for k := range ri.consts {
		pts = append(pts, k-1, k, k+1)
	}
	pts = append(pts, 0, 0x10FFFF)
	sort.Slice(pts, func(i, j int) bool { return pts[i] < pts[j] })
	var ivs []string
	start := int64(-1)
	prevTrue := false
	var prevPt int64
	uniqPts := []int64{}
	for i, p := range pts {
		if p < 0 || p > 0x10FFFF || (i > 0 && p == pts[i-1]) {
			continue
		}
		uniqPts = append(uniqPts, p)
	}
	for _, p := range uniqPts {
		v, ok := eval(p)
		if !ok {
			return "", false
		}
		if v && !prevTrue {
			start = p
		}
		if !v && prevTrue {
			ivs = append(ivs, fmt.Sprintf("[%d,%d]", start, prevPt))
		}
		prevTrue = v
		prevPt = p
	}
	if prevTrue {
		ivs = append(ivs, fmt.Sprintf("[%d,%d]", start, prevPt))
	}
	return strings.Join(ivs, ","), true
}

// runeSetOfFunc: the exact set of runes a module function func(rune) bool accepts.
func runeSetOfFunc(fn *ssa.Function) (string, bool) {
	if !isRunePredicate(fn) {
		return "", false
	}
	ri := &runeInterp{consts: map[int64]bool{}, okShape: true}
	ri.collect(fn.Blocks, fn.Params[0], 0)
	if !ri.okShape {
		return "", false
	}
	return ri.intervals(func(r int64) (bool, bool) {
		return ri.run(fn.Blocks[0], nil, fn.Params[0], r, nil, 0)
	})
}

// runeIntervals decides, for a rune-range loop, exactly which runes make the
// in-loop decision return true, by evaluating the comparison DAG on one
// representative per region between the constants it compares against.
func (P *Prog) runeIntervals(fn *ssa.Function, l *natLoop) (string, bool) {
	// find the rune value
	var rv ssa.Value
	var bodyEntry *ssa.BasicBlock
	for _, in := range l.header.Instrs {
		if nx, ok := in.(*ssa.Next); ok && nx.IsString {
			if refs := nx.Referrers(); refs != nil {
				for _, rf := range *refs {
					if ex, ok := rf.(*ssa.Extract); ok && ex.Index == 2 {
						rv = ex
					}
				}
			}
		}
	}
	if iff := condOf(l.header); iff != nil {
		bodyEntry = l.header.Succs[0]
	}
	if rv == nil || bodyEntry == nil {
		return "", false
	}
	ri := &runeInterp{consts: map[int64]bool{}, okShape: true}
	var body []*ssa.BasicBlock
	for b := range l.body {
		if b != l.header {
			body = append(body, b)
		}
	}
	ri.collect(body, rv, 0)
	// the header holds only the iteration itself
	for _, in := range l.header.Instrs {
		switch in.(type) {
		case *ssa.If, *ssa.Next, *ssa.Extract, *ssa.Phi, *ssa.DebugRef:
		default:
			ri.okShape = false
		}
	}
	if !ri.okShape {
		return "", false
	}
	return ri.intervals(func(r int64) (bool, bool) {
		return ri.run(bodyEntry, l.header, rv, r, l.header, 0)
	})
}

// ---------- the table ----------

// expected canonical forms, keyed by "<code>/<constructor>" or "<code>".
// Frozen from the documented predicate (properties.jsonl C20 and
// docs/docs/reference.md) after confirming each against the SSA by hand.
var c20Table = map[string]struct{ form, doc string }{
	"min/generic":             {"(len(*val.(*T)) >= $0)", "len(value) >= n, inclusive"},
	"max/generic":             {"(len(*val.(*T)) <= $0)", "len(value) <= n, inclusive"},
	"len/generic":             {"(len(*val.(*T)) == $0)", "len(value) == n"},
	"min/slice":               {"((reflect.Value).Kind(RV) == 23) ∧ ((reflect.Value).Len(RV) >= $0)", "slice length >= n"},
	"max/slice":               {"((reflect.Value).Kind(RV) == 23) ∧ ((reflect.Value).Len(RV) <= $0)", "slice length <= n"},
	"len/slice":               {"((reflect.Value).Kind(RV) == 23) ∧ ((reflect.Value).Len(RV) == $0)", "slice length == n"},
	"eq/generic":              {"(*val.(*T) == $0)", "value == n on the destination type"},
	"lte/generic":             {"(*val.(*T) <= $0)", "value <= n"},
	"gte/generic":             {"(*val.(*T) >= $0)", "value >= n"},
	"lt/generic":              {"(*val.(*T) < $0)", "value < n"},
	"gt/generic":              {"(*val.(*T) > $0)", "value > n"},
	"one_of_options/generic":  {"[i in [0, len($0))] ∃: reflect.DeepEqual(*val.(*T), $0[i])", "membership by deep equality"},
	"contained/slice":         {"[i in [0, (reflect.Value).Len(RV))] ∃: ((reflect.Value).Kind(RV) == 23) ∧ reflect.DeepEqual((reflect.Value).Interface((reflect.Value).Index(RV, i)), $0)", "some element deep-equals the value"},
	"prefix/string":           {"strings.HasPrefix(string(*val.(*T)), string($0))", "strings.HasPrefix(value, prefix)"},
	"suffix/string":           {"strings.HasSuffix(string(*val.(*T)), string($0))", "strings.HasSuffix(value, suffix)"},
	"contained/string":        {"strings.Contains(string(*val.(*T)), string($0))", "strings.Contains(value, sub)"},
	"contains_upper/string":   {"[runes of string(*val.(*T))] runes∈{[65,90]}", "an ASCII upper-case letter A-Z"},
	"contains_digit/string":   {"[runes of string(*val.(*T))] runes∈{[48,57]}", "an ASCII digit 0-9"},
	"contains_special/string": {"[runes of string(*val.(*T))] runes∈{[33,47],[58,64],[91,96],[123,126]}", "an ASCII punctuation character"},
	"after/time":              {"(time.Time).After(*val.(*time.Time), $0)", "value.After(t)"},
	"before/time":             {"(time.Time).Before(*val.(*time.Time), $0)", "value.Before(t)"},
	"eq/time":                 {"(time.Time).Equal(*val.(*time.Time), $0)", "value.Equal(t) (instants, not ==)"},
	"match/string":            {"(*regexp.Regexp).MatchString($0, string(*val.(*T)))", "regex.MatchString(value) on the given regex"},
	"email/string":            {"(*regexp.Regexp).MatchString(@REGEXP, string(*val.(*T)))", "package-level e-mail regexp, compiled once"},
	"uuid/string":             {"(*regexp.Regexp).MatchString(@REGEXP, string(*val.(*T)))", "package-level UUID regexp, compiled once"},
	"url/string":              {"(net/url.Parse(string(*val.(*T)))#1 == nil) ∧ (net/url.Parse(string(*val.(*T)))#0.Scheme != \"\") ∧ (net/url.Parse(string(*val.(*T)))#0.Host != \"\")", "url.Parse succeeds with non-empty scheme and host"},
}

func checkC20(P *Prog, r *Result) {
	R := P.roles
	r.Exhaustive = true
	r.Explanation = "Decides, for every built-in test, that its predicate closure computes exactly the documented predicate: the closure's return value is rendered as a canonical formula " +
		"(disjunction over its return-true paths of the path condition, with loops summarised as an existential over their iteration domain and rune-range loops decided exactly by " +
		"evaluating their comparison DAG on one representative per region between its constants) and compared with a table frozen from the documentation, keyed by the issue code the same " +
		"constructor reports. The Not() variants need no row: C17/C01 prove the negated wrapper is the exact complement. (regexp-language) the constant pattern behind Email() and UUID() accepts exactly the strings of the documented grammar: both are compiled to regexp/syntax programs and compared as automata, a difference is reported with a witness string. The grammar of url.Parse (library code) is not decided."
	r.Assumptions = []string{"a destination whose type does not match the schema is a configuration error (type-assertion failure paths returning false are not part of the predicate)"}
	lits := P.testLiterals()
	boolT := P.lookupObj(pkgInternals, "BoolTFunc")
	var boolSig *types.Signature
	if boolT != nil {
		boolSig, _ = boolT.Type().Underlying().(*types.Signature)
	}
	if boolSig == nil {
		r.broken("BoolTFunc type not found")
		return
	}
	n := 0
	seenClosure := map[*ssa.Function]bool{}
	for _, l := range lits {
		if !l.hasCode || !l.codeConst || l.code == "" || l.code == "required" || l.code == "not_nil" {
			continue
		}
		// the predicate closure created in the same function
		var cl *ssa.Function
		var env map[ssa.Value]ssa.Value
		pick := func(fs []*ssa.Function) (*ssa.Function, int) {
			var one *ssa.Function
			n := 0
			for _, a := range fs {
				if types.Identical(a.Signature, boolSig) {
					n++
					one = a
				}
			}
			return one, n
		}
		var targs map[string]types.Type
		one, nHere := pick(l.fn.AnonFuncs)
		if nHere == 1 {
			cl = one
		} else if nHere == 0 && l.tmplFn != nil {
			// the literal and its predicate live in a constructor helper: pair them there, under the
			// binding of the helper's parameters to this constructor's arguments
			if one, n := pick(l.tmplFn.AnonFuncs); n == 1 {
				cl, env = one, l.tmplEnv
			}
		}
		if cl == nil && nHere == 0 {
			// the predicate is built by a closure factory called in the constructor
			// (`stringTestFunc[T](func(s string) bool {...})`): its closure, under the binding of the factory's
			// parameters and type parameters at that call
			nFac := 0
			eachInstr(l.fn, func(_ *ssa.BasicBlock, _ int, in ssa.Instruction) {
				c, ok := in.(*ssa.Call)
				if !ok {
					return
				}
				fac := callOf(c).static
				if fac == nil || fac.Blocks == nil || !inModule(funcPkgPath(fac)) {
					return
				}
				// the factory returns the test function, alone or next to the test literal (`(Test, BoolTFunc)`)
				makesPred := types.Identical(c.Type().Underlying(), boolSig)
				if tup, isTup := c.Type().(*types.Tuple); isTup {
					for i := 0; i < tup.Len(); i++ {
						if types.Identical(tup.At(i).Type().Underlying(), boolSig) {
							makesPred = true
						}
					}
				}
				if !makesPred {
					return
				}
				made := returnedClosure(fac)
				if made == nil {
					return
				}
				nFac++
				cl = made
				env = map[ssa.Value]ssa.Value{}
				for k, prm := range fac.Params {
					if k < len(c.Call.Args) {
						env[prm] = c.Call.Args[k]
					}
				}
				targs = map[string]types.Type{}
				if inst := c.Call.StaticCallee(); inst != nil {
					tps, tas := fac.TypeParams(), inst.TypeArgs()
					for i := 0; tps != nil && i < tps.Len() && i < len(tas); i++ {
						targs[tps.At(i).Obj().Name()] = tas[i]
					}
				}
			})
			if nFac != 1 {
				cl, env, targs = nil, nil, nil
			}
		}
		c := fmt.Sprintf("%s#%s", fname(l.fn), l.code)
		if cl == nil {
			r.undecided("C20/predicate", c, l.pos, "cannot pair the test literal with exactly one predicate closure in its constructor")
			continue
		}
		seenClosure[cl] = true
		n++
		r.sawFunc(fname(cl))
		class := P.predicateClass(l, cl)
		key := l.code + "/" + class
		exp, ok := c20Table[key]
		if !ok {
			r.undecided("C20/predicate", c, l.pos, fmt.Sprintf("no documented predicate frozen for issue code %q on subject class %q", l.code, class))
			continue
		}
		regexGlobalNames = nil
		got, probs := P.canonicalPredicateEnvT(cl, env, targs)
		if len(probs) > 0 {
			r.undecided("C20/predicate", c, P.pos(cl.Pos()), "predicate closure has an unrecognised shape: "+strings.Join(probs, "; "), "formula so far: "+got)
			continue
		}
		if formulaEquiv(got, exp.form) {
			r.ok("C20/predicate", c, P.pos(cl.Pos()), fmt.Sprintf("%s: %s", exp.doc, got))
			// the pattern the predicate matches against accepts exactly the documented grammar
			if ref, has := c20RegexRef[l.code]; has {
				names := uniqSorted(regexGlobalNames)
				switch {
				case len(names) != 1:
					r.undecided("C20/regexp-language", c, P.pos(cl.Pos()), fmt.Sprintf("the predicate refers to %d regular-expression globals (expected one)", len(names)))
				default:
					pat, pos, okPat := P.regexGlobalPattern(names[0])
					if !okPat {
						r.undecided("C20/regexp-language", c, P.pos(cl.Pos()), "the pattern of "+names[0]+" is not a single constant compiled in the package initialiser")
						break
					}
					eq, witness, onlyA, decided, err := regexEquivalent(pat, ref.pattern)
					switch {
					case err != nil:
						r.undecided("C20/regexp-language", c, pos, err.Error())
					case !decided:
						r.undecided("C20/regexp-language", c, pos, "the automata of the pattern and of the documented grammar are too large to compare")
					case eq:
						r.ok("C20/regexp-language", c, pos, "the pattern accepts exactly "+ref.doc+" (automata compared)")
					case onlyA:
						r.bad("C20/regexp-language", c, pos, fmt.Sprintf("the pattern of the %q test accepts %q, which is not in the documented grammar (%s)", l.code, witness, ref.doc), "pattern:   "+pat, "reference: "+ref.pattern)
					default:
						r.bad("C20/regexp-language", c, pos, fmt.Sprintf("the pattern of the %q test rejects %q, which the documented grammar (%s) accepts", l.code, witness, ref.doc), "pattern:   "+pat, "reference: "+ref.pattern)
					}
				}
			}
		} else {
			r.bad("C20/predicate", c, P.pos(cl.Pos()), fmt.Sprintf("the built-in test reporting %q does not compute its documented predicate (%s)", l.code, exp.doc), "expected: "+exp.form, "found:    "+got)
		}
	}
	r.floor("C20/predicate", 22)
	r.floor("C20/regexp-language", 1) // (one of the two patterns may be replaced by hand-written code, which C20/predicate then has to answer for)
	// A kind whose subject type has its own documented predicate (time: instants compared with Equal, not ==)
	// must not build that test from the generic constructor: `p.EQ[time.Time](t)` compiles — time.Time is
	// comparable — and compares wall clock, location and monotonic reading. Every instantiation of a generic
	// test constructor is judged with the class of its type argument.
	litsOf := map[*ssa.Function][]testLit{}
	for _, l := range lits {
		if l.hasCode && l.codeConst && funcPkgPath(l.fn) == pkgInternals {
			litsOf[l.fn] = append(litsOf[l.fn], l)
		}
	}
	for _, caller := range P.Funcs {
		eachInstr(caller, func(_ *ssa.BasicBlock, _ int, in ssa.Instruction) {
			c, ok := in.(*ssa.Call)
			if !ok {
				return
			}
			inst := c.Call.StaticCallee()
			if inst == nil || len(inst.TypeArgs()) == 0 || len(litsOf[originOf(inst)]) == 0 {
				return
			}
			class := ""
			for _, ta := range inst.TypeArgs() {
				if n, ok := types.Unalias(ta).(*types.Named); ok && n.Obj().Pkg() != nil && n.Obj().Pkg().Path() == "time" && n.Obj().Name() == "Time" {
					class = "time"
				}
			}
			if class == "" {
				return
			}
			for _, l := range litsOf[originOf(inst)] {
				exp, ok := c20Table[l.code+"/"+class]
				if !ok {
					continue
				}
				generic := c20Table[l.code+"/generic"]
				cname := fmt.Sprintf("%s→%s#%s", fname(caller), fname(originOf(inst)), l.code)
				if generic.form != "" && generic.form != exp.form {
					r.bad("C20/predicate", cname, P.ipos(in), fmt.Sprintf("the %s test reporting %q is built from the generic constructor, whose predicate is %s; documented for this subject type: %s", class, l.code, generic.doc, exp.doc))
				}
			}
		})
	}
	// regex globals: compiled once from a constant, never reassigned
	for _, fn := range P.Funcs {
		// every function of the root package that reads a regular-expression global (the predicate closures,
		// wherever a refactoring puts them)
		if funcPkgPath(fn) != pkgZog {
			continue
		}
		eachInstr(fn, func(_ *ssa.BasicBlock, _ int, in ssa.Instruction) {
			u, ok := in.(*ssa.UnOp)
			if !ok || u.Op != token.MUL {
				return
			}
			g, ok := u.X.(*ssa.Global)
			if !ok || !strings.Contains(typeStr(g.Type()), "regexp.Regexp") {
				return
			}
			c := "global " + shortName(g.String())
			nStores, okInit := 0, false
			for _, f2 := range P.Funcs {
				eachInstr(f2, func(_ *ssa.BasicBlock, _ int, in2 ssa.Instruction) {
					st, ok := in2.(*ssa.Store)
					if !ok || st.Addr != ssa.Value(g) {
						return
					}
					nStores++
					if f2.Synthetic == "package initializer" {
						if call, ok := st.Val.(*ssa.Call); ok {
							if ci := callOf(call); ci.static != nil && ci.static.String() == "regexp.MustCompile" {
								if _, isC := constString(call.Call.Args[0]); isC {
									okInit = true
								}
							}
						}
					}
				})
			}
			if nStores == 1 && okInit {
				r.ok("C20/regexp-global", c, P.ipos(in), "compiled once in the package initialiser from a constant pattern; never reassigned")
			} else {
				r.bad("C20/regexp-global", c, P.ipos(in), fmt.Sprintf("regular expression global has %d store(s) / is not initialised by regexp.MustCompile(<constant>)", nStores))
			}
		})
	}
	r.floor("C20/regexp-global", 1)
	// the verdict is reported: an issue raised by a failing built-in test is not swallowed by a catch flag left
	// on the node's context by a sibling or an earlier element (C02's not-swallowed rule)
	shareRule(P, r, checkC02, "C02/not-swallowed", nil, "C20/verdict-reported", 15)
	_ = R
}

// predicateClass: which row family a predicate belongs to.
func (P *Prog) predicateClass(l testLit, cl *ssa.Function) string {
	pk := funcPkgPath(l.fn)
	usesReflectElem := false
	usesTime := false
	var scan func(f *ssa.Function, d int)
	scan = func(f *ssa.Function, d int) {
		eachInstr(f, func(_ *ssa.BasicBlock, _ int, in ssa.Instruction) {
			if ci := callOf(in); ci != nil && ci.static != nil {
				if isPkgFunc(ci.static, "reflect") && ci.static.Name() == "Elem" {
					usesReflectElem = true
				}
				if isPkgFunc(ci.static, "time") {
					usesTime = true
				}
				if d < 2 && formulaHelper(ci.static) {
					scan(ci.static, d+1)
				}
			}
		})
	}
	scan(cl, 0)
	switch P.roles.kindOfFunc(l.fn) {
	case "TimeSchema":
		return "time"
	case "StringSchema":
		return "string"
	case "SliceSchema":
		return "slice"
	}
	switch {
	case pk == pkgInternals:
		return "generic"
	case usesReflectElem:
		return "slice"
	case usesTime:
		return "time"
	}
	return "string"
}

// peelSubjectWrapper: cl returns, on every path, either the constant false or the result of one call of a func
// value that resolves (under env) to a one-parameter closure or function of the module; returns that function and
// the name its parameter gets: the rendering of the argument it is called with.
func (P *Prog) peelSubjectWrapper(cl *ssa.Function, env map[ssa.Value]ssa.Value, targs map[string]types.Type) (*ssa.Function, map[ssa.Value]string, bool) {
	if len(naturalLoops(cl)) > 0 {
		return nil, nil, false
	}
	saved := substEnv
	if len(env) > 0 {
		substEnv = env
	}
	defer func() { substEnv = saved }()
	var call *ssa.Call
	ok := true
	eachInstr(cl, func(_ *ssa.BasicBlock, _ int, in ssa.Instruction) {
		rt, isRt := in.(*ssa.Return)
		if !isRt || len(rt.Results) != 1 {
			return
		}
		v := cv(rt.Results[0])
		if b, isB := constBool(v); isB && !b {
			return
		}
		c, isC := v.(*ssa.Call)
		if !isC || (call != nil && call != c) {
			ok = false
			return
		}
		call = c
	})
	if !ok || call == nil || len(call.Call.Args) != 1 {
		return nil, nil, false
	}
	var inner *ssa.Function
	switch f := cv(call.Call.Value).(type) {
	case *ssa.MakeClosure:
		inner, _ = f.Fn.(*ssa.Function)
	case *ssa.Function:
		inner = f
	}
	if inner == nil || inner.Blocks == nil || len(inner.Params) != 1 || !inModule(funcPkgPath(inner)) || inner.Synthetic != "" {
		return nil, nil, false
	}
	sc := &symCtx{fn: cl, phis: map[*ssa.Phi]ssa.Value{}, targs: targs}
	arg := sc.sym(call.Call.Args[0], 0)
	return inner, map[ssa.Value]string{inner.Params[0]: arg}, true
}

// canonicalPredicate renders the closure's predicate.
func (P *Prog) canonicalPredicate(cl *ssa.Function) (string, []string) {
	return P.canonicalPredicateEnv(cl, nil)
}

// canonicalPredicateEnv: the predicate of a closure that lives in a constructor helper, with the
// helper's parameters bound to the arguments of the constructor's call.
func (P *Prog) canonicalPredicateEnv(cl *ssa.Function, env map[ssa.Value]ssa.Value) (string, []string) {
	return P.canonicalPredicateEnvT(cl, env, nil)
}

func (P *Prog) canonicalPredicateEnvT(cl *ssa.Function, env map[ssa.Value]ssa.Value, targs map[string]types.Type) (string, []string) {
	var sh predShape
	if len(env) == 0 && len(targs) == 0 {
		sh = P.predicateShape(cl)
	} else {
		sh = P.predicateShape3(cl, env, nil, targs)
	}
	// The predicate proper may be a closure handed to a factory that only unwraps the subject
	// (`stringPredicate[T](func(s string) bool { for _, r := range s {...} })`): when the factory's closure
	// does nothing but assert the subject's type and return pred(<subject>), the formula is pred's, with its
	// parameter standing for that subject expression.
	if len(sh.problems) > 0 {
		if inner, names, ok := P.peelSubjectWrapper(cl, env, targs); ok {
			cl = inner
			sh = P.predicateShape3(inner, env, names, targs)
		}
	}
	if len(sh.problems) > 0 {
		return "", sh.problems
	}
	if sh.loop != nil && strings.HasPrefix(sh.domain, "runes of ") {
		if flat, ok := allSpaceLoopAsTrim(sh); ok {
			s, _ := flat.dnf()
			return normaliseRegexGlobals(s), nil
		}
	}
	if sh.loop != nil && strings.HasPrefix(sh.domain, "runes of ") {
		// (under the factory's bindings: the rune test may be a closure handed to `containsRuneFunc(match)`)
		saved := substEnv
		if len(env) > 0 {
			substEnv = env
		}
		set, ok := P.runeIntervals(cl, sh.loop)
		substEnv = saved
		if !ok {
			return "", []string{"rune loop is not a pure comparison of the rune against constants"}
		}
		// everything outside the loop must return false
		for _, p := range sh.paths {
			if !p.inLoop && p.ret != "false" {
				return "", []string{"rune loop predicate returns non-false outside the loop"}
			}
		}
		return "[" + sh.domain + "] runes∈{" + set + "}", nil
	}
	s, _ := sh.dnf()
	if r, ok := byteLoopAsRuneSet(s); ok {
		return r, nil
	}
	if m := runesAnyRE.FindStringSubmatch(s); m != nil && sh.loop == nil {
		// the whole predicate is "some rune of the string is in the set": the form of the rune loop
		return "[" + m[1] + "] runes∈{" + m[2] + "}", nil
	}
	// normalise the reflect receiver and regexp globals
	s = strings.ReplaceAll(s, "(reflect.Value).Elem(reflect.ValueOf(val))", "RV")
	for _, g := range []string{"emailRegex", "uuidRegex"} {
		_ = g
	}
	s = normaliseRegexGlobals(s)
	return s, nil
}

// allSpaceLoopAsTrim: a loop over the runes of s that returns false at the first rune that is not
// unicode.IsSpace, and true after the loop, decides "every rune of s is white space", which is the documented
// meaning of `strings.TrimSpace(s) == ""` (TrimSpace removes exactly the leading and trailing runes for which
// unicode.IsSpace holds; nothing is left iff all are). The shape is rewritten to that atom.
var notSpaceRE = regexp.MustCompile(`^!unicode\.IsSpace\(\w+\)$`)

func allSpaceLoopAsTrim(sh predShape) (predShape, bool) {
	subject := strings.TrimPrefix(sh.domain, "runes of ")
	var out predShape
	nIn, nAfter := 0, 0
	for _, p := range sh.paths {
		n := len(p.conds)
		switch {
		case p.inLoop:
			if p.ret != "false" || n == 0 || !notSpaceRE.MatchString(p.conds[n-1]) {
				return sh, false
			}
			for _, c := range p.conds[:n-1] {
				if strings.Contains(c, "unicode.") {
					return sh, false
				}
			}
			nIn++
			out.paths = append(out.paths, predPath{conds: append(append([]string{}, p.conds[:n-1]...), "(strings.TrimSpace("+subject+") != \"\")"), ret: "false"})
		default:
			for _, c := range p.conds {
				if strings.Contains(c, "unicode.") {
					return sh, false
				}
			}
			q := p
			// a return reached after the loop ran to its end is reached only when no rune left early
			if P0 := pathRunsLoop(sh, p); P0 {
				if p.ret != "true" {
					return sh, false
				}
				nAfter++
				q = predPath{conds: append(append([]string{}, p.conds...), "(strings.TrimSpace("+subject+") == \"\")"), ret: "true"}
			}
			out.paths = append(out.paths, q)
		}
	}
	if nIn == 0 || nAfter == 0 {
		return sh, false
	}
	return out, true
}

// pathRunsLoop: the (out-of-loop) path's conditions are exactly those of an in-loop path without its rune test,
// i.e. it is the continuation after the loop rather than a branch that never entered it.
func pathRunsLoop(sh predShape, p predPath) bool {
	for _, q := range sh.paths {
		if !q.inLoop || len(q.conds) != len(p.conds)+1 {
			continue
		}
		same := true
		for i := range p.conds {
			if p.conds[i] != q.conds[i] {
				same = false
			}
		}
		if same {
			return true
		}
	}
	return false
}

// byteLoopAsRuneSet: an existential over the *bytes* of a string whose body only compares the byte with
// constants accepts a set of byte values; when that set lies within ASCII (< 0x80) the loop is the existential
// over the *runes* of the string for the same set, because in UTF-8 no byte of a multi-byte rune is below 0x80
// and every ASCII rune is one byte. (A set reaching 0x80 or above is not converted: it would match bytes inside
// multi-byte runes.)
var byteLoopRE = regexp.MustCompile(`^\[i in \[0, len\((string\(.*\))\)\)\] ∃: (.*)$`)
var byteCmpRE = regexp.MustCompile(`^\((.*)\[i\] (>=|<=|>|<|==|!=) (-?[0-9]+)\)$`)

func byteLoopAsRuneSet(s string) (string, bool) {
	m := byteLoopRE.FindStringSubmatch(s)
	if m == nil {
		return "", false
	}
	str := m[1]
	type cmp struct {
		op  string
		k   int64
		neg bool
	}
	var disj [][]cmp
	for _, d := range splitTop(m[2], "  ∨  ") {
		d = strings.TrimPrefix(d, "∃: ")
		var conj []cmp
		for _, a := range splitTop(d, " ∧ ") {
			a = strings.TrimSpace(a)
			neg := false
			for strings.HasPrefix(a, "!") {
				a, neg = a[1:], !neg
			}
			c := byteCmpRE.FindStringSubmatch(a)
			if c == nil || c[1] != str {
				return "", false
			}
			k, err := strconv.ParseInt(c[3], 10, 64)
			if err != nil {
				return "", false
			}
			conj = append(conj, cmp{c[2], k, neg})
		}
		disj = append(disj, conj)
	}
	holds := func(b int64) bool {
		for _, conj := range disj {
			all := true
			for _, c := range conj {
				var v bool
				switch c.op {
				case ">=":
					v = b >= c.k
				case "<=":
					v = b <= c.k
				case ">":
					v = b > c.k
				case "<":
					v = b < c.k
				case "==":
					v = b == c.k
				case "!=":
					v = b != c.k
				}
				if v == c.neg {
					all = false
					break
				}
			}
			if all {
				return true
			}
		}
		return false
	}
	var ivs []string
	start := int64(-1)
	for b := int64(0); b <= 256; b++ {
		h := b < 256 && holds(b)
		if h && b >= 128 {
			return "", false
		}
		if h && start < 0 {
			start = b
		}
		if !h && start >= 0 {
			ivs = append(ivs, fmt.Sprintf("[%d,%d]", start, b-1))
			start = -1
		}
	}
	if len(ivs) == 0 {
		return "", false
	}
	return "[runes of " + str + "] runes∈{" + strings.Join(ivs, ",") + "}", true
}

func normaliseRegexGlobals(s string) string {
	// (*regexp.Regexp).MatchString(@name, ...) -> @REGEXP
	const pre = "(*regexp.Regexp).MatchString(@"
	for {
		i := strings.Index(s, pre)
		if i < 0 {
			return s
		}
		j := i + len(pre)
		k := j
		for k < len(s) && s[k] != ',' {
			k++
		}
		if s[j:k] == "REGEXP" {
			// already normalised: skip past
			rest := normaliseRegexGlobals(s[k:])
			return s[:k] + rest
		}
		regexGlobalNames = append(regexGlobalNames, s[j:k])
		s = s[:j] + "REGEXP" + s[k:]
	}
}

// regexGlobalNames: the regular-expression globals the formulas normalised since the last reset referred to.
var regexGlobalNames []string

// c20RegexRef: the documented grammar of the built-in tests that match a package-level pattern, as a reference
// pattern; the constant in the source must accept exactly the same strings (regexequiv.go).
var c20RegexRef = map[string]struct{ pattern, doc string }{
	"email": {"^[a-zA-Z0-9.!#$%&'*+/=?^_`{|}~-]+@[a-zA-Z0-9](?:[a-zA-Z0-9-]{0,61}[a-zA-Z0-9])?(?:\\.[a-zA-Z0-9](?:[a-zA-Z0-9-]{0,61}[a-zA-Z0-9])?)*$", "the HTML5 (WHATWG) valid e-mail address grammar"},
	"uuid":  {"^[0-9a-fA-F]{8}-[0-9a-fA-F]{4}-[0-9a-fA-F]{4}-[0-9a-fA-F]{4}-[0-9a-fA-F]{12}$", "8-4-4-4-12 hexadecimal digits, either case, nothing before or after"},
}

// regexGlobalPattern: the constant pattern a regular-expression global of the root package is compiled from.
func (P *Prog) regexGlobalPattern(name string) (string, string, bool) {
	pat, pos, n := "", "", 0
	for _, fn := range P.Funcs {
		if fn.Synthetic != "package initializer" {
			continue
		}
		eachInstr(fn, func(_ *ssa.BasicBlock, _ int, in ssa.Instruction) {
			st, ok := in.(*ssa.Store)
			if !ok {
				return
			}
			g, ok := st.Addr.(*ssa.Global)
			if !ok || g.Name() != name || !strings.Contains(typeStr(g.Type()), "regexp.Regexp") {
				return
			}
			if call, ok := st.Val.(*ssa.Call); ok {
				if ci := callOf(call); ci.static != nil && ci.static.String() == "regexp.MustCompile" {
					if s, isC := constString(call.Call.Args[0]); isC {
						pat, pos = s, P.ipos(in)
						n++
					}
				}
			}
		})
	}
	return pat, pos, n == 1
}
