package main

import (
	"fmt"
	"go/token"
	"go/types"
	"strings"

	"golang.org/x/tools/go/ssa"
)

func init() { register("C12", checkC12) }

// callbackRole classifies the callee of a dynamic call in node code.
func (P *Prog) callbackRole(ci *callInfo) string {
	R := P.roles
	if ci == nil || !ci.dynamic {
		return ""
	}
	v := cv(ci.instr.Common().Value)
	if _, f := loadOfField(v); f != nil {
		if sameField(f, structField(R.Test, "Func")) {
			return "test"
		}
		if owner := P.fieldOwner(f); owner != nil && owner.Obj().Name() == "PreprocessSchema" {
			if _, isSig := f.Type().Underlying().(*types.Signature); isSig {
				return "preprocess"
			}
		}
	}
	// element of the postTransforms role slice
	if u, ok := v.(*ssa.UnOp); ok && u.Op == token.MUL {
		if ia, ok := u.X.(*ssa.IndexAddr); ok && P.roleOf(ia.X) == "postTransforms" {
			return "postTransform"
		}
	}
	if ix, ok := v.(*ssa.Index); ok && P.roleOf(ix.X) == "postTransforms" {
		return "postTransform"
	}
	return ""
}

// nodeCtxParam: the *SchemaCtx parameter of the node function enclosing fn.
func (P *Prog) nodeCtxParam(fn *ssa.Function) ssa.Value {
	top := fn
	for top.Parent() != nil {
		top = top.Parent()
	}
	for _, p := range top.Params {
		if P.isPtrTo(p.Type(), P.roles.SchemaCtx) {
			return p
		}
	}
	return nil
}

func checkC12(P *Prog, r *Result) {
	R := P.roles
	r.Explanation = "Decides structurally, for every place the library invokes a user callback inside a schema node (tests, PostTransforms, custom schema functions, Preprocess functions): " +
		"(callback-arg) the value argument derives from the node's destination pointer in both Parse and Validate (never from Data, which is nil in nested Validate), and the context argument " +
		"is the node's own context; (primitive-testfunc-gets-value) primitive kinds wrap a user TFunc so that it receives the value, complex kinds do not; (posttransform-shape) " +
		"PostTransforms are registered once per visit in the entry block, run in slice order only if HasErrored() is false, and the first error becomes exactly one issue wrapping it and " +
		"stops the loop; (preprocess-skip) after a Preprocess error/type-mismatch issue the wrapped schema is never reached. It does not observe run-time call counts or cross-node order."
	// ---- callback-arg ----
	n := 0
	for _, nf := range P.nodeFuncs() {
		cnt := map[string]int{}
		for _, u := range P.nodeUnits(nf) {
			fn := u.fn
			r.sawFunc(fname(fn))
			ctxp := P.nodeCtxParam(nf)
			u.with(func() {
				eachInstr(fn, func(_ *ssa.BasicBlock, _ int, in ssa.Instruction) {
					ci := callOf(in)
					role := P.callbackRole(ci)
					if role == "" {
						return
					}
					n++
					r.CallSites++
					cnt[role]++
					c := fmt.Sprintf("%s#%s@%d", fname(nf), role, cnt[role])
					args := ci.args()
					if len(args) != 2 {
						r.undecided("C12/callback-arg", c, P.ipos(in), "callback call with unexpected arity")
						return
					}
					// context argument
					if ctxp == nil || cvi(args[1]) != ctxp {
						r.bad("C12/callback-arg", c, P.ipos(in), "the callback does not receive the node's own context: ctx.Get / ctx.AddIssue would act on another node or execution")
						return
					}
					// value argument
					kind := R.kindOfFunc(nf)
					wantInput := role == "preprocess" && R.Dispatch[nf] == "process"
					var classes []string
					okArg := true
					for _, rt := range P.rootsOf(args[0]) {
						cl := P.classifyIn(fn, rt)
						classes = append(classes, fmt.Sprintf("%s [%s]", cl.class, cl.rt))
						switch {
						case wantInput && cl.class == mcInput:
						case !wantInput && cl.class == mcDest:
						default:
							okArg = false
						}
					}
					if len(classes) == 0 {
						okArg = false
					}
					// Preprocess hands its function the input *as it is* (asserted to F): a value that went through
					// reflect.Value.Convert is another value - every integer converts to a string, through the rune
					// conversion - and which front end delivered the leaf then decides what the function sees
					if wantInput && okArg && viaReflectConvert(args[0], 0) {
						r.bad("C12/callback-arg", c, P.ipos(in), "the Preprocess function is not called with the input itself but with a reflect conversion of it: Go converts every integer kind to string (65 → \"A\") and between numeric kinds, so a leaf that arrives as int from a Go map, float64 from JSON and string from a form reaches the function as three different things where it used to be a type mismatch for two of them")
						return
					}
					if okArg {
						what := "the node's destination pointer (ValPtr)"
						if wantInput {
							what = "the input data (Preprocess's contract in Parse)"
						}
						r.ok("C12/callback-arg", c, P.ipos(in), fmt.Sprintf("%s callback of %s receives %s and the node's own context", role, kind, what))
					} else {
						r.bad("C12/callback-arg", c, P.ipos(in), fmt.Sprintf("%s callback is not called with the node's own destination value: argument derives from %s; under a slice or pointer in Validate this is nil", role, strings.Join(uniqSorted(classes), "; ")))
					}
				})
			})
		}
	}
	r.floor("C12/callback-arg", 8)

	// ---- primitive-testfunc-gets-value ----
	// the backwards-compatibility wrapper: the function some kind's Test method (or an unexported
	// helper it calls) applies to the user's Func before storing it back (found by that shape, not by name)
	var wrapper *ssa.Function
	var withHelpers func(fn *ssa.Function, d int, f func(*ssa.Function))
	withHelpers = func(fn *ssa.Function, d int, f func(*ssa.Function)) {
		f(fn)
		if d >= 2 {
			return
		}
		eachInstr(fn, func(_ *ssa.BasicBlock, _ int, in ssa.Instruction) {
			if ci := callOf(in); ci != nil && ci.static != nil && formulaHelper(ci.static) && ci.static != fn {
				withHelpers(ci.static, d+1, f)
			}
		})
	}
	for _, tm := range P.Funcs {
		if tm.Name() != "Test" || tm.Parent() != nil || tm.Signature.Recv() == nil || !R.isKind(tm.Signature.Recv().Type()) {
			continue
		}
		ff := structField(R.Test, "Func")
		withHelpers(tm, 0, func(fn *ssa.Function) {
			eachInstr(fn, func(_ *ssa.BasicBlock, _ int, in ssa.Instruction) {
				st, ok := in.(*ssa.Store)
				if !ok {
					return
				}
				if _, f := fieldVar(st.Addr); f == nil || !sameField(f, ff) {
					return
				}
				if c, ok := st.Val.(*ssa.Call); ok && callOf(c).static != nil && len(c.Call.Args) > 0 && inModule(funcPkgPath(callOf(c).static)) {
					if _, f2 := loadOfField(cv(c.Call.Args[0])); f2 != nil && sameField(f2, ff) {
						if wrapper == nil || wrapper == callOf(c).static {
							wrapper = callOf(c).static
						}
					}
				}
			})
		})
	}
	// the same wrapper written as a procedure: W(&t) replaces t.Func by a closure over the Func t held, on every path
	inPlace := false
	if wrapper == nil {
		ff := structField(R.Test, "Func")
		for _, tm := range P.Funcs {
			if tm.Name() != "Test" || tm.Parent() != nil || tm.Signature.Recv() == nil || !R.isKind(tm.Signature.Recv().Type()) {
				continue
			}
			withHelpers(tm, 0, func(fn *ssa.Function) {
				eachInstr(fn, func(_ *ssa.BasicBlock, _ int, in ssa.Instruction) {
					c, ok := in.(*ssa.Call)
					if !ok || callOf(c).static == nil || len(c.Call.Args) != 1 || !P.isPtrTo(c.Call.Args[0].Type(), R.Test) || !inModule(funcPkgPath(callOf(c).static)) {
						return
					}
					w := callOf(c).static
					if len(w.AnonFuncs) != 1 || len(w.Params) != 1 {
						return
					}
					stores, onAll := 0, true
					eachInstr(w, func(b *ssa.BasicBlock, _ int, in2 ssa.Instruction) {
						st, ok := in2.(*ssa.Store)
						if !ok {
							return
						}
						sb, f := fieldVar(st.Addr)
						if f == nil || !sameField(f, ff) {
							return
						}
						mc, isMC := st.Val.(*ssa.MakeClosure)
						if !isMC || mc.Fn != w.AnonFuncs[0] || cv(sb) != ssa.Value(w.Params[0]) {
							onAll = false
							return
						}
						stores++
						for _, rb := range w.Blocks {
							if len(rb.Instrs) > 0 {
								if _, isRet := rb.Instrs[len(rb.Instrs)-1].(*ssa.Return); isRet && rb != b && !b.Dominates(rb) {
									onAll = false
								}
							}
						}
					})
					if stores == 1 && onAll && (wrapper == nil || wrapper == w) {
						wrapper, inPlace = w, true
					}
				})
			})
		}
	}
	for _, k := range R.Kinds {
		kn := k.Obj().Name()
		var testM *ssa.Function
		for _, fn := range P.Funcs {
			if fn.Name() == "Test" && fn.Parent() == nil && fn.Signature.Recv() != nil && sameNamed(namedOf(fn.Signature.Recv().Type()), k) {
				testM = fn
			}
		}
		if testM == nil {
			continue
		}
		r.sawFunc(fname(testM))
		isPrimitive := false
		if pf := R.Process[kn]; pf != nil {
			eachInstr(pf, func(_ *ssa.BasicBlock, _ int, in ssa.Instruction) {
				if ci := callOf(in); ci != nil && ci.static != nil {
					for _, pl := range R.Pipelines {
						if pl == ci.static {
							isPrimitive = true
						}
					}
				}
			})
		}
		wraps := false
		funcF := structField(R.Test, "Func")
		withHelpers(testM, 0, func(hf *ssa.Function) {
			eachInstr(hf, func(_ *ssa.BasicBlock, _ int, in ssa.Instruction) {
				st, ok := in.(*ssa.Store)
				if !ok {
					return
				}
				_, f := fieldVar(st.Addr)
				if f == nil || !sameField(f, funcF) {
					return
				}
				if c, ok := st.Val.(*ssa.Call); ok && wrapper != nil && !inPlace && callOf(c).static == wrapper {
					if _, f2 := loadOfField(cv(c.Call.Args[0])); f2 != nil && sameField(f2, funcF) {
						wraps = true
					}
				}
			})
			if !inPlace {
				return
			}
			// W(&t) with t the variable the stored Test is read from, every whole read of it after the call
			eachInstr(hf, func(b *ssa.BasicBlock, idx int, in ssa.Instruction) {
				c, ok := in.(*ssa.Call)
				if !ok || callOf(c).static != wrapper {
					return
				}
				al, isAl := cv(c.Call.Args[0]).(*ssa.Alloc)
				if !isAl {
					return
				}
				reads, after := 0, true
				eachInstr(hf, func(b2 *ssa.BasicBlock, i2 int, in2 ssa.Instruction) {
					if u, ok := in2.(*ssa.UnOp); ok && u.Op == token.MUL && u.X == ssa.Value(al) {
						reads++
						if !(b2 == b && i2 > idx || b2 != b && b.Dominates(b2)) {
							after = false
						}
					}
				})
				if reads > 0 && after {
					wraps = true
				}
			})
		})
		c := kn + ".Test"
		switch {
		case isPrimitive && wraps:
			r.ok("C12/primitive-testfunc-gets-value", c, P.pos(testM.Pos()), "primitive kind: user TFunc wrapped so that it receives the value, not the pointer")
		case isPrimitive && !wraps:
			r.bad("C12/primitive-testfunc-gets-value", c, P.pos(testM.Pos()), "primitive kind stores the user's TFunc unwrapped: it would be called with a pointer instead of the value")
		case !isPrimitive && wraps:
			r.bad("C12/primitive-testfunc-gets-value", c, P.pos(testM.Pos()), "complex kind wraps the user's TFunc: it would receive a copy of the value instead of the pointer to the destination")
		default:
			r.ok("C12/primitive-testfunc-gets-value", c, P.pos(testM.Pos()), "complex kind: user TFunc receives the destination pointer")
		}
	}
	if wrapper != nil && len(wrapper.AnonFuncs) == 1 {
		cl := wrapper.AnonFuncs[0]
		okW := false
		var badW []string
		eachInstr(cl, func(_ *ssa.BasicBlock, _ int, in ssa.Instruction) {
			ci := callOf(in)
			if ci == nil || !ci.dynamic || len(ci.args()) != 2 {
				return
			}
			// arg0 = reflect.ValueOf(val).Elem().Interface(); arg1 = ctx param
			a0 := cv(ci.args()[0])
			chain := []string{}
			for {
				c, ok := a0.(*ssa.Call)
				if !ok {
					break
				}
				cc := callOf(c)
				if cc.static == nil || !isPkgFunc(cc.static, "reflect") {
					break
				}
				chain = append(chain, cc.static.Name())
				a0 = cv(c.Call.Args[0])
			}
			if inPlace {
				if _, f := loadOfField(cv(ci.instr.Common().Value)); f == nil || !sameField(f, structField(R.Test, "Func")) {
					return
				}
			}
			if strings.Join(chain, ".") == "Interface.Elem.ValueOf" && a0 == ssa.Value(cl.Params[0]) && cv(ci.args()[1]) == ssa.Value(cl.Params[1]) {
				okW = true
			} else if inPlace || (len(wrapper.Params) > 0 && types.Identical(ci.instr.Common().Value.Type(), wrapper.Params[0].Type())) {
				// every call of the user's function, not just one of them: a kind-specific fast path that hands over
				// refVal.String() / refVal.Bool() gives a TestFunc of a named string or bool kind a value of the wrong type
				badW = append(badW, P.ipos(in))
			}
		})
		if okW && len(badW) > 0 {
			r.bad("C12/primitive-testfunc-gets-value", "customTestBackwardsCompatWrapper", P.pos(wrapper.Pos()), "the wrapper also calls the user's function with something other than reflect.ValueOf(val).Elem().Interface() and the same context (a typed read such as String()/Bool() loses the node's own type): "+strings.Join(badW, ", "))
		} else if okW {
			r.ok("C12/primitive-testfunc-gets-value", "customTestBackwardsCompatWrapper", P.pos(wrapper.Pos()), "wrapper dereferences the destination pointer once and forwards the same context")
		} else {
			r.bad("C12/primitive-testfunc-gets-value", "customTestBackwardsCompatWrapper", P.pos(wrapper.Pos()), "wrapper does not call the user's function with the dereferenced destination value and the same context")
		}
	} else {
		r.undecided("C12/primitive-testfunc-gets-value", "customTestBackwardsCompatWrapper", "-", "wrapper function not found or not a single closure")
	}
	r.floor("C12/primitive-testfunc-gets-value", 4)

	// ---- posttransform-shape ----
	for _, nf := range P.nodeFuncs() {
		// does this node have a postTransforms role?
		hasPT := false
		var ptUnits []*nodeUnit
		for _, u := range P.nodeUnits(nf) {
			u := u
			u.with(func() {
				eachInstr(u.fn, func(_ *ssa.BasicBlock, _ int, in ssa.Instruction) {
					if P.callbackRole(callOf(in)) == "postTransform" {
						hasPT = true
						found := false
						for _, c := range ptUnits {
							if c == u {
								found = true
							}
						}
						if !found {
							ptUnits = append(ptUnits, u)
						}
					}
				})
			})
		}
		if !hasPT {
			continue
		}
		c := fname(nf)
		var problems []string
		if len(ptUnits) != 1 || ptUnits[0].fn == nf {
			problems = append(problems, "post-transforms are not run from exactly one deferred closure or helper")
		} else {
			pu := ptUnits[0]
			cl := pu.fn
			// the runner — or the closure/helper through which it runs — is deferred exactly once by the
			// node function itself, in its entry block
			top := pu
			for top.parent != nil && top.parent.fn != nf {
				top = top.parent
			}
			nDefer := 0
			eachInstr(nf, func(b *ssa.BasicBlock, _ int, in ssa.Instruction) {
				if df, ok := in.(*ssa.Defer); ok {
					isRunner := false
					if mc, ok := df.Call.Value.(*ssa.MakeClosure); ok && mc.Fn == top.fn {
						isRunner = true
					}
					if ci := callOf(df); ci != nil && ci.static == top.fn {
						isRunner = true
					}
					if isRunner {
						nDefer++
						if b != nf.Blocks[0] {
							problems = append(problems, "the post-transform runner is not deferred in the entry block: some paths skip it or register it more than once")
						}
					}
				}
			})
			if nDefer != 1 || !top.deferred || top.parent == nil || top.parent.fn != nf {
				problems = append(problems, fmt.Sprintf("%d defers of the post-transform runner by the node function (expected 1)", nDefer))
			}
			// between the deferred unit and the runner nothing may be conditional: the runner is called
			// unconditionally (its own gate is HasErrored)
			for u := pu; u != top && u != nil; u = u.parent {
				if in, ok := u.site.(ssa.Instruction); ok && in.Block() != in.Parent().Blocks[0] {
					problems = append(problems, "the post-transform runner is called conditionally inside the deferred function")
				}
			}
			pu.with(func() {
				problems = append(problems, P.ptClosureProblems(cl)...)
			})
		}
		if len(problems) > 0 {
			r.bad("C12/posttransform-shape", c, P.pos(nf.Pos()), strings.Join(problems, "; "))
		} else {
			r.ok("C12/posttransform-shape", c, P.pos(nf.Pos()), "one deferred closure in the entry block; gated on !HasErrored(); slice order; first error -> one issue wrapping it, then stop")
		}
	}
	r.floor("C12/posttransform-shape", 4)
	// how a callback's error becomes an issue: the error itself if it is a *ZogIssue, else a fresh issue at the
	// node's path wrapping exactly that error
	if fn := P.fn("(*zog/internals.SchemaCtx).IssueFromUnknownError"); fn != nil {
		r.sawFunc(fname(fn))
		if problems := P.unknownErrorShape(fn); len(problems) == 0 {
			r.ok("C12/unknown-error-shape", fname(fn), P.pos(fn.Pos()), "err.(*ZogIssue) ? a fresh issue holding a copy of it, given the node's type if it has none, the callback's object untouched : a fresh issue whose Err is err and whose Path is the context's")
		} else {
			r.bad("C12/unknown-error-shape", fname(fn), P.pos(fn.Pos()), "a callback's error is not reported as (a fresh copy of the returned *ZogIssue | a fresh issue at the node's path wrapping exactly that error)", problems...)
		}
	} else {
		r.broken("anchor IssueFromUnknownError not found")
	}

	// ---- preprocess-skip ----
	ca := P.newCatchAnalysis()
	for _, mode := range []map[string]*ssa.Function{R.Process, R.Validate} {
		fn := mode["PreprocessSchema"]
		if fn == nil {
			r.undecided("C12/preprocess-skip", "PreprocessSchema", "-", "method not found")
			continue
		}
		r.sawFunc(fname(fn))
		var bad []string
		nIssue := 0
		eachInstr(fn, func(b *ssa.BasicBlock, idx int, in ssa.Instruction) {
			if !P.isAddIssue(callOf(in)) {
				return
			}
			nIssue++
			after := reachFromSuccs(b, nil)
			after[b] = true
			for ab := range after {
				for i, in2 := range ab.Instrs {
					if ab == b && i <= idx {
						continue
					}
					if _, isD := ca.dispatchCallee(callOf(in2)); isD {
						bad = append(bad, fmt.Sprintf("the wrapped schema can still run (%s) after the issue emitted at %s", P.ipos(in2), P.ipos(in)))
					}
				}
			}
		})
		// the preprocess call's error must be tested (in the node function or the helper that makes the call)
		errTested := false
		for _, u := range P.nodeUnits(fn) {
			u.with(func() {
				eachInstr(u.fn, func(_ *ssa.BasicBlock, _ int, in ssa.Instruction) {
					if P.callbackRole(callOf(in)) == "preprocess" {
						if c, ok := in.(*ssa.Call); ok {
							if okE, _ := errResultGuardsIssue(P, c); okE {
								errTested = true
							}
						}
					}
				})
			})
		}
		if !errTested {
			bad = append(bad, "the error returned by the Preprocess function is not turned into an issue")
		}
		// the same on the node's decision paths (helpers entered): an issue is never followed by the wrapped
		// schema, a Preprocess error always becomes an issue, and without an issue the wrapped schema runs
		if paths, capHit := P.nodePaths(fn); capHit {
			bad = append(bad, "too many decision paths to enumerate")
		} else {
			nCalls := 0
			for _, np := range paths {
				if np.end == "PANIC" {
					continue
				}
				issueAt, childAt, callAt := np.index("ISSUE"), -1, np.index("CALL-PREPROCESS")
				for i, it := range np.items {
					if it.kind == "CHILD" {
						childAt = i
					}
				}
				if callAt >= 0 {
					nCalls++
				}
				switch {
				case issueAt >= 0 && childAt > issueAt:
					bad = append(bad, "the wrapped schema can still run after an issue was emitted  [path: "+np.String()+"]")
				case callAt >= 0 && np.has("PREPROCESS-ERR", "T") && issueAt < 0:
					bad = append(bad, "a Preprocess error does not become an issue  [path: "+np.String()+"]")
				case callAt >= 0 && childAt >= 0 && !np.has("PREPROCESS-ERR", ""):
					bad = append(bad, "the wrapped schema runs without the Preprocess error having been tested  [path: "+np.String()+"]")
				case callAt >= 0 && issueAt < 0 && childAt < 0:
					bad = append(bad, "the wrapped schema is skipped although the Preprocess function returned no error and no issue was emitted  [path: "+np.String()+"]")
				}
			}
			if nCalls == 0 {
				bad = append(bad, "no decision path calls the Preprocess function")
			}
		}
		if len(bad) > 0 {
			r.bad("C12/preprocess-skip", fname(fn), P.pos(fn.Pos()), strings.Join(uniqSorted(bad), "; "))
		} else {
			r.ok("C12/preprocess-skip", fname(fn), P.pos(fn.Pos()), fmt.Sprintf("%d issue site(s); none can reach the wrapped schema; preprocess error tested", nIssue))
		}
	}
	r.floor("C12/preprocess-skip", 1)

	// ---- ctx-values-per-call: ctx.Get sees exactly this call's values. The execution context is pooled:
	// every field of it (the values map included) is overwritten at acquisition (C07's reinit rule,
	// restricted to ExecCtx) ----
	tmp := NewResult(r.Prop, r.Tier)
	checkC07(P, tmp)
	for _, o := range tmp.Obls {
		if o.Rule == "C07/reinit" && strings.Contains(o.Construct, "#zog/internals.ExecCtx.") {
			o.Rule = "C12/ctx-values-per-call"
			r.Obls = append(r.Obls, o)
			r.Instances[o.Rule]++
		}
	}
	r.floor("C12/ctx-values-per-call", 0)
	// own-context-not-shared: the context a callback receives belongs to its node alone: a node context is
	// released once, deferred or as its last use (C07's release rule restricted to SchemaCtx objects)
	shareRule(P, r, checkC07, "C07/release", func(o Obligation) bool { return strings.Contains(o.Construct, "SchemaCtx") }, "C12/own-context-not-shared", 0)
	// the callbacks attached to a node are the ones that run: not replaced through a backing array shared with a
	// derived schema (C16), and not cut short by a catch flag left on the node's context by a sibling, an
	// earlier element or an earlier call (C01's child-clean rule)
	// ctx.Get returns the values passed to this call: the map they are kept in is the execution's own, never a map
	// the caller handed in and keeps using (C07's rule)
	shareRule(P, r, checkC07, "C07/pooled-map-owned", func(o Obligation) bool { return strings.Contains(o.Construct, "ExecCtx") }, "C12/context-values-own-map", 0)
	shareRule(P, r, checkC16, "C16/no-shared-backing", nil, "C12/callbacks-not-overwritten", 4)
	shareRule(P, r, checkC01, "C01/child-clean", nil, "C12/callbacks-not-cut-short", 15)
	// the callbacks of the item schemas run for every element the destination holds when the loop starts: a length read
	// before the default (or the input's items) was stored leaves the loop short and their callbacks uncalled (C01's rule)
	shareRule(P, r, checkC01, "C01/element-loop-bound", nil, "C12/callbacks-reach-every-element", 1)
	// the callbacks of a struct field run on the field of that name of *this* destination: the field is selected
	// by the iteration's own key, not through an index cached from another destination type (C03's rule)
	shareRule(P, r, checkC03, "C03/struct-writes-by-field", nil, "C12/callback-gets-own-field", 1)
	// a Preprocess type mismatch becomes an issue and the wrapped schema is skipped - also when the mismatching value is
	// a blank string, which the absence predicate calls absent: the node's decision order (C04's rule on Preprocess)
	shareRule(P, r, checkC04, "C04/decision-shape", func(o Obligation) bool { return strings.Contains(o.Construct, "PreprocessSchema") }, "C12/preprocess-mismatch-is-an-issue", 0) // (no instance on a tree whose Preprocess node makes no absence decision at all)
	// ... an issue, not a panic: what the Preprocess node does with a value of the wrong type cannot panic on it (C06's
	// panic sites in the Preprocess node and the helpers only it reaches)
	shareRule(P, r, checkC06, "C06/panic-site", func(o Obligation) bool { return strings.Contains(o.Construct, "PreprocessSchema") || strings.Contains(o.Construct, "UnwrapPtr") }, "C12/mismatch-is-an-issue-not-a-panic", 1)
}

// errResultGuardsIssue: the error result (last extract) of call c is compared
// with nil and the non-nil edge contains an AddIssue.
func errResultGuardsIssue(P *Prog, c *ssa.Call) (bool, string) {
	refs := c.Referrers()
	if refs == nil {
		return false, "result unused"
	}
	var errv ssa.Value
	if tup, ok := c.Type().(*types.Tuple); ok {
		for _, rf := range *refs {
			if ex, ok := rf.(*ssa.Extract); ok && ex.Index == tup.Len()-1 {
				errv = ex
			}
		}
	} else {
		errv = c
	}
	if errv == nil || errv.Referrers() == nil {
		return false, "error result discarded"
	}
	for _, rf := range *errv.Referrers() {
		bo, ok := rf.(*ssa.BinOp)
		if !ok {
			continue
		}
		_, eq, isNil := isNilCompare(bo)
		if !isNil || bo.Referrers() == nil {
			continue
		}
		for _, br := range *bo.Referrers() {
			iff, ok := br.(*ssa.If)
			if !ok {
				continue
			}
			k := 0
			if eq {
				k = 1
			}
			for b := range reach(iff.Block().Succs[k], nil) {
				if !edgeDominates(iff.Block(), k, b) {
					continue
				}
				for _, in := range b.Instrs {
					if P.isAddIssue(callOf(in)) {
						return true, ""
					}
				}
			}
		}
	}
	return false, "no issue on the err != nil edge"
}

// ptClosureProblems checks the body of a deferred post-transform closure.
func (P *Prog) ptClosureProblems(cl *ssa.Function) []string {
	var problems []string
	var call *ssa.Call
	var callBlk *ssa.BasicBlock
	eachInstr(cl, func(b *ssa.BasicBlock, _ int, in ssa.Instruction) {
		if P.callbackRole(callOf(in)) == "postTransform" {
			if c, ok := in.(*ssa.Call); ok {
				if call != nil {
					problems = append(problems, "more than one post-transform call site")
				}
				call, callBlk = c, b
			}
		}
	})
	if call == nil {
		return append(problems, "no post-transform call found")
	}
	// gate: guarded by HasErrored() == false
	gated := false
	for _, gd := range guardsOf(callBlk) {
		c := gd.If.Cond
		neg := false
		if u, ok := c.(*ssa.UnOp); ok && u.Op == token.NOT {
			neg, c = true, u.X
		}
		if cc, ok := c.(*ssa.Call); ok {
			ci := callOf(cc)
			if ci.static != nil && ci.static.Name() == "HasErrored" || ci.invoke != nil && ci.invoke.Name() == "HasErrored" {
				want := false // HasErrored() must be false
				val := gd.True
				if neg {
					val = !val
				}
				if val == want {
					gated = true
				}
			}
		}
	}
	if !gated {
		problems = append(problems, "post-transforms are not gated on !HasErrored(): they would run on values that failed validation")
	}
	// loop over the role slice in index order
	var loop *natLoop
	for _, nl := range naturalLoops(cl) {
		nl := nl
		if nl.body[callBlk] {
			loop = &nl
		}
	}
	if loop == nil {
		problems = append(problems, "the post-transform call is not inside a loop over the transforms")
	} else {
		ascending := false
		for _, in := range loop.header.Instrs {
			if ph, ok := in.(*ssa.Phi); ok && ph.Comment == "rangeindex" {
				ascending = true
			}
		}
		if !ascending {
			// explicit for i := 0; i < n; i++ also fine: header phi incremented by +1
			for _, in := range loop.header.Instrs {
				if ph, ok := in.(*ssa.Phi); ok {
					for _, e := range ph.Edges {
						if bo, ok := e.(*ssa.BinOp); ok && bo.Op == token.ADD && bo.X == ssa.Value(ph) {
							if k, ok := constInt(bo.Y); ok && k == 1 {
								ascending = true
							}
						}
					}
				}
			}
		}
		if !ascending {
			problems = append(problems, "transforms are not visited in ascending slice order")
		}
	}
	// error handling
	if okE, why := errResultGuardsIssue(P, call); !okE {
		problems = append(problems, "the error returned by a post-transform is not reported as an issue ("+why+")")
	} else if loop != nil {
		// the err != nil edge must leave the loop and wrap err
		var errBlocks []*ssa.BasicBlock
		for _, rf := range *call.Referrers() {
			bo, ok := rf.(*ssa.BinOp)
			if !ok {
				continue
			}
			_, eq, isNil := isNilCompare(bo)
			if !isNil || bo.Referrers() == nil {
				continue
			}
			for _, br := range *bo.Referrers() {
				if iff, ok := br.(*ssa.If); ok {
					k := 0
					if eq {
						k = 1
					}
					errBlocks = append(errBlocks, iff.Block().Succs[k])
				}
			}
		}
		for _, eb := range errBlocks {
			if reach(eb, nil)[loop.header] {
				problems = append(problems, "after a post-transform fails the remaining post-transforms still run")
			}
			nAdd := 0
			wraps := false
			for b := range reach(eb, nil) {
				for _, in := range b.Instrs {
					if P.isAddIssue(callOf(in)) {
						nAdd++
						for _, rt := range P.rootsOf(callOf(in).args()[1]) {
							if rt.v == ssa.Value(call) {
								wraps = true
							}
						}
						// Issue().SetError(err) / IssueFromUnknownError(err): err is an argument somewhere in the chain
						if !wraps && valueMentions(callOf(in).args()[1], call, 6) {
							wraps = true
						}
					}
				}
			}
			if nAdd != 1 {
				problems = append(problems, fmt.Sprintf("%d issues emitted for one failing post-transform (expected 1)", nAdd))
			}
			if !wraps {
				problems = append(problems, "the issue emitted for a failing post-transform does not wrap the returned error")
			}
		}
	}
	return problems
}

// valueMentions: v is computed (through calls) from x.
func valueMentions(v, x ssa.Value, depth int) bool {
	if v == x {
		return true
	}
	if depth == 0 {
		return false
	}
	if in, ok := v.(ssa.Instruction); ok {
		var ops []*ssa.Value
		for _, op := range in.Operands(ops) {
			if *op != nil && valueMentions(*op, x, depth-1) {
				return true
			}
		}
	}
	return false
}

// unknownErrorShape decides, on the paths of IssueFromUnknownError (helpers entered), that
//   - when the error is a *ZogIssue, that very issue is returned and neither its Err nor its Path is written;
//   - otherwise a fresh issue (from the pool or allocated) is returned, whose Err was last written with the
//     error parameter and whose Path was last written with the String() of the context's own Path.
func (P *Prog) unknownErrorShape(fn *ssa.Function) []string {
	R := P.roles
	if len(fn.Params) != 2 {
		return []string{"unexpected signature"}
	}
	recv, errP := ssa.Value(fn.Params[0]), ssa.Value(fn.Params[1])
	errF := structField(R.ZogIssue, "Err")
	pathF := structField(R.ZogIssue, "Path")
	ctxPathF := structField(R.SchemaCtx, "Path")
	if errF == nil || pathF == nil || ctxPathF == nil {
		return []string{"the issue's Err/Path fields or the context's Path field were not found"}
	}
	isIssuePtr := func(t types.Type) bool {
		pt, ok := t.(*types.Pointer)
		return ok && types.Identical(pt.Elem().Underlying(), R.ZogIssue.Underlying())
	}
	assertOfErr := func(v ssa.Value) *ssa.TypeAssert {
		v = cv(v)
		if ex, ok := v.(*ssa.Extract); ok {
			v = cv(ex.Tuple)
		}
		ta, ok := v.(*ssa.TypeAssert)
		if !ok || cv(ta.X) != errP || !isIssuePtr(ta.AssertedType) {
			return nil
		}
		return ta
	}
	var origin func(v ssa.Value, depth int) string
	origin = func(v ssa.Value, depth int) string {
		if depth > 12 || v == nil {
			return "OTHER"
		}
		v = cv(v)
		if ex, ok := v.(*ssa.Extract); ok && ex.Index == 0 {
			if assertOfErr(ex) != nil {
				return "ASSERTED"
			}
		}
		switch x := v.(type) {
		case *ssa.TypeAssert:
			if assertOfErr(x) != nil {
				return "ASSERTED"
			}
			if c, ok := cv(x.X).(*ssa.Call); ok && isSyncPoolMethod(callOf(c), "Get") {
				return "FRESH"
			}
		case *ssa.Alloc:
			if x.Heap {
				return "FRESH"
			}
		case *ssa.Phi:
			res := ""
			for _, e := range x.Edges {
				o := origin(e, depth+1)
				if res != "" && o != res {
					return "OTHER"
				}
				res = o
			}
			return res
		case *ssa.Call:
			g := callOf(x).static
			if g == nil || g.Blocks == nil || !inModule(funcPkgPath(g)) || g.Signature.Results().Len() != 1 {
				return "OTHER"
			}
			res := ""
			eachInstr(g, func(_ *ssa.BasicBlock, _ int, in ssa.Instruction) {
				rt, ok := in.(*ssa.Return)
				if !ok {
					return
				}
				vals, ok := retVals(rt)
				if !ok || len(vals) != 1 {
					return
				}
				o := "OTHER"
				rv := cv(vals[0])
				if prm, isP := rv.(*ssa.Parameter); isP && prm.Parent() == g {
					for i, q := range g.Params {
						if q == prm && i < len(x.Call.Args) {
							o = origin(x.Call.Args[i], depth+1)
						}
					}
				} else {
					o = origin(rv, depth+1)
				}
				if res != "" && o != res {
					o = "OTHER"
				}
				res = o
			})
			if res == "" {
				return "OTHER"
			}
			return res
		}
		return "OTHER"
	}
	spec := &pathSpec{name: "unknown-error", inlineAll: true}
	// (the path renderer is not entered: its call is the value looked for)
	spec.keep = func(f *ssa.Function) bool {
		return !inModule(funcPkgPath(f)) || (f.Name() == "String" && f.Signature.Recv() != nil)
	}
	dtypeF := structField(R.ZogIssue, "Dtype")
	spec.cond = func(iff *ssa.If) (string, string, string) {
		// `zerr.Dtype == ""`: the only condition under which the callback's own issue may be given a type
		if bo, isB := cv(iff.Cond).(*ssa.BinOp); isB && (bo.Op == token.EQL || bo.Op == token.NEQ) && dtypeF != nil {
			for _, side := range [][2]ssa.Value{{bo.X, bo.Y}, {bo.Y, bo.X}} {
				if _, f := loadOfField(cv(side[0])); f != nil && sameField(f, dtypeF) && isEmptyString(cv(side[1])) {
					if bo.Op == token.EQL {
						return "DTYPE-EMPTY", "T", "F"
					}
					return "DTYPE-EMPTY", "F", "T"
				}
			}
		}
		ex, ok := cv(iff.Cond).(*ssa.Extract)
		if ok && ex.Index == 1 && assertOfErr(ex) != nil {
			return "IS-ISSUE", "T", "F"
		}
		if u, isU := cv(iff.Cond).(*ssa.UnOp); isU && u.Op == token.NOT {
			if ex, ok := cv(u.X).(*ssa.Extract); ok && ex.Index == 1 && assertOfErr(ex) != nil {
				return "IS-ISSUE", "F", "T"
			}
		}
		return "", "", ""
	}
	spec.events = func(in ssa.Instruction) []pathItem {
		st, ok := in.(*ssa.Store)
		if !ok {
			return nil
		}
		// `*e = *zerr`: the execution's own copy of the callback's issue
		if u, isU := cv(st.Val).(*ssa.UnOp); isU && u.Op == token.MUL && origin(u.X, 0) == "ASSERTED" && origin(st.Addr, 0) == "FRESH" {
			return []pathItem{{kind: "COPY", in: in}}
		}
		fbase, f := fieldVar(cv(st.Addr))
		if f != nil && fbase != nil && origin(fbase, 0) == "ASSERTED" {
			// the callback's issue belongs to the callback's author (a sentinel returned from every call)
			return []pathItem{{kind: "WRITE-FOREIGN", val: f.Name(), in: in}}
		}
		switch {
		case f != nil && dtypeF != nil && sameField(f, dtypeF):
			return []pathItem{{kind: "DTYPE", in: in}}
		case f != nil && sameField(f, errF):
			if cv(st.Val) == errP {
				return []pathItem{{kind: "ERR", val: "param", in: in}}
			}
			return []pathItem{{kind: "ERR", val: "other", in: in}}
		case f != nil && sameField(f, pathF):
			if c, isC := cv(st.Val).(*ssa.Call); isC {
				if ci := callOf(c); ci != nil && ci.static != nil && ci.static.Name() == "String" && len(ci.args()) == 1 {
					if base, lf := loadOfField(cv(ci.args()[0])); lf != nil && sameField(lf, ctxPathF) && cv(base) == recv {
						return []pathItem{{kind: "PATH", val: "own", in: in}}
					}
				}
			}
			return []pathItem{{kind: "PATH", val: "other", in: in}}
		}
		return nil
	}
	spec.onReturn = func(rt *ssa.Return) string {
		if rt.Parent() != fn || len(rt.Results) != 1 {
			return ""
		}
		return "ORIGIN=" + origin(rt.Results[0], 0)
	}
	res := P.enumPathsSpec(fn, nil, spec)
	var problems []string
	if res.capHit {
		problems = append(problems, "too many paths to enumerate")
	}
	nT, nF := 0, 0
	for _, p := range res.paths {
		if !strings.HasPrefix(p.end, "RETURN") {
			continue
		}
		is, lastErr, lastPath := "", "", ""
		dtypeEmpty, dtypeWritten := "", false
		copied := false
		var foreign []string
		for _, it := range p.items {
			switch it.kind {
			case "COPY":
				copied = true
				lastErr, lastPath, dtypeWritten = "", "", false // what was written into the blank before the copy is overwritten by it
			case "WRITE-FOREIGN":
				foreign = append(foreign, it.val)
			case "DTYPE-EMPTY":
				dtypeEmpty = it.val
			case "DTYPE":
				dtypeWritten = true
			case "IS-ISSUE":
				is = it.val
			case "ERR":
				lastErr = it.val
			case "PATH":
				lastPath = it.val
			}
		}
		switch {
		case is == "":
			problems = append(problems, "a return that is reached without asking whether the error is a *ZogIssue  [path: "+p.String()+"]")
		case is == "T":
			nT++
			// the execution reports a copy of its own: the callback's object (a sentinel a user returns from every
			// call) is never written to, never reaches the issue pool and never becomes the issue of two executions
			if !strings.Contains(p.end, "ORIGIN=FRESH") || !copied {
				problems = append(problems, "the error is a *ZogIssue and what is returned is not a fresh issue holding a copy of it (the callback's own object would be formatted, caught into the pool and shared between executions)  [path: "+p.String()+"]")
			}
			if len(foreign) > 0 {
				problems = append(problems, "the callback's own issue object is written to ("+strings.Join(uniqSorted(foreign), ", ")+")  [path: "+p.String()+"]")
			}
			if lastErr != "" || lastPath != "" {
				problems = append(problems, "the callback's own issue has its Err or Path rewritten  [path: "+p.String()+"]")
			}
			// an issue built outside a schema (zhttp, zjson) learns the type of the schema it ends up in; one that
			// already has a type keeps it
			if dtypeWritten && dtypeEmpty != "T" {
				problems = append(problems, "the callback's own issue has its type overwritten although it already had one  [path: "+p.String()+"]")
			}
			if dtypeEmpty == "" {
				problems = append(problems, "the callback's own issue is passed on without asking whether it has a type: an issue built outside a schema stays without one  [path: "+p.String()+"]")
			}
			if dtypeEmpty == "T" && !dtypeWritten {
				problems = append(problems, "an issue that arrives without a type is not given the type of the schema it is reported at  [path: "+p.String()+"]")
			}
		default:
			nF++
			if !strings.Contains(p.end, "ORIGIN=FRESH") {
				problems = append(problems, "a plain error is not returned inside a fresh issue  [path: "+p.String()+"]")
			}
			if lastErr != "param" {
				problems = append(problems, "the fresh issue's Err is not the error it reports  [path: "+p.String()+"]")
			}
			if lastPath != "own" {
				problems = append(problems, "the fresh issue's Path is not the String() of the context's path  [path: "+p.String()+"]")
			}
		}
	}
	if nT == 0 || nF == 0 {
		problems = append(problems, "the two cases (the error is a *ZogIssue | it is not) were not both found")
	}
	return uniqSorted(problems)
}

// viaReflectConvert: the value is (asserted out of) the result of reflect.Value.Convert.
func viaReflectConvert(v ssa.Value, depth int) bool {
	if depth > 8 {
		return false
	}
	switch x := cv(v).(type) {
	case *ssa.Extract:
		return viaReflectConvert(x.Tuple, depth+1)
	case *ssa.TypeAssert:
		return viaReflectConvert(x.X, depth+1)
	case *ssa.MakeInterface:
		return viaReflectConvert(x.X, depth+1)
	case *ssa.ChangeInterface:
		return viaReflectConvert(x.X, depth+1)
	case *ssa.Phi:
		for _, e := range x.Edges {
			if viaReflectConvert(e, depth+1) {
				return true
			}
		}
	case *ssa.UnOp:
		if x.Op == token.MUL {
			if al, ok := x.X.(*ssa.Alloc); ok {
				for _, st := range storesTo(al) {
					if viaReflectConvert(st.Val, depth+1) {
						return true
					}
				}
			}
		}
	case *ssa.Call:
		ci := callOf(x)
		if ci.static != nil && isPkgFunc(ci.static, "reflect") {
			if ci.static.Name() == "Convert" {
				return true
			}
			if len(x.Call.Args) > 0 {
				return viaReflectConvert(x.Call.Args[0], depth+1)
			}
		}
	}
	return false
}
