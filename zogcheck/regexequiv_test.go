package main

import (
	"math/rand"
	"regexp"
	"testing"
)

func TestRegexEquivalent(t *testing.T) {
	uuid := `^[0-9a-fA-F]{8}\b-[0-9a-fA-F]{4}\b-[0-9a-fA-F]{4}\b-[0-9a-fA-F]{4}\b-[0-9a-fA-F]{12}$`
	uuidRef := `^[0-9a-fA-F]{8}-[0-9a-fA-F]{4}-[0-9a-fA-F]{4}-[0-9a-fA-F]{4}-[0-9a-fA-F]{12}$`
	email := "^[a-zA-Z0-9.!#$%&'*+\\/=?^_`{|}~-]+@[a-zA-Z0-9](?:[a-zA-Z0-9-]{0,61}[a-zA-Z0-9])?(?:\\.[a-zA-Z0-9](?:[a-zA-Z0-9-]{0,61}[a-zA-Z0-9])?)*$"
	cases := []struct {
		a, b  string
		equal bool
	}{
		{uuid, uuidRef, true},
		{uuid, `^[[:xdigit:]]{8}-[[:xdigit:]]{4}-[[:xdigit:]]{4}-[[:xdigit:]]{4}-[[:xdigit:]]{12}$`, true},
		{uuid, `(?i)^[0-9a-f]{8}-[0-9a-f]{4}-[0-9a-f]{4}-[0-9a-f]{4}-[0-9a-f]{12}$`, true},
		{uuid, `^[0-9a-fA-F]{8}\b-[0-9a-fA-F]{4}\b-[0-9a-fA-F]{4}\b-[0-9a-fA-F]{4}\b-[0-9a-fA-f]{12}$`, false},
		{uuid, `^[0-9a-fA-F]{8}-[0-9a-fA-F]{4}-[0-9a-fA-F]{4}-[0-9a-fA-F]{4}-[0-9a-fA-F]{12}`, false},
		{uuid, `[0-9a-fA-F]{8}-[0-9a-fA-F]{4}-[0-9a-fA-F]{4}-[0-9a-fA-F]{4}-[0-9a-fA-F]{12}$`, false},
		{email, email, true},
		{email, "^[a-zA-Z0-9.!#$%&'*+/=?^_`{|}~-]+@[a-zA-Z0-9](?:[a-zA-Z0-9-]{0,61}[a-zA-Z0-9])?(?:\\.[a-zA-Z0-9](?:[a-zA-Z0-9-]{0,61}[a-zA-Z0-9])?)*$", true},
		{email, "^[a-zA-Z0-9.!#$%&'*+\\/=?^_`{|}~-]+@[a-zA-Z0-9](?:[a-zA-Z0-9-]{0,62}[a-zA-Z0-9])?(?:\\.[a-zA-Z0-9](?:[a-zA-Z0-9-]{0,61}[a-zA-Z0-9])?)*$", false},
		{email, "^[a-zA-Z0-9.!#$%&'*+\\/=?^_`{|}~-]+@[a-zA-Z0-9](?:[a-zA-Z0-9-]{0,61}[a-zA-Z0-9])?(?:\\.[a-zA-Z0-9](?:[a-zA-Z0-9-]{0,61}[a-zA-Z0-9])?)+$", false},
		{`a.c`, `a[^\n]c`, true},
		{`(?s)a.c`, `a[^\n]c`, false},
		{`^a$`, `^a\z`, true},
		{`(?m)^a$`, `^a$`, false},
		{`\bfoo\b`, `foo`, false},
		{`x*`, ``, true},
	}
	rnd := rand.New(rand.NewSource(1))
	for _, c := range cases {
		eq, w, onlyA, decided, err := regexEquivalent(c.a, c.b)
		if err != nil || !decided {
			t.Fatalf("%q vs %q: err=%v decided=%v", c.a, c.b, err, decided)
		}
		if eq != c.equal {
			t.Errorf("%q vs %q: equal=%v want %v (witness %q)", c.a, c.b, eq, c.equal, w)
		}
		ra, rb := regexp.MustCompile(c.a), regexp.MustCompile(c.b)
		if !eq {
			if ra.MatchString(w) == rb.MatchString(w) || ra.MatchString(w) != onlyA {
				t.Errorf("%q vs %q: witness %q does not separate them (a=%v b=%v onlyA=%v)", c.a, c.b, w, ra.MatchString(w), rb.MatchString(w), onlyA)
			}
		} else {
			alphabet := []rune("09afAFgGzZ-_@.!`~ \n\té€")
			for i := 0; i < 20000; i++ {
				n := rnd.Intn(40)
				rs := make([]rune, n)
				for j := range rs {
					rs[j] = alphabet[rnd.Intn(len(alphabet))]
				}
				if ra.MatchString(string(rs)) != rb.MatchString(string(rs)) {
					t.Fatalf("%q vs %q declared equal but differ on %q", c.a, c.b, string(rs))
				}
			}
		}
	}
}
