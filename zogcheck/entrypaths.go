package main

import (
	"go/token"

	"golang.org/x/tools/go/ssa"
)

// Decision paths of an entry point (Parse / Validate of a schema kind) with
// its unexported helpers and the closures handed to them entered: which issue
// container and execution context the call creates, which options it applies
// to which context, when the schema runs, and what it returns. Rules about
// entry points are stated on these paths, so that sharing the prologue of
// several entry points in a helper (also one taking the body as a closure)
// does not change their verdict.

type entryPath struct {
	containers   []ssa.Value // NewErrsMap / NewErrsList calls, in order
	execs        []ssa.Value // NewExecCtx calls
	execGlobal   bool        // every NewExecCtx got the global conf.IssueFormatter, read at call time
	execCont     []ssa.Value // container argument of each NewExecCtx
	optArgs      []ssa.Value // argument of each applied option
	optAfterRun  bool        // an option is applied after the schema was dispatched
	dispatches   int
	retField     string    // field loaded for the result ("M", "List", "" if not a field load)
	retBase      ssa.Value // object the result field is loaded from
	end          string
	str          string
	optInLoop    bool // the options are applied inside a loop over the options parameter
	dispatchLoop bool // the schema is dispatched while the options loop is still running
}

func (P *Prog) entryPaths(ep *ssa.Function) ([]entryPath, bool) {
	if m, ok := P.entryMemo[ep]; ok {
		return m.paths, m.capHit
	}
	ca := P.sharedCatchAnalysis()
	newExec := P.fn("zog/internals.NewExecCtx")
	optsParam := ssa.Value(ep.Params[len(ep.Params)-1])
	spec := &pathSpec{name: "entry-point", inlineAll: true}
	spec.keep = func(f *ssa.Function) bool {
		if f.Parent() != nil {
			return false // a closure handed to a helper
		}
		return !formulaHelper(f) || P.isAnchorFn(f)
	}
	spec.cond = func(iff *ssa.If) (string, string, string) { return "", "", "" }
	var retBase ssa.Value
	retBases := map[string]ssa.Value{}
	spec.events = func(in ssa.Instruction) []pathItem {
		ci := callOf(in)
		if ci == nil {
			return nil
		}
		if c, ok := in.(*ssa.Call); ok && ci.static != nil {
			switch fname(ci.static) {
			case "zog/internals.NewErrsMap", "zog/internals.NewErrsList":
				return []pathItem{{kind: "NEWERRS", in: in, aux: c}}
			}
			if ci.static == newExec && newExec != nil && len(ci.args()) == 2 {
				v := "other"
				if u, ok := cv(ci.args()[1]).(*ssa.UnOp); ok && u.Op == token.MUL {
					if g, ok := u.X.(*ssa.Global); ok && g.Name() == "IssueFormatter" && g.Pkg.Pkg.Path() == pkgConf {
						v = "global"
					}
				}
				return []pathItem{{kind: "NEWEXEC", val: v, in: in, aux: c}, {kind: "EXEC-CONTAINER", in: in, aux: cvi(ci.args()[0])}}
			}
		}
		if ci.dynamic && len(ci.args()) == 1 {
			for _, rt := range P.rootsOf(ci.instr.Common().Value) {
				if rt.kind == rkParam && rt.v == optsParam {
					return []pathItem{{kind: "OPT", in: in, aux: cv(ci.args()[0])}}
				}
			}
		}
		if _, isD := ca.dispatchCallee(ci); isD {
			return []pathItem{{kind: "DISPATCH", in: in}}
		}
		return nil
	}
	spec.onReturn = func(rt *ssa.Return) string {
		res, ok := retVals(rt)
		if !ok || len(res) != 1 {
			return "?"
		}
		b, f := loadOfField(cv(res[0]))
		if f == nil {
			return "?"
		}
		retBase = cvi(b)
		key := f.Name() + "@" + vstr(retBase) + P.ipos(rt)
		retBases[key] = retBase
		return key
	}
	res := P.enumPathsSpec(ep, nil, spec)
	var out []entryPath
	for _, p := range res.paths {
		e := entryPath{end: p.end, str: p.String(), execGlobal: true}
		if len(p.end) > 7 && p.end[:7] == "RETURN " {
			key := p.end[7:]
			if b, ok := retBases[key]; ok {
				e.retBase = b
				for i := 0; i < len(key); i++ {
					if key[i] == '@' {
						e.retField = key[:i]
						break
					}
				}
			}
			e.end = "RETURN"
		}
		inOptLoop := false
		for _, it := range p.items {
			switch it.kind {
			case "NEWERRS":
				e.containers = append(e.containers, it.aux)
			case "NEWEXEC":
				e.execs = append(e.execs, it.aux)
				if it.val != "global" {
					e.execGlobal = false
				}
			case "EXEC-CONTAINER":
				e.execCont = append(e.execCont, it.aux)
			case "OPT":
				e.optArgs = append(e.optArgs, it.aux)
				if e.dispatches > 0 {
					e.optAfterRun = true
				}
				if inOptLoop {
					e.optInLoop = true
				}
			case "DISPATCH":
				e.dispatches++
			case "LOOP":
				inOptLoop = it.val == "iter"
			}
		}
		out = append(out, e)
	}
	_ = retBase
	if P.entryMemo == nil {
		P.entryMemo = map[*ssa.Function]*entryResult{}
	}
	P.entryMemo[ep] = &entryResult{paths: out, capHit: res.capHit}
	return out, res.capHit
}

type entryResult struct {
	paths  []entryPath
	capHit bool
}
