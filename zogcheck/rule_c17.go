package main

import (
	"fmt"
	"go/ast"
	"go/token"
	"go/types"
	"sort"
	"strings"

	"golang.org/x/tools/go/ssa"
)

func init() { register("C17", checkC17) }

// recvFieldWrites: receiver fields a method may store to, directly or through
// static module callees that receive the receiver (depth 3).
func (P *Prog) recvFieldWrites(fn *ssa.Function, recvIdx int, depth int, seen map[*ssa.Function]bool) map[string][]ssa.Instruction {
	out := map[string][]ssa.Instruction{}
	if depth > 3 || seen[fn] || fn.Blocks == nil || recvIdx >= len(fn.Params) {
		return out
	}
	seen[fn] = true
	defer delete(seen, fn)
	recv := ssa.Value(fn.Params[recvIdx])
	eachInstr(fn, func(_ *ssa.BasicBlock, _ int, in ssa.Instruction) {
		if st, ok := in.(*ssa.Store); ok {
			if b, f := fieldVar(st.Addr); f != nil && cvi(b) == recv {
				out[P.roleName(f)] = append(out[P.roleName(f)], in)
			}
			return
		}
		ci := callOf(in)
		if ci == nil || ci.static == nil || !inModule(funcPkgPath(ci.static)) {
			return
		}
		for i, a := range ci.args() {
			if cvi(a) == recv {
				for k := range P.recvFieldWrites(ci.static, i, depth+1, seen) {
					out[k] = append(out[k], in)
				}
			}
			// the address of a receiver field handed to a function that stores through it
			// (`v.tests.add(t)` with `func (l *testList) add(t Test) { *l = append(*l, t) }`)
			if fa, ok := cv(a).(*ssa.FieldAddr); ok {
				if b, f := fieldVar(fa); f != nil && cvi(b) == recv && P.storesThroughParam(ci.static, i, 0) {
					out[P.roleName(f)] = append(out[P.roleName(f)], in)
				}
			}
		}
	})
	return out
}

// storesThroughParam: fn writes the memory its pointer parameter #idx points to (directly, or by handing
// the pointer on to a module function that does).
func (P *Prog) storesThroughParam(fn *ssa.Function, idx int, depth int) bool {
	if fn == nil || fn.Blocks == nil || idx >= len(fn.Params) || depth > 3 {
		return false
	}
	prm := ssa.Value(fn.Params[idx])
	found := false
	eachInstr(fn, func(_ *ssa.BasicBlock, _ int, in ssa.Instruction) {
		if st, ok := in.(*ssa.Store); ok && cvi(st.Addr) == prm {
			found = true
		}
		if ci := callOf(in); ci != nil && ci.static != nil && inModule(funcPkgPath(ci.static)) {
			for i, a := range ci.args() {
				if cvi(a) == prm && P.storesThroughParam(ci.static, i, depth+1) {
					found = true
				}
			}
		}
	})
	return found
}

func checkC17(P *Prog, r *Result) {
	R := P.roles
	r.Explanation = "Decides locality of the builder API structurally: (not-typestate) the negation flag is written only by Not (true) and by the single function through which every method of the " +
		"NotStringSchema interface adds its test (false, on the very path that consumed it), which on that path uses the negated wrapper and flips the code through zconst.NotIssueCode, " +
		"whose non-prefixed path returns the constant \"not_\" + code; (field-effects) every exported builder method writes exactly the receiver fields of its role, unconditionally " +
		"(last call wins), storing pointers to call-local copies; (option-locality) test options are only ever invoked on a Test value local to that call, which is the value appended/stored; " +
		"(setcoercer) leaf kinds store their own coercer, wrappers delegate, struct/custom ignore. Shared schema objects behaving as independent copies is discharged by C08/C19 " +
		"(executions never write schema objects). Random builder chains on inputs are not decided."
	// ---- not-typestate ----
	P.checkNotTypestate(r)
	// a schema derived with Pick/Omit/Extend/Merge owns its test and transform slices: a builder call on one
	// schema cannot overwrite an entry of the other (C16's rule)
	shareRule(P, r, checkC16, "C16/no-shared-backing", nil, "C17/derived-own-slices", 4)
	// a builder that derives a schema acts on the schema it returns, never on its receiver: the field map it writes
	// is one made in that call (C16's rule)
	shareRule(P, r, checkC16, "C16/operands-read-only", nil, "C17/derivation-leaves-receiver", 2)
	shareRule(P, r, checkC16, "C16/no-element-overwrite", nil, "C17/tests-not-replaced-in-place", 1)
	// one schema object used at several places behaves at each as an independent copy would: what it leaves on the
	// context it shares with its siblings (a caught failure at one field) does not reach the other place (C01's rule)
	shareRule(P, r, checkC01, "C01/child-clean", nil, "C17/placement-independent", 15)
	// a test's options act on the issues of that test: the context's current-test slot is read only by code that runs
	// as that test's Func (C02's rule) - AddIssue applying ctx.Test's Message and IssuePath gives them to the required,
	// coerce and post-transform issues of whatever runs next on the shared child context
	shareRule(P, r, checkC02, "C02/current-test", nil, "C17/options-of-the-running-test-only", 2)
	// ... and do not travel in recycled issues: an issue taken from the pool has every field written before it is handed
	// on (C07's rule on ZogIssue) - else the Message / IssueCode / Params of the test whose issue was caught or collected
	// show up on the next issue built with ctx.Issue()
	shareRule(P, r, checkC07, "C07/reinit", func(o Obligation) bool { return strings.Contains(o.Construct, "#zog/internals.ZogIssue.") }, "C17/options-not-carried-by-recycled-issues", 0)
	// ---- field-effects ----
	for _, k := range R.Kinds {
		kn := k.Obj().Name()
		for _, fn := range P.Funcs {
			if fn.Parent() != nil || fn.Signature.Recv() == nil || !sameNamed(namedOf(fn.Signature.Recv().Type()), k) {
				continue
			}
			name := fn.Name()
			if name == R.MSetCoercer {
				continue // own rule
			}
			if !ast.IsExported(name) && fn != P.notConsumer() {
				continue
			}
			// builder: returns the receiver (or the NotStringSchema interface of it)
			res := fn.Signature.Results()
			if res.Len() != 1 {
				continue
			}
			returnsRecv := false
			eachInstr(fn, func(_ *ssa.BasicBlock, _ int, in ssa.Instruction) {
				if rt, ok := in.(*ssa.Return); ok && len(rt.Results) == 1 {
					for _, root := range P.rootsOf(rt.Results[0]) {
						if root.kind == rkParam && root.v == ssa.Value(fn.Params[0]) && len(root.path) == 0 {
							returnsRecv = true
						}
					}
				}
			})
			if !returnsRecv {
				continue
			}
			r.sawFunc(fname(fn))
			writes := P.recvFieldWrites(fn, 0, 0, map[*ssa.Function]bool{})
			var got []string
			for f := range writes {
				got = append(got, f)
			}
			sort.Strings(got)
			want, known := expectedBuilderFields(kn, name, got)
			c := kn + "." + name
			if !known {
				r.undecided("C17/field-effects", c, P.pos(fn.Pos()), fmt.Sprintf("builder method with no role in the table writes %v", got))
				continue
			}
			if strings.Join(got, ",") != strings.Join(want, ",") {
				r.bad("C17/field-effects", c, P.pos(fn.Pos()), fmt.Sprintf("builder method writes receiver fields %v, its role allows exactly %v: it changes an unrelated modifier of the schema", got, want))
				continue
			}
			// unconditional: every path to return performs the write(s) (for modifier setters)
			if isModifier(name) && len(want) > 0 {
				S := map[*ssa.BasicBlock]bool{}
				for _, ins := range writes[want[0]] {
					S[ins.Block()] = true
				}
				if ok, _ := mustPassThrough(fn.Blocks[0], S); !ok {
					r.bad("C17/field-effects", c, P.pos(fn.Pos()), "the modifier is stored only on some paths: a later call does not always win")
					continue
				}
				// stored pointer must be call-local
				if bad := P.nonLocalPointerStored(fn, want[0]); bad != "" {
					r.bad("C17/field-effects", c, P.pos(fn.Pos()), bad)
					continue
				}
			}
			r.ok("C17/field-effects", c, P.pos(fn.Pos()), fmt.Sprintf("writes exactly %v", want))
		}
	}
	r.floor("C17/field-effects", 40)

	// ---- option-locality ----
	P.checkOptionLocality(r)

	// ---- params-local: builders and test constructors write test parameters only into maps they made ----
	nMU := 0
	for _, fn := range P.Funcs {
		if strings.Contains(funcPkgPath(fn), "/tutils") || fn.Synthetic != "" {
			continue
		}
		eachInstr(fn, func(_ *ssa.BasicBlock, _ int, in ssa.Instruction) {
			mu, ok := in.(*ssa.MapUpdate)
			if !ok {
				return
			}
			_, f := loadOfField(cv(mu.Map))
			if f == nil || f.Name() != "Params" || !sameNamed(P.fieldOwner(f), R.Test) {
				return
			}
			nMU++
			c := fmt.Sprintf("%s#Params[%s]", fname(fn), shortName(mu.Key.String()))
			// the map stored in that Test's Params must be a MakeMap of this function, on every reaching store
			base, _ := loadOfField(cv(mu.Map))
			d := &derivCtx{P: P, fn: fn}
			var pv prov
			if al, isAl := cv(base).(*ssa.Alloc); isAl && al.Parent() == fn {
				pv = d.objFieldProv(al, f, in, 0)
			} else {
				pv = prov{"shared", "a Test that is not local to this function"}
			}
			if pv.kind == "fresh" {
				r.ok("C17/params-local", c, P.ipos(in), "parameter written into a map made for this test")
			} else {
				r.bad("C17/params-local", c, P.ipos(in), "a test parameter is written into a Params map that may not belong to this test ("+pv.desc+"): with z.Params(m) the caller's map — possibly shared with other tests — is modified")
			}
		})
	}
	// ... and an option never writes into the map its caller handed it: the same map (or the same option value) given to
	// two tests would carry the entries of the first into the second
	for _, fn := range P.Funcs {
		if fn.Parent() == nil || P.optionKind(fn.Signature) != "TestOption" {
			continue
		}
		eachInstr(fn, func(_ *ssa.BasicBlock, _ int, in ssa.Instruction) {
			mu, ok := in.(*ssa.MapUpdate)
			if !ok {
				return
			}
			for _, rt := range P.rootsOf(mu.Map) {
				name := ""
				switch v := rt.v.(type) {
				case *ssa.FreeVar:
					name = v.Name()
				case *ssa.Parameter:
					if v.Parent() != fn {
						name = v.Name()
					}
				}
				if name == "" {
					continue
				}
				t := rt.v.Type()
				if pt, isP := t.Underlying().(*types.Pointer); isP {
					t = pt.Elem()
				}
				if _, isMap := t.Underlying().(*types.Map); isMap {
					r.bad("C17/params-local", fmt.Sprintf("%s#caller-map[%s]", fname(fn), shortName(mu.Key.String())), P.ipos(in), "a test option writes into the map its caller passed ("+name+"): a map or an option value used for two tests carries the entries written for the first test into the second, and the caller's map is modified")
				}
			}
		})
	}
	r.floor("C17/params-local", 6)

	// ---- setcoercer ----
	for _, k := range R.Kinds {
		kn := k.Obj().Name()
		var fn *ssa.Function
		for _, f := range P.Funcs {
			if f.Name() == R.MSetCoercer && f.Signature.Recv() != nil && sameNamed(namedOf(f.Signature.Recv().Type()), k) {
				fn = f
			}
		}
		if fn == nil {
			r.bad("C17/setcoercer", kn, "-", "kind has no setCoercer method")
			continue
		}
		r.sawFunc(fname(fn))
		st := k.Underlying().(*types.Struct)
		hasCoercer, wrapped := false, false
		for i := 0; i < st.NumFields(); i++ {
			if P.roleName(st.Field(i)) == "coercer" {
				hasCoercer = true
			}
			if sameNamed(st.Field(i).Type(), R.ZogSchemaN) {
				wrapped = true
			}
		}
		stores := P.recvFieldWrites(fn, 0, 0, map[*ssa.Function]bool{})
		delegates := false
		eachInstr(fn, func(_ *ssa.BasicBlock, _ int, in ssa.Instruction) {
			if ci := callOf(in); ci != nil && ci.invoke != nil && ci.invoke.Name() == R.MSetCoercer {
				if len(ci.args()) == 2 && cv(ci.args()[1]) == ssa.Value(fn.Params[1]) {
					delegates = true
				}
			}
		})
		storesParam := false
		for _, ins := range stores["coercer"] {
			if s, ok := ins.(*ssa.Store); ok && cv(s.Val) == ssa.Value(fn.Params[1]) {
				storesParam = true
			}
		}
		switch {
		case hasCoercer:
			if storesParam && len(stores) == 1 && !delegates {
				r.ok("C17/setcoercer", kn, P.pos(fn.Pos()), "leaf kind stores the given coercer in its own field only")
			} else {
				r.bad("C17/setcoercer", kn, P.pos(fn.Pos()), fmt.Sprintf("leaf kind's setCoercer does not store exactly its argument into its own coercer field (fields written: %v)", sortedKeys(stores)))
			}
		case wrapped && kn != "StructSchema" && kn != "SliceSchema":
			if delegates && len(stores) == 0 {
				r.ok("C17/setcoercer", kn, P.pos(fn.Pos()), "wrapper kind forwards the coercer to the wrapped schema")
			} else {
				r.bad("C17/setcoercer", kn, P.pos(fn.Pos()), "wrapper kind does not forward WithCoercer to the schema it wraps")
			}
		default:
			if len(stores) == 0 && !delegates {
				r.ok("C17/setcoercer", kn, P.pos(fn.Pos()), "kind without a coercer ignores setCoercer")
			} else {
				r.bad("C17/setcoercer", kn, P.pos(fn.Pos()), "kind without a coercer field acts on setCoercer")
			}
		}
	}
	r.floor("C17/setcoercer", 9)

	// ---- shared-schema-read-only: a schema object used at several places behaves at each as an
	// independent copy only if executing it never writes schema memory (C08's write-effects rule) ----
	tmp := NewResult(r.Prop, r.Tier)
	g := P.buildModCG()
	P.checkEffectsRule(tmp, g, "C17/shared-schema-read-only", sortedFuncs(P.execSet(g)), map[memClass]string{
		mcSchema:  "a schema object placed at several positions of a larger schema (or used for several destination types) would carry state from one use to the next",
		mcFreeVar: "closure captures live as long as the schema and are shared between its uses",
	})
	for _, o := range tmp.Obls {
		r.Obls = append(r.Obls, o)
		r.Instances[o.Rule]++
	}
	r.floor("C17/shared-schema-read-only", 80)
}

func isModifier(name string) bool {
	switch name {
	case "Required", "Optional", "Default", "Catch", "NotNil", "Not":
		return true
	}
	return false
}

// expectedBuilderFields: the receiver fields a builder method of this name may write.
func expectedBuilderFields(kind, name string, got []string) ([]string, bool) {
	switch name {
	case "Required", "Optional", "NotNil":
		if kind == "StructSchema" {
			return nil, true // documented no-ops
		}
		return []string{"required"}, true
	case "Default":
		return []string{"defaultVal"}, true
	case "Catch":
		return []string{"catch"}, true
	case "PostTransform":
		return []string{"postTransforms"}, true
	case "Not":
		return []string{"isNot"}, true
	case "Merge", "Pick", "Omit", "Extend":
		return nil, true
	}
	// test-adding methods: tests, plus isNot when they go through the negation consumer
	hasIsNot := false
	for _, g := range got {
		if g == "isNot" {
			hasIsNot = true
		}
	}
	if kind == "StringSchema" && hasIsNot {
		return []string{"isNot", "tests"}, true
	}
	return []string{"tests"}, true
}

// nonLocalPointerStored: a pointer stored into field f must point to memory
// local to this call (a parameter copy or a local), or be nil.
func (P *Prog) nonLocalPointerStored(fn *ssa.Function, field string) string {
	msg := ""
	eachInstr(fn, func(_ *ssa.BasicBlock, _ int, in ssa.Instruction) {
		st, ok := in.(*ssa.Store)
		if !ok {
			return
		}
		b, f := fieldVar(st.Addr)
		if f == nil || f.Name() != field || cvi(b) != ssa.Value(fn.Params[0]) {
			return
		}
		if _, isPtr := st.Val.Type().Underlying().(*types.Pointer); !isPtr {
			return
		}
		if isNilConst(st.Val) {
			return
		}
		if al, ok := st.Val.(*ssa.Alloc); ok && al.Parent() == fn {
			return
		}
		// the result of a helper that returns the address of its own local on every return: fresh per call
		if c, ok := cv(st.Val).(*ssa.Call); ok {
			if callee := callOf(c).static; callee != nil && callee.Blocks != nil && inModule(funcPkgPath(callee)) {
				fresh, n := true, 0
				eachInstr(callee, func(_ *ssa.BasicBlock, _ int, in2 ssa.Instruction) {
					if rt, ok := in2.(*ssa.Return); ok && len(rt.Results) == 1 {
						n++
						if al, ok := cv(rt.Results[0]).(*ssa.Alloc); !ok || al.Parent() != callee {
							fresh = false
						}
					}
				})
				if fresh && n > 0 {
					return
				}
			}
		}
		msg = fmt.Sprintf("the pointer stored into %s at %s is not the address of a call-local copy: the schema would alias the caller's memory", field, P.ipos(in))
	})
	return msg
}

func (P *Prog) checkNotTypestate(r *Result) {
	R := P.roles
	isNotLoad := func(v ssa.Value) bool {
		_, f := loadOfField(cv(v))
		return f != nil && P.roleName(f) == "isNot"
	}
	// the consumer: the function that branches on the negation flag
	consumer := P.notConsumer()
	// isNot writers
	nWriters := 0
	for _, fn := range P.Funcs {
		eachInstr(fn, func(b *ssa.BasicBlock, _ int, in ssa.Instruction) {
			st, ok := in.(*ssa.Store)
			if !ok {
				return
			}
			_, f := fieldVar(st.Addr)
			if f == nil || P.roleName(f) != "isNot" {
				return
			}
			nWriters++
			v, isC := constBool(st.Val)
			c := fmt.Sprintf("%s#isNot=%v", fname(fn), st.Val.Name())
			switch {
			case isC && v && fn.Name() == "Not":
				r.ok("C17/not-typestate", c, P.ipos(in), "Not() arms the negation")
			case isC && !v && fn == consumer:
				r.ok("C17/not-typestate", c, P.ipos(in), "negation cleared by the function that consumes it (its paths are decided below)")
			case isC && !v:
				r.bad("C17/not-typestate", c, P.ipos(in), "isNot is cleared on a path that did not consume it")
			default:
				r.bad("C17/not-typestate", c, P.ipos(in), "the negation flag is written by something other than Not()/its single consumer")
			}
		})
	}
	if consumer == nil {
		r.bad("C17/not-typestate", "consumer", "-", "no function consumes and clears the negation flag: Not() would negate every later test")
		return
	}
	r.sawFunc(fname(consumer))
	// consumer structure, on its decision paths (helpers entered): the flag is read before it is
	// cleared; flag set -> negated wrapper + NotIssueCode(own code) stored + flag cleared;
	// flag not set -> plain wrapper; exactly one append on every path
	ws := P.predicateWrappers()
	var negW, plainW *ssa.Function
	for _, w := range ws {
		if w.issueWhen == "true" {
			negW = w.fn
		}
		if w.issueWhen == "false" {
			plainW = w.fn
		}
	}
	spec := &pathSpec{name: "not-consumer", inlineAll: true}
	spec.keep = func(f *ssa.Function) bool { return f == negW || f == plainW || f.Name() == "NotIssueCode" }
	spec.cond = func(iff *ssa.If) (string, string, string) {
		c, neg := condKey(iff.Cond)
		if !isNotLoad(c) {
			return "", "", ""
		}
		if neg {
			return "ISNOT", "F", "T"
		}
		return "ISNOT", "T", "F"
	}
	spec.condAux = func(iff *ssa.If) ssa.Value {
		c, _ := condKey(iff.Cond)
		return c
	}
	spec.events = func(in ssa.Instruction) []pathItem {
		switch x := in.(type) {
		case *ssa.UnOp:
			if x.Op == token.MUL {
				if _, f := fieldVar(x.X); f != nil && P.roleName(f) == "isNot" {
					return []pathItem{{kind: "LOAD-ISNOT", in: in, aux: x}}
				}
			}
		case *ssa.Store:
			// (the address may be a pointer parameter of a helper bound to `&v.tests`: `func (l *testList) add(t Test)`)
			if _, f := fieldVar(cv(x.Addr)); f != nil {
				switch P.roleName(f) {
				case "isNot":
					v := "other"
					if b, isC := constBool(cv(x.Val)); isC {
						v = fmt.Sprint(b)
					}
					return []pathItem{{kind: "STORE-ISNOT", val: v, in: in}}
				case "tests":
					if sameNamed(P.fieldOwner(f), R.KindByName["StringSchema"]) || P.roles.kindFieldSet[f.Origin()] != nil {
						return []pathItem{{kind: "APPEND", in: in}}
					}
				case "IssueCode":
					if c, ok := cv(x.Val).(*ssa.Call); ok {
						if ci := callOf(c); ci.static != nil && ci.static.Name() == "NotIssueCode" {
							v := "own"
							if _, f2 := loadOfField(cv(ci.args()[0])); f2 == nil || f2.Name() != "IssueCode" {
								v = "foreign"
							}
							return []pathItem{{kind: "FLIP", val: v, in: in}}
						}
					}
				}
			}
		}
		if ci := callOf(in); ci != nil && ci.static != nil {
			switch ci.static {
			case negW:
				return []pathItem{{kind: "NEG-WRAP", in: in}}
			case plainW:
				return []pathItem{{kind: "PLAIN-WRAP", in: in}}
			}
		}
		return nil
	}
	res := P.enumPathsSpec(consumer, nil, spec)
	var problems []string
	if res.capHit {
		problems = append(problems, "too many paths to enumerate")
	}
	sawNeg, sawPlain := false, false
	for _, p := range res.paths {
		if p.end == "PANIC" {
			continue
		}
		note := func(msg string) { problems = append(problems, msg+"  [path: "+p.String()+"]") }
		var flagVal string
		var flagLoad ssa.Value
		cleared, storedBeforeLoad := false, false
		loadsSeen := map[ssa.Value]bool{}
		nNeg, nPlain, nFlip, nApp := 0, 0, 0, 0
		for _, it := range p.items {
			switch it.kind {
			case "LOAD-ISNOT":
				loadsSeen[it.aux] = true
			case "STORE-ISNOT":
				if it.val == "false" {
					cleared = true
				} else {
					note("the consumer writes something other than false into the negation flag")
				}
				if len(loadsSeen) == 0 {
					storedBeforeLoad = true
				}
			case "ISNOT":
				flagVal, flagLoad = it.val, it.aux
			case "NEG-WRAP":
				nNeg++
			case "PLAIN-WRAP":
				nPlain++
			case "FLIP":
				nFlip++
				if it.val != "own" {
					note("NotIssueCode is not applied to the test's own code")
				}
			case "APPEND":
				nApp++
			}
		}
		_ = flagLoad
		if storedBeforeLoad {
			note("the negation flag is overwritten before it is read: a pending Not() is lost")
		}
		switch flagVal {
		case "T":
			sawNeg = sawNeg || nNeg == 1
			if nNeg != 1 || nPlain != 0 {
				note("the isNot branch does not build the test with the negated wrapper")
			}
			if nFlip != 1 {
				note("the isNot branch does not replace the issue code with zconst.NotIssueCode(code)")
			}
			if !cleared {
				note("the negation is not cleared after it was consumed: Not() would negate every later test")
			}
		case "F":
			sawPlain = sawPlain || nPlain == 1
			if nPlain != 1 || nNeg != 0 {
				note("the non-negated branch does not build the test with the plain wrapper")
			}
			if nFlip != 0 {
				note("the issue code is negated although Not() was not called")
			}
		default:
			note("a path through the consumer does not look at the negation flag")
		}
		if nApp != 1 && strings.HasPrefix(p.end, "RETURN") {
			note("the test is not appended exactly once on every path")
		}
	}
	// the negated code is derived from the test's built-in code: NotIssueCode runs before any option of the
	// caller is applied (an IssueCode option applied first would be the code that gets negated)
	for _, u := range P.nodeUnits(consumer) {
		var flips, opts []ssa.Instruction
		eachInstr(u.fn, func(_ *ssa.BasicBlock, _ int, in ssa.Instruction) {
			if ci := callOf(in); ci != nil {
				if ci.static != nil && ci.static.Name() == "NotIssueCode" {
					flips = append(flips, in)
				}
				if ci.dynamic && P.optionKind(ci.instr.Common().Value.Type()) == "TestOption" {
					opts = append(opts, in)
				}
			}
		})
		for _, o := range opts {
			for _, f := range flips {
				ob, fb := o.Block(), f.Block()
				if ob == fb && instrIndex(o) < instrIndex(f) || ob != fb && reachFromSuccs(ob, nil)[fb] {
					problems = append(problems, "the issue code is negated ("+P.ipos(f)+") after the caller's options were applied ("+P.ipos(o)+"): an IssueCode option is negated instead of the built-in code")
				}
			}
		}
	}
	if !sawNeg {
		problems = append(problems, "the isNot branch does not build the test with the negated wrapper")
	}
	if !sawPlain {
		problems = append(problems, "the non-negated branch does not build the test with the plain wrapper")
	}
	if len(problems) > 0 {
		r.bad("C17/not-typestate", fname(consumer)+"#shape", P.pos(consumer.Pos()), strings.Join(uniqSorted(problems), "; "))
	} else {
		r.ok("C17/not-typestate", fname(consumer)+"#shape", P.pos(consumer.Pos()), "isNot branch: negated wrapper + NotIssueCode(code) + clear; else plain wrapper; one append")
	}
	// every exported method of the kind that appends a test looks at the negation flag first (through
	// the consumer or a helper of it): otherwise a pending Not() is not applied to the next test and
	// negates a later one instead
	for _, m := range P.Funcs {
		if m.Parent() != nil || m.Signature.Recv() == nil || !ast.IsExported(m.Name()) || R.kindOfFunc(m) != R.kindOfFunc(consumer) || R.kindOfFunc(m) == "" {
			continue
		}
		mspec := *spec
		mspec.relMemo = nil
		mspec.inlineAll = true
		mspec.keep = func(f *ssa.Function) bool {
			return f == negW || f == plainW || f.Name() == "NotIssueCode" || (f.Parent() == nil && ast.IsExported(f.Name()))
		}
		mres := P.enumPathsSpec(m, nil, &mspec)
		appends, unseen := 0, ""
		for _, p := range mres.paths {
			seen := false
			for _, it := range p.items {
				if it.kind == "ISNOT" {
					seen = true
				}
				if it.kind == "APPEND" {
					appends++
					if !seen && unseen == "" {
						unseen = p.String()
					}
				}
			}
		}
		if appends == 0 {
			continue
		}
		c := fname(m) + "#consumes-not"
		r.sawFunc(fname(m))
		switch {
		case mres.capHit:
			r.undecided("C17/not-typestate", c, P.pos(m.Pos()), "too many paths to enumerate")
		case unseen != "":
			r.bad("C17/not-typestate", c, P.pos(m.Pos()), "this method appends a test without looking at the negation flag: after Not() the test is not negated and the flag stays armed, so a later test is negated instead  [path: "+unseen+"]")
		default:
			r.ok("C17/not-typestate", c, P.pos(m.Pos()), "appends its test only after the negation flag was read")
		}
	}
	// every method of the NotStringSchema interface goes through the consumer and does not append itself
	nsObj := P.lookupObj(pkgZog, "NotStringSchema")
	if nsObj == nil {
		r.undecided("C17/not-typestate", "NotStringSchema", "-", "interface not found")
	} else if it, ok := nsObj.Type().Underlying().(*types.Interface); ok {
		for i := 0; i < it.NumMethods(); i++ {
			mname := it.Method(i).Name()
			var m *ssa.Function
			for _, fn := range P.Funcs {
				if fn.Name() == mname && fn.Parent() == nil && fn.Signature.Recv() != nil && R.kindOfFunc(fn) == "StringSchema" {
					m = fn
				}
			}
			c := "NotStringSchema." + mname
			if m == nil {
				r.bad("C17/not-typestate", c, "-", "no StringSchema method implements this interface method")
				continue
			}
			r.sawFunc(fname(m))
			S := map[*ssa.BasicBlock]bool{}
			own := false
			eachInstr(m, func(b *ssa.BasicBlock, _ int, in ssa.Instruction) {
				if ci := callOf(in); ci != nil && ci.static == consumer {
					S[b] = true
				}
				if st, ok := in.(*ssa.Store); ok {
					if _, f := fieldVar(st.Addr); f != nil && P.roleName(f) == "tests" {
						own = true
					}
				}
			})
			if ok, _ := mustPassThrough(m.Blocks[0], S); ok && !own {
				r.ok("C17/not-typestate", c, P.pos(m.Pos()), "adds its test through the negation consumer")
			} else {
				r.bad("C17/not-typestate", c, P.pos(m.Pos()), "this test can be reached through Not() but does not add its test through the function that consumes the negation: Not() is ignored here and leaks to the next test")
			}
		}
	}
	// NotIssueCode
	if fn := P.fn("zog/zconst.NotIssueCode"); fn != nil {
		r.sawFunc(fname(fn))
		okPref := false
		eachInstr(fn, func(b *ssa.BasicBlock, _ int, in ssa.Instruction) {
			rt, ok := in.(*ssa.Return)
			if !ok || len(rt.Results) != 1 {
				return
			}
			v := cv(rt.Results[0])
			if bo, ok := v.(*ssa.BinOp); ok && bo.Op == token.ADD {
				if s, isS := constString(bo.X); isS && s == "not_" && cv(bo.Y) == ssa.Value(fn.Params[0]) {
					// on the path where the code does not already have the prefix
					for _, gd := range guardsOf(b) {
						// `strings.HasPrefix(code, "not_")` or the found result of `strings.CutPrefix(code, "not_")`, false
						cond := cv(gd.If.Cond)
						if ex, ok := cond.(*ssa.Extract); ok && ex.Index == 1 {
							cond = ex.Tuple
						}
						if c, ok := cond.(*ssa.Call); ok && !gd.True {
							if ci := callOf(c); ci.static != nil && (ci.static.String() == "strings.HasPrefix" || ci.static.String() == "strings.CutPrefix") && len(c.Call.Args) == 2 {
								if pfx, isS := constString(cv(c.Call.Args[1])); isS && pfx == "not_" && cv(c.Call.Args[0]) == ssa.Value(fn.Params[0]) {
									okPref = true
								}
							}
						}
					}
					if len(guardsOf(b)) == 0 {
						okPref = true
					}
				}
			}
		})
		if okPref {
			r.ok("C17/not-typestate", "zconst.NotIssueCode", P.pos(fn.Pos()), "returns \"not_\" + code for a code without the prefix")
		} else {
			r.bad("C17/not-typestate", "zconst.NotIssueCode", P.pos(fn.Pos()), "NotIssueCode does not return \"not_\" + code for an un-prefixed code")
		}
	} else {
		r.broken("anchor zconst.NotIssueCode not found")
	}
	r.floor("C17/not-typestate", 10)
	_ = nWriters
}

// checkOptionLocality: wherever a TestOption value is invoked, its argument is
// a Test local to that call which is the value that ends up in the schema.
func (P *Prog) checkOptionLocality(r *Result) {
	R := P.roles
	n := 0
	for _, fn := range P.Funcs {
		if fn.Parent() != nil || fn.Blocks == nil {
			continue
		}
		// the parameter holding the test options (variadic on the API, a plain slice on helpers)
		var optsParam ssa.Value
		for _, prm := range fn.Params {
			if sl, ok := prm.Type().Underlying().(*types.Slice); ok && P.optionKind(sl.Elem()) == "TestOption" {
				optsParam = prm
			}
		}
		if optsParam == nil {
			continue
		}
		if strings.Contains(funcPkgPath(fn), "/tutils") {
			continue
		}
		n++
		r.sawFunc(fname(fn))
		c := fname(fn)
		var problems []string
		invoked, forwarded := false, false
		eachInstr(fn, func(_ *ssa.BasicBlock, _ int, in ssa.Instruction) {
			ci := callOf(in)
			if ci == nil {
				return
			}
			if ci.dynamic {
				fromOpts := false
				for _, rt := range P.rootsOf(ci.instr.Common().Value) {
					if rt.kind == rkParam && rt.v == optsParam {
						fromOpts = true
					}
				}
				if !fromOpts {
					return
				}
				invoked = true
				a := cv(ci.args()[0])
				al, isAlloc := a.(*ssa.Alloc)
				if !isAlloc || al.Parent() != fn {
					// fresh *Test from a composite literal in this function is also fine
					problems = append(problems, "an option is applied to a Test that is not local to this call ("+P.ipos(in)+"): it would modify a test already in the schema or shared with another schema")
					return
				}
				if !P.testLocalIsResult(fn, al) {
					problems = append(problems, "the Test the options were applied to is not the one added to the schema ("+P.ipos(in)+")")
				}
				// the copy that goes into the schema is taken after the options have run: a copy taken before
				// (append / pass by value / return of *t, then the option loop) never sees Message, IssueCode,
				// IssuePath or Params
				if at := copiedBefore(al, in); at != nil {
					problems = append(problems, "the Test is copied into the schema at "+P.ipos(at)+", before the options are applied to it ("+P.ipos(in)+"): the options have no effect")
				}
				return
			}
			if ci.static != nil {
				for _, a := range ci.args() {
					if cv(a) == optsParam {
						// forwarded: the callee carries this obligation itself
						cl := ci.static
						if cl.Blocks != nil && inModule(funcPkgPath(cl)) {
							forwarded = true
						}
					}
				}
			}
		})
		switch {
		case len(problems) > 0:
			r.bad("C17/option-locality", c, P.pos(fn.Pos()), strings.Join(uniqSorted(problems), "; "))
		case !invoked && !forwarded:
			if R.kindOfFunc(fn) == "StructSchema" && (fn.Name() == "Required") {
				r.ok("C17/option-locality", c, P.pos(fn.Pos()), "documented no-op")
			} else {
				r.bad("C17/option-locality", c, P.pos(fn.Pos()), "the given test options are neither applied nor passed on: Message/IssueCode/IssuePath/Params are ignored")
			}
		default:
			how := "applied to the call-local Test that is added"
			if forwarded {
				how = "forwarded to a function that applies them to its own local Test"
			}
			r.ok("C17/option-locality", c, P.pos(fn.Pos()), how)
		}
	}
	r.floor("C17/option-locality", 30)
}

// testLocalIsResult: the local Test `al` is what ends up in the schema: its
// value is appended to a tests field, passed (by value) to a module function,
// returned, or its address is stored into the required field / returned.
func (P *Prog) testLocalIsResult(fn *ssa.Function, al *ssa.Alloc) bool {
	ok := false
	if refs := al.Referrers(); refs != nil {
		for _, rf := range *refs {
			switch x := rf.(type) {
			case *ssa.Store:
				if x.Val == ssa.Value(al) {
					ok = true // address stored (v.required = &r)
				}
			case *ssa.Return:
				ok = true
			case *ssa.UnOp:
				// load of the value: used by append / call / return / store
				if x.Referrers() != nil {
					for _, u := range *x.Referrers() {
						switch u.(type) {
						case *ssa.Call, *ssa.Return, *ssa.Store, *ssa.MakeInterface:
							ok = true
						}
					}
				}
			case *ssa.Call:
				ok = true
			}
		}
	}
	return ok
}

// copiedBefore: a by-value use of the local Test al (its loaded value appended,
// stored, returned or passed to a call) from which the option call opt can
// still be reached: that copy is taken before the option runs.
func copiedBefore(al *ssa.Alloc, opt ssa.Instruction) ssa.Instruction {
	refs := al.Referrers()
	if refs == nil {
		return nil
	}
	for _, rf := range *refs {
		ld, ok := rf.(*ssa.UnOp)
		if !ok || ld.Op != token.MUL || ld.Referrers() == nil {
			continue
		}
		escapes := false
		for _, u := range *ld.Referrers() {
			switch x := u.(type) {
			case *ssa.Call, *ssa.Return, *ssa.MakeInterface:
				escapes = true
			case *ssa.Store:
				// into a varargs array for append, or into a field / another variable
				if x.Val == ssa.Value(ld) {
					escapes = true
				}
			}
		}
		if !escapes {
			continue
		}
		lb, ob := ld.Block(), opt.Block()
		if lb == ob && instrIndex(ld) < instrIndex(opt) || reachFromSuccs(lb, nil)[ob] {
			return ld
		}
	}
	return nil
}

// notConsumer: the function that branches on the negation flag (the bool field Not() sets), whatever it is called.
func (P *Prog) notConsumer() *ssa.Function {
	if P.notConsumerDone {
		return P.notConsumerFn
	}
	P.notConsumerDone = true
	for _, fn := range P.Funcs {
		if fn.Parent() != nil {
			continue
		}
		eachInstr(fn, func(_ *ssa.BasicBlock, _ int, in ssa.Instruction) {
			if iff, ok := in.(*ssa.If); ok {
				c, _ := condKey(iff.Cond)
				if _, f := loadOfField(cv(c)); f != nil && P.roleName(f) == "isNot" {
					P.notConsumerFn = fn
				}
			}
		})
	}
	return P.notConsumerFn
}
