package main

import (
	"fmt"
	"go/constant"
	"go/token"
	"go/types"
	"strings"

	"golang.org/x/tools/go/ssa"
)

// A small abstract interpreter for string-joining code such as
// PathBuilder.String: the behaviour of such code depends on each segment only
// through finitely many classes (empty / starts with '[' / anything else), so
// interpreting the SSA once per vector of classes decides it for every input.
// Integers, booleans and bytes are concrete; strings are a class plus the
// identity of the segment (or constant) they came from; everything else is
// opaque. Any instruction outside this vocabulary makes the result undecided.

type segClass int

const (
	scEmpty   segClass = iota // ""
	scBracket                 // starts with '['
	scOther                   // non-empty, does not start with '['
)

type absVal struct {
	kind  string // "int", "bool", "byte", "str", "segs", "ptrseg", "opaque"
	i     int64
	b     bool
	cls   segClass
	name  string // for str: "seg<k>" or a quoted constant
	index int    // ptrseg: element index
}

type absInterp struct {
	segs    []segClass
	env     map[ssa.Value]absVal
	cells   map[ssa.Value]absVal // local allocs
	out     []string             // emitted tokens
	problem string
	panics  string
	segsOf  func(v ssa.Value) bool // v denotes the segment slice (load of the receiver)
	depth   int                    // helpers being interpreted
	ret     absVal                 // value of the last interpreted return
}

func classOfConst(s string) segClass {
	switch {
	case s == "":
		return scEmpty
	case s[0] == '[':
		return scBracket
	}
	return scOther
}

func (ai *absInterp) val(v ssa.Value) absVal {
	if av, ok := ai.env[v]; ok {
		return av
	}
	switch x := v.(type) {
	case *ssa.Const:
		if x.Value == nil {
			return absVal{kind: "opaque"}
		}
		switch x.Value.Kind() {
		case constant.Bool:
			return absVal{kind: "bool", b: constant.BoolVal(x.Value)}
		case constant.Int:
			k, _ := constant.Int64Val(x.Value)
			if b, ok := x.Type().Underlying().(*types.Basic); ok && (b.Kind() == types.Uint8 || b.Kind() == types.Int32 && false) {
				return absVal{kind: "byte", i: k}
			}
			return absVal{kind: "int", i: k}
		case constant.String:
			s := constant.StringVal(x.Value)
			return absVal{kind: "str", cls: classOfConst(s), name: fmt.Sprintf("%q", s)}
		}
	}
	return absVal{kind: "opaque"}
}

func (ai *absInterp) fail(format string, a ...interface{}) {
	if ai.problem == "" {
		ai.problem = fmt.Sprintf(format, a...)
	}
}

// run interprets fn from its entry; returns false when undecided or panicking.
func (ai *absInterp) run(fn *ssa.Function) bool {
	b := fn.Blocks[0]
	var prev *ssa.BasicBlock
	for steps := 0; steps < 2000; steps++ {
		// phis first, in parallel
		nv := map[ssa.Value]absVal{}
		for _, in := range b.Instrs {
			ph, ok := in.(*ssa.Phi)
			if !ok {
				break
			}
			for i, p := range b.Preds {
				if p == prev {
					nv[ph] = ai.val(ph.Edges[i])
				}
			}
		}
		for k, v := range nv {
			ai.env[k] = v
		}
		for _, in := range b.Instrs {
			if _, isPhi := in.(*ssa.Phi); isPhi {
				continue
			}
			if !ai.step(in) {
				return false
			}
		}
		last := b.Instrs[len(b.Instrs)-1]
		var next *ssa.BasicBlock
		switch t := last.(type) {
		case *ssa.Return:
			ai.ret = absVal{kind: "opaque"}
			if len(t.Results) == 1 {
				ai.ret = ai.val(t.Results[0])
			}
			return true
		case *ssa.Jump:
			next = b.Succs[0]
		case *ssa.If:
			c := ai.val(t.Cond)
			if c.kind != "bool" {
				ai.fail("branch on a value the abstraction does not track at %v", t.Pos())
				return false
			}
			if c.b {
				next = b.Succs[0]
			} else {
				next = b.Succs[1]
			}
		case *ssa.Panic:
			ai.panics = "explicit panic"
			return false
		default:
			ai.fail("unexpected terminator %T", last)
			return false
		}
		prev, b = b, next
	}
	ai.fail("step limit")
	return false
}

func (ai *absInterp) step(in ssa.Instruction) bool {
	switch x := in.(type) {
	case *ssa.DebugRef, *ssa.Defer, *ssa.RunDefers, *ssa.Jump, *ssa.If, *ssa.Return:
		return true
	case *ssa.Alloc:
		ai.env[x] = absVal{kind: "opaque"}
		return true
	case *ssa.Store:
		if _, isAl := x.Addr.(*ssa.Alloc); isAl {
			ai.cells[x.Addr] = ai.val(x.Val)
			return true
		}
		ai.fail("store outside a local at %v", x.Pos())
		return false
	case *ssa.UnOp:
		switch x.Op {
		case token.MUL:
			if ai.segsOf(x.X) {
				ai.env[x] = absVal{kind: "segs"}
				return true
			}
			if al, isAl := x.X.(*ssa.Alloc); isAl {
				if v, ok := ai.cells[al]; ok {
					ai.env[x] = v
				} else {
					ai.env[x] = absVal{kind: "opaque"}
				}
				return true
			}
			if pv := ai.val(x.X); pv.kind == "ptrseg" {
				if pv.index < 0 || pv.index >= len(ai.segs) {
					ai.panics = "index out of range"
					return false
				}
				ai.env[x] = absVal{kind: "str", cls: ai.segs[pv.index], name: fmt.Sprintf("seg%d", pv.index)}
				return true
			}
			ai.env[x] = absVal{kind: "opaque"}
			return true
		case token.NOT:
			v := ai.val(x.X)
			if v.kind != "bool" {
				ai.fail("negation of an untracked value")
				return false
			}
			ai.env[x] = absVal{kind: "bool", b: !v.b}
			return true
		}
	case *ssa.IndexAddr:
		base, idx := ai.val(x.X), ai.val(x.Index)
		if base.kind == "segs" && idx.kind == "int" {
			ai.env[x] = absVal{kind: "ptrseg", index: int(idx.i)}
			if idx.i < 0 || int(idx.i) >= len(ai.segs) {
				ai.panics = "index out of range"
				return false
			}
			return true
		}
		ai.env[x] = absVal{kind: "opaque"}
		return true
	case *ssa.Index:
		base, idx := ai.val(x.X), ai.val(x.Index)
		if base.kind == "segs" && idx.kind == "int" {
			if idx.i < 0 || int(idx.i) >= len(ai.segs) {
				ai.panics = "index out of range"
				return false
			}
			ai.env[x] = absVal{kind: "str", cls: ai.segs[idx.i], name: fmt.Sprintf("seg%d", idx.i)}
			return true
		}
		if base.kind == "str" {
			return ai.stringIndex(x, base, idx)
		}
		ai.env[x] = absVal{kind: "opaque"}
		return true
	case *ssa.Lookup:
		// s[k] on a string
		s, k := ai.val(x.X), ai.val(x.Index)
		if s.kind == "str" {
			return ai.stringIndex(x, s, k)
		}
		if s.kind == "str" && k.kind == "int" && k.i == 0 {
			switch s.cls {
			case scEmpty:
				ai.panics = "index 0 of an empty segment"
				return false
			case scBracket:
				ai.env[x] = absVal{kind: "byte", i: '['}
			default:
				ai.env[x] = absVal{kind: "byte", i: 'a'}
			}
			return true
		}
		ai.fail("string indexing other than s[0] at %v", x.Pos())
		return false
	case *ssa.BinOp:
		a, c := ai.val(x.X), ai.val(x.Y)
		switch {
		case a.kind == "int" && c.kind == "int":
			switch x.Op {
			case token.ADD:
				ai.env[x] = absVal{kind: "int", i: a.i + c.i}
			case token.SUB:
				ai.env[x] = absVal{kind: "int", i: a.i - c.i}
			case token.LSS:
				ai.env[x] = absVal{kind: "bool", b: a.i < c.i}
			case token.LEQ:
				ai.env[x] = absVal{kind: "bool", b: a.i <= c.i}
			case token.GTR:
				ai.env[x] = absVal{kind: "bool", b: a.i > c.i}
			case token.GEQ:
				ai.env[x] = absVal{kind: "bool", b: a.i >= c.i}
			case token.EQL:
				ai.env[x] = absVal{kind: "bool", b: a.i == c.i}
			case token.NEQ:
				ai.env[x] = absVal{kind: "bool", b: a.i != c.i}
			default:
				ai.fail("integer operator %s", x.Op)
				return false
			}
			return true
		case (a.kind == "byte" || a.kind == "int") && (c.kind == "byte" || c.kind == "int") && (x.Op == token.EQL || x.Op == token.NEQ):
			ai.env[x] = absVal{kind: "bool", b: (a.i == c.i) == (x.Op == token.EQL)}
			return true
		case a.kind == "str" && c.kind == "str" && (x.Op == token.EQL || x.Op == token.NEQ):
			// only comparisons with the empty string are decided by the class
			var other absVal
			switch {
			case c.name == `""`:
				other = a
			case a.name == `""`:
				other = c
			default:
				ai.fail("comparison of two segments at %v", x.Pos())
				return false
			}
			ai.env[x] = absVal{kind: "bool", b: (other.cls == scEmpty) == (x.Op == token.EQL)}
			return true
		case a.kind == "bool" && c.kind == "bool":
			switch x.Op {
			case token.AND:
				ai.env[x] = absVal{kind: "bool", b: a.b && c.b}
			case token.OR:
				ai.env[x] = absVal{kind: "bool", b: a.b || c.b}
			case token.EQL:
				ai.env[x] = absVal{kind: "bool", b: a.b == c.b}
			case token.NEQ:
				ai.env[x] = absVal{kind: "bool", b: a.b != c.b}
			default:
				ai.fail("boolean operator %s", x.Op)
				return false
			}
			return true
		}
		ai.fail("operator %s on values the abstraction does not track (%s %s / %s %s)", x.Op, a.kind, a.name, c.kind, c.name)
		return false
	case *ssa.Call:
		ci := callOf(x)
		if ci.builtin == "len" {
			a := ai.val(x.Call.Args[0])
			switch a.kind {
			case "segs":
				ai.env[x] = absVal{kind: "int", i: int64(len(ai.segs))}
				return true
			case "str":
				if a.cls == scEmpty {
					ai.env[x] = absVal{kind: "int", i: 0}
				} else {
					ai.env[x] = absVal{kind: "int", i: 1} // positive; only comparisons with 0 are meaningful
				}
				return true
			}
		}
		if ci.static != nil {
			switch ci.static.String() {
			case "(*strings.Builder).WriteString":
				s := ai.val(x.Call.Args[1])
				if s.kind != "str" {
					ai.fail("a string the abstraction does not track is written at %v", x.Pos())
					return false
				}
				if s.cls != scEmpty { // writing an empty string writes nothing
					ai.out = append(ai.out, s.name)
				}
				ai.env[x] = absVal{kind: "opaque"}
				return true
			case "(*strings.Builder).WriteByte", "(*strings.Builder).WriteRune":
				c := ai.val(x.Call.Args[1])
				if c.kind != "byte" && c.kind != "int" {
					ai.fail("an untracked byte is written")
					return false
				}
				ai.out = append(ai.out, fmt.Sprintf("%q", string(rune(c.i))))
				ai.env[x] = absVal{kind: "opaque"}
				return true
			case "strings.HasPrefix":
				s, pfx := ai.val(x.Call.Args[0]), ai.val(x.Call.Args[1])
				if s.kind == "str" && pfx.name == `"["` {
					ai.env[x] = absVal{kind: "bool", b: s.cls == scBracket}
					return true
				}
				ai.fail("strings.HasPrefix with a prefix other than \"[\"")
				return false
			}
		}
		// a helper of the module that is handed tracked values (`needsSeparator(prev, segment)`) is
		// interpreted in turn, its parameters bound to the abstract arguments
		if g := ci.static; g != nil && g.Blocks != nil && inModule(funcPkgPath(g)) && ai.depth < 3 && len(g.FreeVars) == 0 && g.Signature.Results().Len() <= 1 {
			tracked := false
			for _, a := range x.Call.Args {
				if av := ai.val(a); av.kind == "segs" || av.kind == "ptrseg" || av.kind == "str" {
					tracked = true
				}
			}
			if _, isCall := in.(*ssa.Call); isCall && tracked && len(g.Params) == len(x.Call.Args) {
				for i, prm := range g.Params {
					ai.env[prm] = ai.val(x.Call.Args[i])
				}
				ai.depth++
				ok := ai.run(g)
				ai.depth--
				if !ok {
					return false
				}
				ai.env[x] = ai.ret
				return true
			}
		}
		// any other call: its result is opaque; it must not receive the segments
		for _, a := range x.Call.Args {
			if av := ai.val(a); av.kind == "segs" || av.kind == "str" && strings.HasPrefix(av.name, "seg") {
				ai.fail("a segment is handed to %s, which the abstraction does not model", ci.calleeName())
				return false
			}
		}
		ai.env[x] = absVal{kind: "opaque"}
		return true
	case *ssa.Extract, *ssa.MakeInterface, *ssa.ChangeType, *ssa.Convert, *ssa.TypeAssert, *ssa.FieldAddr, *ssa.Field, *ssa.Slice, *ssa.MakeClosure:
		if v, ok := in.(ssa.Value); ok {
			ai.env[v] = absVal{kind: "opaque"}
		}
		return true
	}
	ai.fail("instruction %T outside the abstraction's vocabulary", in)
	return false
}

// stringIndex: s[k]; only s[0] is decided by the class of s.
func (ai *absInterp) stringIndex(x ssa.Value, s, k absVal) bool {
	if k.kind != "int" || k.i != 0 {
		ai.fail("string indexing other than s[0]")
		return false
	}
	switch s.cls {
	case scEmpty:
		ai.panics = "index 0 of an empty segment"
		return false
	case scBracket:
		ai.env[x] = absVal{kind: "byte", i: '['}
	default:
		ai.env[x] = absVal{kind: "byte", i: 'a'}
	}
	return true
}
