package main

import (
	"go/types"

	"golang.org/x/tools/go/ssa"
)

// fieldSet is a set of struct fields keyed by origin var.
type fieldSet map[*types.Var]bool

func (s fieldSet) clone() fieldSet {
	o := fieldSet{}
	for k := range s {
		o[k] = true
	}
	return o
}
func (s fieldSet) intersect(o fieldSet) fieldSet {
	r := fieldSet{}
	for k := range s {
		if o[k] {
			r[k] = true
		}
	}
	return r
}
func (s fieldSet) equal(o fieldSet) bool {
	if len(s) != len(o) {
		return false
	}
	for k := range s {
		if !o[k] {
			return false
		}
	}
	return true
}

func allFields(st *types.Struct) fieldSet {
	fs := fieldSet{}
	for i := 0; i < st.NumFields(); i++ {
		fs[st.Field(i).Origin()] = true
	}
	return fs
}

// mustStoreAnalysis computes, for an object identified by isObj (over
// canonical values), the set of its fields definitely stored on every path
// from (startBlock,startIdx) to each Return. The result is the intersection
// over all reachable returns. summaries supplies fields a static callee
// definitely stores through the argument at index i.
type mustStore struct {
	P      *Prog
	fn     *ssa.Function
	isObj  func(v ssa.Value) bool
	st     *types.Struct
	depth  int
	wholes bool // saw a whole-struct store
	// valOK, when set, restricts which stored values count; a store of any other
	// value removes the field from the set.
	valOK func(v ssa.Value) bool
}

func (m *mustStore) transfer(in ssa.Instruction, cur fieldSet) {
	switch x := in.(type) {
	case *ssa.Store:
		if base, f := fieldVar(x.Addr); f != nil && m.isObj(cv(base)) {
			if m.valOK != nil && !m.valOK(x.Val) {
				delete(cur, f.Origin())
			} else {
				cur[f.Origin()] = true
			}
		} else if m.isObj(cv(x.Addr)) {
			// *obj = T{...}
			for k := range allFields(m.st) {
				cur[k] = true
			}
		}
	default:
		ci := callOf(in)
		if ci == nil || ci.static == nil || m.depth >= 3 {
			return
		}
		if _, isDefer := in.(*ssa.Defer); isDefer {
			return
		}
		if _, isGo := in.(*ssa.Go); isGo {
			return
		}
		for i, a := range ci.args() {
			if !m.isObj(cv(a)) {
				continue
			}
			if ci.static.Blocks == nil || i >= len(ci.static.Params) {
				continue
			}
			prm := ci.static.Params[i]
			sub := &mustStore{P: m.P, fn: ci.static, st: m.st, depth: m.depth + 1, valOK: m.valOK,
				isObj: func(v ssa.Value) bool { return v == ssa.Value(prm) }}
			for k := range sub.run(ci.static.Blocks[0], 0) {
				cur[k] = true
			}
		}
	}
}

func (m *mustStore) run(start *ssa.BasicBlock, startIdx int) fieldSet {
	universe := allFields(m.st)
	out := map[*ssa.BasicBlock]fieldSet{}
	inOf := func(b *ssa.BasicBlock) fieldSet {
		if b == start {
			return fieldSet{}
		}
		var acc fieldSet
		for _, p := range b.Preds {
			o, ok := out[p]
			if !ok {
				continue // unvisited: top
			}
			if acc == nil {
				acc = o.clone()
			} else {
				acc = acc.intersect(o)
			}
		}
		if acc == nil {
			return universe.clone()
		}
		return acc
	}
	reachable := reach(start, nil)
	changed := true
	var result fieldSet
	for iter := 0; changed && iter < 100; iter++ {
		changed = false
		result = nil
		for _, b := range m.fn.Blocks {
			if !reachable[b] {
				continue
			}
			cur := inOf(b)
			from := 0
			if b == start {
				from = startIdx
			}
			for i := from; i < len(b.Instrs); i++ {
				m.transfer(b.Instrs[i], cur)
			}
			if old, ok := out[b]; !ok || !old.equal(cur) {
				out[b] = cur
				changed = true
			}
			if isExit(b) {
				if result == nil {
					result = cur.clone()
				} else {
					result = result.intersect(cur)
				}
			}
		}
	}
	if result == nil {
		return fieldSet{}
	}
	return result
}
