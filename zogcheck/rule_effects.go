package main

import (
	"fmt"
	"sort"
	"strings"

	"golang.org/x/tools/go/ssa"
)

// resolveUnknownParam classifies the memory behind a parameter whose own type
// says nothing (any, *T, map...) by classifying the actual arguments at every
// call site in the module (bounded depth).
func (P *Prog) resolveUnknownParam(g *modCG, c classified, depth int, seen map[*ssa.Parameter]bool) []classified {
	if c.class != mcUnknownParam || depth > 5 {
		return []classified{c}
	}
	p := c.rt.v.(*ssa.Parameter)
	if seen[p] {
		return nil
	}
	seen[p] = true
	defer delete(seen, p)
	fn := p.Parent()
	idx := -1
	for i, q := range fn.Params {
		if q == p {
			idx = i
		}
	}
	sites := g.sites[fn]
	if len(sites) == 0 || idx < 0 {
		return []classified{c}
	}
	var out []classified
	for _, s := range sites {
		ci := callOf(s)
		args := ci.args()
		// variadic / closure mismatch guard
		if idx >= len(args) {
			continue
		}
		for _, rt := range P.rootsOf(args[idx]) {
			// re-apply the path walked inside the callee
			for _, st := range c.rt.path {
				rt = rt.with(st)
			}
			cc := P.classify(rt)
			out = append(out, P.resolveUnknownParam(g, cc, depth+1, seen)...)
		}
	}
	if len(out) == 0 {
		return []classified{c}
	}
	return out
}

type effectFinding struct {
	w       writeSite
	classes []classified
}

// writeEffects classifies every write of every function in fns.
func (P *Prog) writeEffects(g *modCG, fns []*ssa.Function) []effectFinding {
	var out []effectFinding
	for _, fn := range fns {
		for _, w := range P.writeSites(fn) {
			var cls []classified
			for _, c := range P.classesOfWrite(w) {
				cls = append(cls, P.resolveUnknownParam(g, c, 0, map[*ssa.Parameter]bool{})...)
			}
			out = append(out, effectFinding{w, cls})
		}
	}
	return out
}

func sortedFuncs(m map[*ssa.Function]bool) []*ssa.Function {
	var out []*ssa.Function
	for f := range m {
		out = append(out, f)
	}
	sort.Slice(out, func(i, j int) bool { return fname(out[i]) < fname(out[j]) })
	return out
}

// checkEffectsRule reports, per function of fns, whether any write touches a
// forbidden memory class.
func (P *Prog) checkEffectsRule(r *Result, g *modCG, rule string, fns []*ssa.Function, forbidden map[memClass]string) {
	for _, fn := range fns {
		r.sawFunc(fname(fn))
		ws := P.writeEffects(g, []*ssa.Function{fn})
		var bad []string
		var pos string
		nw := 0
		for _, ef := range ws {
			nw++
			for _, c := range ef.classes {
				// state that execution code never reads carries nothing between executions (a counter, a timing) -
				// provided the write itself is atomic: a plain store to a package variable from two executions at
				// once is a data race whether or not anybody reads it
				if c.class == mcGlobal {
					if g, isG := c.rt.v.(*ssa.Global); isG && P.writeOnlyInExecution(g) && atomicWriteOnly(callOf(ef.w.in)) {
						continue
					}
				}
				if why, isBad := forbidden[c.class]; isBad {
					if pos == "" {
						pos = P.ipos(ef.w.in)
					}
					bad = append(bad, fmt.Sprintf("%s at %s writes %s memory (%s): %s [root: %s]", ef.w.what, P.ipos(ef.w.in), c.class, why, shortName(ef.w.in.String()), c.rt))
				}
			}
		}
		if len(bad) > 0 {
			sort.Strings(bad)
			bad = uniq(bad)
			r.bad(rule, fname(fn), pos, fmt.Sprintf("%d write(s) to memory the execution does not own", len(bad)), bad...)
		} else {
			r.ok(rule, fname(fn), P.pos(fn.Pos()), fmt.Sprintf("%d write instruction(s), all to local / per-call / destination memory", nw))
		}
	}
}

func uniq(s []string) []string {
	var out []string
	for i, x := range s {
		if i == 0 || x != s[i-1] {
			out = append(out, x)
		}
	}
	return out
}

// checkNoGlobalState (C07): no function reachable from an execution stores to
// a package-level variable or a closure capture.
func (P *Prog) checkNoGlobalState(r *Result) {
	g := P.buildModCG()
	E := P.execSet(g)
	fns := sortedFuncs(E)
	P.checkEffectsRule(r, g, "C07/no-global-state", fns, map[memClass]string{
		mcGlobal:  "state in a package-level variable survives into later executions",
		mcFreeVar: "state in a closure capture survives into later executions",
	})
	r.floor("C07/no-global-state", 30)
	// positive control: the classifier must see ClearPools' stores as global writes
	ctl := P.fn("zog/internals.ClearPools")
	if ctl == nil {
		r.info("positive control ClearPools not found; using any function that stores to a global")
	}
	found := false
	for _, fn := range P.Funcs {
		if E[fn] {
			continue
		}
		for _, ef := range P.writeEffects(g, []*ssa.Function{fn}) {
			for _, c := range ef.classes {
				if c.class == mcGlobal {
					found = true
				}
			}
		}
		if found {
			break
		}
	}
	if !found {
		r.broken("positive control failed: no store to a package-level variable recognised anywhere in the module (ClearPools / SetLanguagesErrsMap expected)")
	}
}

func joinNames(fs []*ssa.Function) string {
	var s []string
	for _, f := range fs {
		s = append(s, fname(f))
	}
	return strings.Join(s, ", ")
}
