package main

import (
	"fmt"
	"go/token"
	"go/types"
	"strings"

	"golang.org/x/tools/go/ssa"
)

func init() {
	register("C01", checkC01)
	register("C05", checkC05)
	register("C09", checkC09)
}

// ---------- shared: node functions and their events ----------

// nodeFuncs: the 18 dispatch methods + the primitive pipelines.
func (P *Prog) nodeFuncs() []*ssa.Function {
	R := P.roles
	var out []*ssa.Function
	for _, k := range sortedKeys(R.Process) {
		out = append(out, R.Process[k])
	}
	for _, k := range sortedKeys(R.Validate) {
		out = append(out, R.Validate[k])
	}
	out = append(out, R.Pipelines...)
	return out
}

func (P *Prog) isSchemaCtxMethod(ci *callInfo, name string) bool {
	if ci == nil || ci.static == nil || ci.static.Name() != name || ci.static.Signature.Recv() == nil {
		return false
	}
	return sameNamed(namedOf(ci.static.Signature.Recv().Type()), P.roles.SchemaCtx)
}

// isAddIssue: static (*SchemaCtx).AddIssue or interface Ctx.AddIssue.
func (P *Prog) isAddIssue(ci *callInfo) bool {
	if ci == nil {
		return false
	}
	if P.isSchemaCtxMethod(ci, "AddIssue") {
		return true
	}
	return ci.invoke != nil && ci.invoke.Name() == "AddIssue"
}

// isTestFuncCall: dynamic call of a value loaded from field Func of a Test.
func (P *Prog) isTestFuncCall(ci *callInfo) bool {
	if ci == nil || !ci.dynamic {
		return false
	}
	_, f := loadOfField(cv(ci.instr.Common().Value))
	return f != nil && sameField(f, structField(P.roles.Test, "Func"))
}

// testsLoopSetup: instruction computes len(X) with X in the tests role.
func (P *Prog) isLenOfRole(in ssa.Instruction, role string) bool {
	ci := callOf(in)
	if ci == nil || ci.builtin != "len" {
		return false
	}
	return P.roleOf(ci.instr.Common().Args[0]) == role
}

type nodeEvents struct {
	blocks map[*ssa.BasicBlock][]string
	// skip edges: (from block, succ index) where the node is optional and absent
	skipEdges map[[2]int]bool
}

func isNilCompare(v ssa.Value) (x ssa.Value, eq bool, ok bool) {
	b, isB := v.(*ssa.BinOp)
	if !isB || (b.Op != token.EQL && b.Op != token.NEQ) {
		return nil, false, false
	}
	switch {
	case isNilConst(b.Y):
		return b.X, b.Op == token.EQL, true
	case isNilConst(b.X):
		return b.Y, b.Op == token.EQL, true
	}
	return nil, false, false
}

func (P *Prog) eventsOf(fn *ssa.Function) nodeEvents {
	R := P.roles
	ev := nodeEvents{blocks: map[*ssa.BasicBlock][]string{}, skipEdges: map[[2]int]bool{}}
	ca := P.newCatchAnalysis()
	for _, b := range fn.Blocks {
		for _, in := range b.Instrs {
			ci := callOf(in)
			if _, d := in.(*ssa.Defer); d {
				continue
			}
			switch {
			case P.isAddIssue(ci):
				ev.blocks[b] = append(ev.blocks[b], "ISSUE")
			case P.isLenOfRole(in, "tests"):
				ev.blocks[b] = append(ev.blocks[b], "TESTS")
			case P.isTestFuncCall(ci):
				ev.blocks[b] = append(ev.blocks[b], "CALL-TEST")
			default:
				if name, ok := ca.dispatchCallee(ci); ok {
					if ci.invoke != nil {
						ev.blocks[b] = append(ev.blocks[b], "CHILD")
					} else {
						ev.blocks[b] = append(ev.blocks[b], "DELEGATE:"+name)
					}
				}
			}
			if st, ok := in.(*ssa.Store); ok {
				// CATCH: *dest = *catch
				if u, ok := st.Val.(*ssa.UnOp); ok && u.Op == token.MUL && P.roleOf(u.X) == "catch" {
					ev.blocks[b] = append(ev.blocks[b], "CATCH")
				}
			}
		}
		if iff := condOf(b); iff != nil {
			if x, eq, ok := isNilCompare(iff.Cond); ok && P.roleOf(x) == "required" {
				if eq {
					ev.skipEdges[[2]int{b.Index, 0}] = true // required == nil: true edge skips
				} else {
					ev.skipEdges[[2]int{b.Index, 1}] = true // required != nil: false edge skips
				}
			}
		}
	}
	_ = R
	return ev
}

// silentExit finds a return reachable from entry without any event block and
// without a skip edge.
func silentExit(fn *ssa.Function, ev nodeEvents) *ssa.BasicBlock {
	seen := map[*ssa.BasicBlock]bool{}
	var w []*ssa.BasicBlock
	if len(ev.blocks[fn.Blocks[0]]) == 0 {
		w = append(w, fn.Blocks[0])
		seen[fn.Blocks[0]] = true
	}
	var bad *ssa.BasicBlock
	for len(w) > 0 {
		b := w[len(w)-1]
		w = w[:len(w)-1]
		if isExit(b) && (bad == nil || b.Index < bad.Index) {
			bad = b
		}
		for k, s := range b.Succs {
			if ev.skipEdges[[2]int{b.Index, k}] || seen[s] || len(ev.blocks[s]) > 0 {
				continue
			}
			seen[s] = true
			w = append(w, s)
		}
	}
	return bad
}

// ---------- C01 ----------

func checkC01(P *Prog, r *Result) {
	R := P.roles
	r.Explanation = "Decides four structural necessary conditions of 'success means valid', for every schema tree and input at once because the node-handling code is finite: " +
		"(no-silent-exit) every path through each of the 18 process/validate methods and the 2 primitive pipelines emits an issue, takes the optional-absent skip or the catch path, " +
		"runs the node's test loop, or delegates to the child schema; (sink) an issue handed to AddIssue is dropped only on the CanCatch path and otherwise is appended exactly once " +
		"to the execution's container; (predicate-to-issue) the bool-test wrappers emit an issue exactly when the predicate fails (resp. passes for the negated wrapper); " +
		"(child-clean) the context handed to every child node has CanCatch/Exit/HasCaught definitely false, so no constraint is skipped because of a sibling, earlier element or earlier call. " +
		"It does not decide that each predicate is the right predicate (C20) nor that the stored value is the documented coercion (C03)."
	r.Assumptions = []string{"user-written custom tests report failure through ctx.AddIssue", "interface dispatch on ZogSchema is closed over the module's schema kinds"}

	// (a) no-silent-exit: on the decision paths of the node function (helpers inlined)
	for _, fn := range P.nodeFuncs() {
		r.sawFunc(fname(fn))
		paths, capHit := P.nodePaths(fn)
		if capHit {
			// too many paths: the block-level form (no helper inlining)
			ev := P.eventsOf(fn)
			if bad := silentExit(fn, ev); bad != nil {
				r.bad("C01/no-silent-exit", fname(fn), P.ipos(bad.Instrs[len(bad.Instrs)-1]),
					"a path from entry to this return emits no issue, takes no optional-skip or catch path, runs no test loop and visits no child: the node silently passes",
					eventSummary(ev)...)
			} else {
				r.ok("C01/no-silent-exit", fname(fn), P.pos(fn.Pos()), "every entry→return path passes an event", eventSummary(ev)...)
			}
			continue
		}
		var silent *nodePath
		counts := map[string]int{}
		for i := range paths {
			p := paths[i]
			if p.end != "RETURN" {
				continue
			}
			loud := p.has("ISSUE", "") || p.has("TESTS", "") || p.has("CALL-TEST", "") || p.has("CHILD", "") || p.has("DELEGATE", "") || p.has("DEST", "catch") || p.has("REQUIRED", "F")
			for _, it := range p.items {
				switch it.kind {
				case "ISSUE", "TESTS", "CALL-TEST", "CHILD", "DELEGATE":
					counts[it.kind]++
				}
			}
			if !loud && silent == nil {
				silent = &paths[i]
			}
		}
		var summary []string
		for _, k := range sortedKeys(counts) {
			summary = append(summary, fmt.Sprintf("%s on %d path item(s)", k, counts[k]))
		}
		if silent != nil {
			pos := P.pos(fn.Pos())
			if n := len(silent.items); n > 0 {
				pos = P.ipos(silent.items[n-1].in)
			}
			r.bad("C01/no-silent-exit", fname(fn), pos,
				"a path from entry to a return emits no issue, takes no optional-skip or catch path, runs no test loop and visits no child: the node silently passes  [path: "+silent.String()+"]",
				summary...)
		} else {
			r.ok("C01/no-silent-exit", fname(fn), P.pos(fn.Pos()), fmt.Sprintf("each of the %d entry→return paths passes an event", len(paths)), summary...)
		}
	}
	r.floor("C01/no-silent-exit", 18)

	// (b) sink
	P.checkSink(r)

	// (c) predicate-to-issue
	P.checkPredicateToIssue(r, "C01/predicate-to-issue")

	// (d) child-clean
	ca := P.newCatchAnalysis()
	sites := P.allDispatchSites(ca)
	names := siteNames(sites)
	for i, s := range sites {
		r.CallSites++
		r.sawFunc(fname(s.fn))
		if len(s.dirty) > 0 {
			r.bad("C01/child-clean", names[i], P.ipos(s.in.(ssa.Instruction)),
				fmt.Sprintf("the context passed to the child may still carry %s from a sibling field / earlier element: the child's issues can be swallowed or its tests cut short", flagNames(s.dirty)))
		} else {
			r.ok("C01/child-clean", names[i], P.ipos(s.in.(ssa.Instruction)), "CanCatch, Exit, HasCaught definitely false at dispatch")
		}
	}
	r.floor("C01/child-clean", 15)
	cntU := map[string]int{}
	for _, s := range P.ownUseSites(ca) {
		top := s.at.Parent()
		for top.Parent() != nil {
			top = top.Parent()
		}
		k := fname(top) + "#" + s.kind
		cntU[k]++
		c := fmt.Sprintf("%s@%d", k, cntU[k])
		if len(s.dirty) > 0 {
			r.bad("C01/own-context-clean", c, P.ipos(s.at), fmt.Sprintf("the node reports its own issues / runs its own tests on a context that may still carry %s from a child: its own constraints can be skipped silently", flagNames(s.dirty)))
		} else {
			r.ok("C01/own-context-clean", c, P.ipos(s.at), "own context is catch-clean")
		}
	}
	r.floor("C01/own-context-clean", 10)
	// field-binding: each field's schema is applied to the destination field of that name (C03's rule): a
	// constraint checked against another field's value lets an invalid field pass
	shareRule(P, r, checkC03, "C03/struct-writes-by-field", nil, "C01/field-binding", 2)
	// every element present when the children run is visited: the bound of an element loop is a length read
	// after the last write to the value it measures
	P.checkElementLoopBound(r)
	// a schema's tests are not overwritten through a backing array shared with a schema derived from it
	// (C16's rule: the second `base.Merge(y)` would replace the test the first merge stored)
	shareRule(P, r, checkC16, "C16/no-shared-backing", nil, "C01/tests-not-overwritten", 4)
	// "every Required node had a present value": present is what the documented absence predicates say (nil, or a
	// string of white space only, when parsing; the zero value when validating) - C04's formula and binding rules
	shareRule(P, r, checkC04, "C04/zero-predicate-formula", nil, "C01/required-means-present", 1)
	shareRule(P, r, checkC04, "C04/zero-predicate-binding", nil, "C01/required-uses-mode-predicate", 5)
	// no issue means the destination was produced by the node's own pipeline: an issue swallowed by Catch goes with the
	// catch value stored - else Parse reports success and the destination holds an untested zero (C05's rule)
	shareRule(P, r, checkC05, "C05/swallow-implies-catch-store", nil, "C01/swallowed-issue-has-its-catch-value", 1)
	r.Extra["schema_ctx_constructors"] = len(ca.ctors)
	if len(ca.ctors) < 2 {
		r.broken("vacuous: %d SchemaCtx constructors recognised (floor 2)", len(ca.ctors))
	}
	_ = R
}

func eventSummary(ev nodeEvents) []string {
	var out []string
	for b, es := range ev.blocks {
		out = append(out, fmt.Sprintf("block %d: %s", b.Index, strings.Join(es, ",")))
	}
	out = uniqSorted(out)
	if len(ev.skipEdges) > 0 {
		out = append(out, fmt.Sprintf("%d optional-skip edge(s)", len(ev.skipEdges)))
	}
	return out
}

func (P *Prog) checkSink(r *Result) {
	R := P.roles
	// (*SchemaCtx).AddIssue
	if fn := P.fn("(*zog/internals.SchemaCtx).AddIssue"); fn != nil {
		r.sawFunc(fname(fn))
		S := map[*ssa.BasicBlock]bool{}
		for _, b := range fn.Blocks {
			for _, in := range b.Instrs {
				ci := callOf(in)
				if ci != nil && ci.static != nil && ci.static.Name() == "AddIssue" && sameNamed(namedOf(ci.static.Signature.Recv().Type()), R.ExecCtx) {
					// the issue argument must be the parameter
					if len(ci.args()) == 2 && cv(ci.args()[1]) == ssa.Value(fn.Params[1]) {
						S[b] = true
					}
				}
			}
			for _, gd := range guardsOf(b) {
				if _, f := loadOfField(cv(gd.If.Cond)); f != nil && sameField(f, R.FCanCatch) && gd.True {
					S[b] = true
				}
			}
		}
		if ok, bad := mustPassThrough(fn.Blocks[0], S); ok {
			r.ok("C01/sink", fname(fn), P.pos(fn.Pos()), "every path forwards the issue to (*ExecCtx).AddIssue or lies under CanCatch")
		} else {
			r.bad("C01/sink", fname(fn), P.ipos(bad.Instrs[len(bad.Instrs)-1]), "a path returns without forwarding the issue to the execution and without CanCatch being set: the issue is lost")
		}
	} else {
		r.broken("anchor (*SchemaCtx).AddIssue not found")
	}
	// (*ExecCtx).AddIssue
	if fn := P.fn("(*zog/internals.ExecCtx).AddIssue"); fn != nil {
		r.sawFunc(fname(fn))
		S := map[*ssa.BasicBlock]bool{}
		n := 0
		eachInstr(fn, func(b *ssa.BasicBlock, _ int, in ssa.Instruction) {
			ci := callOf(in)
			if ci != nil && ci.invoke != nil && ci.invoke.Name() == "Add" {
				args := ci.args()
				if len(args) == 3 && cv(args[2]) == ssa.Value(fn.Params[1]) {
					S[b] = true
					n++
				}
			}
		})
		if ok, bad := mustPassThrough(fn.Blocks[0], S); ok && n == 1 {
			r.ok("C01/sink", fname(fn), P.pos(fn.Pos()), "every path calls ZogIssues.Add with the issue exactly once")
		} else if !ok {
			r.bad("C01/sink", fname(fn), P.ipos(bad.Instrs[len(bad.Instrs)-1]), "a path returns without adding the issue to the execution's container")
		} else {
			r.bad("C01/sink", fname(fn), P.pos(fn.Pos()), fmt.Sprintf("%d calls of ZogIssues.Add (expected exactly one)", n))
		}
	} else {
		r.broken("anchor (*ExecCtx).AddIssue not found")
	}
	// Add implementations
	for _, name := range []string{"(*zog/internals.ErrsMap).Add", "(*zog/internals.ErrsList).Add"} {
		fn := P.fn(name)
		if fn == nil {
			r.broken("anchor %s not found", name)
			continue
		}
		r.sawFunc(fname(fn))
		errParam := ssa.Value(fn.Params[2])
		recvParam := ssa.Value(fn.Params[0])
		// on the decision paths of Add (helpers entered): a store / map update into memory of the receiver
		// whose value is append(<something>, issue)
		spec := &pathSpec{name: "sink-add", inlineAll: true}
		spec.keep = func(f *ssa.Function) bool { return f.Parent() == nil && !formulaHelper(f) }
		spec.cond = func(iff *ssa.If) (string, string, string) { return "", "", "" }
		spec.events = func(in ssa.Instruction) []pathItem {
			var val, tgt ssa.Value
			switch x := in.(type) {
			case *ssa.Store:
				val, tgt = x.Val, x.Addr
			case *ssa.MapUpdate:
				val, tgt = x.Value, x.Map
			default:
				return nil
			}
			recvRooted := func(v ssa.Value) bool {
				for _, rt := range P.rootsOf(v) {
					if rt.kind == rkParam && rt.v == recvParam {
						return true
					}
				}
				return false
			}
			c, ok := cv(val).(*ssa.Call)
			if !ok || callOf(c).builtin != "append" || len(c.Call.Args) < 2 || !sliceLitContains(c.Call.Args[1], errParam) {
				// a fresh container stored into the receiver (`m = ZogIssueMap{...}; s.M = m`): updates of that
				// very object on this path are updates of the receiver's collection
				if st, isSt := in.(*ssa.Store); isSt && recvRooted(st.Addr) {
					switch cv(st.Val).(type) {
					case *ssa.MakeMap, *ssa.MakeSlice:
						return []pathItem{{kind: "OWNED", in: in, aux: cv(st.Val)}}
					}
				}
				return nil
			}
			if recvRooted(tgt) {
				return []pathItem{{kind: "APPEND-ISSUE", in: in}}
			}
			return []pathItem{{kind: "APPEND-ISSUE?", in: in, aux: cv(tgt)}}
		}
		res := P.enumPathsSpec(fn, nil, spec)
		missing, twice := "", false
		for _, p := range res.paths {
			if p.end != "RETURN" {
				continue
			}
			n := p.count("APPEND-ISSUE")
			for _, it := range p.items {
				if it.kind != "APPEND-ISSUE?" {
					continue
				}
				for _, o := range p.items {
					if o.kind == "OWNED" && o.aux == it.aux {
						n++
						break
					}
				}
			}
			switch {
			case n == 0 && missing == "":
				missing = p.String()
			case n > 1:
				twice = true
			}
		}
		switch {
		case res.capHit:
			r.undecided("C01/sink", fname(fn), P.pos(fn.Pos()), "too many paths to enumerate")
		case missing != "":
			r.bad("C01/sink", fname(fn), P.pos(fn.Pos()), "a path returns without appending the issue to the receiver's collection  [path: "+missing+"]")
		case twice:
			r.bad("C01/sink", fname(fn), P.pos(fn.Pos()), "the issue can be appended twice on one path")
		default:
			r.ok("C01/sink", fname(fn), P.pos(fn.Pos()), "exactly one append of the issue to the receiver's collection on every path")
		}
	}
	r.floor("C01/sink", 2)
}

// sliceLitContains: the variadic slice passed to append holds exactly v
// ([]T{v} lowered to new [1]T; store; slice).
func sliceLitContains(sl ssa.Value, v ssa.Value) bool {
	s, ok := sl.(*ssa.Slice)
	if !ok {
		return false
	}
	al, ok := s.X.(*ssa.Alloc)
	if !ok {
		return false
	}
	found := false
	if refs := al.Referrers(); refs != nil {
		for _, rf := range *refs {
			if ia, ok := rf.(*ssa.IndexAddr); ok {
				if r2 := ia.Referrers(); r2 != nil {
					for _, u := range *r2 {
						if st, ok := u.(*ssa.Store); ok && cv(st.Val) == v {
							found = true
						}
					}
				}
			}
		}
	}
	return found
}

// ---------- predicate wrappers ----------

type wrapperInfo struct {
	fn        *ssa.Function // the wrapper constructor (TestFuncFromBool...)
	closure   *ssa.Function
	issueWhen string // "false": issue iff predicate false; "true": issue iff predicate true; "?": undecided
	addIssues int
	detail    string
	// every issue the closure emits is IssueFromTest(ctx.Test, val) on its own context
	issueArgsOK bool
}

// predicateWrappers finds functions with a (BoolTFunc, *Test) shape that store
// a closure into test.Func which calls the captured predicate. The closure is
// decided on its decision paths (helpers entered): the atom is the predicate's
// result, the event an AddIssue call.
func (P *Prog) predicateWrappers() []wrapperInfo {
	if P.wrappersMemo != nil {
		return P.wrappersMemo
	}
	R := P.roles
	funcField := structField(R.Test, "Func")
	var out []wrapperInfo
	for _, fn := range P.Funcs {
		if fn.Parent() != nil {
			continue
		}
		eachInstr(fn, func(_ *ssa.BasicBlock, _ int, in ssa.Instruction) {
			st, ok := in.(*ssa.Store)
			if !ok {
				return
			}
			_, f := fieldVar(st.Addr)
			if f == nil || !sameField(f, funcField) {
				return
			}
			// the stored closure: a literal, or the result of a closure factory (`issueUnless(fn, true)`)
			// whose parameters are then bound to the actual arguments
			var cl *ssa.Function
			env := map[ssa.Value]ssa.Value{}
			switch x := cv(st.Val).(type) {
			case *ssa.MakeClosure:
				cl = x.Fn.(*ssa.Function)
			case *ssa.Call:
				if fac := callOf(x).static; fac != nil && fac.Blocks != nil && inModule(funcPkgPath(fac)) {
					var made *ssa.MakeClosure
					nRet := 0
					eachInstr(fac, func(_ *ssa.BasicBlock, _ int, in2 ssa.Instruction) {
						if rt, ok := in2.(*ssa.Return); ok && len(rt.Results) == 1 {
							nRet++
							if m, ok := cv(rt.Results[0]).(*ssa.MakeClosure); ok {
								made = m
							}
						}
					})
					if made != nil && nRet == 1 {
						cl = made.Fn.(*ssa.Function)
						for k, prm := range fac.Params {
							if k < len(x.Call.Args) {
								env[prm] = x.Call.Args[k]
							}
						}
					}
				}
			}
			if cl == nil {
				return
			}
			// the predicate: a func value of bool result, captured by the closure or a parameter of the
			// wrapper constructor, called by the closure (or a helper it calls)
			isPredCall := func(v ssa.Value) bool {
				c, ok := v.(*ssa.Call)
				if !ok || !callOf(c).dynamic {
					return false
				}
				if b, ok := c.Type().Underlying().(*types.Basic); !ok || b.Kind() != types.Bool {
					return false
				}
				switch x := cv(c.Call.Value).(type) {
				case *ssa.FreeVar:
					return x.Parent() == cl
				case *ssa.UnOp:
					fv, isFV := x.X.(*ssa.FreeVar)
					return x.Op == token.MUL && isFV && fv.Parent() == cl
				case *ssa.Parameter:
					return x.Parent() == fn
				}
				return isLoadOfFreeVar(c.Call.Value)
			}
			spec := &pathSpec{name: "predicate-wrapper"}
			spec.cond = func(iff *ssa.If) (string, string, string) {
				c, neg := condKey(iff.Cond)
				// `pred(...) == <constant>` is the predicate or its negation
				if bo, ok := c.(*ssa.BinOp); ok && (bo.Op == token.EQL || bo.Op == token.NEQ) {
					for _, pr := range [][2]ssa.Value{{bo.X, bo.Y}, {bo.Y, bo.X}} {
						if k, isK := constBool(cv(pr[1])); isK && isPredCall(cv(pr[0])) {
							c = cv(pr[0])
							if (bo.Op == token.EQL) != k {
								neg = !neg
							}
						}
					}
				}
				if !isPredCall(c) {
					return "", "", ""
				}
				if neg {
					return "PRED", "F", "T"
				}
				return "PRED", "T", "F"
			}
			spec.events = func(in2 ssa.Instruction) []pathItem {
				ci := callOf(in2)
				if ci == nil {
					return nil
				}
				if c, isCall := in2.(*ssa.Call); isCall && isPredCall(c) {
					return []pathItem{{kind: "CALL-PRED", in: in2}}
				}
				if !P.isAddIssue(ci) {
					return nil
				}
				// the issue: IssueFromTest(<this ctx>, <this ctx>.Test, <the value>)
				v := "args-other"
				if ic, ok := cv(ci.args()[1]).(*ssa.Call); ok {
					if icc := callOf(ic); icc.static != nil && icc.static.Name() == "IssueFromTest" && len(icc.args()) == 3 {
						args := icc.args()
						tb, tf := loadOfField(cv(args[1]))
						if tf != nil && sameField(tf, R.FTest) && cvi(tb) == ssa.Value(cl.Params[1]) && cv(args[2]) == ssa.Value(cl.Params[0]) && cvi(args[0]) == ssa.Value(cl.Params[1]) {
							v = "args-ok"
						}
					}
				}
				return []pathItem{{kind: "ISSUE", val: v, in: in2}}
			}
			res := P.enumPathsSpec(cl, env, spec)
			hasPred, nAddMax := false, 0
			issueOn := map[string]map[int]bool{"T": {}, "F": {}, "": {}}
			argsOK := true
			for _, p := range res.paths {
				if p.has("CALL-PRED", "") {
					hasPred = true
				}
				pv := ""
				for _, it := range p.items {
					if it.kind == "PRED" {
						pv = it.val
					}
					if it.kind == "ISSUE" && it.val != "args-ok" {
						argsOK = false
					}
				}
				n := p.count("ISSUE")
				if n > nAddMax {
					nAddMax = n
				}
				issueOn[pv][n] = true
			}
			if !hasPred || nAddMax == 0 {
				return
			}
			wi := wrapperInfo{fn: fn, closure: cl, addIssues: nAddMax, issueWhen: "?", issueArgsOK: argsOK}
			only := func(m map[int]bool, n int) bool { return len(m) == 1 && m[n] }
			switch {
			case res.capHit:
				wi.detail = "too many paths to enumerate"
			case len(issueOn[""]) > 0 && !only(issueOn[""], 0):
				wi.detail = "AddIssue is not control-dependent on the predicate's result"
			case only(issueOn["F"], nAddMax) && only(issueOn["T"], 0):
				wi.issueWhen = "false"
			case only(issueOn["T"], nAddMax) && only(issueOn["F"], 0):
				wi.issueWhen = "true"
			default:
				wi.detail = "AddIssue is not control-dependent on the predicate's result"
			}
			out = append(out, wi)
		})
	}
	P.wrappersMemo = out
	return out
}

func isLoadOfFreeVar(v ssa.Value) bool {
	u, ok := v.(*ssa.UnOp)
	if !ok || u.Op != token.MUL {
		return false
	}
	_, isFV := u.X.(*ssa.FreeVar)
	return isFV
}

func (P *Prog) checkPredicateToIssue(r *Result, rule string) {
	ws := P.predicateWrappers()
	// Each wrapper emits its issue on exactly one outcome of the predicate. The wrapper that emits on `true`
	// is the negated one, the wrapper that emits on `false` the plain one; that the negation consumer uses the
	// negated wrapper exactly under the Not() flag, and the plain one otherwise, is decided on the consumer's
	// decision paths (C17's not-typestate shape rule, adopted below), wherever and however the call is written.
	nNeg, nPlain := 0, 0
	for _, w := range ws {
		r.sawFunc(fname(w.closure))
		switch {
		case w.issueWhen == "?":
			r.undecided(rule, fname(w.fn), P.pos(w.closure.Pos()), "the wrapper closure emits an issue on a path not decided by the predicate's result: "+w.detail)
		case w.addIssues != 1:
			r.bad(rule, fname(w.fn), P.pos(w.closure.Pos()), fmt.Sprintf("wrapper closure contains %d AddIssue calls (expected exactly one)", w.addIssues))
		case w.issueWhen == "true":
			nNeg++
			r.ok(rule, fname(w.fn), P.pos(w.closure.Pos()), "negated wrapper: exactly one AddIssue, executed iff predicate == true")
		default:
			nPlain++
			r.ok(rule, fname(w.fn), P.pos(w.closure.Pos()), "plain wrapper: exactly one AddIssue, executed iff predicate == false")
		}
	}
	switch {
	case nPlain == 0:
		r.bad(rule, "wrappers#polarity", "-", "no wrapper emits its issue when the predicate fails: failing values pass silently")
	case nNeg != 1:
		r.bad(rule, "wrappers#polarity", "-", fmt.Sprintf("%d wrappers emit their issue when the predicate holds (expected exactly one, the Not() wrapper)", nNeg))
	default:
		r.ok(rule, "wrappers#polarity", "-", fmt.Sprintf("%d plain wrapper(s), 1 negated wrapper", nPlain))
	}
	shareRule(P, r, checkC17, "C17/not-typestate", func(o Obligation) bool { return strings.HasSuffix(o.Construct, "#shape") }, rule, 1)
	r.floor(rule, 2)
}

// ---------- C05 ----------

func checkC05(P *Prog, r *Result) {
	R := P.roles
	r.Explanation = "Decides confinement and own-node discipline of Catch structurally: (confinement) at every dispatch into a child node, in both modes, each of the flags CanCatch/Exit/HasCaught " +
		"of the context handed over is definitely false (forward typestate over the CFG, callee effects by summary, interface dispatch closed over the module's kinds); " +
		"(flag-writers) only the primitive pipelines and (*SchemaCtx).AddIssue ever set a flag, AddIssue only under CanCatch; (swallow-implies-catch-store) in the primitive pipelines every " +
		"return taken under CanCatch after a failure is preceded by *dest = *catch and every such store lies under CanCatch; (no-direct-sink) node code never bypasses the swallowing AddIssue. " +
		"It does not decide run-time equality with the same schema without Catch."
	ca := P.newCatchAnalysis()
	sites := P.allDispatchSites(ca)
	names := siteNames(sites)
	for i, s := range sites {
		r.CallSites++
		r.sawFunc(fname(s.fn))
		for _, fl := range ca.flags {
			dirty := false
			for _, d := range s.dirty {
				if d == fl {
					dirty = true
				}
			}
			c := names[i] + ":" + fl.Name()
			if dirty {
				r.bad("C05/confinement", c, P.ipos(s.in.(ssa.Instruction)), fmt.Sprintf("%s set by a catching sibling / earlier element may still be true when this child runs: Catch has an effect beyond its own node", fl.Name()))
			} else {
				r.ok("C05/confinement", c, P.ipos(s.in.(ssa.Instruction)), fl.Name()+" definitely false at dispatch")
			}
		}
	}
	r.floor("C05/confinement", 30)

	// own-context-clean: kinds without Catch (struct, slice, pointer, custom, preprocess) report their own
	// issues, call their own tests/transforms and test Exit on their own context: none of the flags may have
	// been left behind there by a child
	cntU := map[string]int{}
	for _, s := range P.ownUseSites(ca) {
		top := s.at.Parent()
		for top.Parent() != nil {
			top = top.Parent()
		}
		k := fname(top) + "#" + s.kind
		cntU[k]++
		c := fmt.Sprintf("%s@%d", k, cntU[k])
		r.sawFunc(fname(s.at.Parent()))
		if len(s.dirty) > 0 {
			r.bad("C05/own-context-clean", c, P.ipos(s.at), fmt.Sprintf("the node uses its own context here while %s may still be set on it by a catching child: the enclosing node's own issue is swallowed / its tests are cut short", flagNames(s.dirty)))
		} else {
			r.ok("C05/own-context-clean", c, P.ipos(s.at), "own context is catch-clean")
		}
	}
	r.floor("C05/own-context-clean", 10)

	// flag-writers
	allowed := map[*ssa.Function]bool{}
	for _, pl := range R.Pipelines {
		allowed[pl] = true
	}
	if ca.addIssue != nil {
		allowed[ca.addIssue] = true
	}
	// unexported helpers of AddIssue (`c.swallow(e)`) called from nowhere else: their Exit store is judged with
	// AddIssue's (under CanCatch at the store or at the call)
	for h := range ca.addIssueHelpers {
		only := true
		for _, caller := range P.Funcs {
			eachInstr(caller, func(_ *ssa.BasicBlock, _ int, in ssa.Instruction) {
				if ci := callOf(in); ci != nil && ci.static == h && caller != ca.addIssue && !ca.addIssueHelpers[caller] {
					only = false
				}
			})
		}
		if only {
			allowed[h] = true
		}
	}
	// helpers of the pipelines (`armCatch(ctx, catch)`): an unexported function called only from a pipeline's
	// entry block (or from such a helper's), never taken as a value; the store in it is judged with the helper's
	// parameters bound to the pipeline's arguments
	helperEnv := map[*ssa.Function]map[ssa.Value]ssa.Value{}
	for _, pl := range R.Pipelines {
		for _, u := range P.nodeUnits(pl) {
			if !u.helper || u.parent == nil {
				continue
			}
			site, ok := u.site.(ssa.Instruction)
			if !ok || site.Block() != site.Parent().Blocks[0] {
				continue
			}
			if _, isCall := site.(*ssa.Call); !isCall {
				continue
			}
			if u.parent.fn != pl && helperEnv[u.parent.fn] == nil {
				continue
			}
			if isExportedAPI(u.fn) {
				continue
			}
			// every call site of the helper is one of these
			onlyHere := true
			for _, caller := range P.Funcs {
				eachInstr(caller, func(_ *ssa.BasicBlock, _ int, in ssa.Instruction) {
					if ci := callOf(in); ci != nil && ci.static == u.fn && !allowed[caller] && helperEnv[caller] == nil {
						onlyHere = false
					}
				})
			}
			if onlyHere {
				helperEnv[u.fn] = u.env
			}
		}
	}
	nW := 0
	for _, fn := range P.Funcs {
		eachInstr(fn, func(b *ssa.BasicBlock, _ int, in ssa.Instruction) {
			st, ok := in.(*ssa.Store)
			if !ok {
				return
			}
			if env, isHelper := helperEnv[fn]; isHelper {
				saved := substEnv
				substEnv = env
				defer func() { substEnv = saved }()
			}
			_, f := fieldVar(st.Addr)
			if f == nil {
				return
			}
			var flag *types.Var
			for _, fl := range ca.flags {
				if sameField(f, fl) {
					flag = fl
				}
			}
			if flag == nil {
				return
			}
			nW++
			if c, isC := constBool(st.Val); isC && !c {
				r.ok("C05/flag-writers", fmt.Sprintf("%s#%s=false", fname(fn), flag.Name()), P.ipos(in), "reset")
				return
			}
			c := fmt.Sprintf("%s#%s", fname(fn), flag.Name())
			if !allowed[fn] && helperEnv[fn] == nil {
				r.bad("C05/flag-writers", c, P.ipos(in), "catch flag set outside the primitive pipelines / AddIssue")
				return
			}
			if fn == ca.addIssue || ca.addIssueHelpers[fn] {
				if !ca.addCond || !sameField(flag, R.FExit) {
					r.bad("C05/flag-writers", c, P.ipos(in), "AddIssue sets a catch flag on a path where the node cannot catch")
					return
				}
				r.ok("C05/flag-writers", c, P.ipos(in), "Exit set only under CanCatch")
				return
			}
			// pipelines: CanCatch <- (catch != nil), in the entry block
			if sameField(flag, R.FCanCatch) {
				x, eq, ok := isNilCompare(st.Val)
				if ok && !eq && P.roleOf(x) == "catch" && b == fn.Blocks[0] {
					r.ok("C05/flag-writers", c, P.ipos(in), "CanCatch = (catch != nil) on entry")
				} else {
					r.bad("C05/flag-writers", c, P.ipos(in), "CanCatch is not set to exactly `catch != nil` at pipeline entry")
				}
				return
			}
			r.bad("C05/flag-writers", c, P.ipos(in), "unexpected write of a catch flag in a pipeline")
		})
	}
	r.floor("C05/flag-writers", 4)

	// swallow-implies-catch-store
	for _, pl := range R.Pipelines {
		P.checkSwallow(r, pl)
	}
	r.floor("C05/swallow-implies-catch-store", 1)
	// a caught issue leaves no trace: the library's only release of an issue during an execution is the swallow, so a
	// recycled issue whose fields are not all re-written carries the catching node's code and message to a sibling or to
	// the enclosing struct (C07's rule on ZogIssue)
	shareRule(P, r, checkC07, "C07/reinit", func(o Obligation) bool { return strings.Contains(o.Construct, "#zog/internals.ZogIssue.") }, "C05/caught-issue-leaves-no-trace", 0)
	// "whenever a coercion failure happens its destination is exactly v": catch comes before any other way out of a
	// failure - a Default tried first on a coercion error wins over the Catch (C04's decision rule)
	shareRule(P, r, checkC04, "C04/decision-shape", nil, "C05/catch-before-any-other-fallback", 4)

	// issues-inside-catch-scope: a kind that can hold a catch value arms its context (CanCatch = catch != nil) before
	// it can raise any failure of its own: on every decision path of its node methods (pipeline entered) no issue is
	// emitted before the arming store. A failure raised earlier - a conversion done in the method before it enters
	// the pipeline - escapes the node's own Catch: it is reported and the destination keeps its old value
	nScope := 0
	for _, kn := range sortedKeys(R.KindByName) {
		if P.kindField(R.KindByName[kn], "catch") == nil {
			continue
		}
		for _, fn := range []*ssa.Function{R.Process[kn], R.Validate[kn]} {
			if fn == nil {
				continue
			}
			nScope++
			paths, capHit := P.nodePaths(fn)
			var bad string
			if capHit {
				bad = "too many paths to enumerate"
			}
			for _, p := range paths {
				armed := false
				for _, it := range p.items {
					if it.kind == "FLAG-"+R.FCanCatch.Name() && it.val == "set" {
						armed = true
					}
					if it.kind == "ISSUE" && !armed && bad == "" {
						bad = "an issue of the node (" + it.val + ") is emitted at " + P.ipos(it.in) + " before the node's context is armed for its Catch: a catching node reports this failure instead of taking its catch value  [path: " + p.String() + "]"
					}
				}
			}
			if bad != "" {
				r.bad("C05/issues-inside-catch-scope", fname(fn), P.pos(fn.Pos()), bad)
			} else {
				r.ok("C05/issues-inside-catch-scope", fname(fn), P.pos(fn.Pos()), "every issue the node emits comes after CanCatch = (catch != nil)")
			}
		}
	}
	r.floor("C05/issues-inside-catch-scope", 4)

	// no-direct-sink
	nodeFns := map[*ssa.Function]bool{}
	for _, fn := range P.nodeFuncs() {
		nodeFns[fn] = true
		for _, a := range fn.AnonFuncs {
			nodeFns[a] = true
		}
	}
	for _, fn := range P.nodeFuncs() {
		var bad []string
		all := append([]*ssa.Function{fn}, fn.AnonFuncs...)
		for _, f := range all {
			eachInstr(f, func(_ *ssa.BasicBlock, _ int, in ssa.Instruction) {
				ci := callOf(in)
				if ci == nil {
					return
				}
				if ci.static != nil && ci.static.Name() == "AddIssue" && sameNamed(namedOf(ci.static.Signature.Recv().Type()), R.ExecCtx) {
					bad = append(bad, "(*ExecCtx).AddIssue at "+P.ipos(in))
				}
				if ci.static != nil && ci.static.Name() == "NewError" {
					bad = append(bad, "NewError at "+P.ipos(in))
				}
				if ci.invoke != nil && ci.invoke.Name() == "Add" {
					bad = append(bad, "ZogIssues.Add at "+P.ipos(in))
				}
			})
		}
		if len(bad) > 0 {
			r.bad("C05/no-direct-sink", fname(fn), P.pos(fn.Pos()), "node code records an issue without going through the swallowing (*SchemaCtx).AddIssue: "+strings.Join(bad, "; "))
		} else {
			r.ok("C05/no-direct-sink", fname(fn), P.pos(fn.Pos()), "all issues go through (*SchemaCtx).AddIssue")
		}
	}
	r.floor("C05/no-direct-sink", 10)
}

// checkSwallow: in a primitive pipeline, (1) every store *dest = *catch is
// guarded by CanCatch (true); (2) every return that is guarded by CanCatch
// (true) is preceded by such a store in the same guarded region; (3) every
// failure condition (required issue, coerce issue, Exit) has a CanCatch branch.
func (P *Prog) checkSwallow(r *Result, fn *ssa.Function) {
	r.sawFunc(fname(fn))
	paths, capHit := P.nodePaths(fn)
	if capHit {
		r.undecided("C05/swallow-implies-catch-store", fname(fn), P.pos(fn.Pos()), "too many paths to enumerate")
		return
	}
	// Decided on the pipeline's decision paths (helpers such as a shared test-loop entered):
	// atoms CANCATCH / EXIT, events DEST=catch (a store of *catch into the node's destination), ISSUE, CALL-TEST.
	var problems []string
	stores := map[ssa.Instruction]bool{}
	catching := map[ssa.Instruction]bool{} // the CanCatch tests whose true side was taken (the catch store may be one shared helper)
	exitCaught := false
	for _, p := range paths {
		lastCan := "" // value of the most recent CanCatch test
		for i, it := range p.items {
			switch {
			case it.kind == "CANCATCH":
				lastCan = it.val
				if it.val == "T" {
					catching[it.in] = true
					// the catching side must store the catch value before anything else observable happens
					stored := false
					for _, nx := range p.items[i+1:] {
						if nx.kind == "DEST" && nx.val == "catch" {
							stored = true
							break
						}
						if nx.kind == "ISSUE" || nx.kind == "CALL-TEST" || nx.kind == "TESTS" || nx.kind == "CHILD" || nx.kind == "CANCATCH" {
							break
						}
					}
					if !stored {
						problems = append(problems, fmt.Sprintf("the path taken because the node can catch (%s) does not store the catch value into the destination  [path: %s]", P.ipos(it.in), p.String()))
					}
				}
			case it.kind == "DEST" && it.val == "catch":
				stores[it.in] = true
				if lastCan != "T" {
					problems = append(problems, fmt.Sprintf("catch value stored at %s on a path not guarded by CanCatch: a passing node may lose its parsed value", P.ipos(it.in)))
				}
			case it.kind == "ISSUE":
				if lastCan != "F" {
					problems = append(problems, fmt.Sprintf("issue emitted at %s without first testing CanCatch: with Catch set the issue is swallowed but the destination does not receive the catch value", P.ipos(it.in)))
				}
			case it.kind == "CALL-TEST":
				// after a test ran: Exit is tested, and on Exit the catching node stores its catch value
				var nx *pathItem
				for k := i + 1; k < len(p.items); k++ {
					if kd := p.items[k].kind; kd != "COND" && !strings.HasPrefix(kd, "FLAG-") {
						nx = &p.items[k]
						break
					}
				}
				if nx == nil || nx.kind != "EXIT" {
					problems = append(problems, fmt.Sprintf("ctx.Exit is not tested after the test called at %s: a failed test of a catching node leaves the failing value in the destination", P.ipos(it.in)))
				}
			case it.kind == "EXIT" && it.val == "T":
				for _, nx := range p.items[i+1:] {
					if nx.kind == "DEST" && nx.val == "catch" {
						exitCaught = true
					}
				}
			}
		}
	}
	if !exitCaught {
		problems = append(problems, "no `if ctx.Exit { if ctx.CanCatch { *dest = *catch } }` after running a test: a failed test of a catching node leaves the failing value in the destination")
	}
	if len(catching) < 2 || len(stores) == 0 {
		problems = append(problems, fmt.Sprintf("only %d catching branch(es) with a catch store found (required-failure, [coerce-failure,] test-failure expected)", len(catching)))
	}
	if len(problems) > 0 {
		r.bad("C05/swallow-implies-catch-store", fname(fn), P.pos(fn.Pos()), strings.Join(uniqSorted(problems), "; "))
	} else {
		r.ok("C05/swallow-implies-catch-store", fname(fn), P.pos(fn.Pos()), fmt.Sprintf("%d catch stores, all under CanCatch; every CanCatch path stores the catch value first; every issue emission on the CanCatch==false side; Exit tested after every test", len(stores)))
	}
}

// ---------- C09 ----------

func checkC09(P *Prog, r *Result) {
	R := P.roles
	r.Explanation = "Decides that no map-range loop in the library carries state from one iteration to the next except through order-insensitive sinks: for every `range` over a map " +
		"(struct field loops in process/validate, Pick, Omit, SanitizeMap, CollectMap, the formatter's params loop) it checks (phi) no value other than the iterator is carried round the loop, " +
		"(ctx-flags) the shared child context is catch-clean at every dispatch inside the loop, (fields) every field of a context object written in the body is stored in the same iteration " +
		"before any use, (writes) writes to memory defined outside the loop are keyed by the loop's own key or go to the per-call issue container / pools / the destination field of that key, " +
		"(exits) the loop is never left early. It does not decide the runtime's own map semantics nor which issue becomes $first."
	ca := P.newCatchAnalysis()
	nLoops := 0
	for _, fn := range P.Funcs {
		if !inModule(funcPkgPath(fn)) || strings.Contains(funcPkgPath(fn), "/tutils") {
			continue
		}
		loops := mapRangeLoops(fn)
		if len(loops) == 0 {
			continue
		}
		r.sawFunc(fname(fn))
		allSites, _ := ca.run(fn, nil)
		var sites []dispatchSite
		for _, s := range allSites {
			if s.kind == "dispatch" {
				sites = append(sites, s)
			}
		}
		for li, l := range loops {
			nLoops++
			lname := fmt.Sprintf("%s#range@%d:%s", fname(fn), li+1, typeStr(l.rng.X.Type()))
			pos := P.ipos(l.rng)
			// (phi) carried values
			var carried []string
			var sortedIdiom []string
			for _, in := range l.header.Instrs {
				if ph, ok := in.(*ssa.Phi); ok {
					if collectThenSort(l, ph) {
						sortedIdiom = append(sortedIdiom, ph.Comment)
						continue
					}
					if countedFillThenSort(l, ph) {
						sortedIdiom = append(sortedIdiom, ph.Comment+" (position counter)")
						continue
					}
					if P.collectThenKeyUse(l, ph) {
						r.info("%s: slice %s accumulated in visit order and consumed only as a set of map keys (delete / m[k] = m2[k])", lname, ph.Comment)
						continue
					}
					carried = append(carried, fmt.Sprintf("%s (%s) %s", ph.Comment, typeStr(ph.Type()), ph.Name()))
				}
			}
			if len(sortedIdiom) > 0 {
				r.info("%s: slice(s) %s accumulated in visit order and sorted before any other use (collect-then-sort idiom)", lname, strings.Join(sortedIdiom, ","))
			}
			// phis in other body blocks that merge a value from a previous iteration do not exist without a header phi
			if len(carried) > 0 && rangeOverAtMostOneEntry(l) {
				r.ok("C09/range-independent", lname+":carried-value", pos, "the loop runs under `len(m) == 1` (or <= 1): one entry has no order")
			} else if len(carried) > 0 {
				r.bad("C09/range-independent", lname+":carried-value", pos, "a value is carried from one iteration of a map range to the next; the result depends on visit order: "+strings.Join(carried, ", "))
			} else {
				r.ok("C09/range-independent", lname+":carried-value", pos, "no loop-carried SSA value besides the iterator")
			}
			// (ctx-flags)
			for _, s := range sites {
				if !l.body[s.in.(ssa.Instruction).Block()] {
					continue
				}
				c := fmt.Sprintf("%s:ctx-flags@%s", lname, s.callee)
				if len(s.dirty) > 0 {
					r.bad("C09/range-independent", c, P.ipos(s.in.(ssa.Instruction)), fmt.Sprintf("flags %s of the shared child context are loop-carried: whether a field's issues are swallowed depends on which field was visited before it", flagNames(s.dirty)))
				} else {
					r.ok("C09/range-independent", c, P.ipos(s.in.(ssa.Instruction)), "child context flags re-initialised in every iteration before dispatch")
				}
			}
			// (fields) + (writes) + (exits)
			P.checkLoopBody(r, fn, l, lname)
		}
	}
	P.checkIssueContainerReads(r, "C09/issue-container-reads")
	P.checkReflectMapIteration(r, "C09/reflect-map-iteration")
	r.Instances["C09/map-range-loops"] = nLoops
	r.floor("C09/map-range-loops", 3)
	// order independence also needs every child context clean at every dispatch — wherever the loop body
	// lives (a closure handed to an iteration helper) — and no field of a recycled per-node object carried
	// from the node visited before: C01's child-clean rule and C07's reinit rule (node contexts and issues)
	shareRule(P, r, checkC01, "C01/child-clean", nil, "C09/child-clean-any-order", 15)
	// ... and what the node does itself after its children (its own tests, its own issues) must not look at the flags
	// the child visited last left behind: which child that is, is the runtime's choice (C01's own-context-clean rule)
	shareRule(P, r, checkC01, "C01/own-context-clean", nil, "C09/own-steps-after-any-last-child", 5)
	// the path an issue is filed under is rendered from the node's path builder, not taken from something remembered
	// from the sibling visited before (a memo validated by "same depth, same suffix") - C11's issue-complete rule, Path rows
	shareRule(P, r, checkC11, "C11/issue-complete", func(o Obligation) bool { return strings.HasSuffix(o.Construct, "#Path") }, "C09/path-rendered-not-remembered", 3)
	shareRule(P, r, checkC07, "C07/reinit", func(o Obligation) bool {
		return strings.Contains(o.Construct, "#zog/internals.SchemaCtx.") || strings.Contains(o.Construct, "#zog/internals.ZogIssue.")
	}, "C09/no-carried-pooled-state", 0)
	_ = R
}

func (P *Prog) checkLoopBody(r *Result, fn *ssa.Function, l rangeLoop, lname string) {
	R := P.roles
	definedInLoop := func(v ssa.Value) bool {
		in, ok := v.(ssa.Instruction)
		return ok && in.Block() != nil && l.body[in.Block()]
	}
	var bad []string
	nWrites := 0
	keyDerived := func(v ssa.Value) bool {
		// value equals or is computed from the loop key
		seen := map[ssa.Value]bool{}
		var walk func(v ssa.Value, d int) bool
		walk = func(v ssa.Value, d int) bool {
			if v == nil || seen[v] || d > 10 {
				return false
			}
			seen[v] = true
			if v == l.key {
				return true
			}
			if in, ok := v.(ssa.Instruction); ok && definedInLoop(v) {
				var ops []*ssa.Value
				for _, op := range in.Operands(ops) {
					if *op != nil && walk(*op, d+1) {
						return true
					}
				}
			}
			if u, ok := v.(*ssa.UnOp); ok && u.Op == token.MUL {
				if al, ok := u.X.(*ssa.Alloc); ok {
					for _, st := range storesTo(al) {
						if walk(st.Val, d+1) {
							return true
						}
					}
				}
			}
			return false
		}
		return walk(v, 0)
	}
	for b := range l.body {
		for idx, in := range b.Instrs {
			switch x := in.(type) {
			case *ssa.MapUpdate:
				nWrites++
				if definedInLoop(cv(x.Map)) {
					continue
				}
				if !keyDerived(x.Key) {
					bad = append(bad, fmt.Sprintf("map update at %s is not keyed by the loop's own key", P.ipos(in)))
				}
			case *ssa.Store:
				base, f := fieldVar(x.Addr)
				if f != nil {
					bv := cv(base)
					if definedInLoop(bv) {
						continue
					}
					nWrites++
					if P.isPtrTo(bv.Type(), R.SchemaCtx) {
						// per-iteration definition: store must dominate every later use of bv in the body and not be conditional within the body
						if !storeCoversIteration(l, b, idx, bv, f) {
							bad = append(bad, fmt.Sprintf("field %s of the shared context is written at %s but may be read earlier in the same iteration or is written conditionally: its value is carried over from the previously visited key", f.Name(), P.ipos(in)))
						}
						continue
					}
					bad = append(bad, fmt.Sprintf("store at %s to field %s of an object defined outside the loop", P.ipos(in), f.Name()))
					continue
				}
				// stores to local variables declared in the loop (allocs in loop) are fine; allocs outside are carried
				if al, ok := x.Addr.(*ssa.Alloc); ok {
					if definedInLoop(al) {
						continue
					}
					// go1.22 per-iteration loop variables are allocated inside; an outer alloc written in the loop is loop-carried if also read in the loop
					readInLoop := false
					if refs := al.Referrers(); refs != nil {
						for _, rf := range *refs {
							if u, ok := rf.(*ssa.UnOp); ok && u.Op == token.MUL && l.body[u.Block()] {
								readInLoop = true
							}
						}
					}
					nWrites++
					if readInLoop && !keyDerivedStoreBeforeReads(l, al) {
						bad = append(bad, fmt.Sprintf("variable %s declared outside the loop is written and read inside it (%s)", al.Comment, P.ipos(in)))
					}
				}
			default:
				ci := callOf(in)
				if ci == nil {
					continue
				}
				if ci.builtin == "delete" {
					nWrites++
					if !definedInLoop(cv(ci.instr.Common().Args[0])) && !keyDerived(ci.instr.Common().Args[1]) {
						bad = append(bad, fmt.Sprintf("delete at %s is not keyed by the loop's own key", P.ipos(in)))
					}
				}
				if ci.static != nil && (ci.static.Name() == "HasErrored" || ci.static.Name() == "IsEmpty") || ci.invoke != nil && (ci.invoke.Name() == "HasErrored" || ci.invoke.Name() == "IsEmpty") {
					bad = append(bad, fmt.Sprintf("loop body consults the issue container at %s: what it sees depends on which keys were visited before", P.ipos(in)))
				}
			}
		}
		// (exits)
		for k, s := range b.Succs {
			if l.body[s] {
				continue
			}
			if b == l.header {
				continue // range exhausted
			}
			if isPanicBlock(s) || leadsOnlyToPanic(s) {
				continue
			}
			_ = k
			bad = append(bad, fmt.Sprintf("the loop is left early at %s: which keys are processed depends on visit order", P.ipos(b.Instrs[len(b.Instrs)-1])))
		}
		if isExit(b) && b != l.header {
			bad = append(bad, fmt.Sprintf("return inside the loop at %s: which keys are processed depends on visit order", P.ipos(b.Instrs[len(b.Instrs)-1])))
		}
	}
	if len(bad) > 0 {
		r.bad("C09/range-independent", lname+":body", P.ipos(l.rng), strings.Join(uniqSorted(bad), "; "))
	} else {
		r.ok("C09/range-independent", lname+":body", P.ipos(l.rng), fmt.Sprintf("%d write(s) to outer memory, all keyed by the loop key or per-iteration definitions; no early exit; issue container not consulted", nWrites))
	}
}

func leadsOnlyToPanic(b *ssa.BasicBlock) bool {
	for x := range reach(b, nil) {
		if isExit(x) {
			return false
		}
	}
	return true
}

// storeCoversIteration: the store at (b,idx) to field f of ctx value bv is
// executed on every iteration (its block dominates every latch/dispatch in the
// body, i.e. post-dominates the header within the body) and precedes every
// use of bv as a call argument and every load of that field in the body.
func storeCoversIteration(l rangeLoop, b *ssa.BasicBlock, idx int, bv ssa.Value, f *types.Var) bool {
	// every path header -> back to header passes through b
	stop := map[*ssa.BasicBlock]bool{b: true}
	for _, s := range l.header.Succs {
		if !l.body[s] {
			continue
		}
		for x := range reach(s, stop) {
			if !l.body[x] {
				continue
			}
			for _, ss := range x.Succs {
				if ss == l.header {
					return false // reached the latch without passing b
				}
			}
		}
	}
	// uses before the store within the iteration
	before := map[*ssa.BasicBlock]bool{}
	for _, s := range l.header.Succs {
		if l.body[s] {
			for x := range reach(s, stop) {
				if l.body[x] {
					before[x] = true
				}
			}
		}
	}
	usesField := func(in ssa.Instruction) bool {
		if u, ok := in.(*ssa.UnOp); ok && u.Op == token.MUL {
			if bb, ff := fieldVar(u.X); ff != nil && sameField(ff, f) && cv(bb) == bv {
				return true
			}
		}
		if ci := callOf(in); ci != nil {
			for _, a := range ci.args() {
				if cvi(a) == bv {
					// calls that merely push/pop the path do not read ctx fields other than Path
					if ci.static != nil && (ci.static.Name() == "Push" || ci.static.Name() == "Pop") {
						continue
					}
					// a module helper (`subCtx.Enter(&key)`) uses the field only if it can read it
					if ci.static != nil && ci.static.Blocks != nil && inModule(funcPkgPath(ci.static)) {
						ai := -1
						for k, a2 := range ci.args() {
							if cvi(a2) == bv {
								ai = k
							}
						}
						if ai >= 0 && !calleeMayReadField(ci.static, ai, f, 0) {
							continue
						}
					}
					return true
				}
			}
		}
		return false
	}
	for x := range before {
		if x == b {
			continue
		}
		for _, in := range x.Instrs {
			if usesField(in) {
				return false
			}
		}
	}
	for i := 0; i < idx; i++ {
		if usesField(b.Instrs[i]) {
			return false
		}
	}
	return true
}

func keyDerivedStoreBeforeReads(l rangeLoop, al *ssa.Alloc) bool { return false }

// collectThenSort recognises the order-insensitive accumulation idiom
//
//	for k := range m { keys = append(keys, k) }; sort.Strings(keys)
//
// the header phi is a slice, inside the loop it is only appended to, and the
// first use after the loop (dominating every other outside use) is a sort.
func collectThenSort(l rangeLoop, ph *ssa.Phi) bool {
	if _, ok := ph.Type().Underlying().(*types.Slice); !ok {
		return false
	}
	// in-loop uses of the phi: only as first argument of append whose result flows back to the phi
	var outside []ssa.Instruction
	okInside := true
	var visit func(v ssa.Value)
	seen := map[ssa.Value]bool{}
	visit = func(v ssa.Value) {
		if seen[v] {
			return
		}
		seen[v] = true
		refs := v.Referrers()
		if refs == nil {
			return
		}
		for _, rf := range *refs {
			if rf.Block() == nil {
				continue
			}
			if !l.body[rf.Block()] {
				outside = append(outside, rf)
				continue
			}
			switch x := rf.(type) {
			case *ssa.Phi:
				visit(x)
			case *ssa.Call:
				if ci := callOf(x); ci.builtin == "append" && x.Call.Args[0] == v {
					visit(x)
				} else {
					okInside = false
				}
			case *ssa.DebugRef:
			default:
				okInside = false
			}
		}
	}
	visit(ph)
	if !okInside || len(outside) == 0 {
		return false
	}
	isSort := func(in ssa.Instruction) bool {
		ci := callOf(in)
		if ci == nil || ci.static == nil {
			return false
		}
		n := ci.static.String()
		return strings.HasPrefix(n, "sort.") || strings.HasPrefix(n, "slices.Sort")
	}
	var sortCall ssa.Instruction
	for _, o := range outside {
		if isSort(o) {
			sortCall = o
		}
	}
	if sortCall == nil {
		return false
	}
	for _, o := range outside {
		if o == sortCall {
			continue
		}
		if _, isPhi := o.(*ssa.Phi); isPhi {
			return false
		}
		sb, ob := sortCall.Block(), o.Block()
		if sb == ob {
			if instrIndex(sortCall) > instrIndex(o) {
				return false
			}
			continue
		}
		if !sb.Dominates(ob) {
			return false
		}
	}
	return true
}

// checkElementLoopBound: in every loop of a node function (or a helper of it)
// that dispatches to a child per index, the bound `i < n` is a Len() of a
// reflect.Value that is not written between that Len() call and the loop: a
// length read before a default / coerced value is stored (`n := v.Len()` hoisted
// above `v.Set(default)`) leaves the new elements unvisited and untested.
func (P *Prog) checkElementLoopBound(r *Result) {
	n := 0
	for _, nf := range P.nodeFuncs() {
		k := 0
		for _, u := range P.nodeUnits(nf) {
			fn := u.fn
			for _, l := range naturalLoops(fn) {
				dispatches := false
				for b := range l.body {
					for _, in := range b.Instrs {
						if P.dispatchLike(callOf(in)) {
							dispatches = true
						}
					}
				}
				iff, ok := l.header.Instrs[len(l.header.Instrs)-1].(*ssa.If)
				if !dispatches || !ok {
					continue
				}
				bo, ok := iff.Cond.(*ssa.BinOp)
				if !ok || bo.Op != token.LSS {
					continue
				}
				lc, ok := cv(bo.Y).(*ssa.Call)
				if !ok {
					continue
				}
				ci := callOf(lc)
				if ci.static == nil || !isPkgFunc(ci.static, "reflect") || ci.static.Name() != "Len" {
					continue
				}
				n++
				k++
				c := fmt.Sprintf("%s#element-loop@%d", fname(nf), k)
				measured := cv(lc.Call.Args[0])
				bad := ""
				if !l.body[lc.Block()] {
					// hoisted: no write to the measured value may lie between the read and the loop
					for _, w := range P.writeSites(fn) {
						if !w.viaReflect || cv(w.target) != measured {
							continue
						}
						wb := w.in.Block()
						afterLen := wb == lc.Block() && instrIndex(w.in) > instrIndex(lc) || wb != lc.Block() && reachFromSuccs(lc.Block(), nil)[wb]
						beforeLoop := wb == l.header || reachFromSuccs(wb, nil)[l.header]
						if afterLen && beforeLoop && !l.body[wb] {
							bad = fmt.Sprintf("the loop runs to a length read at %s, but the value is replaced at %s (%s) before the loop: the elements stored there are never handed to the child schema", P.ipos(lc), P.ipos(w.in), w.what)
						}
					}
				}
				if bad != "" {
					r.bad("C01/element-loop-bound", c, P.ipos(iff), bad)
				} else {
					r.ok("C01/element-loop-bound", c, P.ipos(iff), "bound is the length of the iterated value, read after its last write")
				}
			}
		}
	}
	r.floor("C01/element-loop-bound", 1)
	_ = n
}

// countedFillThenSort recognises the index form of collect-then-sort:
//
//	keys := make([]string, len(m)); i := 0
//	for k := range m { keys[i] = k; i++ }
//	sort.Strings(keys)
//
// the header phi is an integer that starts at 0, is incremented by one on every iteration, and is used in
// the loop only as the position of a store into one slice made outside the loop; that slice is not read in the
// loop and its first use after the loop (dominating every other) is a sort. The counter is not used after the loop.
func countedFillThenSort(l rangeLoop, ph *ssa.Phi) bool {
	if b, ok := ph.Type().Underlying().(*types.Basic); !ok || b.Info()&types.IsInteger == 0 {
		return false
	}
	for i, e := range ph.Edges {
		if l.body[ph.Block().Preds[i]] {
			bo, ok := e.(*ssa.BinOp)
			if !ok || bo.Op != token.ADD || bo.X != ssa.Value(ph) {
				return false
			}
			if k, ok := constInt(bo.Y); !ok || k != 1 {
				return false
			}
		} else if k, ok := constInt(e); !ok || k != 0 {
			return false
		}
	}
	var slice ssa.Value
	for _, rf := range *ph.Referrers() {
		switch x := rf.(type) {
		case *ssa.DebugRef:
		case *ssa.BinOp:
			if !l.body[x.Block()] || x.Op != token.ADD {
				return false
			}
			// the increment: flows only back into the phi
			for _, u := range *x.Referrers() {
				if u != ssa.Instruction(ph) {
					if _, isDbg := u.(*ssa.DebugRef); !isDbg {
						return false
					}
				}
			}
		case *ssa.IndexAddr:
			if !l.body[x.Block()] || x.Index != ssa.Value(ph) {
				return false
			}
			if slice != nil && slice != x.X {
				return false
			}
			slice = x.X
			for _, u := range *x.Referrers() {
				if st, ok := u.(*ssa.Store); !ok || st.Addr != ssa.Value(x) {
					return false
				}
			}
		default:
			return false
		}
	}
	if slice == nil {
		return false
	}
	if in, ok := slice.(ssa.Instruction); !ok || l.body[in.Block()] {
		return false
	}
	// every other use of the slice: outside the loop, the first one a sort that dominates the rest
	var outside []ssa.Instruction
	for _, rf := range *slice.Referrers() {
		if _, isDbg := rf.(*ssa.DebugRef); isDbg {
			continue
		}
		if l.body[rf.Block()] {
			if ia, ok := rf.(*ssa.IndexAddr); ok && ia.Index == ssa.Value(ph) {
				continue
			}
			return false
		}
		outside = append(outside, rf)
	}
	var sortCall ssa.Instruction
	for _, o := range outside {
		if ci := callOf(o); ci != nil && ci.static != nil {
			if n := ci.static.String(); strings.HasPrefix(n, "sort.") || strings.HasPrefix(n, "slices.Sort") {
				sortCall = o
			}
		}
	}
	if sortCall == nil {
		return false
	}
	for _, o := range outside {
		if o == sortCall {
			continue
		}
		// the length the slice was made with, read before the loop, is fine
		if c, ok := o.(*ssa.Call); ok && callOf(c).builtin == "len" {
			continue
		}
		sb, ob := sortCall.Block(), o.Block()
		if sb == ob {
			if instrIndex(sortCall) > instrIndex(o) {
				return false
			}
			continue
		}
		if !sb.Dominates(ob) {
			return false
		}
	}
	return true
}

// collectThenKeyUse recognises the other order-insensitive accumulation: keys
// are collected into a slice in visit order, the slice is returned by an
// unexported helper that only runs from its static call sites, and every call
// site consumes the result only element by element, each element only as the
// key of delete(m, k), m[k] = ..., or a lookup m2[k] whose result is stored
// under that same key. Every such operation reads and writes only the entry of
// the element's own key, so the final maps are a function of the *set* of
// collected keys.
func (P *Prog) collectThenKeyUse(l rangeLoop, ph *ssa.Phi) bool {
	if _, ok := ph.Type().Underlying().(*types.Slice); !ok {
		return false
	}
	fn := ph.Parent()
	// the slice value and everything it flows to: phis and appends (as the accumulated operand) only,
	// ending in a return of fn
	flow := map[ssa.Value]bool{}
	ok := true
	returned, consumed := false, false
	var visit func(v ssa.Value)
	visit = func(v ssa.Value) {
		if flow[v] || !ok {
			return
		}
		flow[v] = true
		refs := v.Referrers()
		if refs == nil {
			return
		}
		for _, rf := range *refs {
			switch x := rf.(type) {
			case *ssa.Phi:
				visit(x)
			case *ssa.Call:
				if ci := callOf(x); ci.builtin == "append" && x.Call.Args[0] == v {
					visit(x)
				} else if keySetUse(x) {
					consumed = true
				} else {
					ok = false
				}
			case *ssa.Return:
				returned = true
			case *ssa.DebugRef:
			default:
				// consumed in the same function: measured, or indexed for elements that are used as keys only
				if !keySetUse(rf) {
					ok = false
				}
				consumed = true
			}
		}
	}
	visit(ph)
	if !ok || (!returned && !consumed) {
		return false
	}
	if !returned {
		return true
	}
	if fn.Signature.Results().Len() != 1 {
		return false
	}
	sites, closed := P.closedCallSites(fn)
	if !closed || len(sites) == 0 {
		return false
	}
	for _, site := range sites {
		res, isVal := site.(*ssa.Call)
		if !isVal || !sliceUsedOnlyAsKeySet(res) {
			return false
		}
	}
	return true
}

// sliceUsedOnlyAsKeySet: the slice is only measured and indexed, and every
// element read from it is used only as a map key in operations on that key.
func sliceUsedOnlyAsKeySet(s ssa.Value) bool {
	refs := s.Referrers()
	if refs == nil {
		return true
	}
	for _, rf := range *refs {
		if _, isDbg := rf.(*ssa.DebugRef); !isDbg && !keySetUse(rf) {
			return false
		}
	}
	return true
}

// keySetUse: one use of a slice of keys that does not depend on the order of its elements: its length, or an
// element read whose value is used only as a map key in operations on that key.
func keySetUse(rf ssa.Instruction) bool {
	keyOnly := func(e ssa.Value) bool {
		er := e.Referrers()
		if er == nil {
			return true
		}
		for _, u := range *er {
			switch x := u.(type) {
			case *ssa.DebugRef:
			case *ssa.MapUpdate:
				if x.Key != e || x.Value == e || x.Map == e {
					return false
				}
			case *ssa.Lookup:
				if x.Index != e || x.X == e {
					return false
				}
				// the looked-up value is stored under the same key and nothing else
				if lr := x.Referrers(); lr != nil {
					for _, lu := range *lr {
						switch y := lu.(type) {
						case *ssa.DebugRef:
						case *ssa.MapUpdate:
							if y.Value != ssa.Value(x) || y.Key != e {
								return false
							}
						default:
							return false
						}
					}
				}
			case ssa.CallInstruction:
				ci := callOf(u)
				if ci == nil || ci.builtin != "delete" || x.Common().Args[1] != e || x.Common().Args[0] == e {
					return false
				}
			default:
				return false
			}
		}
		return true
	}
	switch x := rf.(type) {
	case *ssa.DebugRef:
	case *ssa.IndexAddr:
		ir := x.Referrers()
		if ir == nil {
			return true
		}
		for _, u := range *ir {
			ld, isLoad := u.(*ssa.UnOp)
			if !isLoad || ld.Op != token.MUL || !keyOnly(ld) {
				return false
			}
		}
	case *ssa.Call:
		if ci := callOf(x); ci.builtin != "len" {
			return false
		}
	default:
		return false
	}
	return true
}

// checkIssueContainerReads: see the comment in the body.
func (P *Prog) checkIssueContainerReads(r *Result, rule string) {
	// issue-container reads: the struct field loop reaches every node function; a node that consults the
	// execution-wide issue container (HasErrored / IsEmpty) makes its behaviour depend on which siblings were
	// visited before it. The only accepted reader is the deferred post-transform gate (post-transform issues are
	// outside the statement).
	for _, nf := range P.nodeFuncs() {
		var bad []string
		eachInstr(nf, func(_ *ssa.BasicBlock, _ int, in ssa.Instruction) {
			ci := callOf(in)
			if ci == nil {
				return
			}
			name := ""
			if ci.static != nil {
				name = ci.static.Name()
			} else if ci.invoke != nil {
				name = ci.invoke.Name()
			}
			if name == "HasErrored" || name == "IsEmpty" {
				bad = append(bad, P.ipos(in))
			}
		})
		// closures: allowed only as the guard of the post-transform loop
		for _, cl := range nf.AnonFuncs {
			hasPT := false
			eachInstr(cl, func(_ *ssa.BasicBlock, _ int, in ssa.Instruction) {
				if P.callbackRole(callOf(in)) == "postTransform" {
					hasPT = true
				}
			})
			eachInstr(cl, func(_ *ssa.BasicBlock, _ int, in ssa.Instruction) {
				ci := callOf(in)
				if ci == nil {
					return
				}
				name := ""
				if ci.static != nil {
					name = ci.static.Name()
				} else if ci.invoke != nil {
					name = ci.invoke.Name()
				}
				if (name == "HasErrored" || name == "IsEmpty") && !hasPT {
					bad = append(bad, P.ipos(in))
				}
			})
		}
		if len(bad) > 0 {
			r.bad(rule, fname(nf), bad[0], "the node consults the execution-wide issue container outside the post-transform gate: whether it runs its tests / reports its issues depends on which sibling fields were visited before it ("+strings.Join(bad, ", ")+")")
		} else {
			r.ok(rule, fname(nf), P.pos(nf.Pos()), "the issue container is read only by the deferred post-transform gate")
		}
	}
	r.floor(rule, 10)
}

// checkReflectMapIteration: iterating a map through reflection (MapRange,
// MapKeys) or x/exp/maps.Keys/Values is map iteration too: its results must be
// sorted before any order-sensitive use.
func (P *Prog) checkReflectMapIteration(r *Result, rule string) {
	g := P.buildModCG()
	E := P.execSet(g)
	n := 0
	for _, fn := range sortedFuncs(E) {
		eachInstr(fn, func(_ *ssa.BasicBlock, _ int, in ssa.Instruction) {
			ci := callOf(in)
			if ci == nil || ci.static == nil {
				return
			}
			name := ci.static.String()
			isIter := false
			if isPkgFunc(ci.static, "reflect") && (ci.static.Name() == "MapRange" || ci.static.Name() == "MapKeys") {
				isIter = true
			}
			if on := originName(ci.static); on == "maps.Keys" || on == "maps.Values" || on == "golang.org/x/exp/maps.Keys" || on == "golang.org/x/exp/maps.Values" {
				isIter = true
			}
			if !isIter {
				return
			}
			n++
			c := fmt.Sprintf("%s#%s@%d", fname(fn), ci.static.Name(), n)
			// accepted only when the collected result is sorted in the same function
			sorted := false
			eachInstr(fn, func(_ *ssa.BasicBlock, _ int, in2 ssa.Instruction) {
				if c2 := callOf(in2); c2 != nil && c2.static != nil {
					n2 := c2.static.String()
					if strings.HasPrefix(n2, "sort.") || strings.HasPrefix(originName(c2.static), "slices.Sort") {
						sorted = true
					}
				}
			})
			if sorted {
				r.ok(rule, c, P.ipos(in), "map iterated through "+name+"; the result is sorted in this function")
			} else if ci.static.Name() == "MapRange" && mapRangeOnlyFeedsMap(in) {
				r.ok(rule, c, P.ipos(in), "every entry visited goes into another map under its own key (SetMapIndex): the order of the visit leaves no trace")
			} else {
				r.bad(rule, c, P.ipos(in), "execution code iterates a map through "+name+" and uses the elements in iteration order: the result (element order, which index an issue is filed under) changes from run to run")
			}
		})
	}
	if n == 0 {
		r.ok(rule, "execution code", "-", "no reflective map iteration in execution-reachable code")
	}
}

// calleeMayReadField: fn can read field f of its parameter idx: a load of it, the parameter handed to a dynamic
// or interface call (which may read anything), or to a module callee that can.
func calleeMayReadField(fn *ssa.Function, idx int, f *types.Var, depth int) bool {
	if fn == nil || fn.Blocks == nil || idx >= len(fn.Params) || depth > 3 {
		return true
	}
	prm := ssa.Value(fn.Params[idx])
	reads := false
	eachInstr(fn, func(_ *ssa.BasicBlock, _ int, in ssa.Instruction) {
		if reads {
			return
		}
		if u, ok := in.(*ssa.UnOp); ok && u.Op == token.MUL {
			if b, ff := fieldVar(u.X); ff != nil && sameField(ff, f) && cvi(b) == prm {
				reads = true
			}
			return
		}
		ci := callOf(in)
		if ci == nil {
			return
		}
		for k, a := range ci.args() {
			if cvi(a) != prm {
				continue
			}
			switch {
			case ci.static != nil && ci.static.Blocks != nil && inModule(funcPkgPath(ci.static)):
				if calleeMayReadField(ci.static, k, f, depth+1) {
					reads = true
				}
			default:
				reads = true
			}
		}
	})
	return reads
}

// rangeOverAtMostOneEntry: the range over map m is only reached knowing len(m) == 1, len(m) <= 1 or len(m) < 2
// (`switch len(params) { case 1: for k, v := range params {...} }`).
func rangeOverAtMostOneEntry(l rangeLoop) bool {
	m := cv(l.rng.X)
	for _, gd := range guardsOf(l.rng.Block()) {
		bo, ok := cv(gd.If.Cond).(*ssa.BinOp)
		if !ok {
			continue
		}
		c, isCall := bo.X.(*ssa.Call)
		if !isCall || callOf(c).builtin != "len" || cv(c.Call.Args[0]) != m {
			continue
		}
		k, isK := constInt(bo.Y)
		if !isK {
			continue
		}
		op := bo.Op
		if !gd.True {
			op = map[token.Token]token.Token{token.EQL: token.NEQ, token.NEQ: token.EQL, token.LSS: token.GEQ, token.LEQ: token.GTR, token.GTR: token.LEQ, token.GEQ: token.LSS}[op]
		}
		switch {
		case op == token.EQL && k <= 1, op == token.LEQ && k <= 1, op == token.LSS && k <= 2:
			return true
		}
	}
	return false
}

// mapRangeOnlyFeedsMap: the iterator made by this MapRange call is used only through Next/Key/Value, and what Key
// and Value return is used only as an argument of SetMapIndex - directly, or after one call whose result goes there
// (a clone of the value). Copying a map into a map is the one use of an iteration whose order cannot be observed.
func mapRangeOnlyFeedsMap(in ssa.Instruction) bool {
	iter, ok := in.(ssa.Value)
	if !ok {
		return false
	}
	var feedsOnlyMap func(v ssa.Value, depth int) bool
	feedsOnlyMap = func(v ssa.Value, depth int) bool {
		refs := v.Referrers()
		if refs == nil {
			return false
		}
		n := 0
		for _, rf := range *refs {
			switch x := rf.(type) {
			case *ssa.DebugRef:
				continue
			case *ssa.Store:
				// spilled into a local for a method call on it
				if al, isAl := x.Addr.(*ssa.Alloc); isAl && x.Val == v {
					if !feedsOnlyMap(al, depth) {
						return false
					}
					n++
					continue
				}
				return false
			case *ssa.UnOp:
				if x.Op == token.MUL {
					if !feedsOnlyMap(x, depth) {
						return false
					}
					n++
					continue
				}
				return false
			case *ssa.Call:
				ci := callOf(x)
				if ci.static != nil && isPkgFunc(ci.static, "reflect") && ci.static.Name() == "SetMapIndex" {
					n++
					continue
				}
				if depth < 1 && ci.static != nil && !isPkgFunc(ci.static, "reflect") {
					if !feedsOnlyMap(x, depth+1) {
						return false
					}
					n++
					continue
				}
				return false
			default:
				return false
			}
		}
		return n > 0
	}
	refs := iter.Referrers()
	if refs == nil {
		return false
	}
	seen := false
	for _, rf := range *refs {
		switch x := rf.(type) {
		case *ssa.DebugRef:
		case *ssa.Call:
			ci := callOf(x)
			if ci.static == nil || !isPkgFunc(ci.static, "reflect") {
				return false
			}
			switch ci.static.Name() {
			case "Next":
			case "Key", "Value":
				if !feedsOnlyMap(x, 0) {
					return false
				}
				seen = true
			default:
				return false
			}
		default:
			return false
		}
	}
	return seen
}
