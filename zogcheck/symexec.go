package main

import (
	"fmt"
	"go/constant"
	"go/token"
	"go/types"
	"strconv"
	"strings"

	"golang.org/x/tools/go/ssa"
)

// A small concrete/symbolic interpreter for decision functions whose inputs
// fall into finitely many classes (which tag is present, whether a pointer is
// nil). Integers, booleans, slice lengths and pointer nil-ness are concrete,
// strings are symbols, calls that leave the vocabulary are answered by an
// oracle supplied by the rule. Loops run concretely (their trip counts are
// concrete because slice lengths are), so a decision written as a chain of
// ifs and the same decision written as a loop over a list of candidates are
// interpreted to the same table. Anything outside the vocabulary makes the
// run undecided; nothing is guessed.

type svKind int

const (
	svOpaque svKind = iota
	svInt
	svBool
	svStr
	svPtr   // pointer to a cell (nil when cell == nil)
	svSlice // view of a backing array
	svTuple
	svStruct // fields are the cells of backing
	svMap    // entries keyed by the printed form of the (concrete) key
)

type svCell struct {
	v    symVal
	slot bool // stands for a configuration slot: its content is the slot's symbol whatever is stored there
}

type symVal struct {
	kind    svKind
	i       int64
	b       bool
	name    string    // svStr: the symbol
	cell    *svCell   // svPtr
	backing *[]svCell // svSlice: the array; svStruct: the fields
	entries map[string]symVal
	off, n  int
	capn    int
	tuple   []symVal
}

func (v symVal) String() string {
	switch v.kind {
	case svInt:
		return fmt.Sprint(v.i)
	case svBool:
		return fmt.Sprint(v.b)
	case svStr:
		return v.name
	case svPtr:
		if v.cell == nil {
			return "nil"
		}
		return "&" + v.cell.v.String()
	case svSlice:
		return fmt.Sprintf("slice[%d]", v.n)
	case svTuple:
		return fmt.Sprint(v.tuple)
	}
	return "?"
}

type symExec struct {
	// globals: the package-level variables the interpreted code reads (tables, sets), as built by the
	// package initialiser, interpreted leniently once per run (initGlobals)
	globals   map[*ssa.Global]*svCell
	slotCells map[string]*svCell // cells standing for configuration slots (&Config.Parsers.JSON)
	lenient   bool               // initialiser mode: what is outside the vocabulary is opaque, not a failure
	prog      *Prog
	// fieldLoad answers a load of a field reached from a named opaque value (`r.Method` of parameter r)
	fieldLoad func(path string) (symVal, bool)
	env       map[ssa.Value]symVal
	arrays    map[*ssa.Alloc]*[]svCell // local arrays
	cells     map[*ssa.Alloc]*svCell   // local scalars
	oracle    func(callee string, args []symVal) (symVal, bool)
	problem   string
	panics    string
	depth     int
	ret       []symVal
}

func newSymExec(oracle func(callee string, args []symVal) (symVal, bool)) *symExec {
	return &symExec{env: map[ssa.Value]symVal{}, arrays: map[*ssa.Alloc]*[]svCell{}, cells: map[*ssa.Alloc]*svCell{}, oracle: oracle}
}

func (se *symExec) fail(format string, a ...interface{}) bool {
	if se.lenient {
		return true
	}
	if se.problem == "" {
		se.problem = fmt.Sprintf(format, a...)
	}
	return false
}

func (se *symExec) val(v ssa.Value) symVal {
	if sv, ok := se.env[v]; ok {
		return sv
	}
	if c, ok := v.(*ssa.Const); ok {
		if c.Value == nil {
			// nil pointer / nil slice / zero value
			switch c.Type().Underlying().(type) {
			case *types.Pointer:
				return symVal{kind: svPtr}
			case *types.Slice:
				return symVal{kind: svSlice}
			}
			return symVal{}
		}
		switch c.Value.Kind() {
		case constant.Bool:
			return symVal{kind: svBool, b: constant.BoolVal(c.Value)}
		case constant.Int:
			k, _ := constant.Int64Val(c.Value)
			return symVal{kind: svInt, i: k}
		case constant.String:
			return symVal{kind: svStr, name: fmt.Sprintf("%q", constant.StringVal(c.Value))}
		}
	}
	return symVal{}
}

// run interprets fn with its parameters bound; the values of its return are left in se.ret.
func (se *symExec) run(fn *ssa.Function, args []symVal) bool {
	if len(args) != len(fn.Params) {
		return se.fail("arity")
	}
	for i, p := range fn.Params {
		se.env[p] = args[i]
	}
	b := fn.Blocks[0]
	var prev *ssa.BasicBlock
	for steps := 0; steps < 5000; steps++ {
		nv := map[ssa.Value]symVal{}
		for _, in := range b.Instrs {
			ph, ok := in.(*ssa.Phi)
			if !ok {
				break
			}
			for i, p := range b.Preds {
				if p == prev {
					nv[ph] = se.val(ph.Edges[i])
				}
			}
		}
		for k, v := range nv {
			se.env[k] = v
		}
		for _, in := range b.Instrs {
			if _, isPhi := in.(*ssa.Phi); isPhi {
				continue
			}
			if !se.step(in) {
				return false
			}
		}
		var next *ssa.BasicBlock
		switch t := b.Instrs[len(b.Instrs)-1].(type) {
		case *ssa.Return:
			se.ret = nil
			for _, r := range t.Results {
				se.ret = append(se.ret, se.val(r))
			}
			return true
		case *ssa.Jump:
			next = b.Succs[0]
		case *ssa.If:
			c := se.val(t.Cond)
			if c.kind != svBool {
				return se.fail("branch on a value the interpreter does not track (%s)", t.Cond.String())
			}
			if c.b {
				next = b.Succs[0]
			} else {
				next = b.Succs[1]
			}
		case *ssa.Panic:
			se.panics = "explicit panic"
			return false
		default:
			return se.fail("terminator %T", t)
		}
		prev, b = b, next
	}
	return se.fail("step limit")
}

func (se *symExec) step(in ssa.Instruction) bool {
	switch x := in.(type) {
	case *ssa.DebugRef, *ssa.Jump, *ssa.If, *ssa.Return, *ssa.RunDefers:
		return true
	case *ssa.Alloc:
		elem := x.Type().Underlying().(*types.Pointer).Elem()
		if arr, ok := elem.Underlying().(*types.Array); ok {
			cells := make([]svCell, int(arr.Len()))
			for i := range cells {
				cells[i].v = zeroSym(arr.Elem())
			}
			se.arrays[x] = &cells
			return true
		}
		se.cells[x] = &svCell{v: zeroSym(elem)}
		se.env[x] = symVal{kind: svPtr, cell: se.cells[x]}
		return true
	case *ssa.Store:
		addr := se.val(x.Addr)
		if addr.kind != svPtr || addr.cell == nil {
			return se.fail("store through an untracked address at %v", x.Pos())
		}
		if !addr.cell.slot {
			addr.cell.v = copyStruct(se.val(x.Val))
		}
		return true
	case *ssa.UnOp:
		switch x.Op {
		case token.MUL:
			// a package-level configuration slot (`Config.Parsers.Query`): a symbol named after its path
			if name := globalFieldPath(x.X); name != "" {
				se.env[x] = symVal{kind: svStr, name: name}
				return true
			}
			if g, ok := x.X.(*ssa.Global); ok {
				if c := se.globalCell(g); c != nil {
					se.env[x] = c.v
					return true
				}
			}
			p := se.val(x.X)
			if p.kind == svOpaque && p.name != "" && se.fieldLoad != nil {
				if v, ok := se.fieldLoad(p.name); ok {
					se.env[x] = v
					return true
				}
			}
			if p.kind != svPtr {
				se.env[x] = symVal{}
				return true
			}
			if p.cell == nil {
				se.panics = "nil pointer dereference"
				return false
			}
			se.env[x] = p.cell.v
			return true
		case token.NOT:
			v := se.val(x.X)
			if v.kind != svBool {
				return se.fail("negation of an untracked value")
			}
			se.env[x] = symVal{kind: svBool, b: !v.b}
			return true
		}
		se.env[x] = symVal{}
		return true
	case *ssa.IndexAddr:
		idx := se.val(x.Index)
		if al, ok := x.X.(*ssa.Alloc); ok && se.arrays[al] != nil {
			if idx.kind != svInt || idx.i < 0 || int(idx.i) >= len(*se.arrays[al]) {
				return se.fail("array index not concrete")
			}
			se.env[x] = symVal{kind: svPtr, cell: &(*se.arrays[al])[idx.i]}
			return true
		}
		base := se.val(x.X)
		if base.kind == svSlice && idx.kind == svInt {
			if idx.i < 0 || int(idx.i) >= base.n {
				se.panics = "index out of range"
				return false
			}
			se.env[x] = symVal{kind: svPtr, cell: &(*base.backing)[base.off+int(idx.i)]}
			return true
		}
		se.env[x] = symVal{}
		return true
	case *ssa.Slice:
		lo, hi := 0, -1
		if x.Low != nil {
			l := se.val(x.Low)
			if l.kind != svInt {
				return se.fail("slice bound not concrete")
			}
			lo = int(l.i)
		}
		if x.High != nil {
			h := se.val(x.High)
			if h.kind != svInt {
				return se.fail("slice bound not concrete")
			}
			hi = int(h.i)
		}
		if al, ok := x.X.(*ssa.Alloc); ok && se.arrays[al] != nil {
			n := len(*se.arrays[al])
			if hi < 0 {
				hi = n
			}
			se.env[x] = symVal{kind: svSlice, backing: se.arrays[al], off: lo, n: hi - lo, capn: n - lo}
			return true
		}
		base := se.val(x.X)
		if base.kind == svStr {
			// a concrete representative string (quoted): sliced for real
			str, err := strconv.Unquote(base.name)
			if err != nil {
				return se.fail("slice of a symbolic string")
			}
			if hi < 0 {
				hi = len(str)
			}
			if lo < 0 || lo > hi || hi > len(str) {
				se.panics = "slice bounds out of range"
				return false
			}
			se.env[x] = symVal{kind: svStr, name: strconv.Quote(str[lo:hi])}
			return true
		}
		if base.kind == svSlice {
			if hi < 0 {
				hi = base.n
			}
			if lo > hi || hi > base.capn {
				se.panics = "slice bounds out of range"
				return false
			}
			se.env[x] = symVal{kind: svSlice, backing: base.backing, off: base.off + lo, n: hi - lo, capn: base.capn - lo}
			return true
		}
		se.env[x] = symVal{}
		return true
	case *ssa.MakeSlice:
		l, c := se.val(x.Len), se.val(x.Cap)
		if l.kind != svInt || c.kind != svInt {
			return se.fail("make with a length the interpreter does not track")
		}
		cells := make([]svCell, int(c.i))
		elem := x.Type().Underlying().(*types.Slice).Elem()
		for i := range cells {
			cells[i].v = zeroSym(elem)
		}
		se.env[x] = symVal{kind: svSlice, backing: &cells, n: int(l.i), capn: int(c.i)}
		return true
	case *ssa.BinOp:
		a, c := se.val(x.X), se.val(x.Y)
		switch {
		case a.kind == svInt && c.kind == svInt:
			switch x.Op {
			case token.ADD:
				se.env[x] = symVal{kind: svInt, i: a.i + c.i}
			case token.SUB:
				se.env[x] = symVal{kind: svInt, i: a.i - c.i}
			case token.LSS:
				se.env[x] = symVal{kind: svBool, b: a.i < c.i}
			case token.LEQ:
				se.env[x] = symVal{kind: svBool, b: a.i <= c.i}
			case token.GTR:
				se.env[x] = symVal{kind: svBool, b: a.i > c.i}
			case token.GEQ:
				se.env[x] = symVal{kind: svBool, b: a.i >= c.i}
			case token.EQL:
				se.env[x] = symVal{kind: svBool, b: a.i == c.i}
			case token.NEQ:
				se.env[x] = symVal{kind: svBool, b: a.i != c.i}
			default:
				return se.fail("integer operator %s", x.Op)
			}
			return true
		case a.kind == svBool && c.kind == svBool:
			switch x.Op {
			case token.AND:
				se.env[x] = symVal{kind: svBool, b: a.b && c.b}
			case token.OR:
				se.env[x] = symVal{kind: svBool, b: a.b || c.b}
			case token.EQL:
				se.env[x] = symVal{kind: svBool, b: a.b == c.b}
			case token.NEQ:
				se.env[x] = symVal{kind: svBool, b: a.b != c.b}
			default:
				return se.fail("boolean operator %s", x.Op)
			}
			return true
		case a.kind == svStr && c.kind == svStr && (x.Op == token.EQL || x.Op == token.NEQ):
			// symbols are equal exactly when they are the same symbol (representatives are distinct strings)
			se.env[x] = symVal{kind: svBool, b: (a.name == c.name) == (x.Op == token.EQL)}
			return true
		case a.kind == svPtr && c.kind == svPtr && (x.Op == token.EQL || x.Op == token.NEQ):
			se.env[x] = symVal{kind: svBool, b: (a.cell == c.cell) == (x.Op == token.EQL)}
			return true
		case a.kind == svSlice && c.kind == svSlice && (x.Op == token.EQL || x.Op == token.NEQ):
			// comparison with nil
			se.env[x] = symVal{kind: svBool, b: (a.backing == nil && c.backing == nil) == (x.Op == token.EQL)}
			return true
		}
		return se.fail("operator %s on untracked values at %v", x.Op, x.Pos())
	case *ssa.Extract:
		t := se.val(x.Tuple)
		if t.kind == svTuple && x.Index < len(t.tuple) {
			se.env[x] = t.tuple[x.Index]
			return true
		}
		se.env[x] = symVal{}
		return true
	case *ssa.FieldAddr:
		// the address of a configuration slot (&Config.Parsers.JSON): a cell holding the slot's symbol
		if name := globalFieldPath(x); name != "" {
			if se.slotCells == nil {
				se.slotCells = map[string]*svCell{}
			}
			if se.slotCells[name] == nil {
				se.slotCells[name] = &svCell{v: symVal{kind: svStr, name: name}, slot: true}
			}
			se.env[x] = symVal{kind: svPtr, cell: se.slotCells[name]}
			return true
		}
		base := se.val(x.X)
		if base.kind == svPtr && base.cell != nil && base.cell.v.kind == svStruct && x.Field < len(*base.cell.v.backing) {
			se.env[x] = symVal{kind: svPtr, cell: &(*base.cell.v.backing)[x.Field]}
			return true
		}
		if base.kind == svOpaque && base.name != "" {
			if _, f := fieldVar(x); f != nil {
				se.env[x] = symVal{kind: svOpaque, name: base.name + "." + f.Name()}
				return true
			}
		}
		se.env[x] = symVal{}
		return true
	case *ssa.Field:
		base := se.val(x.X)
		if base.kind == svStruct && x.Field < len(*base.backing) {
			se.env[x] = (*base.backing)[x.Field].v
			return true
		}
		se.env[x] = symVal{}
		return true
	case *ssa.MakeMap:
		se.env[x] = symVal{kind: svMap, entries: map[string]symVal{}}
		return true
	case *ssa.MapUpdate:
		m, k := se.val(x.Map), se.val(x.Key)
		if m.kind != svMap || m.entries == nil || !concreteKey(k) {
			return se.fail("map update outside the interpreter's vocabulary")
		}
		m.entries[k.String()] = copyStruct(se.val(x.Value))
		return true
	case *ssa.Lookup:
		m, k := se.val(x.X), se.val(x.Index)
		if m.kind != svMap || !concreteKey(k) {
			return se.fail("lookup outside the interpreter's vocabulary at %v", x.Pos())
		}
		v, ok := m.entries[k.String()]
		if !ok {
			v = zeroSym(x.X.Type().Underlying().(*types.Map).Elem())
		}
		if x.CommaOk {
			se.env[x] = symVal{kind: svTuple, tuple: []symVal{v, {kind: svBool, b: ok}}}
		} else {
			se.env[x] = v
		}
		return true
	case *ssa.MakeInterface, *ssa.ChangeType, *ssa.Convert, *ssa.TypeAssert, *ssa.MakeClosure:
		if v, ok := in.(ssa.Value); ok {
			if ct, ok := in.(*ssa.ChangeType); ok {
				se.env[v] = se.val(ct.X)
			} else {
				se.env[v] = symVal{}
			}
		}
		return true
	case *ssa.Call:
		ci := callOf(x)
		switch ci.builtin {
		case "len", "cap":
			a := se.val(x.Call.Args[0])
			if a.kind != svSlice {
				return se.fail("len of an untracked value")
			}
			n := a.n
			if ci.builtin == "cap" {
				n = a.capn
			}
			se.env[x] = symVal{kind: svInt, i: int64(n)}
			return true
		case "append":
			dst, src := se.val(x.Call.Args[0]), se.val(x.Call.Args[1])
			if dst.kind != svSlice || src.kind != svSlice {
				return se.fail("append of untracked slices")
			}
			if dst.n+src.n <= dst.capn && dst.backing != nil {
				for i := 0; i < src.n; i++ {
					(*dst.backing)[dst.off+dst.n+i].v = (*src.backing)[src.off+i].v
				}
				se.env[x] = symVal{kind: svSlice, backing: dst.backing, off: dst.off, n: dst.n + src.n, capn: dst.capn}
				return true
			}
			cells := make([]svCell, dst.n+src.n)
			for i := 0; i < dst.n; i++ {
				cells[i].v = (*dst.backing)[dst.off+i].v
			}
			for i := 0; i < src.n; i++ {
				cells[dst.n+i].v = (*src.backing)[src.off+i].v
			}
			se.env[x] = symVal{kind: svSlice, backing: &cells, n: len(cells), capn: len(cells)}
			return true
		}
		if ci.builtin != "" {
			return se.fail("builtin %s", ci.builtin)
		}
		var args []symVal
		for _, a := range x.Call.Args {
			args = append(args, se.val(a))
		}
		// a call through a configuration slot: its result is a symbol naming the slot
		if ci.dynamic {
			if f := se.val(x.Call.Value); f.kind == svStr && strings.HasPrefix(f.name, "@") {
				se.env[x] = symVal{kind: svStr, name: "call " + f.name}
				return true
			}
		}
		// a helper of the module is interpreted in turn
		if g := ci.static; g != nil && g.Blocks != nil && inModule(funcPkgPath(g)) && se.depth < 4 && len(g.FreeVars) == 0 {
			sub := &symExec{env: se.env, arrays: se.arrays, cells: se.cells, oracle: se.oracle, depth: se.depth + 1}
			if !sub.run(g, args) {
				se.problem, se.panics = sub.problem, sub.panics
				return false
			}
			switch len(sub.ret) {
			case 0:
				se.env[x] = symVal{}
			case 1:
				se.env[x] = sub.ret[0]
			default:
				se.env[x] = symVal{kind: svTuple, tuple: sub.ret}
			}
			return true
		}
		if se.oracle != nil {
			if v, ok := se.oracle(ci.calleeName(), args); ok {
				se.env[x] = v
				return true
			}
		}
		return se.fail("call of %s is outside the interpreter's vocabulary", ci.calleeName())
	}
	return se.fail("instruction %T outside the interpreter's vocabulary", in)
}

// copyStruct: struct values are copied on store (value semantics).
func copyStruct(v symVal) symVal {
	if v.kind != svStruct || v.backing == nil {
		return v
	}
	cells := make([]svCell, len(*v.backing))
	for i := range cells {
		cells[i].v = copyStruct((*v.backing)[i].v)
	}
	return symVal{kind: svStruct, backing: &cells}
}

func concreteKey(k symVal) bool {
	return k.kind == svStr || k.kind == svInt || k.kind == svBool
}

// globalCell: the value of a package-level variable as its package initialiser builds it. The initialiser is
// interpreted leniently (anything outside the vocabulary is opaque) once; a variable it does not build from
// constants stays opaque. Only unexported variables are trusted: nobody outside the package can write them,
// and C08's write-effect rule forbids execution code to.
func (se *symExec) globalCell(g *ssa.Global) *svCell {
	if g.Object() == nil || g.Object().Exported() || g.Pkg == nil {
		return nil
	}
	if se.globals == nil {
		se.globals = map[*ssa.Global]*svCell{}
		init := g.Pkg.Func("init")
		if init != nil && init.Blocks != nil {
			sub := &symExec{env: map[ssa.Value]symVal{}, arrays: map[*ssa.Alloc]*[]svCell{}, cells: map[*ssa.Alloc]*svCell{}, lenient: true, globals: se.globals, slotCells: se.slotCells}
			sub.runInit(init)
			se.slotCells = sub.slotCells
		}
	}
	return se.globals[g]
}

// runInit walks the initialiser's blocks in order (it is straight-line code apart from the init guard),
// executing what it understands and recording stores to package-level variables.
func (se *symExec) runInit(init *ssa.Function) {
	for _, b := range init.Blocks {
		for _, in := range b.Instrs {
			if st, ok := in.(*ssa.Store); ok {
				if g, isG := st.Addr.(*ssa.Global); isG {
					se.globals[g] = &svCell{v: copyStruct(se.val(st.Val))}
					continue
				}
			}
			if _, isCall := in.(*ssa.Call); isCall {
				if v, ok := in.(ssa.Value); ok {
					se.env[v] = symVal{}
				}
				continue
			}
			func() {
				defer func() { _ = recover() }()
				se.step(in)
			}()
		}
	}
}

// globalFieldPath: addr is a chain of field selections on a package-level variable; returns "@Var.f.g".
func globalFieldPath(addr ssa.Value) string {
	var parts []string
	for {
		switch a := addr.(type) {
		case *ssa.FieldAddr:
			_, f := fieldVar(a)
			if f == nil {
				return ""
			}
			parts = append([]string{f.Name()}, parts...)
			addr = a.X
			continue
		case *ssa.Global:
			if len(parts) == 0 {
				return ""
			}
			return "@" + a.Name() + "." + strings.Join(parts, ".")
		}
		return ""
	}
}

func zeroSym(t types.Type) symVal {
	switch u := t.Underlying().(type) {
	case *types.Struct:
		cells := make([]svCell, u.NumFields())
		for i := range cells {
			cells[i].v = zeroSym(u.Field(i).Type())
		}
		return symVal{kind: svStruct, backing: &cells}
	case *types.Map:
		return symVal{kind: svMap}
	case *types.Basic:
		switch {
		case u.Info()&types.IsString != 0:
			return symVal{kind: svStr, name: `""`}
		case u.Info()&types.IsBoolean != 0:
			return symVal{kind: svBool}
		case u.Info()&types.IsInteger != 0:
			return symVal{kind: svInt}
		}
	case *types.Pointer:
		return symVal{kind: svPtr}
	case *types.Slice:
		return symVal{kind: svSlice}
	}
	return symVal{}
}
