package main

import (
	"encoding/json"

	"fmt"
	"io/fs"
	"os"
	"os/exec"
	"path/filepath"
	"regexp"
	"sort"
	"strings"

	"golang.org/x/tools/go/ssa"
)

// Thorough tier = the quick rules on /repo's working tree (that alone decides
// the verdict) + measurements of the analyser itself:
//
//   - selftest/mutants.json: semantic mutants (regex rewrites located by
//     content, and seeded patches kept under /verif/seeded). Each is materialised
//     in a scratch copy of the working tree under os.TempDir(), analysed with the
//     same rule, and must be reported; the copy is removed at once.
//   - selftest/prefix_expect.json: the findings the rule must report on the
//     pinned pre-fix commit of /repo (the root commit), when git history is there.
//   - C18: the rule repeated under GOARCH=386.
//
// None of this votes: results go into evidence (mutants_total / killed /
// survivors / not_applicable). A surviving mutant is listed, not a violation.

type mutant struct {
	ID       string `json:"id"`
	Property string `json:"property"`
	Type     string `json:"type"` // "regex" or "patch"
	File     string `json:"file,omitempty"`
	Find     string `json:"find,omitempty"`
	Replace  string `json:"replace,omitempty"`
	Patch    string `json:"patch,omitempty"` // path relative to /verif
	Edits    []struct {
		File    string `json:"file"`
		Find    string `json:"find"`
		Replace string `json:"replace"`
	} `json:"edits,omitempty"`
	ExpectRule string `json:"expect_rule,omitempty"`
	Note       string `json:"note,omitempty"`
}

type prefixExpect struct {
	Property  string `json:"property"`
	Rule      string `json:"rule"`
	Construct string `json:"construct"`
	Finding   string `json:"finding"`
}

var thoroughProps = map[string]func(P *Prog, r *Result, repo string){}

func runThorough(P *Prog, r *Result, id, repo string) {
	if f := thoroughProps[id]; f != nil {
		runGuarded(P, r, func(P *Prog, r *Result) { f(P, r, repo) })
	}
	runGuarded(P, r, func(P *Prog, r *Result) { selfTest(r, id, repo) })
}

func init() {
	// C18 thorough: the same rule under GOARCH=386, where int is 32 bits wide
	// (int64→int becomes lossy) and build-tagged files of that platform are loaded.
	thoroughProps["C18"] = func(P *Prog, r *Result, repo string) {
		P2, err := Load(repo, "386", false)
		if err != nil {
			r.broken("GOARCH=386 load failed: %v", err)
			return
		}
		if err := P2.discoverRoles(); err != nil {
			r.broken("GOARCH=386 role discovery failed: %v", err)
			return
		}
		sub := NewResult(r.Prop, r.Tier)
		checkC18(P2, sub)
		r.Obls = append(r.Obls, sub.Obls...)
		for k, v := range sub.Instances {
			r.Instances[k] += v
		}
		r.Broken = append(r.Broken, sub.Broken...)
		r.info("thorough: rule repeated with GOARCH=386 (%d additional obligations)", len(sub.Obls))
	}
}

func verifDir() string {
	if d := os.Getenv("ZOGCHECK_VERIF"); d != "" {
		return d
	}
	exe, err := os.Executable()
	if err == nil {
		d := filepath.Dir(filepath.Dir(exe))
		if _, err := os.Stat(filepath.Join(d, "selftest")); err == nil {
			return d
		}
	}
	return "/verif"
}

// copyTree copies the working tree (no .git, docs, assets) into dst.
func copyTree(src, dst string) error {
	return filepath.WalkDir(src, func(path string, d fs.DirEntry, err error) error {
		if err != nil {
			return err
		}
		rel, _ := filepath.Rel(src, path)
		if rel == "." {
			return os.MkdirAll(dst, 0o755)
		}
		top := strings.Split(rel, string(filepath.Separator))[0]
		if top == ".git" || top == "docs" || top == "assets" {
			if d.IsDir() {
				return filepath.SkipDir
			}
			return nil
		}
		if d.IsDir() {
			return os.MkdirAll(filepath.Join(dst, rel), 0o755)
		}
		if !d.Type().IsRegular() {
			return nil
		}
		b, err := os.ReadFile(path)
		if err != nil {
			return err
		}
		return os.WriteFile(filepath.Join(dst, rel), b, 0o644)
	})
}

// analyse a scratch tree with the rule of one property; returns the non-discharged obligations.
func analyseScratch(dir, prop string) ([]Obligation, []string, error) {
	P2, err := Load(dir, "", false)
	if err != nil {
		return nil, nil, err
	}
	if err := P2.discoverRoles(); err != nil {
		return nil, []string{err.Error()}, nil
	}
	sub := NewResult(prop, "thorough")
	runGuarded(P2, sub, props[prop])
	defer func() {
		// the alias table is keyed by function: drop this program's entries so it can be collected
		for _, fn := range P2.Funcs {
			delete(closureAlias, fn)
		}
	}()
	var out []Obligation
	for _, o := range sub.Obls {
		if o.Status != Discharged {
			out = append(out, o)
		}
	}
	// vacuity floors also count as detection (the rule lost its instances)
	var broken []string
	broken = append(broken, sub.Broken...)
	for rule, fl := range sub.Floors {
		if sub.Instances[rule] < fl {
			broken = append(broken, fmt.Sprintf("vacuous: %s matched %d < %d", rule, sub.Instances[rule], fl))
		}
	}
	return out, broken, nil
}

func selfTest(r *Result, prop, repo string) {
	vd := verifDir()
	// ---------- mutants ----------
	var muts []mutant
	if b, err := os.ReadFile(filepath.Join(vd, "selftest", "mutants.json")); err == nil {
		if err := json.Unmarshal(b, &muts); err != nil {
			r.info("selftest/mutants.json unreadable: %v", err)
		}
	}
	total, killed, na := 0, 0, 0
	var survivors, details []string
	for _, m := range muts {
		if m.Property != prop {
			continue
		}
		total++
		tmp, err := os.MkdirTemp("", "zogmut-")
		if err != nil {
			r.info("mutant %s: cannot create scratch dir: %v", m.ID, err)
			na++
			continue
		}
		func() {
			defer os.RemoveAll(tmp)
			if err := copyTree(repo, tmp); err != nil {
				na++
				details = append(details, m.ID+": not-applicable (copy failed: "+err.Error()+")")
				return
			}
			applied := false
			switch m.Type {
			case "regex":
				type ed struct{ File, Find, Replace string }
				eds := []ed{}
				if m.File != "" {
					eds = append(eds, ed{m.File, m.Find, m.Replace})
				}
				for _, e := range m.Edits {
					eds = append(eds, ed{e.File, e.Find, e.Replace})
				}
				applied = len(eds) > 0
				for _, e := range eds {
					p := filepath.Join(tmp, e.File)
					b, err := os.ReadFile(p)
					okE := false
					if err == nil {
						re, rerr := regexp.Compile(e.Find)
						if rerr == nil {
							// only the first match is rewritten
							loc := re.FindIndex(b)
							if loc != nil {
								repl := re.ReplaceAll(b[loc[0]:loc[1]], []byte(e.Replace))
								nb := append(append(append([]byte{}, b[:loc[0]]...), repl...), b[loc[1]:]...)
								if string(nb) != string(b) {
									okE = os.WriteFile(p, nb, 0o644) == nil
								}
							}
						}
					}
					if !okE {
						applied = false
					}
				}
			case "patch":
				cmd := exec.Command("patch", "-p1", "-s", "-f", "-i", filepath.Join(vd, m.Patch))
				cmd.Dir = tmp
				if out, err := cmd.CombinedOutput(); err == nil {
					applied = true
				} else {
					_ = out
				}
			}
			if !applied {
				na++
				details = append(details, m.ID+": not-applicable (the mutation no longer applies to this tree)")
				return
			}
			obls, broken, err := analyseScratch(tmp, prop)
			if err != nil {
				// a mutant that no longer type-checks is not a useful mutant
				na++
				details = append(details, m.ID+": not-applicable (mutated tree does not load: "+firstLine(err.Error())+")")
				return
			}
			hit := ""
			for _, o := range obls {
				if m.ExpectRule == "" || strings.Contains(o.Rule, m.ExpectRule) {
					hit = o.Rule + " " + o.Construct
					break
				}
			}
			// a vacuity floor that fires is not a report of the mutation: the mutant counts as reported only
			// when an obligation is violated or undecided
			brokenOnly := ""
			if hit == "" && len(broken) > 0 {
				brokenOnly = " (only a broken-check: " + broken[0] + ")"
			}
			if hit != "" {
				killed++
				details = append(details, m.ID+": reported by "+hit)
			} else {
				survivors = append(survivors, m.ID)
				other := ""
				if len(obls) > 0 {
					other = " (other reports: " + obls[0].Rule + " " + obls[0].Construct + ")"
				}
				details = append(details, m.ID+": SURVIVED"+other+brokenOnly+" — "+m.Note)
			}
		}()
	}
	sort.Strings(details)
	r.Extra["selftest_mutants_total"] = total
	r.Extra["selftest_mutants_reported"] = killed
	r.Extra["selftest_mutants_not_applicable"] = na
	r.Extra["selftest_mutants_survivors"] = survivors
	r.Extra["selftest_mutants_detail"] = details
	fmt.Printf("selftest %s: %d mutant(s): %d reported, %d survived, %d not applicable\n", prop, total, killed, len(survivors), na)
	for _, s := range survivors {
		fmt.Printf("selftest %s: SURVIVOR %s (measurement only; does not affect the verdict)\n", prop, s)
	}

	// ---------- pre-fix regression ----------
	var exps []prefixExpect
	if b, err := os.ReadFile(filepath.Join(vd, "selftest", "prefix_expect.json")); err == nil {
		json.Unmarshal(b, &exps)
	}
	var mine []prefixExpect
	for _, e := range exps {
		if e.Property == prop {
			mine = append(mine, e)
		}
	}
	if len(mine) == 0 {
		return
	}
	rootOut, err := exec.Command("git", "-C", repo, "rev-list", "--max-parents=0", "HEAD").Output()
	if err != nil || strings.TrimSpace(string(rootOut)) == "" {
		r.info("pre-fix regression: skipped (no git history at %s)", repo)
		r.Extra["selftest_prefix"] = "skipped: no git history"
		return
	}
	root := strings.Fields(string(rootOut))[0]
	tmp, err := os.MkdirTemp("", "zogpre-")
	if err != nil {
		return
	}
	defer os.RemoveAll(tmp)
	// materialise the root commit without touching /repo's worktree list
	arch := exec.Command("sh", "-c", fmt.Sprintf("git -C %q archive %s | tar -x -C %q", repo, root, tmp))
	if out, err := arch.CombinedOutput(); err != nil {
		r.info("pre-fix regression: skipped (git archive failed: %s)", firstLine(string(out)))
		r.Extra["selftest_prefix"] = "skipped: git archive failed"
		return
	}
	os.RemoveAll(filepath.Join(tmp, "docs"))
	obls, _, err := analyseScratch(tmp, prop)
	if err != nil {
		r.info("pre-fix regression: pre-fix tree does not load: %s", firstLine(err.Error()))
		return
	}
	have := map[string]bool{}
	for _, o := range obls {
		have[o.Rule+" "+o.Construct] = true
	}
	found, missing := 0, []string{}
	for _, e := range mine {
		if have[e.Rule+" "+e.Construct] {
			found++
		} else {
			missing = append(missing, e.Finding+": "+e.Rule+" "+e.Construct)
		}
	}
	r.Extra["selftest_prefix_commit"] = root[:12]
	r.Extra["selftest_prefix_expected"] = len(mine)
	r.Extra["selftest_prefix_reported"] = found
	r.Extra["selftest_prefix_missing"] = missing
	fmt.Printf("selftest %s: pre-fix tree %s: %d/%d recorded defects reported\n", prop, root[:12], found, len(mine))
	for _, m := range missing {
		fmt.Printf("selftest %s: MISSING on pre-fix tree: %s (measurement only)\n", prop, m)
	}
}

func firstLine(s string) string {
	if i := strings.IndexByte(s, '\n'); i >= 0 {
		return s[:i]
	}
	return s
}

func init() {
	// C06 thorough: the compiler's own bounds-check-elimination report as a
	// completeness cross-reference of the index/slice site enumeration: every
	// bounds check the compiler could not prove away, in a Parse-reachable
	// function, must be one of the sites the rule enumerated (at that line, or at
	// the call of an inlined function that contains such a site).
	thoroughProps["C06"] = func(P *Prog, r *Result, repo string) {
		cmd := exec.Command("go", "build", "-gcflags="+modPath+"/...=-d=ssa/check_bce/debug=1", "./...")
		cmd.Dir = repo
		cmd.Env = append(os.Environ(), "GOFLAGS=-mod=mod", "GOPROXY=off", "GOSUMDB=off", "GOTOOLCHAIN=local", "GOWORK=off")
		out, _ := cmd.CombinedOutput()
		g := P.buildModCG()
		S := P.parseSet(g)
		// lines of enumerated index/slice sites, and lines of calls to functions containing such sites
		siteLines := map[string]bool{}
		hasSites := map[string]bool{}
		for _, fn := range P.Funcs {
			for _, s := range P.panicSites(fn) {
				if s.kind == "index" || s.kind == "slice" {
					siteLines[P.ipos(s.in)] = true
					hasSites[fname(fn)] = true
				}
			}
		}
		callLines := map[string]bool{}
		funcLines := map[string][2]int{}
		for _, fn := range P.Funcs {
			eachInstr(fn, func(_ *ssa.BasicBlock, _ int, in ssa.Instruction) {
				if ci := callOf(in); ci != nil && ci.static != nil && (hasSites[fname(ci.static)] || !inModule(funcPkgPath(ci.static))) {
					// inlined callee: a module function with enumerated sites, or standard-library code (trusted)
					callLines[P.ipos(in)] = true
				}
			})
			_ = funcLines
		}
		inParse := func(file string, line int) bool {
			for fn := range S {
				if fn.Syntax() == nil {
					continue
				}
				ps, pe := P.Fset.Position(fn.Syntax().Pos()), P.Fset.Position(fn.Syntax().End())
				f := strings.TrimPrefix(ps.Filename, P.Repo+"/")
				if f == file && line >= ps.Line && line <= pe.Line {
					return true
				}
			}
			return false
		}
		re := regexp.MustCompile(`^(?:\./)?([^:\s]+\.go):(\d+):\d+: Found (IsInBounds|IsSliceInBounds)`)
		total, matched := 0, 0
		var unmatched []string
		seen := map[string]bool{}
		for _, line := range strings.Split(string(out), "\n") {
			m := re.FindStringSubmatch(strings.TrimSpace(line))
			if m == nil || strings.HasSuffix(m[1], "_test.go") {
				continue
			}
			key := m[1] + ":" + m[2]
			if seen[key] {
				continue
			}
			seen[key] = true
			var ln int
			fmt.Sscanf(m[2], "%d", &ln)
			if !inParse(m[1], ln) {
				continue
			}
			total++
			if siteLines[key] || callLines[key] {
				matched++
			} else {
				unmatched = append(unmatched, key+" "+m[3])
			}
		}
		sort.Strings(unmatched)
		r.Extra["bce_unproven_checks_in_parse_code"] = total
		r.Extra["bce_matched_to_enumerated_sites"] = matched
		r.Extra["bce_unmatched"] = unmatched
		fmt.Printf("selftest C06: compiler BCE cross-reference: %d unproven bounds checks in Parse-reachable code, %d matched to enumerated sites\n", total, matched)
		for _, u := range unmatched {
			fmt.Printf("selftest C06: BCE site not enumerated by the rule: %s (measurement only)\n", u)
		}
	}
}
