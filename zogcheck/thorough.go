package main

// runThorough adds the thorough-tier work for a property (see thorough rules
// registered per property). Filled in per property.
func runThorough(P *Prog, r *Result, id, repo string) {
	if f := thoroughProps[id]; f != nil {
		runGuarded(P, r, func(P *Prog, r *Result) { f(P, r, repo) })
	}
}

var thoroughProps = map[string]func(P *Prog, r *Result, repo string){}

func init() {
	// C18 thorough: the same rule under GOARCH=386, where int is 32 bits wide
	// (int64→int becomes lossy) and build-tagged files of that platform are loaded.
	thoroughProps["C18"] = func(P *Prog, r *Result, repo string) {
		P2, err := Load(repo, "386", false)
		if err != nil {
			r.broken("GOARCH=386 load failed: %v", err)
			return
		}
		if err := P2.discoverRoles(); err != nil {
			r.broken("GOARCH=386 role discovery failed: %v", err)
			return
		}
		sub := NewResult(r.Prop, r.Tier)
		checkC18(P2, sub)
		r.Obls = append(r.Obls, sub.Obls...)
		for k, v := range sub.Instances {
			r.Instances[k] += v
		}
		r.Broken = append(r.Broken, sub.Broken...)
		r.info("thorough: rule repeated with GOARCH=386 (%d additional obligations)", len(sub.Obls))
	}
}
