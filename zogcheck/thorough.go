package main

// runThorough adds the thorough-tier work for a property (see thorough rules
// registered per property). Filled in per property.
func runThorough(P *Prog, r *Result, id, repo string) {
	if f := thoroughProps[id]; f != nil {
		runGuarded(P, r, func(P *Prog, r *Result) { f(P, r, repo) })
	}
}

var thoroughProps = map[string]func(P *Prog, r *Result, repo string){}
