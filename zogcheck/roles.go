package main

import (
	"fmt"
	"go/ast"
	"go/types"
	"sort"
	"strings"

	"golang.org/x/tools/go/ssa"
)

const (
	pkgZog       = modPath
	pkgInternals = modPath + "/internals"
	pkgConf      = modPath + "/conf"
	pkgZconst    = modPath + "/zconst"
	pkgI18n      = modPath + "/i18n"
	pkgZhttp     = modPath + "/zhttp"
	pkgZjson     = modPath + "/parsers/zjson"
	pkgZenv      = modPath + "/zenv"
)

// Roles are the repository's own anchors, found through types, not text.
type Roles struct {
	ZogSchema    *types.Interface
	ZogSchemaN   *types.Named
	DataProvider *types.Interface
	Ctx          *types.Interface

	SchemaCtx *types.Named
	ExecCtx   *types.Named
	ZogIssue  *types.Named
	Test      *types.Named
	ErrsMap   *types.Named
	ErrsList  *types.Named
	PathB     *types.Named

	// SchemaCtx fields
	FData, FValPtr, FPath, FDType, FCanCatch, FExit, FHasCaught, FTest, FExecCtx *types.Var

	Kinds            []*types.Named           // schema kinds: named types in zog whose pointer implements ZogSchema
	KindByName       map[string]*types.Named  //
	Process          map[string]*ssa.Function // kind name -> process method
	Validate         map[string]*ssa.Function // kind name -> validate method
	Dispatch         map[*ssa.Function]string // dispatch method -> "process"/"validate"
	Pipelines        []*ssa.Function          // primitiveProcessor, primitiveValidator
	EntryPoints      []*ssa.Function          // exported Parse/Validate methods of schema kinds (and any other exported function that runs a node itself)
	ExtraEntryPoints []*ssa.Function
	Providers        []*types.Named             // DataProvider implementations
	Pools            []*ssa.Global              // package-level sync.Pool vars
	PoolElem         map[*ssa.Global]types.Type // pool var -> element struct type (pointee)
	PooledTypes      map[string]bool            // type string of pointee types that are pooled
	// the unexported methods of the ZogSchema interface, found by signature (and, for the two that take
	// a *SchemaCtx, by which of them the exported Parse entry points reach): renaming them changes nothing
	MProcess, MValidate, MGetType, MSetCoercer string
	kindFieldSet                               map[*types.Var]*types.Named // every field of a schema kind struct
	// canonical role of an unexported field, found by its type or by the exported builder that writes it
	// (tests, required, postTransforms, coercer, defaultVal, catch, isNot, schema; tag, value for providers),
	// so that renaming the field changes nothing
	fieldRole map[*types.Var]string
}

func structField(n *types.Named, name string) *types.Var {
	if n == nil {
		return nil
	}
	st, ok := n.Underlying().(*types.Struct)
	if !ok {
		return nil
	}
	for i := 0; i < st.NumFields(); i++ {
		if st.Field(i).Name() == name {
			return st.Field(i)
		}
	}
	return nil
}

// implementsByMethodNames: a generic named type has a method for every method of the interface
// (types.Implements needs an instantiated type).
func implementsByMethodNames(n *types.Named, it *types.Interface) bool {
	if it == nil {
		return false
	}
	have := map[string]bool{}
	for i := 0; i < n.NumMethods(); i++ {
		have[n.Method(i).Name()] = true
	}
	for i := 0; i < it.NumMethods(); i++ {
		if !have[it.Method(i).Name()] {
			return false
		}
	}
	return it.NumMethods() > 0
}

func (P *Prog) discoverRoles() error {
	R := &Roles{KindByName: map[string]*types.Named{}, Process: map[string]*ssa.Function{}, Validate: map[string]*ssa.Function{},
		Dispatch: map[*ssa.Function]string{}, PoolElem: map[*ssa.Global]types.Type{}, PooledTypes: map[string]bool{},
		kindFieldSet: map[*types.Var]*types.Named{}, fieldRole: map[*types.Var]string{}}
	P.roles = R
	var missing []string
	need := func(what string, ok bool) {
		if !ok {
			missing = append(missing, what)
		}
	}
	R.ZogSchemaN = P.lookupType(pkgZog, "ZogSchema")
	need("zog.ZogSchema", R.ZogSchemaN != nil)
	if R.ZogSchemaN != nil {
		R.ZogSchema, _ = R.ZogSchemaN.Underlying().(*types.Interface)
	}
	if n := P.lookupType(pkgInternals, "DataProvider"); n != nil {
		R.DataProvider, _ = n.Underlying().(*types.Interface)
	}
	need("internals.DataProvider", R.DataProvider != nil)
	if n := P.lookupType(pkgInternals, "Ctx"); n != nil {
		R.Ctx, _ = n.Underlying().(*types.Interface)
	}
	need("internals.Ctx", R.Ctx != nil)
	R.SchemaCtx = P.lookupType(pkgInternals, "SchemaCtx")
	R.ExecCtx = P.lookupType(pkgInternals, "ExecCtx")
	R.ZogIssue = P.lookupType(pkgInternals, "ZogIssue")
	R.Test = P.lookupType(pkgInternals, "Test")
	R.ErrsMap = P.lookupType(pkgInternals, "ErrsMap")
	R.ErrsList = P.lookupType(pkgInternals, "ErrsList")
	R.PathB = P.lookupType(pkgInternals, "PathBuilder")
	need("internals.SchemaCtx", R.SchemaCtx != nil)
	need("internals.ExecCtx", R.ExecCtx != nil)
	need("internals.ZogIssue", R.ZogIssue != nil)
	need("internals.Test", R.Test != nil)
	need("internals.ErrsMap", R.ErrsMap != nil)
	need("internals.ErrsList", R.ErrsList != nil)
	need("internals.PathBuilder", R.PathB != nil)
	if len(missing) > 0 {
		return fmt.Errorf("unresolved anchors: %s", strings.Join(missing, ", "))
	}
	for _, f := range []struct {
		dst  **types.Var
		name string
	}{{&R.FData, "Data"}, {&R.FValPtr, "ValPtr"}, {&R.FPath, "Path"}, {&R.FDType, "DType"}, {&R.FCanCatch, "CanCatch"},
		{&R.FExit, "Exit"}, {&R.FHasCaught, "HasCaught"}, {&R.FTest, "Test"}, {&R.FExecCtx, "ExecCtx"}} {
		*f.dst = structField(R.SchemaCtx, f.name)
		// HasCaught may legitimately be removed by a repair. Test (the "current test" slot of the node context) is
		// needed by the rules that decide which test an issue is built from only: without it those rules report,
		// the other properties are still decided. Everything else is required.
		if *f.dst == nil && f.name != "HasCaught" && f.name != "Test" {
			missing = append(missing, "SchemaCtx."+f.name)
		}
	}
	if len(missing) > 0 {
		return fmt.Errorf("unresolved anchors: %s", strings.Join(missing, ", "))
	}

	// schema kinds
	zp := P.PkgByID[pkgZog]
	scope := zp.Types.Scope()
	for _, name := range scope.Names() {
		tn, ok := scope.Lookup(name).(*types.TypeName)
		if !ok || tn.IsAlias() {
			continue
		}
		n, ok := tn.Type().(*types.Named)
		if !ok {
			continue
		}
		if _, isStruct := n.Underlying().(*types.Struct); !isStruct {
			continue
		}
		// a schema kind: *T implements the ZogSchema interface
		if R.ZogSchema == nil || !types.Implements(types.NewPointer(n), R.ZogSchema) {
			if tp := n.TypeParams(); tp == nil || tp.Len() == 0 || !implementsByMethodNames(n, R.ZogSchema) {
				continue
			}
		}
		R.Kinds = append(R.Kinds, n)
		R.KindByName[name] = n
		st := n.Underlying().(*types.Struct)
		for i := 0; i < st.NumFields(); i++ {
			R.kindFieldSet[st.Field(i)] = n
		}
	}
	sort.Slice(R.Kinds, func(i, j int) bool { return R.Kinds[i].Obj().Name() < R.Kinds[j].Obj().Name() })
	if len(R.Kinds) < 9 {
		return fmt.Errorf("vacuous: %d schema kinds found, floor 9", len(R.Kinds))
	}
	// the interface's methods by signature
	var ctxMethods []string
	for i := 0; i < R.ZogSchema.NumMethods(); i++ {
		m := R.ZogSchema.Method(i)
		sig := m.Type().(*types.Signature)
		switch {
		case sig.Params().Len() == 1 && sig.Results().Len() == 0 && P.isPtrTo(sig.Params().At(0).Type(), R.SchemaCtx):
			ctxMethods = append(ctxMethods, m.Name())
		case sig.Params().Len() == 0 && sig.Results().Len() == 1 && strings.HasSuffix(types.TypeString(sig.Results().At(0).Type(), nil), "ZogType"):
			R.MGetType = m.Name()
		case sig.Params().Len() == 1 && sig.Results().Len() == 0:
			if fs, ok := sig.Params().At(0).Type().Underlying().(*types.Signature); ok && fs.Params().Len() == 1 && fs.Results().Len() == 2 {
				R.MSetCoercer = m.Name()
			}
		}
	}
	if len(ctxMethods) != 2 || R.MGetType == "" || R.MSetCoercer == "" {
		return fmt.Errorf("unresolved anchors: the ZogSchema interface does not have the expected four methods by signature (two taking *SchemaCtx: %v, type getter %q, coercer setter %q)", ctxMethods, R.MGetType, R.MSetCoercer)
	}
	// which of the two *SchemaCtx methods is the Parse-mode one: the one the exported Parse methods reach
	votes := map[string]int{}
	for _, fn := range P.Funcs {
		if fn.Name() != "Parse" || fn.Parent() != nil || fn.Signature.Recv() == nil || !R.isKind(fn.Signature.Recv().Type()) {
			continue
		}
		seen := map[*ssa.Function]bool{}
		var walk func(f *ssa.Function, d int)
		walk = func(f *ssa.Function, d int) {
			if f == nil || seen[f] || d > 3 || f.Blocks == nil {
				return
			}
			seen[f] = true
			for _, a := range f.AnonFuncs {
				walk(a, d)
			}
			eachInstr(f, func(_ *ssa.BasicBlock, _ int, in ssa.Instruction) {
				// the node method handed on as a value: a method value `v.process`, a method expression
				// `ZogSchema.process` / `(*StringSchema).process` given to a shared runner
				var ops []*ssa.Value
				for _, op := range in.Operands(ops) {
					var g *ssa.Function
					switch y := (*op).(type) {
					case *ssa.Function:
						g = y
					case *ssa.MakeClosure:
						g, _ = y.Fn.(*ssa.Function)
					}
					if g == nil {
						continue
					}
					if ci, isCall := in.(ssa.CallInstruction); isCall && ci.Common().Value == *op {
						continue // the callee of a static call: counted below
					}
					base := strings.TrimSuffix(strings.TrimSuffix(g.Name(), "$thunk"), "$bound")
					for _, nm := range ctxMethods {
						if base == nm && (g.Synthetic != "" || g.Signature.Recv() != nil) {
							votes[nm]++
						}
					}
				}
				c, ok := in.(ssa.CallInstruction)
				if !ok {
					return
				}
				if c.Common().IsInvoke() {
					for _, nm := range ctxMethods {
						if c.Common().Method.Name() == nm {
							votes[nm]++
						}
					}
					return
				}
				cal := c.Common().StaticCallee()
				if cal == nil {
					return
				}
				if o := cal.Origin(); o != nil {
					cal = o
				}
				for _, nm := range ctxMethods {
					if cal.Name() == nm && cal.Signature.Recv() != nil && R.isKind(cal.Signature.Recv().Type()) {
						votes[nm]++
						return
					}
				}
				if inModule(funcPkgPath(cal)) && !ast.IsExported(cal.Name()) {
					walk(cal, d+1)
				}
			})
		}
		walk(fn, 0)
	}
	R.MProcess, R.MValidate = ctxMethods[0], ctxMethods[1]
	if votes[ctxMethods[1]] > votes[ctxMethods[0]] {
		R.MProcess, R.MValidate = ctxMethods[1], ctxMethods[0]
	}
	if votes[R.MProcess] == 0 || votes[R.MValidate] >= votes[R.MProcess] {
		return fmt.Errorf("unresolved anchors: cannot tell the Parse-mode node method from the Validate-mode one (votes %v)", votes)
	}
	for _, fn := range P.Funcs {
		if fn.Signature.Recv() == nil || fn.Parent() != nil {
			continue
		}
		rt := fn.Signature.Recv().Type()
		if p, ok := rt.(*types.Pointer); ok {
			rt = p.Elem()
		}
		n, ok := rt.(*types.Named)
		if !ok {
			continue
		}
		kind := R.KindByName[n.Obj().Name()]
		if kind == nil || n.Obj().Pkg() == nil || n.Obj().Pkg().Path() != pkgZog {
			continue
		}
		switch fn.Name() {
		case R.MProcess:
			R.Process[n.Obj().Name()] = fn
			R.Dispatch[fn] = "process"
		case R.MValidate:
			R.Validate[n.Obj().Name()] = fn
			R.Dispatch[fn] = "validate"
		case "Parse", "Validate":
			R.EntryPoints = append(R.EntryPoints, fn)
		}
	}
	// any other exported function of the root package that runs a node itself (reaches a node method through
	// unexported helpers only, not through one of the entry points above) is an entry point too: a convenience
	// entry point added later (`ParseFields`, a prepared schema's `Parse`) is held to the same rules
	{
		known := map[*ssa.Function]bool{}
		for _, e := range R.EntryPoints {
			known[e] = true
		}
		var reaches func(fn *ssa.Function, d int, seen map[*ssa.Function]bool) bool
		reaches = func(fn *ssa.Function, d int, seen map[*ssa.Function]bool) bool {
			if d > 4 || seen[fn] || fn.Blocks == nil {
				return false
			}
			seen[fn] = true
			found := false
			eachInstr(fn, func(_ *ssa.BasicBlock, _ int, in ssa.Instruction) {
				if found {
					return
				}
				for _, op := range in.Operands(nil) {
					if op == nil || *op == nil {
						continue
					}
					var g *ssa.Function
					switch y := (*op).(type) {
					case *ssa.Function:
						g = y
					case *ssa.MakeClosure:
						g, _ = y.Fn.(*ssa.Function)
					}
					if g == nil {
						continue
					}
					base := strings.TrimSuffix(strings.TrimSuffix(g.Name(), "$thunk"), "$bound")
					if (base == R.MProcess || base == R.MValidate) && (g.Synthetic != "" || g.Signature.Recv() != nil) {
						found = true
						return
					}
					if g.Parent() == fn && reaches(g, d+1, seen) {
						found = true
						return
					}
				}
				c, ok := in.(ssa.CallInstruction)
				if !ok {
					return
				}
				if c.Common().IsInvoke() {
					if nm := c.Common().Method.Name(); nm == R.MProcess || nm == R.MValidate {
						found = true
					}
					return
				}
				cal := c.Common().StaticCallee()
				if cal == nil {
					return
				}
				if o := cal.Origin(); o != nil {
					cal = o
				}
				if _, isNode := R.Dispatch[cal]; isNode {
					found = true
					return
				}
				if inModule(funcPkgPath(cal)) && !ast.IsExported(cal.Name()) && reaches(cal, d+1, seen) {
					found = true
				}
			})
			return found
		}
		for _, fn := range P.Funcs {
			if fn.Parent() != nil || known[fn] || funcPkgPath(fn) != pkgZog || !ast.IsExported(fn.Name()) || fn.Synthetic != "" {
				continue
			}
			if recv := fn.Signature.Recv(); recv != nil {
				rt := recv.Type()
				if p, ok := rt.(*types.Pointer); ok {
					rt = p.Elem()
				}
				if n, ok := rt.(*types.Named); ok && !ast.IsExported(n.Obj().Name()) {
					continue
				}
			}
			if reaches(fn, 0, map[*ssa.Function]bool{}) {
				R.EntryPoints = append(R.EntryPoints, fn)
				R.ExtraEntryPoints = append(R.ExtraEntryPoints, fn)
			}
		}
	}
	if len(R.Dispatch) < 18 {
		return fmt.Errorf("vacuous: %d dispatch methods found, floor 18", len(R.Dispatch))
	}
	if len(R.EntryPoints) < 18 {
		return fmt.Errorf("vacuous: %d entry points found, floor 18", len(R.EntryPoints))
	}
	// primitive pipelines: package-level generic functions of zog with a *SchemaCtx first
	// parameter that are statically called from >= 3 dispatch methods.
	callers := map[*ssa.Function]map[*ssa.Function]bool{}
	for d := range R.Dispatch {
		for _, b := range d.Blocks {
			for _, in := range b.Instrs {
				c, ok := in.(ssa.CallInstruction)
				if !ok {
					continue
				}
				cal := c.Common().StaticCallee()
				if cal == nil {
					continue
				}
				if o := cal.Origin(); o != nil {
					cal = o
				}
				if callers[cal] == nil {
					callers[cal] = map[*ssa.Function]bool{}
				}
				callers[cal][d] = true
			}
		}
	}
	for cal, cs := range callers {
		if len(cs) < 3 || cal.Signature.Recv() != nil || cal.Signature.Params().Len() == 0 {
			continue
		}
		if !P.isPtrTo(cal.Signature.Params().At(0).Type(), R.SchemaCtx) {
			continue
		}
		// a pipeline implements the whole node protocol for the primitive kinds: it is handed the
		// required test (a *Test) among its parameters; shared tails such as a test-loop helper are not pipelines
		hasRequired := false
		for i := 0; i < cal.Signature.Params().Len(); i++ {
			pt := cal.Signature.Params().At(i).Type()
			if P.isPtrTo(pt, R.Test) {
				hasRequired = true
			}
			// ... or inside a small options struct of the module that groups the node's rules
			// (`primitiveRules[T]{tests, postTransforms, defaultVal, required, catch}`)
			if ptr, ok := pt.Underlying().(*types.Pointer); ok {
				pt = ptr.Elem()
			}
			if st, ok := pt.Underlying().(*types.Struct); ok && !sameNamed(namedOf(pt), R.SchemaCtx) {
				for k := 0; k < st.NumFields(); k++ {
					if P.isPtrTo(st.Field(k).Type(), R.Test) {
						hasRequired = true
					}
				}
			}
		}
		if !hasRequired {
			continue
		}
		R.Pipelines = append(R.Pipelines, cal)
	}
	sort.Slice(R.Pipelines, func(i, j int) bool { return fname(R.Pipelines[i]) < fname(R.Pipelines[j]) })
	if len(R.Pipelines) < 2 {
		return fmt.Errorf("vacuous: %d primitive pipelines found, floor 2", len(R.Pipelines))
	}
	// providers
	for _, p := range P.Pkgs {
		if !inModule(p.PkgPath) {
			continue
		}
		sc := p.Types.Scope()
		for _, name := range sc.Names() {
			tn, ok := sc.Lookup(name).(*types.TypeName)
			if !ok || tn.IsAlias() {
				continue
			}
			n, ok := tn.Type().(*types.Named)
			if !ok || types.IsInterface(n) {
				continue
			}
			has := 0
			for i := 0; i < n.NumMethods(); i++ {
				switch n.Method(i).Name() {
				case "Get", "GetByField", "GetNestedProvider", "GetUnderlying":
					has++
				}
			}
			if has == 4 {
				R.Providers = append(R.Providers, n)
			}
		}
	}
	if len(R.Providers) < 5 {
		return fmt.Errorf("vacuous: %d data providers found, floor 5", len(R.Providers))
	}
	// pools
	for _, sp := range P.SSAPkgs {
		for _, m := range sp.Members {
			g, ok := m.(*ssa.Global)
			if !ok {
				continue
			}
			pt, ok := g.Type().(*types.Pointer)
			if !ok {
				continue
			}
			if n, ok := pt.Elem().(*types.Named); ok && n.Obj().Pkg() != nil && n.Obj().Pkg().Path() == "sync" && n.Obj().Name() == "Pool" {
				R.Pools = append(R.Pools, g)
			}
		}
	}
	sort.Slice(R.Pools, func(i, j int) bool { return R.Pools[i].Name() < R.Pools[j].Name() })
	if len(R.Pools) < 7 {
		return fmt.Errorf("vacuous: %d sync.Pool variables found, floor 7", len(R.Pools))
	}
	P.discoverFieldRoles()
	return nil
}

// discoverFieldRoles assigns canonical role names to the unexported fields of
// the schema kinds and providers from their types and from the exported
// builder methods that write them.
func (P *Prog) discoverFieldRoles() {
	R := P.roles
	set := func(owner *types.Named, f *types.Var, role string, byOwner map[string]*types.Var) {
		if prev, dup := byOwner[role]; dup && prev != f {
			byOwner[role] = nil // ambiguous: fall back to the field's own name
			return
		}
		byOwner[role] = f
	}
	isFunc := func(t types.Type, nparams int, results ...string) bool {
		sig, ok := t.Underlying().(*types.Signature)
		if !ok || sig.Params().Len() != nparams || sig.Results().Len() != len(results) {
			return false
		}
		for i, want := range results {
			if !strings.HasSuffix(types.TypeString(sig.Results().At(i).Type(), nil), want) {
				return false
			}
		}
		return true
	}
	for _, k := range R.Kinds {
		st := k.Underlying().(*types.Struct)
		by := map[string]*types.Var{}
		for i := 0; i < st.NumFields(); i++ {
			f := st.Field(i)
			t := f.Type()
			switch u := t.Underlying().(type) {
			case *types.Slice:
				switch {
				case sameNamed(u.Elem(), R.Test):
					set(k, f, "tests", by)
				case isFunc(u.Elem(), 2, "error"):
					set(k, f, "postTransforms", by)
				}
			case *types.Pointer:
				if sameNamed(u.Elem(), R.Test) {
					set(k, f, "required", by)
				}
			case *types.Signature:
				if isFunc(t, 1, "any", "error") || isFunc(t, 1, "interface{}", "error") {
					set(k, f, "coercer", by)
				}
			case *types.Interface:
				if R.ZogSchema != nil && types.Identical(u, R.ZogSchema) {
					set(k, f, "schema", by)
				}
			case *types.Map:
				if R.ZogSchema != nil && types.Identical(u.Elem().Underlying(), R.ZogSchema) {
					set(k, f, "schema", by)
				}
			}
		}
		// fields written by the exported builders Default / Catch / Not
		for _, fn := range P.Funcs {
			if fn.Parent() != nil || fn.Signature.Recv() == nil || !sameNamed(namedOf(fn.Signature.Recv().Type()), k) {
				continue
			}
			role := map[string]string{"Default": "defaultVal", "Catch": "catch", "Not": "isNot"}[fn.Name()]
			if role == "" {
				continue
			}
			eachInstr(fn, func(_ *ssa.BasicBlock, _ int, in ssa.Instruction) {
				st, ok := in.(*ssa.Store)
				if !ok {
					return
				}
				base, f := fieldVar(st.Addr)
				if f == nil || R.kindFieldSet[f.Origin()] == nil || cvi(base) != ssa.Value(fn.Params[0]) {
					return
				}
				if role == "isNot" {
					if b, isC := constBool(st.Val); !isC || !b {
						return
					}
				}
				set(k, f.Origin(), role, by)
			})
		}
		for role, f := range by {
			if f != nil {
				R.fieldRole[f.Origin()] = role
			}
		}
	}
	for _, pn := range R.Providers {
		st, ok := pn.Underlying().(*types.Struct)
		if !ok {
			continue
		}
		by := map[string]*types.Var{}
		for i := 0; i < st.NumFields(); i++ {
			f := st.Field(i)
			switch types.TypeString(f.Type(), nil) {
			case "*string":
				set(pn, f, "tag", by)
			case "reflect.Value":
				set(pn, f, "value", by)
			}
		}
		for role, f := range by {
			if f != nil {
				R.fieldRole[f.Origin()] = role
			}
		}
	}
}

// roleName: the canonical role of a field (its own name when it has none).
func (P *Prog) roleName(f *types.Var) string {
	if f == nil {
		return ""
	}
	if r, ok := P.roles.fieldRole[f.Origin()]; ok {
		return r
	}
	return f.Name()
}

// kindField: the field of a kind that plays the given role.
func (P *Prog) kindField(k *types.Named, role string) *types.Var {
	if k == nil {
		return nil
	}
	st, ok := k.Underlying().(*types.Struct)
	if !ok {
		return nil
	}
	for i := 0; i < st.NumFields(); i++ {
		if P.roleName(st.Field(i)) == role {
			return st.Field(i)
		}
	}
	return nil
}

func (P *Prog) isPtrTo(t types.Type, n *types.Named) bool {
	p, ok := t.Underlying().(*types.Pointer)
	if !ok {
		return false
	}
	return sameNamed(p.Elem(), n)
}

func sameNamed(t types.Type, n *types.Named) bool {
	if t == nil || n == nil {
		return false
	}
	if tn, ok := t.(*types.Named); ok && tn == nil {
		return false
	}
	t = types.Unalias(t)
	m, ok := t.(*types.Named)
	if !ok || m == nil {
		return false
	}
	return m.Origin().Obj() == n.Origin().Obj()
}

// namedOf returns the named type behind t or *t.
func namedOf(t types.Type) *types.Named {
	t = types.Unalias(t)
	if p, ok := t.(*types.Pointer); ok {
		t = types.Unalias(p.Elem())
	}
	n, _ := t.(*types.Named)
	return n
}

// isKind reports whether t (or *t) is one of the schema kinds.
func (R *Roles) isKind(t types.Type) bool {
	n := namedOf(t)
	if n == nil || n.Obj().Pkg() == nil || n.Obj().Pkg().Path() != pkgZog {
		return false
	}
	return R.KindByName[n.Obj().Name()] != nil
}

// kindOfFunc: the schema kind a method belongs to ("" if none).
func (R *Roles) kindOfFunc(fn *ssa.Function) string {
	for f := fn; f != nil; f = f.Parent() {
		if f.Signature.Recv() != nil {
			if n := namedOf(f.Signature.Recv().Type()); n != nil && R.isKind(n) {
				return n.Obj().Name()
			}
		}
	}
	return ""
}
