package main

import (
	"fmt"
	"go/constant"
	"go/token"
	"go/types"
	"sort"
	"strings"

	"golang.org/x/tools/go/ssa"
)

// ---------- instruction iteration ----------

func eachInstr(fn *ssa.Function, f func(b *ssa.BasicBlock, i int, in ssa.Instruction)) {
	for _, b := range fn.Blocks {
		for i, in := range b.Instrs {
			f(b, i, in)
		}
	}
}

// allInstrs including nested anonymous functions.
func eachInstrDeep(fn *ssa.Function, f func(fn *ssa.Function, in ssa.Instruction)) {
	eachInstr(fn, func(_ *ssa.BasicBlock, _ int, in ssa.Instruction) { f(fn, in) })
	for _, a := range fn.AnonFuncs {
		eachInstrDeep(a, f)
	}
}

// ---------- spills, closures, canonical values ----------

// storesTo returns every Store whose address is exactly a (in a's function and,
// through closure capture, in nested closures).
func storesTo(a ssa.Value) []*ssa.Store {
	var out []*ssa.Store
	refs := a.Referrers()
	if refs == nil {
		return nil
	}
	for _, r := range *refs {
		switch r := r.(type) {
		case *ssa.Store:
			if r.Addr == a {
				out = append(out, r)
			}
		case *ssa.MakeClosure:
			fn := r.Fn.(*ssa.Function)
			for i, b := range r.Bindings {
				if b == a && i < len(fn.FreeVars) {
					out = append(out, storesTo(fn.FreeVars[i])...)
				}
			}
		}
	}
	return out
}

// freeVarBinding returns the value bound to a free variable at the (unique)
// MakeClosure of its function in the parent.
func freeVarBinding(fv *ssa.FreeVar) ssa.Value {
	fn := fv.Parent()
	par := fn.Parent()
	if par == nil {
		return nil
	}
	idx := -1
	for i, f := range fn.FreeVars {
		if f == fv {
			idx = i
		}
	}
	if idx < 0 {
		return nil
	}
	var found ssa.Value
	n := 0
	eachInstr(par, func(_ *ssa.BasicBlock, _ int, in ssa.Instruction) {
		if mc, ok := in.(*ssa.MakeClosure); ok && mc.Fn == fn && idx < len(mc.Bindings) {
			found = mc.Bindings[idx]
			n++
		}
	})
	if n != 1 {
		return nil
	}
	return found
}

// canonOpts controls which wrappers canon strips.
type canonOpts struct {
	iface  bool // strip MakeInterface / ChangeInterface
	assert bool // strip TypeAssert (value part)
}

// canon resolves an SSA value through parameter spills (Alloc with a single
// Store), closure captures, ChangeType and single-input phis to the value it
// always equals.
func canon(v ssa.Value, o canonOpts) ssa.Value {
	return canonSeen(v, o, nil)
}

// canonSeen: canon with the set of phis being resolved (mutually referring
// loop phis resolve to themselves, not to an endless recursion).
func canonSeen(v ssa.Value, o canonOpts, seen map[*ssa.Phi]bool) ssa.Value {
	for depth := 0; depth < 40 && v != nil; depth++ {
		if substEnv != nil {
			if s, ok := substEnv[v]; ok && s != v {
				v = s
				continue
			}
		}
		switch x := v.(type) {
		case *ssa.UnOp:
			if x.Op != token.MUL {
				return v
			}
			a := x.X
			if fv, ok := a.(*ssa.FreeVar); ok {
				if b := freeVarBinding(fv); b != nil {
					a = b
				}
			}
			al, ok := a.(*ssa.Alloc)
			if !ok {
				return v
			}
			st := storesTo(al)
			if len(st) != 1 {
				return v
			}
			v = st[0].Val
		case *ssa.ChangeType:
			v = x.X
		case *ssa.MakeInterface:
			if !o.iface {
				return v
			}
			v = x.X
		case *ssa.ChangeInterface:
			if !o.iface {
				return v
			}
			v = x.X
		case *ssa.TypeAssert:
			if !o.assert {
				return v
			}
			v = x.X
		case *ssa.Extract:
			if ta, ok := x.Tuple.(*ssa.TypeAssert); ok && o.assert && x.Index == 0 {
				v = ta.X
				continue
			}
			return v
		case *ssa.Phi:
			if seen[x] {
				return v
			}
			if seen == nil {
				seen = map[*ssa.Phi]bool{}
			}
			seen[x] = true
			var uniq ssa.Value
			same := true
			for _, e := range x.Edges {
				c := canonSeen(e, o, seen)
				if uniq == nil {
					uniq = c
				} else if uniq != c {
					same = false
				}
			}
			if !same || uniq == nil {
				return v
			}
			v = uniq
		case *ssa.FreeVar:
			// a captured *value* (not address) — by-value capture does not occur in go/ssa
			// (captures are by reference through an Alloc), so leave as is.
			return v
		default:
			return v
		}
	}
	return v
}

func cv(v ssa.Value) ssa.Value  { return canon(v, canonOpts{}) }
func cvi(v ssa.Value) ssa.Value { return canon(v, canonOpts{iface: true, assert: true}) }

// ---------- field access ----------

// fieldVar returns the struct field a FieldAddr / Field instruction selects.
func fieldVar(v ssa.Value) (base ssa.Value, f *types.Var) {
	switch x := v.(type) {
	case *ssa.FieldAddr:
		t := x.X.Type().Underlying().(*types.Pointer).Elem().Underlying().(*types.Struct)
		return x.X, t.Field(x.Field)
	case *ssa.Field:
		t := x.X.Type().Underlying().(*types.Struct)
		return x.X, t.Field(x.Field)
	}
	return nil, nil
}

// sameField compares fields of possibly-instantiated generic structs by
// origin.
func sameField(a, b *types.Var) bool {
	if a == nil || b == nil {
		return false
	}
	return a.Origin() == b.Origin()
}

// loadOfField: v is `*(&x.f)`; returns x and f.
func loadOfField(v ssa.Value) (base ssa.Value, f *types.Var) {
	u, ok := v.(*ssa.UnOp)
	if !ok || u.Op != token.MUL {
		if fl, ok := v.(*ssa.Field); ok {
			return fieldVar(fl)
		}
		return nil, nil
	}
	return fieldVar(u.X)
}

// sameAddr: two address values denote the same location (go/ssa does no CSE,
// so `&c.test` evaluated twice is two FieldAddr instructions).
func sameAddr(a, b ssa.Value) bool {
	a, b = cv(a), cv(b)
	if a == b {
		return true
	}
	fa, ok1 := a.(*ssa.FieldAddr)
	fb, ok2 := b.(*ssa.FieldAddr)
	if ok1 && ok2 {
		return fa.Field == fb.Field && sameAddr(fa.X, fb.X)
	}
	return false
}

// ---------- calls ----------

type callInfo struct {
	instr   ssa.CallInstruction
	static  *ssa.Function // origin of the static callee, nil if dynamic/invoke
	invoke  *types.Func   // interface method, nil if not an invoke
	dynamic bool          // call of a func value
	builtin string
}

func originOf(fn *ssa.Function) *ssa.Function {
	if fn == nil {
		return nil
	}
	if o := fn.Origin(); o != nil {
		return o
	}
	return fn
}

func callOf(in ssa.Instruction) *callInfo {
	c, ok := in.(ssa.CallInstruction)
	if !ok {
		return nil
	}
	cc := c.Common()
	ci := &callInfo{instr: c}
	if cc.IsInvoke() {
		ci.invoke = cc.Method
		return ci
	}
	switch f := cc.Value.(type) {
	case *ssa.Function:
		ci.static = originOf(f)
	case *ssa.Builtin:
		ci.builtin = f.Name()
	case *ssa.MakeClosure:
		ci.static = originOf(f.Fn.(*ssa.Function))
	default:
		ci.dynamic = true
		// under a substitution (a decision path, a code unit) the called value may be known: a local that was
		// assigned one of two functions (`wire := plain; if neg { wire = negated }; wire(fn, &t)`), a function or
		// closure passed to a helper's func parameter
		if substEnv != nil {
			switch f := cv(cc.Value).(type) {
			case *ssa.Function:
				// (not the synthetic wrappers of method expressions and method values: the formula printer
				// resolves those itself, to the method they stand for)
				if f.Synthetic == "" && (f.Blocks != nil || f.Pkg == nil) {
					ci.static, ci.dynamic = originOf(f), false
				}
			case *ssa.MakeClosure:
				if g := f.Fn.(*ssa.Function); g.Synthetic == "" {
					ci.static, ci.dynamic = originOf(g), false
				}
			}
		}
	}
	return ci
}

// isCallTo: static call whose callee's short name equals name.
func (ci *callInfo) isCallTo(name string) bool {
	return ci != nil && ci.static != nil && fname(ci.static) == name
}

// stdCallee returns "pkg.Func" / "(pkg.T).M" for non-module static callees.
func (ci *callInfo) calleeName() string {
	if ci == nil {
		return ""
	}
	if ci.static != nil {
		return fname(ci.static)
	}
	if ci.invoke != nil {
		return "invoke " + ci.invoke.Name()
	}
	if ci.builtin != "" {
		return "builtin " + ci.builtin
	}
	return "dynamic"
}

// args returns the call arguments including the receiver for invokes
// (receiver first).
func (ci *callInfo) args() []ssa.Value {
	cc := ci.instr.Common()
	if cc.IsInvoke() {
		return append([]ssa.Value{cc.Value}, cc.Args...)
	}
	return cc.Args
}

// ---------- CFG helpers ----------

// reach computes the set of blocks reachable from `from` (inclusive) without
// passing through any block in `stop` (stop blocks are not entered).
func reach(from *ssa.BasicBlock, stop map[*ssa.BasicBlock]bool) map[*ssa.BasicBlock]bool {
	seen := map[*ssa.BasicBlock]bool{}
	var w []*ssa.BasicBlock
	if !stop[from] {
		w = append(w, from)
		seen[from] = true
	}
	for len(w) > 0 {
		b := w[len(w)-1]
		w = w[:len(w)-1]
		for _, s := range b.Succs {
			if !seen[s] && !stop[s] {
				seen[s] = true
				w = append(w, s)
			}
		}
	}
	return seen
}

// reachSuccs: blocks reachable from the successors of b (b itself only if on a cycle).
func reachFromSuccs(b *ssa.BasicBlock, stop map[*ssa.BasicBlock]bool) map[*ssa.BasicBlock]bool {
	seen := map[*ssa.BasicBlock]bool{}
	for _, s := range b.Succs {
		for k := range reach(s, stop) {
			seen[k] = true
		}
	}
	return seen
}

func isExit(b *ssa.BasicBlock) bool {
	if len(b.Instrs) == 0 {
		return false
	}
	switch b.Instrs[len(b.Instrs)-1].(type) {
	case *ssa.Return:
		return true
	}
	return false
}

func isPanicBlock(b *ssa.BasicBlock) bool {
	if len(b.Instrs) == 0 {
		return false
	}
	_, ok := b.Instrs[len(b.Instrs)-1].(*ssa.Panic)
	return ok
}

// normalBlocks: blocks reachable from entry (excludes the recover block unless reachable).
func normalBlocks(fn *ssa.Function) map[*ssa.BasicBlock]bool {
	if len(fn.Blocks) == 0 {
		return nil
	}
	return reach(fn.Blocks[0], nil)
}

// mustPassThrough: every path from entry of `from` to a Return passes through
// a block in S (paths ending in panic are ignored). Returns a witness exit
// block when violated.
func mustPassThrough(from *ssa.BasicBlock, S map[*ssa.BasicBlock]bool) (bool, *ssa.BasicBlock) {
	r := reach(from, S)
	var bad *ssa.BasicBlock
	for b := range r {
		if isExit(b) {
			if bad == nil || b.Index < bad.Index {
				bad = b
			}
		}
	}
	return bad == nil, bad
}

// condOf: the If instruction ending block b (nil if none).
func condOf(b *ssa.BasicBlock) *ssa.If {
	if len(b.Instrs) == 0 {
		return nil
	}
	i, _ := b.Instrs[len(b.Instrs)-1].(*ssa.If)
	return i
}

// edgeDominates reports whether the edge (from -> from.Succs[k]) dominates
// block b: every path entry->b uses that edge. True when succ dominates b and
// succ has `from` as its only predecessor, or more generally when all other
// predecessors of succ are dominated by succ (loop back edges).
func edgeDominates(from *ssa.BasicBlock, k int, b *ssa.BasicBlock) bool {
	s := from.Succs[k]
	if !s.Dominates(b) {
		return false
	}
	for _, p := range s.Preds {
		if p == from {
			continue
		}
		if !s.Dominates(p) {
			return false
		}
	}
	// from must not reach s through the other successor either
	if len(from.Succs) == 2 && from.Succs[0] == from.Succs[1] {
		return false
	}
	return true
}

// controlledBy: b executes only when cond had the given truth value, for an If
// whose condition satisfies pred. Walks the dominator tree upwards.
type guard struct {
	If   *ssa.If
	True bool
}

// guardsOf lists (If, polarity) pairs whose edge dominates b.
func guardsOf(b *ssa.BasicBlock) []guard {
	var out []guard
	for d := b; d != nil; d = d.Idom() {
		// every If in a strict dominator (or b's idom chain) whose edge dominates b
		p := d.Idom()
		if p == nil {
			break
		}
		// consider all blocks that are predecessors of d and dominate d
		for _, pr := range d.Preds {
			if i := condOf(pr); i != nil && pr.Dominates(b) {
				for k := range pr.Succs {
					if pr.Succs[k] == d && edgeDominates(pr, k, b) {
						out = append(out, guard{i, k == 0})
					}
				}
			}
		}
	}
	return out
}

// ---------- constants ----------

func constString(v ssa.Value) (string, bool) {
	c, ok := v.(*ssa.Const)
	if !ok || c.Value == nil || c.Value.Kind() != constant.String {
		return "", false
	}
	return constant.StringVal(c.Value), true
}

func constBool(v ssa.Value) (bool, bool) {
	c, ok := v.(*ssa.Const)
	if !ok || c.Value == nil || c.Value.Kind() != constant.Bool {
		return false, false
	}
	return constant.BoolVal(c.Value), true
}

func constInt(v ssa.Value) (int64, bool) {
	c, ok := v.(*ssa.Const)
	if !ok || c.Value == nil || c.Value.Kind() != constant.Int {
		return 0, false
	}
	i, ok := constant.Int64Val(c.Value)
	return i, ok
}

func isNilConst(v ssa.Value) bool {
	c, ok := v.(*ssa.Const)
	return ok && c.Value == nil
}

// ---------- misc ----------

func vstr(v ssa.Value) string {
	if v == nil {
		return "<nil>"
	}
	switch x := v.(type) {
	case *ssa.Const:
		return x.String()
	case *ssa.Function:
		return fname(x)
	case *ssa.Global:
		return shortName(x.String())
	case *ssa.Parameter:
		return "param " + x.Name()
	case *ssa.FreeVar:
		return "freevar " + x.Name()
	}
	if in, ok := v.(ssa.Instruction); ok {
		return fmt.Sprintf("%s = %s", v.Name(), shortName(in.String()))
	}
	return v.Name()
}

func sortedKeys[V any](m map[string]V) []string {
	ks := make([]string, 0, len(m))
	for k := range m {
		ks = append(ks, k)
	}
	sort.Strings(ks)
	return ks
}

// typeSubst: the type arguments of the generic helpers entered on the current decision path, by type parameter
// (`narrowCoerced[W](x, err, int64FromInt)` entered with W = int): a type printed while looking through such a helper
// is printed as instantiated. Dynamic scope, like substEnv; set by the path engine when it enters an instantiation.
var typeSubst = map[*types.TypeParam]types.Type{}

func typeStr(t types.Type) string {
	if len(typeSubst) > 0 {
		switch x := types.Unalias(t).(type) {
		case *types.TypeParam:
			if a, ok := typeSubst[x]; ok {
				return typeStr(a)
			}
		case *types.Pointer:
			if tp, ok := types.Unalias(x.Elem()).(*types.TypeParam); ok {
				if a, ok := typeSubst[tp]; ok {
					return "*" + typeStr(a)
				}
			}
		}
	}
	return shortName(types.TypeString(t, nil))
}

var _ = strings.Contains

// paramBoundField: if at every static call site of p's function the actual
// argument for p is a load of one and the same (by name) struct field of the
// caller's receiver, that field; else nil. This is how the parameters of the
// primitive pipelines (tests, defaultVal, required, catch, ...) get their role.
func (P *Prog) paramBoundField(p *ssa.Parameter) *types.Var { return P.paramBoundFieldD(p, 0) }

// paramBoundFieldD: an argument that is itself a parameter of the caller (a
// pipeline handing its coercer on to a phase helper) is followed to the
// caller's own call sites.
func (P *Prog) paramBoundFieldD(p *ssa.Parameter, depth int) *types.Var {
	fn := p.Parent()
	idx := -1
	for i, q := range fn.Params {
		if q == p {
			idx = i
		}
	}
	if idx < 0 {
		return nil
	}
	var found *types.Var
	n := 0
	for _, caller := range P.Funcs {
		bad := false
		eachInstr(caller, func(_ *ssa.BasicBlock, _ int, in ssa.Instruction) {
			ci := callOf(in)
			if ci == nil || ci.static != fn {
				return
			}
			args := ci.args()
			if idx >= len(args) {
				bad = true
				return
			}
			_, f := loadOfField(cv(args[idx]))
			if f == nil {
				if q, isP := cv(args[idx]).(*ssa.Parameter); isP && q != p && depth < 3 {
					f = P.paramBoundFieldD(q, depth+1)
				}
			}
			if f == nil {
				bad = true
				return
			}
			if found != nil && P.roleName(found) != P.roleName(f) {
				bad = true
				return
			}
			found = f
			n++
		})
		if bad {
			return nil
		}
	}
	if n == 0 {
		return nil
	}
	return found
}

// roleOf names the schema role of a value: the name of the schema-kind field
// it was loaded from, directly or through a pipeline parameter bound to that
// field at every call site ("" if none).
func (P *Prog) roleOf(v ssa.Value) string {
	v = cv(v)
	if base, f := loadOfField(v); f != nil {
		if _, isKindField := P.roles.kindFieldSet[f.Origin()]; isKindField {
			return P.roleName(f)
		}
		// a field of a small options struct that is a parameter of this function (`rules.required` of
		// `primitiveRules[T]`): the role of what every call site stores into that field of the struct it passes
		if bf := P.structParamFieldBound(base, f); bf != nil {
			if _, isKindField := P.roles.kindFieldSet[bf.Origin()]; isKindField {
				return P.roleName(bf)
			}
		}
		return ""
	}
	if p, ok := v.(*ssa.Parameter); ok {
		if f := P.paramBoundField(p); f != nil {
			if _, isKindField := P.roles.kindFieldSet[f.Origin()]; isKindField {
				return P.roleName(f)
			}
		}
	}
	return ""
}

// naturalLoops: for each back edge b->h (h dominates b) the loop body.
type natLoop struct {
	header *ssa.BasicBlock
	body   map[*ssa.BasicBlock]bool
}

func naturalLoops(fn *ssa.Function) []natLoop {
	byHeader := map[*ssa.BasicBlock]map[*ssa.BasicBlock]bool{}
	for _, b := range fn.Blocks {
		for _, h := range b.Succs {
			if h.Dominates(b) {
				body := byHeader[h]
				if body == nil {
					body = map[*ssa.BasicBlock]bool{h: true}
					byHeader[h] = body
				}
				// blocks that reach b without passing h
				var w []*ssa.BasicBlock
				if !body[b] {
					body[b] = true
					w = append(w, b)
				}
				for len(w) > 0 {
					x := w[len(w)-1]
					w = w[:len(w)-1]
					for _, p := range x.Preds {
						if !body[p] {
							body[p] = true
							w = append(w, p)
						}
					}
				}
			}
		}
	}
	var out []natLoop
	for _, b := range fn.Blocks {
		if body, ok := byHeader[b]; ok {
			out = append(out, natLoop{b, body})
		}
	}
	return out
}

// sameValue: two SSA values are the same pure expression (go/ssa performs no
// CSE): identical value, equal constants, len/cap of the same value, loads of
// the same address, or the same field/index selection.
func sameValue(a, b ssa.Value) bool {
	a, b = cv(a), cv(b)
	if a == b {
		return true
	}
	switch x := a.(type) {
	case *ssa.Const:
		y, ok := b.(*ssa.Const)
		return ok && x.Value != nil && y.Value != nil && x.Value.ExactString() == y.Value.ExactString() && types.Identical(x.Type(), y.Type())
	case *ssa.Call:
		y, ok := b.(*ssa.Call)
		if !ok {
			return false
		}
		bx, ok1 := x.Call.Value.(*ssa.Builtin)
		by, ok2 := y.Call.Value.(*ssa.Builtin)
		if ok1 && ok2 && bx.Name() == by.Name() && (bx.Name() == "len" || bx.Name() == "cap") {
			return sameValue(x.Call.Args[0], y.Call.Args[0])
		}
	case *ssa.UnOp:
		y, ok := b.(*ssa.UnOp)
		if ok && x.Op == y.Op {
			if x.Op == token.MUL {
				return sameAddr(x.X, y.X)
			}
			return sameValue(x.X, y.X)
		}
	}
	return false
}

// retVals returns the results of a Return with defer-spilled results resolved:
// in a function with defers go/ssa stores results into locals and reloads
// them after rundefers; each such load is replaced by the last store to that
// local in the same block. ok=false for the recover block's return.
func retVals(rt *ssa.Return) ([]ssa.Value, bool) {
	out := make([]ssa.Value, len(rt.Results))
	b := rt.Block()
	if b.Parent().Recover == b {
		return nil, false
	}
	for i, v := range rt.Results {
		out[i] = v
		u, ok := v.(*ssa.UnOp)
		if !ok || u.Op != token.MUL {
			continue
		}
		al, ok := u.X.(*ssa.Alloc)
		if !ok {
			continue
		}
		// the last store to the local before the load, in this block; when what was stored is itself a load of a
		// result local (`issue = build(err); return nil, issue` with named results re-stores the result into itself),
		// go on to the store that load sees
		cur := ssa.Instruction(u)
		curAl := al
		for hop := 0; hop < 4; hop++ {
			var last ssa.Value
			for _, in := range b.Instrs {
				if in == cur {
					break
				}
				if st, ok := in.(*ssa.Store); ok && st.Addr == ssa.Value(curAl) {
					last = st.Val
				}
			}
			if last == nil {
				break
			}
			out[i] = last
			u2, ok := last.(*ssa.UnOp)
			if !ok || u2.Op != token.MUL || u2.Block() != b {
				break
			}
			al2, ok := u2.X.(*ssa.Alloc)
			if !ok {
				break
			}
			cur, curAl = u2, al2
		}
	}
	return out, true
}

// returnedClosure: the single closure a function returns (a DpFactory, a
// formatter ...), whatever its position among the function's closures.
func returnedClosure(fn *ssa.Function) *ssa.Function {
	if fn == nil {
		return nil
	}
	var out *ssa.Function
	n := 0
	eachInstr(fn, func(_ *ssa.BasicBlock, _ int, in ssa.Instruction) {
		rt, ok := in.(*ssa.Return)
		if !ok {
			return
		}
		for _, rv := range rt.Results {
			if mc, ok := cvi(rv).(*ssa.MakeClosure); ok {
				if f, ok := mc.Fn.(*ssa.Function); ok {
					f = boundMethodTarget(f)
					if f != out {
						out = f
						n++
					}
				}
			}
		}
	})
	if n != 1 {
		return nil
	}
	return out
}

// boundMethodTarget: for the synthetic wrapper of a method value
// (`requestValues{r}.fromForm`), the method it calls; f itself otherwise. A
// method value is a closure over its receiver: its body is the method's.
func boundMethodTarget(f *ssa.Function) *ssa.Function {
	if f == nil || !strings.HasPrefix(f.Synthetic, "bound method wrapper") {
		return f
	}
	var target *ssa.Function
	n := 0
	eachInstr(f, func(_ *ssa.BasicBlock, _ int, in ssa.Instruction) {
		if ci := callOf(in); ci != nil && ci.static != nil {
			target = ci.static
			n++
		}
	})
	if n == 1 && target.Blocks != nil {
		return target
	}
	return f
}

// closureStoredToGlobal: the single closure fn stores into the named package-level variable.
func closureStoredToGlobal(fn *ssa.Function, global string) *ssa.Function {
	if fn == nil {
		return nil
	}
	var out *ssa.Function
	n := 0
	eachInstr(fn, func(_ *ssa.BasicBlock, _ int, in ssa.Instruction) {
		st, ok := in.(*ssa.Store)
		if !ok {
			return
		}
		g, ok := st.Addr.(*ssa.Global)
		if !ok || g.Name() != global {
			return
		}
		if mc, ok := cvi(st.Val).(*ssa.MakeClosure); ok {
			if f, ok := mc.Fn.(*ssa.Function); ok {
				out = f
				n++
			}
		}
	})
	if n != 1 {
		return nil
	}
	return out
}

// condImpliesFieldTrue: does "cond has the value truth" imply that a load of the boolean field f (of any object) was
// true? Direct load, negation, and a conjunction hoisted into a local (`caught := ctx.Exit && ctx.CanCatch; if caught`),
// which is a phi of booleans: known true with every other edge the constant false means control came through the one
// live edge, so the guards of that predecessor held and the edge's own value is true (dually for known false).
func condImpliesFieldTrue(cond ssa.Value, truth bool, f *types.Var, depth int) bool {
	if depth > 6 || cond == nil {
		return false
	}
	switch c := cv(cond).(type) {
	case *ssa.UnOp:
		if c.Op == token.NOT {
			return condImpliesFieldTrue(c.X, !truth, f, depth+1)
		}
		if _, lf := loadOfField(c); lf != nil && sameField(lf, f) {
			return truth
		}
	case *ssa.Phi:
		var live ssa.Value
		var livePred *ssa.BasicBlock
		n := 0
		for i, e := range c.Edges {
			if k, isK := constBool(e); isK && k != truth {
				continue
			}
			live, livePred = e, c.Block().Preds[i]
			n++
		}
		if n != 1 {
			return false
		}
		for _, gd := range append(guardsOf(livePred), guardsOfEdge(livePred, c.Block())...) {
			if gd.If.Cond != cond && condImpliesFieldTrue(gd.If.Cond, gd.True, f, depth+1) {
				return true
			}
		}
		if _, isK := constBool(live); !isK {
			return condImpliesFieldTrue(live, truth, f, depth+1)
		}
	}
	return false
}

// peelDelegation: a function whose whole body hands its work to one module function and returns exactly what that
// function returns (`return func() (DataProvider, *ZogIssue) { return decode(r) }`): the function that does the work.
func peelDelegation(fn *ssa.Function) *ssa.Function {
	for hop := 0; hop < 3 && fn != nil; hop++ {
		if len(fn.Blocks) != 1 {
			return fn
		}
		var call *ssa.Call
		var ret *ssa.Return
		other := false
		for _, in := range fn.Blocks[0].Instrs {
			switch x := in.(type) {
			case *ssa.Call:
				if call != nil {
					other = true
				}
				call = x
			case *ssa.Return:
				ret = x
			case *ssa.Extract, *ssa.DebugRef, *ssa.UnOp, *ssa.MakeInterface, *ssa.ChangeType:
			default:
				other = true
			}
		}
		if other || call == nil || ret == nil {
			return fn
		}
		callee := callOf(call).static
		if callee == nil || callee.Blocks == nil || !inModule(funcPkgPath(callee)) || callee.Signature.Results().Len() != len(ret.Results) {
			return fn
		}
		for i, rv := range ret.Results {
			ex, isEx := rv.(*ssa.Extract)
			switch {
			case len(ret.Results) == 1 && rv == ssa.Value(call):
			case isEx && ex.Tuple == ssa.Value(call) && ex.Index == i:
			default:
				return fn
			}
		}
		fn = callee
	}
	return fn
}

// structParamFieldBound: base is a struct-typed parameter of its function (or the local it was spilled to); at every
// static call site the argument is a struct value built in a local and filled field by field, and what is stored into
// field f is a load of one and the same (by role) field of a schema kind: that field. Else nil.
func (P *Prog) structParamFieldBound(base ssa.Value, f *types.Var) *types.Var {
	var prm *ssa.Parameter
	// (read inside a closure of the function: the captured local that holds the parameter)
	if fv, ok := base.(*ssa.FreeVar); ok {
		if b := freeVarBinding(fv); b != nil {
			base = b
		}
	}
	if u, ok := base.(*ssa.UnOp); ok && u.Op == token.MUL {
		if fv, ok := u.X.(*ssa.FreeVar); ok {
			if b := freeVarBinding(fv); b != nil {
				base = b
			}
		}
	}
	switch x := base.(type) {
	case *ssa.Parameter:
		prm = x
	case *ssa.Alloc:
		if sts := storesTo(x); len(sts) == 1 {
			prm, _ = sts[0].Val.(*ssa.Parameter)
		}
	case *ssa.UnOp:
		if al, ok := x.X.(*ssa.Alloc); ok {
			if sts := storesTo(al); len(sts) == 1 {
				prm, _ = sts[0].Val.(*ssa.Parameter)
			}
		}
	}
	if prm == nil {
		return nil
	}
	fn := prm.Parent()
	idx := -1
	for i, q := range fn.Params {
		if q == prm {
			idx = i
		}
	}
	if idx < 0 {
		return nil
	}
	var found *types.Var
	n := 0
	okAll := true
	for _, caller := range P.Funcs {
		eachInstr(caller, func(_ *ssa.BasicBlock, _ int, in ssa.Instruction) {
			c, ok := in.(ssa.CallInstruction)
			if !ok {
				return
			}
			cal := c.Common().StaticCallee()
			if cal == nil || originOf(cal) != originOf(fn) || idx >= len(c.Common().Args) {
				return
			}
			n++
			arg := c.Common().Args[idx]
			var holder *ssa.Alloc
			switch y := arg.(type) {
			case *ssa.Alloc:
				holder = y
			case *ssa.UnOp:
				holder, _ = y.X.(*ssa.Alloc)
			}
			if holder == nil || holder.Referrers() == nil {
				okAll = false
				return
			}
			var stored ssa.Value
			for _, rf := range *holder.Referrers() {
				fa, ok := rf.(*ssa.FieldAddr)
				if !ok {
					continue
				}
				if _, ff := fieldVar(fa); ff == nil || !sameField(ff, f) {
					continue
				}
				for _, st := range storesTo(fa) {
					stored = st.Val
				}
			}
			if stored == nil {
				okAll = false
				return
			}
			var bf *types.Var
			saved := substEnv
			substEnv = nil
			_, bf = loadOfField(cv(stored))
			substEnv = saved
			if bf == nil {
				okAll = false
				return
			}
			if found != nil && P.roleName(found) != P.roleName(bf) {
				okAll = false
				return
			}
			found = bf
		})
	}
	if !okAll || n == 0 {
		return nil
	}
	return found
}
