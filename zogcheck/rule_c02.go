package main

import (
	"fmt"
	"go/token"
	"go/types"
	"strings"

	"golang.org/x/tools/go/ssa"
)

func init() { register("C02", checkC02) }

// testsLoops: natural loops whose header bound is len(<tests role>).
func (P *Prog) testsLoops(fn *ssa.Function) []natLoop {
	var out []natLoop
	for _, nl := range naturalLoops(fn) {
		iff := condOf(nl.header)
		if iff == nil {
			continue
		}
		bo, ok := iff.Cond.(*ssa.BinOp)
		if !ok {
			continue
		}
		isTests := false
		for _, side := range []ssa.Value{bo.X, bo.Y} {
			if c, ok := side.(*ssa.Call); ok && P.isLenOfRole(c, "tests") {
				isTests = true
			}
		}
		if isTests {
			out = append(out, nl)
		}
	}
	return out
}

func checkC02(P *Prog, r *Result) {
	R := P.roles
	r.Explanation = "Decides the structural clauses of 'every violation reported exactly once, where it occurred': (loop-no-early-exit) a node's test loop is left before all tests ran only on an edge " +
		"guarded by ctx.Exit, which only a catching node can set (C05); (abort-after-required-or-coerce) after a required/not_nil or coerce issue the node reaches neither its tests nor " +
		"its children, and emits exactly that one issue; (current-test) every call of a Test.Func is dominated by ctx.Test = &<that same test>, so the issue is built from the failing test's " +
		"own code, params and path; (nil-iff-empty) the returned collection is written only by the constructor (nil) and Add, IsEmpty compares it with nil, and every entry point returns " +
		"exactly that field of the container it created; (single-emit) a failing predicate produces exactly one AddIssue; (issue-path) issues are built with the node's own path. " +
		"Multiset equality of issues against an executable specification for arbitrary inputs is not decided."
	// ---- loop-no-early-exit ----
	nLoops := 0
	for _, nf := range P.nodeFuncs() {
		li := 0
		for _, u := range P.nodeUnits(nf) {
			if u.fn.Parent() != nil {
				continue // closures hold post-transform loops, not test loops
			}
			u.with(func() {
				for _, nl := range P.testsLoops(u.fn) {
					li++
					nLoops++
					fn := u.fn
					r.sawFunc(fname(fn))
					c := fmt.Sprintf("%s#tests-loop@%d", fname(nf), li)
					var bad []string
					// the loop must call each test: CALL-TEST in the body, on every path through the body
					callBlocks := map[*ssa.BasicBlock]bool{}
					for b := range nl.body {
						for _, in := range b.Instrs {
							if P.isTestFuncCall(callOf(in)) {
								callBlocks[b] = true
							}
						}
					}
					if len(callBlocks) == 0 {
						bad = append(bad, "the loop over the tests never calls a test")
					} else {
						// every path from the body entry back to the header or out passes a call
						for k, s := range nl.header.Succs {
							_ = k
							if !nl.body[s] {
								continue
							}
							for x := range reach(s, callBlocks) {
								if x == nl.header && s != nl.header {
									bad = append(bad, "an iteration can skip calling its test")
								}
								for _, ss := range x.Succs {
									if ss == nl.header && !callBlocks[x] {
										bad = append(bad, "an iteration can skip calling its test")
									}
								}
							}
						}
					}
					for b := range nl.body {
						for k, s := range b.Succs {
							if nl.body[s] || b == nl.header {
								continue
							}
							if leadsOnlyToPanic(s) {
								continue
							}
							iff := condOf(b)
							okExit := false
							if iff != nil && condImpliesFieldTrue(iff.Cond, k == 0, R.FExit, 0) {
								okExit = true
							}
							for _, gd := range guardsOf(b) {
								if condImpliesFieldTrue(gd.If.Cond, gd.True, R.FExit, 0) {
									okExit = true
								}
							}
							if !okExit {
								bad = append(bad, fmt.Sprintf("the test loop can be left at %s without ctx.Exit being set: later tests of the node are not run, so only the first failure is reported", P.ipos(b.Instrs[len(b.Instrs)-1])))
							}
						}
					}
					// order: the loop visits tests[i] with the induction variable
					if len(bad) > 0 {
						r.bad("C02/loop-no-early-exit", c, P.ipos(nl.header.Instrs[0]), strings.Join(uniqSorted(bad), "; "))
					} else {
						r.ok("C02/loop-no-early-exit", c, P.ipos(nl.header.Instrs[0]), "every iteration calls its test; the only early exits are guarded by ctx.Exit")
					}
				}
			})
		}
	}
	r.floor("C02/loop-no-early-exit", 2)

	// ---- abort-after-required-or-coerce + exactly-one-issue (path based) ----
	for _, fn := range P.nodeFuncs() {
		paths, capHit := P.nodePaths(fn)
		if capHit {
			r.undecided("C02/abort-after-required-or-coerce", fname(fn), P.pos(fn.Pos()), "too many paths")
			continue
		}
		has := false
		var problems []string
		for _, p := range paths {
			for i, it := range p.items {
				if it.kind != "ISSUE" || (it.val != "required" && it.val != "coerce") {
					continue
				}
				has = true
				for j := i + 1; j < len(p.items); j++ {
					switch p.items[j].kind {
					case "TESTS", "CALL-TEST", "CHILD", "DELEGATE":
						problems = append(problems, fmt.Sprintf("after the %s issue the node still runs %s  [path: %s]", it.val, p.items[j].kind, p.String()))
					case "ISSUE":
						problems = append(problems, fmt.Sprintf("a second issue is emitted after the %s issue  [path: %s]", it.val, p.String()))
					}
				}
				if p.end != "RETURN" {
					problems = append(problems, "the node does not return after the "+it.val+" issue  [path: "+p.String()+"]")
				}
			}
			// a failed coercion / factory / provider error must produce an issue (or the catch value)
			for _, it := range p.items {
				if (it.kind == "COERCE-ERR" || it.kind == "FACTORY-ERR" || strings.HasPrefix(it.kind, "ERR:") || it.kind == "PREPROCESS-ERR") && it.val == "T" {
					if !p.has("ISSUE", "") && !p.has("DEST", "catch") {
						problems = append(problems, "an error result is dropped without an issue  [path: "+p.String()+"]")
					}
					if p.has("CHILD", "") || p.has("TESTS", "") {
						problems = append(problems, "after an error result the node still runs its tests/children  [path: "+p.String()+"]")
					}
				}
			}
		}
		if !has && len(problems) == 0 {
			continue
		}
		r.sawFunc(fname(fn))
		if len(problems) > 0 {
			r.bad("C02/abort-after-required-or-coerce", fname(fn), P.pos(fn.Pos()), fmt.Sprintf("%d offending path(s)", len(problems)), uniqSorted(problems)...)
		} else {
			r.ok("C02/abort-after-required-or-coerce", fname(fn), P.pos(fn.Pos()), fmt.Sprintf("%d paths: a required/coerce issue is the only issue of its path and is followed by return", len(paths)))
		}
	}
	r.floor("C02/abort-after-required-or-coerce", 3)

	// ---- current-test ----
	okWBR, detail := P.testWriteBeforeRead(r)
	if okWBR {
		r.ok("C02/current-test", "Test.Func call sites", "-", detail)
	} else {
		r.bad("C02/current-test", "Test.Func call sites", "-", "an issue can be built from a test other than the one that failed: "+detail)
	}
	// the wrappers build the issue from c.Test and the tested value
	for _, w := range P.predicateWrappers() {
		r.sawFunc(fname(w.closure))
		okArgs := w.issueArgsOK
		c := fname(w.fn) + "#issue-args"
		if okArgs {
			r.ok("C02/current-test", c, P.pos(w.closure.Pos()), "issue built by IssueFromTest(ctx.Test, val) on the same context")
		} else {
			r.bad("C02/current-test", c, P.pos(w.closure.Pos()), "the wrapper does not build its issue from the context's current test and the tested value")
		}
		if w.addIssues == 1 {
			r.ok("C02/single-emit", fname(w.fn), P.pos(w.closure.Pos()), "exactly one AddIssue in the wrapper")
		} else {
			r.bad("C02/single-emit", fname(w.fn), P.pos(w.closure.Pos()), fmt.Sprintf("%d AddIssue calls in the wrapper: a failing predicate yields that many issues", w.addIssues))
		}
	}
	r.floor("C02/current-test", 2)
	r.floor("C02/single-emit", 1)

	// ---- issue-path: an issue is reported where it occurred. Its path is written only by the issue
	// constructors from the node's own path builder (C10's rule), every field of a recycled node context is
	// re-initialised (C07's rule restricted to SchemaCtx: no path or memo of an earlier node survives), and each
	// field's schema runs on the field of that name (C03's rule) ----
	shareRule(P, r, checkC10, "C10/path-writers", nil, "C02/issue-path", 4)
	shareRule(P, r, checkC07, "C07/reinit", func(o Obligation) bool {
		return strings.Contains(o.Construct, "#zog/internals.SchemaCtx.") || strings.Contains(o.Construct, "PathBuilder")
	}, "C02/issue-path", 0)
	// a value that satisfies its node yields no issue: an absent optional node is not tested at all (C04's decision rule:
	// dropping the early return for an empty optional slice runs the slice's own tests on it)
	shareRule(P, r, checkC04, "C04/decision-shape", nil, "C02/absent-optional-not-tested", 5)
	shareRule(P, r, checkC03, "C03/struct-writes-by-field", nil, "C02/issue-path", 4) // (floor over the three adoptions together, without the recycled-object part)
	// an issue object belongs to one report: an issue released to the pool twice is handed to two later
	// violations, one of which then shows the other's code and path (C07's release-multiplicity rule)
	shareRule(P, r, checkC07, "C07/release-multiplicity", nil, "C02/issue-object-unique", 0)
	// no spurious issue: a typed nil record is an empty record (each required field reports), not one coerce
	// issue at the struct node that hides them (C04's nil-record rule)
	shareRule(P, r, checkC04, "C04/nil-record-absent", nil, "C02/nil-record-not-a-coerce-issue", 1)
	// the tests a schema runs are the ones declared on it: a derived schema whose tests slice shares spare capacity with
	// its operand has the test it took from one Merge overwritten by the next, and then reports a foreign code and
	// misses its own violation (C16's rule)
	shareRule(P, r, checkC16, "C16/no-shared-backing", nil, "C02/tests-as-declared", 4)
	// an un-coercible value yields a coerce issue: what is un-coercible is the coercer's decision (a configured coercer
	// may refuse NaN), so every present value goes through it (C03's rule)
	shareRule(P, r, checkC03, "C03/coerced-value-stored", nil, "C02/coercer-decides", 1)
	// "a value that satisfies its node yields no issue": a built-in test reports exactly when its documented predicate is
	// false (`*v == t` for time.Equal reports equal instants in different zones) - C20's rule
	shareRule(P, r, checkC20, "C20/predicate", nil, "C02/tests-decide-their-predicate", 22)
	// an un-coercible value yields a coerce issue: a number outside the destination's range is un-coercible, not wrapped
	// (C18's rule: every lossy conversion in the coercers is guarded)
	// (conversions *to an integer type*: those wrap or saturate out of range; the rounding of a large integer into a
	// float64 is C18's business, not a missing issue)
	shareRule(P, r, checkC18, "C18/guarded-convert", func(o Obligation) bool { return strings.Contains(o.Construct, "→int") }, "C02/out-of-range-is-a-coerce-issue", 3)
	// ---- nil-iff-empty ----
	P.checkNilIffEmpty(r)
	// ---- a failure is never swallowed by a flag left behind, nor suppressed by an unrelated earlier issue ----
	ca := P.newCatchAnalysis()
	sites := P.allDispatchSites(ca)
	names := siteNames(sites)
	for i, s := range sites {
		if len(s.dirty) > 0 {
			r.bad("C02/not-swallowed", names[i], P.ipos(s.at), "the child's issues can be swallowed: "+flagNames(s.dirty)+" may still be set on the context it receives")
		} else {
			r.ok("C02/not-swallowed", names[i], P.ipos(s.at), "child context catch-clean")
		}
	}
	cntU := map[string]int{}
	for _, s := range P.ownUseSites(ca) {
		top := s.at.Parent()
		for top.Parent() != nil {
			top = top.Parent()
		}
		k := fname(top) + "#" + s.kind
		cntU[k]++
		c := fmt.Sprintf("%s@%d", k, cntU[k])
		if len(s.dirty) > 0 {
			r.bad("C02/not-swallowed", c, P.ipos(s.at), "the node's own issue can be swallowed: "+flagNames(s.dirty)+" may still be set on its context")
		} else {
			r.ok("C02/not-swallowed", c, P.ipos(s.at), "own context catch-clean")
		}
	}
	r.floor("C02/not-swallowed", 25)
	P.checkIssueContainerReads(r, "C02/no-global-gating")
}

func (P *Prog) checkNilIffEmpty(r *Result) {
	R := P.roles
	type cont struct {
		n     string
		field string
		ctor  string
	}
	for _, ct := range []cont{{"ErrsMap", "M", "zog/internals.NewErrsMap"}, {"ErrsList", "List", "zog/internals.NewErrsList"}} {
		named := R.ErrsMap
		if ct.n == "ErrsList" {
			named = R.ErrsList
		}
		fld := structField(named, ct.field)
		if fld == nil {
			r.broken("field %s.%s not found", ct.n, ct.field)
			continue
		}
		// who may write
		var bad []string
		nW := 0
		for _, fn := range P.Funcs {
			eachInstr(fn, func(_ *ssa.BasicBlock, _ int, in ssa.Instruction) {
				st, ok := in.(*ssa.Store)
				if !ok {
					return
				}
				_, f := fieldVar(st.Addr)
				if f == nil || !sameField(f, fld) {
					return
				}
				nW++
				switch {
				case fname(topLevel(fn)) == ct.ctor && isNilConst(st.Val): // the constructor, or a closure it hands to a helper
				case fn.Name() == "Add" && fn.Signature.Recv() != nil && sameNamed(namedOf(fn.Signature.Recv().Type()), named):
				default:
					bad = append(bad, fmt.Sprintf("%s writes %s.%s at %s", fname(fn), ct.n, ct.field, P.ipos(in)))
				}
			})
		}
		if len(bad) > 0 {
			r.bad("C02/nil-iff-empty", ct.n+"#writers", "-", "the issue collection is written outside its constructor and Add: nil no longer means 'no issue': "+strings.Join(bad, "; "))
		} else {
			r.ok("C02/nil-iff-empty", ct.n+"#writers", "-", fmt.Sprintf("%d writes: nil in the constructor, appends in Add", nW))
		}
		// Add must leave the field non-nil: every path stores a non-nil value (append result / make)
		if add := P.fn("(*zog/internals." + ct.n + ").Add"); add != nil {
			S := map[*ssa.BasicBlock]bool{}
			eachInstr(add, func(b *ssa.BasicBlock, _ int, in ssa.Instruction) {
				if st, ok := in.(*ssa.Store); ok {
					if _, f := fieldVar(st.Addr); f != nil && sameField(f, fld) && !isNilConst(st.Val) {
						S[b] = true
					}
				}
				if mu, ok := in.(*ssa.MapUpdate); ok {
					if _, f := loadOfField(cv(mu.Map)); f != nil && sameField(f, fld) {
						// map update presupposes a non-nil map (else it would panic): a dominating non-nil store exists
					}
				}
			})
			// for the map: the nil case must be handled by a make under `M == nil`
			okNonNil := false
			if ok, _ := mustPassThrough(add.Blocks[0], S); ok {
				okNonNil = true
			} else {
				// accept: `if s.M == nil { s.M = make }` then updates
				eachInstr(add, func(b *ssa.BasicBlock, _ int, in ssa.Instruction) {
					if st, ok := in.(*ssa.Store); ok {
						if _, f := fieldVar(st.Addr); f != nil && sameField(f, fld) {
							for _, gd := range guardsOf(b) {
								if x, eq, isN := isNilCompare(gd.If.Cond); isN && gd.True == eq {
									if _, f2 := loadOfField(cv(x)); f2 != nil && sameField(f2, fld) {
										okNonNil = true
									}
								}
							}
						}
					}
				})
			}
			if !okNonNil {
				okNonNil = P.addLeavesNonNil(add, fld)
			}
			if okNonNil {
				r.ok("C02/nil-iff-empty", ct.n+".Add#non-nil", P.pos(add.Pos()), "after Add the collection is non-nil on every path")
			} else {
				r.bad("C02/nil-iff-empty", ct.n+".Add#non-nil", P.pos(add.Pos()), "Add can return leaving the collection nil: an issue was recorded but the result says 'valid'")
			}
		}
		// IsEmpty
		if ie := P.fn("(*zog/internals." + ct.n + ").IsEmpty"); ie != nil {
			okIE := false
			eachInstr(ie, func(_ *ssa.BasicBlock, _ int, in ssa.Instruction) {
				if rt, ok := in.(*ssa.Return); ok && len(rt.Results) == 1 {
					if x, eq, isN := isNilCompare(rt.Results[0]); isN && eq {
						if _, f := loadOfField(cv(x)); f != nil && sameField(f, fld) {
							okIE = true
						}
					}
				}
			})
			if okIE {
				r.ok("C02/nil-iff-empty", ct.n+".IsEmpty", P.pos(ie.Pos()), "IsEmpty() == (collection == nil)")
			} else {
				r.bad("C02/nil-iff-empty", ct.n+".IsEmpty", P.pos(ie.Pos()), "IsEmpty does not compare the collection with nil: HasErrored()/post-transform gating disagrees with the returned result")
			}
		}
	}
	// entry points return the field of the container they created (decided on the entry point's paths,
	// shared prologue helpers and the closures handed to them entered)
	for _, ep := range R.EntryPoints {
		r.sawFunc(fname(ep))
		c := fname(ep) + "#result"
		paths, capHit := P.entryPaths(ep)
		if capHit {
			r.undecided("C02/nil-iff-empty", c, P.pos(ep.Pos()), "too many paths to enumerate")
			continue
		}
		bad := ""
		nRet := 0
		for _, p := range paths {
			if p.end != "RETURN" {
				continue
			}
			nRet++
			switch {
			case len(p.containers) == 0:
				bad = "entry point does not create an issue container"
			case len(p.containers) > 1:
				bad = "entry point creates more than one issue container"
			case (p.retField != "M" && p.retField != "List") || p.retBase != p.containers[0]:
				bad = "the entry point does not return exactly the issue collection of the container it created"
			case len(p.execCont) != 1 || p.execCont[0] != p.containers[0]:
				bad = "the container whose collection is returned is not the one the execution records issues into"
			}
			if bad != "" {
				bad += "  [path: " + p.str + "]"
				break
			}
		}
		switch {
		case bad != "":
			r.bad("C02/nil-iff-empty", c, P.pos(ep.Pos()), bad)
		case nRet == 0:
			r.bad("C02/nil-iff-empty", c, P.pos(ep.Pos()), "the entry point does not return exactly the issue collection of the container it created")
		default:
			r.ok("C02/nil-iff-empty", c, P.pos(ep.Pos()), "returns the collection of the container this execution records into")
		}
	}
	r.floor("C02/nil-iff-empty", 20)
	_ = token.ADD
}

// topLevel: the named function a closure is nested in (fn itself when it is not a closure).
func topLevel(fn *ssa.Function) *ssa.Function {
	for fn.Parent() != nil {
		fn = fn.Parent()
	}
	return fn
}

// addLeavesNonNil decides the same on Add's decision paths with its helpers
// entered (`if s.IsEmpty() { s.M = ... }`): every returning path stores a
// non-nil value into the field, updates the map it holds (which presupposes a
// non-nil map), or has established that the field is not nil.
func (P *Prog) addLeavesNonNil(add *ssa.Function, fld *types.Var) bool {
	spec := &pathSpec{name: "add-non-nil", inlineAll: true}
	spec.keep = func(f *ssa.Function) bool { return !inModule(funcPkgPath(f)) }
	spec.cond = func(iff *ssa.If) (string, string, string) {
		if x, eq, isN := isNilCompare(cv(iff.Cond)); isN {
			if _, f := loadOfField(cv(x)); f != nil && sameField(f, fld) {
				if eq {
					return "NIL", "T", "F"
				}
				return "NIL", "F", "T"
			}
		}
		return "", "", ""
	}
	spec.events = func(in ssa.Instruction) []pathItem {
		switch x := in.(type) {
		case *ssa.Store:
			if _, f := fieldVar(x.Addr); f != nil && sameField(f, fld) {
				if isNilConst(x.Val) {
					return []pathItem{{kind: "CLEAR", in: in}}
				}
				return []pathItem{{kind: "SET", in: in}}
			}
		case *ssa.MapUpdate:
			if _, f := loadOfField(cv(x.Map)); f != nil && sameField(f, fld) {
				return []pathItem{{kind: "SET", in: in}}
			}
		}
		return nil
	}
	res := P.enumPathsSpec(add, nil, spec)
	if res.capHit || len(res.paths) == 0 {
		return false
	}
	for _, p := range res.paths {
		if p.end != "RETURN" {
			continue
		}
		nonNil := false
		for _, it := range p.items {
			switch {
			case it.kind == "SET", it.kind == "NIL" && it.val == "F":
				nonNil = true
			case it.kind == "CLEAR":
				nonNil = false
			}
		}
		if !nonNil {
			return false
		}
	}
	return true
}
