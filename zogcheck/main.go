// zogcheck: purpose-built static analyser for Oudwins/zog. One invocation
// loads /repo's working tree (go/packages), builds SSA and a VTA call graph,
// and decides the structural clauses of one property (DESIGN.md section 4).
//
//	zogcheck -prop C07 -tier quick|thorough [-repo /repo] [-verif /verif]
//
// Exit 0: every obligation discharged or matched by a known finding.
// Exit 1: a violated/undecided obligation (VIOLATION line per obligation).
// Exit 2: the check itself is broken (load error, vacuous rule, failed control).
package main

import (
	"flag"
	"fmt"
	"os"
	"sort"
	"strconv"
	"strings"
	"time"

	"golang.org/x/tools/go/ssa"
)

type ruleFunc func(P *Prog, r *Result)

var props = map[string]ruleFunc{}

func register(id string, f ruleFunc) { props[id] = f }

func main() {
	prop := flag.String("prop", "", "property id (C01..C20) or 'all'")
	tier := flag.String("tier", "quick", "quick|thorough")
	repo := flag.String("repo", "/repo", "repository working tree to analyse")
	verif := flag.String("verif", "/verif", "verif dir (evidence/, known_findings.json)")
	dump := flag.String("dump", "", "dump SSA of the named function (substring match) and exit")
	list := flag.Bool("list", false, "list module functions and exit")
	arch := flag.String("goarch", "", "GOARCH override")
	pathsOf := flag.String("paths", "", "print the decision paths of the named node function (substring match) and exit")
	flag.Parse()
	if t := os.Getenv("VERIF_TIER"); t != "" && *tier == "" {
		*tier = t
	}
	seed, _ := strconv.Atoi(os.Getenv("VERIF_SEED"))
	start := time.Now()

	P, err := Load(*repo, *arch, false)
	if err != nil {
		fmt.Printf("BROKEN-CHECK property=%s: load failed: %v\n", *prop, err)
		os.Exit(2)
	}
	if *list {
		for _, fn := range P.Funcs {
			fmt.Println(fname(fn))
		}
		return
	}
	if *dump != "" {
		for _, fn := range P.Funcs {
			if strings.Contains(fname(fn), *dump) {
				fmt.Printf("### %s\n", fname(fn))
				fn.WriteTo(os.Stdout)
			}
		}
		return
	}
	if err := P.discoverRoles(); err != nil {
		fmt.Printf("BROKEN-CHECK property=%s: role discovery failed: %v\n", *prop, err)
		os.Exit(2)
	}
	if f := os.Getenv("ZOGCHECK_FORMULA"); f != "" {
		for _, fn := range P.Funcs {
			if strings.Contains(fname(fn), f) {
				sh := P.predicateShape(fn)
				fmt.Printf("### %s (problems: %v)\n", fname(fn), sh.problems)
				for _, p := range sh.paths {
					fmt.Printf("   %s ⇒ %s\n", strings.Join(p.conds, " ∧ "), p.ret)
				}
			}
		}
		return
	}
	if *pathsOf != "" {
		fns := P.Funcs
		if *pathsOf == "@nodes" {
			fns = P.nodeFuncs()
		}
		for _, fn := range fns {
			if *pathsOf == "@nodes" || strings.Contains(fname(fn), *pathsOf) {
				ps, cap := P.nodePaths(fn)
				fmt.Printf("### %s: %d paths (cap hit: %v)\n", fname(fn), len(ps), cap)
				if m := P.nodePathsMemo[fn]; m != nil && len(m.inlined) > 0 {
					fmt.Printf("    inlined: %v\n", m.inlined)
				}
				for _, p := range ps {
					fmt.Println("  ", p.String())
				}
			}
		}
		return
	}
	var ids []string
	if *prop == "all" {
		for id := range props {
			ids = append(ids, id)
		}
		sort.Strings(ids)
	} else {
		if props[*prop] == nil {
			fmt.Printf("BROKEN-CHECK property=%s: no such property check\n", *prop)
			os.Exit(2)
		}
		ids = []string{*prop}
	}
	worst := 0
	for _, id := range ids {
		st := start
		if len(ids) > 1 {
			st = time.Now()
		}
		r := NewResult(id, *tier)
		runGuarded(P, r, props[id])
		if *tier == "thorough" {
			runThorough(P, r, id, *repo)
		}
		cmd := fmt.Sprintf("bin/zogcheck -prop %s -tier %s -repo %s", id, *tier, *repo)
		code := r.finish(*verif, st, seed, cmd)
		if code > worst {
			worst = code
		}
	}
	os.Exit(worst)
}

// runGuarded turns an analyser panic into a broken check, never a pass.
func runGuarded(P *Prog, r *Result, f ruleFunc) {
	defer func() {
		if e := recover(); e != nil {
			r.broken("analyser panic: %v", e)
			if os.Getenv("ZOGCHECK_DEBUG") != "" {
				panic(e)
			}
		}
	}()
	f(P, r)
}

var _ = ssa.BuilderMode(0)
