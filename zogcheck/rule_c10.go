package main

import (
	"fmt"
	"go/constant"
	"go/token"
	"go/types"
	"regexp"
	"strings"

	"golang.org/x/tools/go/ssa"
)

func init() { register("C10", checkC10) }

func checkC10(P *Prog, r *Result) {
	R := P.roles
	r.Explanation = "Decides the structural clauses of issue-map well-formedness: (add-shape) ErrsMap.Add writes $first once (a one-element list holding the issue) exactly when the map is created, " +
		"and on every path appends the issue exactly once under the key derived from its path argument with the single rewrite \"\" -> $root; (keyed-by-own-path) the only internal caller of " +
		"ZogIssues.Add passes the issue's own Path; (segment-source) the path segment pushed for a struct field is the key the field's data was looked up with (Parse) or its zog tag / schema key " +
		"(Validate), and for slice elements \"[i]\" of the element's own index; (tag-priority) GetKeyFromField tries the source tag, then the zog tag, then the schema key; " +
		"(provider-tag-table) each front end looks fields up with its own tag constant, which is never reassigned; (issuepath-last) a test's IssuePath, when set, is the last write to the " +
		"issue's path; (sanitize-agreement) SanitizeMap/SanitizeList keep keys/indices and lengths; (tag-reaches-nested) nested providers keep the source tag. " +
		"The rendering grammar of PathBuilder.String for arbitrary segment strings is value-level and not decided."
	P.checkAddShape(r)
	P.checkKeyedByOwnPath(r)
	P.checkSegmentSource(r)
	P.checkTagPriority(r, "C10/tag-priority")
	P.checkProviderTagTable(r)
	P.checkIssuePathLast(r)
	P.checkPathWriters(r)
	P.checkSanitizeAgreement(r)
	P.checkTagReachesNested(r, "C10/tag-reaches-nested")
	P.checkPathRender(r)
	// a test's IssuePath option reaches the test that is stored: the options are applied to the call-local Test
	// before it is copied into the schema (C17's option-locality rule)
	shareRule(P, r, checkC17, "C17/option-locality", nil, "C10/issuepath-option-effective", 15)
	// an issue object appears once in the map: an issue released to the pool twice is handed to two later
	// failures, and the map then holds one object under two keys, with the Path of only one of them (C07's rule)
	shareRule(P, r, checkC07, "C07/release-multiplicity", nil, "C10/issue-object-unique", 0)
	// the path of an issue is the path of its own node: the pooled PathBuilder an execution pushes its segments on
	// belongs to that execution alone (released once: C07's release rule) and starts from the empty root (C07's
	// re-initialisation rule), else segments of another execution show up in the keys. (No floor: a tree that stops
	// pooling path builders has nothing to release or re-initialise, and the property holds.)
	// the IssuePath that overrides the path is the one of the test the schema runs: the issue is built from the
	// context's current test, set from the schema's own copy right before the call, not from a Test value a wrapper
	// closed over when it was made (C02's current-test rule)
	shareRule(P, r, checkC02, "C02/current-test", nil, "C10/issuepath-of-running-test", 1)
	// the source-specific tag is the tag of the source the record was read from: the request front end hands a query
	// string to the query parser (tag `query`) and a form body to the form parser (tag `form`) - a HEAD request with a
	// form content type that goes to the form parser has its query parameters keyed by the `form` tag (C15's table)
	shareRule(P, r, checkC15, "C15/dispatch-table", nil, "C10/source-tag-of-the-source-read", 4)
	// the key of a field comes from the destination type of *this* call: nothing about a destination is remembered in
	// the schema (a per-schema cache of reflect.StructField keeps the zog tags of the first type validated) - C08's
	// write-effects rule on the struct node, as C16 adopts it
	shareRule(P, r, checkC08, "C08/write-effects", func(o Obligation) bool { return strings.Contains(o.Construct, "StructSchema)") }, "C10/key-from-this-calls-destination", 2)
	// a path is the chain of keys of its own node: every segment pushed is popped on every way out (C07's balance rule;
	// a recover() around an item whose inner node had pushed its own segment leaves that segment on the stack)
	shareRule(P, r, checkC07, "C07/balance", nil, "C10/path-stack-balanced", 2)
	shareRule(P, r, checkC07, "C07/release", func(o Obligation) bool { return strings.Contains(o.Construct, "PathBuilder") }, "C10/path-builder-own", 0)
	shareRule(P, r, checkC07, "C07/reinit", func(o Obligation) bool { return strings.Contains(o.Construct, "PathBuilder") }, "C10/path-builder-clean", 0)
	_ = R
}

// checkPathRender: the path string is the chain of segments joined by '.', with slice positions
// ("[i]") attached directly. PathBuilder.String depends on each segment only through its class (empty /
// starts with '[' / other), so it is interpreted abstractly (absinterp.go) on every vector of classes
// up to length 4 and its output compared with the specification: a '.' before segment i iff i > 0, the
// previous segment is not the empty root and segment i is a key (not a position). Empty segments other
// than the root (a `zog:""` tag) are outside the statement and not compared.
func (P *Prog) checkPathRender(r *Result) {
	fn := P.fn("(*zog/internals.PathBuilder).String")
	if fn == nil {
		r.broken("anchor PathBuilder.String not found")
		return
	}
	r.sawFunc(fname(fn))
	names := map[segClass]string{scEmpty: "\"\"", scBracket: "[i]", scOther: "key"}
	var vectors [][]segClass
	var gen func(cur []segClass, n int)
	gen = func(cur []segClass, n int) {
		vectors = append(vectors, append([]segClass{}, cur...))
		if n == 0 {
			return
		}
		for _, c := range []segClass{scEmpty, scBracket, scOther} {
			gen(append(cur, c), n-1)
		}
	}
	gen(nil, 4)
	nCompared, nSkipped := 0, 0
	var problems []string
	for _, vec := range vectors {
		claimed := true
		for i, c := range vec {
			if c == scEmpty && i > 0 {
				claimed = false
			}
		}
		if !claimed {
			nSkipped++
			continue
		}
		ai := &absInterp{segs: vec, env: map[ssa.Value]absVal{}, cells: map[ssa.Value]absVal{},
			segsOf: func(v ssa.Value) bool { return cv(v) == ssa.Value(fn.Params[0]) }}
		ok := ai.run(fn)
		var desc []string
		for _, c := range vec {
			desc = append(desc, names[c])
		}
		label := "[" + strings.Join(desc, ", ") + "]"
		if !ok {
			why := ai.problem
			if ai.panics != "" {
				why = "panics: " + ai.panics
			}
			if ai.problem != "" {
				r.undecided("C10/path-render", fname(fn), P.pos(fn.Pos()), "PathBuilder.String is outside the abstraction's vocabulary: "+why)
				return
			}
			problems = append(problems, fmt.Sprintf("segments %s: %s", label, why))
			continue
		}
		var want []string
		for i, c := range vec {
			if c == scEmpty {
				continue
			}
			if i > 0 && vec[i-1] != scEmpty && c == scOther {
				want = append(want, `"."`)
			}
			want = append(want, fmt.Sprintf("seg%d", i))
		}
		nCompared++
		// a fast path that returns a segment (or a constant) itself instead of writing it to the builder
		// (`case len(segments) == 2 && segments[0] == "": return segments[1]`)
		if len(ai.out) == 0 && ai.ret.kind == "str" {
			switch {
			case strings.HasPrefix(ai.ret.name, "seg"):
				if ai.ret.cls != scEmpty {
					ai.out = []string{ai.ret.name}
				}
			case ai.ret.name != `""` && ai.ret.name != "":
				ai.out = []string{ai.ret.name}
			}
		}
		if strings.Join(ai.out, " ") != strings.Join(want, " ") {
			problems = append(problems, fmt.Sprintf("segments %s are rendered as %v, expected %v", label, ai.out, want))
		}
	}
	if len(problems) > 0 {
		if len(problems) > 6 {
			problems = append(problems[:6], fmt.Sprintf("... and %d more", len(problems)-6))
		}
		r.bad("C10/path-render", fname(fn), P.pos(fn.Pos()), "the rendered path is not the segments joined by '.', positions attached directly: "+strings.Join(problems, "; "))
	} else {
		r.ok("C10/path-render", fname(fn), P.pos(fn.Pos()), fmt.Sprintf("%d class vectors (root / key / position, length <= 4) rendered as specified; %d vectors with an empty non-root segment not compared", nCompared, nSkipped))
	}
	r.floor("C10/path-render", 1)
}

func (P *Prog) checkAddShape(r *Result) {
	fn := P.fn("(*zog/internals.ErrsMap).Add")
	if fn == nil {
		r.broken("anchor ErrsMap.Add not found")
		return
	}
	r.sawFunc(fname(fn))
	recv, pathP, errP := ssa.Value(fn.Params[0]), ssa.Value(fn.Params[1]), ssa.Value(fn.Params[2])
	firstKey, rootKey := "$first", "$root"
	if o, ok := P.lookupObj(pkgZconst, "ISSUE_KEY_FIRST").(*types.Const); ok {
		firstKey = strings.Trim(o.Val().ExactString(), `"`)
	}
	if o, ok := P.lookupObj(pkgZconst, "ISSUE_KEY_ROOT").(*types.Const); ok {
		rootKey = strings.Trim(o.Val().ExactString(), `"`)
	}
	var problems []string
	// The decision paths of Add (key helpers entered): atoms "the map is nil", "the path is
	// empty", "the key is present"; events: one per map update with the resolved key and value shape.
	keyKind := func(k ssa.Value) string {
		kv := cv(k)
		if sv, ok := constString(kv); ok {
			switch sv {
			case firstKey:
				return "first"
			case rootKey:
				return "root"
			}
			return "other"
		}
		if kv == pathP {
			return "path"
		}
		return "other"
	}
	isEmptyLit := func(v ssa.Value) bool {
		if sl, ok := cv(v).(*ssa.Slice); ok {
			if al, ok := sl.X.(*ssa.Alloc); ok {
				if at, ok := al.Type().(*types.Pointer).Elem().(*types.Array); ok && at.Len() == 0 {
					return true
				}
			}
		}
		if c, ok := cv(v).(*ssa.Const); ok && c.Value == nil {
			return true // a nil slice
		}
		if mk, ok := cv(v).(*ssa.MakeSlice); ok {
			if k, isK := constInt(cv(mk.Len)); isK && k == 0 {
				return true // make(list, 0, n)
			}
		}
		return false
	}
	lookupOf := func(v ssa.Value) *ssa.Lookup {
		switch x := cv(v).(type) {
		case *ssa.Lookup:
			return x
		case *ssa.Extract:
			if lk, ok := x.Tuple.(*ssa.Lookup); ok && x.Index == 0 {
				return lk
			}
		}
		return nil
	}
	fromRecv := func(m ssa.Value) bool {
		for _, rt := range P.rootsOf(m) {
			if rt.kind == rkParam && rt.v == recv {
				return true
			}
		}
		// a map literal that becomes the receiver's map: `s.M = ZogIssueMap{first: {issue}}`
		if mk, ok := cv(m).(*ssa.MakeMap); ok && mk.Referrers() != nil {
			for _, rf := range *mk.Referrers() {
				if st, ok := rf.(*ssa.Store); ok && st.Val == ssa.Value(mk) {
					if base, f := fieldVar(st.Addr); f != nil && f.Name() == "M" && cvi(base) == recv {
						return true
					}
				}
			}
		}
		return false
	}
	spec := &pathSpec{name: "add-shape", inlineAll: true}
	spec.cond = func(iff *ssa.If) (string, string, string) {
		c := cv(iff.Cond)
		if x, eq, isN := isNilCompare(c); isN {
			if _, f := loadOfField(cv(x)); f != nil && f.Name() == "M" {
				if eq {
					return "MAP-NIL", "T", "F"
				}
				return "MAP-NIL", "F", "T"
			}
		}
		if bo, ok := c.(*ssa.BinOp); ok && (bo.Op == token.EQL || bo.Op == token.NEQ) {
			if (cv(bo.X) == pathP && isEmptyString(cv(bo.Y))) || (cv(bo.Y) == pathP && isEmptyString(cv(bo.X))) {
				if bo.Op == token.EQL {
					return "PATH-EMPTY", "T", "F"
				}
				return "PATH-EMPTY", "F", "T"
			}
		}
		neg := false
		if u, ok := c.(*ssa.UnOp); ok && u.Op == token.NOT {
			neg, c = true, cv(u.X)
		}
		if ex, ok := c.(*ssa.Extract); ok && ex.Index == 1 {
			if lk, ok := ex.Tuple.(*ssa.Lookup); ok && lk.CommaOk && fromRecv(lk.X) {
				if neg {
					return "HAS-KEY", "F", "T"
				}
				return "HAS-KEY", "T", "F"
			}
		}
		return "", "", ""
	}
	spec.condAux = func(iff *ssa.If) ssa.Value {
		c := cv(iff.Cond)
		if u, ok := c.(*ssa.UnOp); ok && u.Op == token.NOT {
			c = cv(u.X)
		}
		if ex, ok := c.(*ssa.Extract); ok {
			if lk, ok := ex.Tuple.(*ssa.Lookup); ok {
				return cv(lk.Index)
			}
		}
		return nil
	}
	spec.events = func(in ssa.Instruction) []pathItem {
		mu, ok := in.(*ssa.MapUpdate)
		if !ok {
			return nil
		}
		if !fromRecv(mu.Map) {
			return []pathItem{{kind: "PUT-FOREIGN", in: in}}
		}
		kk := keyKind(mu.Key)
		val := "other"
		switch {
		case sliceLitContains(cv(mu.Value), errP):
			val = "lit-issue"
		case isEmptyLit(mu.Value):
			val = "empty-init"
		default:
			if c, ok := cv(mu.Value).(*ssa.Call); ok && callOf(c).builtin == "append" && len(c.Call.Args) == 2 && sliceLitContains(c.Call.Args[1], errP) {
				if lk := lookupOf(c.Call.Args[0]); lk != nil && fromRecv(lk.X) && sameValue(lk.Index, mu.Key) {
					val = "append-same"
				} else if isEmptyLit(c.Call.Args[0]) {
					val = "append-empty"
				} else {
					val = "append-other"
				}
			}
		}
		return []pathItem{{kind: "PUT-" + kk, val: val, in: in, aux: cv(mu.Key)}}
	}
	res := P.enumPathsSpec(fn, nil, spec)
	if res.capHit {
		r.undecided("C10/add-shape", fname(fn), P.pos(fn.Pos()), "too many paths to enumerate")
		return
	}
	nFirst := map[ssa.Instruction]bool{}
	for _, p := range res.paths {
		if p.end != "RETURN" {
			problems = append(problems, "Add can end other than by returning ("+p.end+")")
			continue
		}
		note := func(msg string) { problems = append(problems, msg+"  [path: "+p.String()+"]") }
		mapNil, mapTested, pathEmpty, pathTested := false, false, false, false
		absent := []ssa.Value{} // keys decided absent on this path
		nMain := 0
		for _, it := range p.items {
			switch {
			case it.kind == "MAP-NIL":
				mapTested, mapNil = true, it.val == "T"
			case it.kind == "PATH-EMPTY":
				pathTested, pathEmpty = true, it.val == "T"
			case it.kind == "HAS-KEY":
				if it.val == "F" && it.aux != nil {
					absent = append(absent, it.aux)
				}
			case it.kind == "PUT-FOREIGN":
				note("a map other than the receiver's is updated at " + P.ipos(it.in))
			case it.kind == "PUT-first":
				nFirst[it.in] = true
				if it.val != "lit-issue" {
					note("$first is not set to a one-element list holding the issue")
				}
				if !(mapTested && mapNil) {
					note("$first is written on a path where the map already existed: it would not be the first issue")
				}
			case strings.HasPrefix(it.kind, "PUT-"):
				if it.val == "empty-init" {
					continue // an empty list stored before the append
				}
				kk := strings.TrimPrefix(it.kind, "PUT-")
				switch {
				case kk == "path" && pathTested && !pathEmpty:
				case kk == "root" && pathTested && pathEmpty:
				default:
					note("an issue is filed under a key that is not its path (or $root for the empty path) at " + P.ipos(it.in))
				}
				switch it.val {
				case "append-same":
					nMain++
				case "append-empty":
					okAbs := false
					for _, a := range absent {
						if sameValue(a, it.aux) {
							okAbs = true
						}
					}
					if !okAbs {
						note("the append at " + P.ipos(it.in) + " starts a new list although the key may already hold issues: earlier issues of that path are lost")
					}
					nMain++
				case "lit-issue":
					note("the list stored at " + P.ipos(it.in) + " replaces the issues already filed under that key")
				default:
					note("the append at " + P.ipos(it.in) + " does not add exactly this issue to the list already stored under the same key")
				}
			}
		}
		switch {
		case nMain == 0:
			note("some path returns without filing the issue under its path")
		case nMain > 1:
			note("the issue can be filed twice on one path")
		}
	}
	if len(nFirst) != 1 {
		problems = append(problems, fmt.Sprintf("%d writes of $first (expected 1)", len(nFirst)))
	}
	if len(problems) > 0 {
		r.bad("C10/add-shape", fname(fn), P.pos(fn.Pos()), strings.Join(uniqSorted(problems), "; "))
	} else {
		r.ok("C10/add-shape", fname(fn), P.pos(fn.Pos()), "$first once on map creation; exactly one append under path (\"\" -> $root) on every path")
	}
	r.floor("C10/add-shape", 1)
}

func isEmptyString(v ssa.Value) bool {
	s, ok := constString(v)
	return ok && s == ""
}

// guardsOfEdge: the If of pred itself when succ is one of its branches.
func guardsOfEdge(pred, succ *ssa.BasicBlock) []guard {
	var out []guard
	if iff := condOf(pred); iff != nil {
		for k, s := range pred.Succs {
			if s == succ && pred.Succs[0] != pred.Succs[1] {
				out = append(out, guard{iff, k == 0})
			}
		}
	}
	return out
}

func (P *Prog) checkKeyedByOwnPath(r *Result) {
	g := P.buildModCG()
	E := P.execSet(g)
	n := 0
	for _, fn := range sortedFuncs(E) {
		eachInstr(fn, func(_ *ssa.BasicBlock, _ int, in ssa.Instruction) {
			ci := callOf(in)
			if ci == nil || ci.invoke == nil || ci.invoke.Name() != "Add" {
				return
			}
			args := ci.args()
			if len(args) != 3 {
				return
			}
			n++
			c := fmt.Sprintf("%s#Add@%d", fname(fn), n)
			b, f := loadOfField(cv(args[1]))
			if f != nil && f.Name() == "Path" && cv(b) == cv(args[2]) {
				r.ok("C10/keyed-by-own-path", c, P.ipos(in), "ZogIssues.Add(e.Path, e)")
			} else {
				r.bad("C10/keyed-by-own-path", c, P.ipos(in), "an issue is filed under a key other than its own Path field: the map key and issue.Path disagree")
			}
		})
	}
	// deprecated NewError must have no caller inside the module
	callers := 0
	for _, fn := range P.Funcs {
		eachInstr(fn, func(_ *ssa.BasicBlock, _ int, in ssa.Instruction) {
			ci := callOf(in)
			if ci == nil {
				return
			}
			if (ci.static != nil && ci.static.Name() == "NewError") || (ci.invoke != nil && ci.invoke.Name() == "NewError") {
				callers++
			}
		})
	}
	if callers == 0 {
		r.ok("C10/keyed-by-own-path", "NewError#no-internal-caller", "-", "the deprecated path-keyed NewError is not called inside the module")
	} else {
		r.bad("C10/keyed-by-own-path", "NewError#no-internal-caller", "-", fmt.Sprintf("%d internal call(s) of the deprecated NewError(path, e): issues can be filed under a key different from their Path", callers))
	}
	r.floor("C10/keyed-by-own-path", 1)
}

func (P *Prog) checkSegmentSource(r *Result) {
	R := P.roles
	for _, mode := range []string{"process", "validate"} {
		var fn *ssa.Function
		if mode == "process" {
			fn = R.Process["StructSchema"]
		} else {
			fn = R.Validate["StructSchema"]
		}
		if fn == nil {
			r.undecided("C10/segment-source", "StructSchema."+mode, "-", "method not found")
			continue
		}
		r.sawFunc(fname(fn))
		c := fname(fn)
		var problems []string
		nPush := 0
		// the field loop region: the loop over the schema map wherever it lives (node function, iteration
		// helper) plus the closures/helpers its body calls, each read under its substitution
		for _, lr := range P.schemaLoopRegions(fn) {
			lr := lr
			l := lr.loop
			lr.each(func(_ *regionPart, _ *ssa.BasicBlock, in ssa.Instruction) {
				ci := callOf(in)
				if ci == nil || ci.static == nil || ci.static.Name() != "Push" || !sameNamed(namedOf(ci.static.Signature.Recv().Type()), R.PathB) {
					return
				}
				nPush++
				// pushed value: address of a local; find what is stored in it
				al, ok := cv(ci.args()[1]).(*ssa.Alloc)
				if !ok {
					problems = append(problems, "pushed path segment is not a local string")
					return
				}
				var vals []ssa.Value
				for _, st := range storesTo(al) {
					vals = append(vals, st.Val)
				}
				if mode == "process" {
					// must be extract #1 of the GetByField call whose #0 is stored into subCtx.Data
					okSeg := false
					for _, v := range vals {
						// (the lookup may sit in a closure or helper that returns both results:
						// `data, pathKey := source(field, key, ptr)` with source = func(...) { return dp.GetByField(field, key) })
						iv, undo := resultThroughCallee(cv(v))
						ex, ok := iv.(*ssa.Extract)
						if !ok || ex.Index != 1 {
							undo()
							continue
						}
						call, ok := ex.Tuple.(*ssa.Call)
						if !ok || callOf(call).invoke == nil || callOf(call).invoke.Name() != "GetByField" {
							undo()
							continue
						}
						// the fallback argument of GetByField must be the schema key of this iteration
						fb := call.Call.Args[1]
						if !valueDerivesFrom(fb, l.key, 8) {
							problems = append(problems, "GetByField is not given this field's schema key as fallback")
						}
						undo()
						// data store (anywhere in the region)
						lr.each(func(_ *regionPart, _ *ssa.BasicBlock, in2 ssa.Instruction) {
							if st, ok := in2.(*ssa.Store); ok {
								if _, f := fieldVar(st.Addr); f != nil && sameField(f, R.FData) {
									dv, undo2 := resultThroughCallee(cv(st.Val))
									if e0, ok := dv.(*ssa.Extract); ok && e0.Tuple == ssa.Value(call) && e0.Index == 0 {
										okSeg = true
									}
									undo2()
								}
							}
						})
					}
					if !okSeg || len(vals) != 1 {
						problems = append(problems, "the path segment is not the key returned by the same GetByField call that produced the field's data")
					}
				} else {
					// values: the loop key and/or the zog tag lookup result (also as the returns of a helper such as
					// `validateKey(field, key)`, read with its parameters bound to the call's arguments)
					okKey, okTag := false, false
					var judge func(v ssa.Value, depth int)
					judge = func(v ssa.Value, depth int) {
						if depth < 3 && forEachCalleeResult(v, func(iv ssa.Value) { judge(iv, depth+1) }) {
							return
						}
						if valueDerivesFrom(v, l.key, 8) {
							okKey = true
						}
						// the library's own key resolution with no source tag: zog tag, else the fallback (C10/tag-priority)
						if c2, ok := cv(v).(*ssa.Call); ok {
							if g := callOf(c2).static; g != nil && fname(g) == "zog/internals.GetKeyFromField" && len(c2.Call.Args) == 3 && isNilConst(cv(c2.Call.Args[2])) && valueDerivesFrom(c2.Call.Args[1], l.key, 8) {
								okKey, okTag = true, true
							}
						}
						if ex, ok := cv(v).(*ssa.Extract); ok && ex.Index == 0 {
							if call, ok := ex.Tuple.(*ssa.Call); ok {
								if ci2 := callOf(call); ci2.static != nil && ci2.static.Name() == "Lookup" && len(call.Call.Args) == 2 {
									if s, ok := constString(cv(call.Call.Args[1])); ok && s == "zog" {
										okTag = true
									}
								}
							}
						}
						if c2, ok := cv(v).(*ssa.Call); ok && depth < 2 {
							if callee := callOf(c2).static; formulaHelper(callee) {
								saved := substEnv
								substEnv = map[ssa.Value]ssa.Value{}
								for k, v2 := range saved {
									substEnv[k] = v2
								}
								for k, prm := range callee.Params {
									if k < len(c2.Call.Args) {
										substEnv[prm] = c2.Call.Args[k]
									}
								}
								eachInstr(callee, func(_ *ssa.BasicBlock, _ int, in3 ssa.Instruction) {
									if rt, ok := in3.(*ssa.Return); ok && len(rt.Results) == 1 {
										judge(rt.Results[0], depth+1)
									}
								})
								substEnv = saved
							}
						}
					}
					for _, v := range vals {
						judge(v, 0)
					}
					if !okKey || !okTag {
						problems = append(problems, "in Validate the path segment is not `zog` tag, else schema key")
					}
				}
			})
		}
		if nPush != 1 {
			problems = append(problems, fmt.Sprintf("%d Push calls in the field loop (expected 1)", nPush))
		}
		if len(problems) > 0 {
			r.bad("C10/segment-source", c, P.pos(fn.Pos()), strings.Join(uniqSorted(problems), "; "))
		} else {
			r.ok("C10/segment-source", c, P.pos(fn.Pos()), "field path segment = the key the field was resolved with")
		}
	}
	r.floor("C10/segment-source", 1)
}

// resultThroughCallee: v is (an element of) the result of a call of a module closure or unexported helper that is
// known under the substitution in force and has a single return: the value it returns there, with the callee's
// parameters bound to the call's arguments (on top of the current substitution) until undo is called. Otherwise v.
func resultThroughCallee(v ssa.Value) (ssa.Value, func()) {
	noop := func() {}
	idx := 0
	var call *ssa.Call
	switch x := cv(v).(type) {
	case *ssa.Extract:
		c, ok := x.Tuple.(*ssa.Call)
		if !ok {
			return v, noop
		}
		call, idx = c, x.Index
	case *ssa.Call:
		call = x
	default:
		return v, noop
	}
	ci := callOf(call)
	if ci.static == nil || ci.static.Blocks == nil || !inModule(funcPkgPath(ci.static)) {
		return v, noop
	}
	callee := ci.static
	if callee.Parent() == nil && !formulaHelper(callee) {
		return v, noop
	}
	var ret *ssa.Return
	n := 0
	eachInstr(callee, func(_ *ssa.BasicBlock, _ int, in ssa.Instruction) {
		if rt, ok := in.(*ssa.Return); ok {
			ret = rt
			n++
		}
	})
	if n != 1 {
		return v, noop
	}
	vals, ok := retVals(ret)
	if !ok || idx >= len(vals) {
		return v, noop
	}
	saved := substEnv
	env := map[ssa.Value]ssa.Value{}
	for k, v2 := range saved {
		env[k] = v2
	}
	for k, prm := range callee.Params {
		if k < len(call.Call.Args) {
			env[prm] = call.Call.Args[k]
		}
	}
	substEnv = env
	return cv(vals[idx]), func() { substEnv = saved }
}

// forEachCalleeResult: like resultThroughCallee for a callee with any number of returns: f is called with the
// value returned at each of them, under the callee's parameter bindings. false when v is not such a result.
func forEachCalleeResult(v ssa.Value, f func(iv ssa.Value)) bool {
	idx := 0
	var call *ssa.Call
	switch x := cv(v).(type) {
	case *ssa.Extract:
		c, ok := x.Tuple.(*ssa.Call)
		if !ok {
			return false
		}
		call, idx = c, x.Index
	case *ssa.Call:
		call = x
	default:
		return false
	}
	ci := callOf(call)
	if ci.static == nil || ci.static.Blocks == nil || !inModule(funcPkgPath(ci.static)) {
		return false
	}
	callee := ci.static
	if callee.Parent() == nil && !formulaHelper(callee) {
		return false
	}
	saved := substEnv
	env := map[ssa.Value]ssa.Value{}
	for k, v2 := range saved {
		env[k] = v2
	}
	for k, prm := range callee.Params {
		if k < len(call.Call.Args) {
			env[prm] = call.Call.Args[k]
		}
	}
	n := 0
	eachInstr(callee, func(_ *ssa.BasicBlock, _ int, in ssa.Instruction) {
		rt, ok := in.(*ssa.Return)
		if !ok {
			return
		}
		vals, ok := retVals(rt)
		if !ok || idx >= len(vals) {
			return
		}
		n++
		substEnv = env
		f(cv(vals[idx]))
		substEnv = saved
	})
	return n > 0
}

// valueDerivesFrom: v equals x or is a load of a local that was stored x.
func valueDerivesFrom(v, x ssa.Value, depth int) bool {
	if depth == 0 || v == nil {
		return false
	}
	if v == x {
		return true
	}
	if substEnv != nil {
		if sv, ok := substEnv[v]; ok && sv != v {
			return valueDerivesFrom(sv, x, depth-1)
		}
	}
	switch t := v.(type) {
	case *ssa.UnOp:
		if t.Op == token.MUL {
			if al, ok := t.X.(*ssa.Alloc); ok {
				for _, st := range storesTo(al) {
					if valueDerivesFrom(st.Val, x, depth-1) {
						return true
					}
				}
			}
		}
	case *ssa.Phi:
		for _, e := range t.Edges {
			if valueDerivesFrom(e, x, depth-1) {
				return true
			}
		}
	case *ssa.ChangeType:
		return valueDerivesFrom(t.X, x, depth-1)
	}
	return false
}

// tagPriorityByInterpretation runs GetKeyFromField in the interpreter of symexec.go on every combination of
// (tag pointer nil / set, the source tag present on the field or not, the zog tag present or not) and compares the
// key returned with the documented priority. "ok", "bad" (with the offending class) or "undecided".
func (P *Prog) tagPriorityByInterpretation(fn *ssa.Function) (string, string) {
	if len(fn.Params) != 3 {
		return "undecided", "unexpected signature"
	}
	for _, tagNil := range []bool{true, false} {
		for _, srcPresent := range []bool{true, false} {
			for _, zogPresent := range []bool{true, false} {
				oracle := func(callee string, args []symVal) (symVal, bool) {
					if callee != "(reflect.StructTag).Lookup" || len(args) != 2 || args[1].kind != svStr {
						return symVal{}, false
					}
					switch args[1].name {
					case "SRC":
						return symVal{kind: svTuple, tuple: []symVal{{kind: svStr, name: "value of the source tag"}, {kind: svBool, b: srcPresent}}}, true
					case `"zog"`:
						return symVal{kind: svTuple, tuple: []symVal{{kind: svStr, name: "value of the zog tag"}, {kind: svBool, b: zogPresent}}}, true
					}
					return symVal{}, false
				}
				se := newSymExec(oracle)
				tag := symVal{kind: svPtr}
				if !tagNil {
					tag.cell = &svCell{v: symVal{kind: svStr, name: "SRC"}}
				}
				class := fmt.Sprintf("tag nil: %v, source tag present: %v, zog tag present: %v", tagNil, srcPresent, zogPresent)
				if !se.run(fn, []symVal{{}, {kind: svStr, name: "the schema key"}, tag}) {
					if se.panics != "" {
						return "bad", class + ": panics (" + se.panics + ")"
					}
					return "undecided", se.problem
				}
				want := "the schema key"
				switch {
				case !tagNil && srcPresent:
					want = "value of the source tag"
				case zogPresent:
					want = "value of the zog tag"
				}
				if len(se.ret) != 1 || se.ret[0].kind != svStr || se.ret[0].name != want {
					got := "?"
					if len(se.ret) == 1 {
						got = se.ret[0].String()
					}
					return "bad", class + ": returns " + got + ", documented: " + want
				}
			}
		}
	}
	return "ok", ""
}

func (P *Prog) checkTagPriority(r *Result, rule string) {
	fn := P.fn("zog/internals.GetKeyFromField")
	if fn == nil {
		r.broken("anchor GetKeyFromField not found")
		return
	}
	r.sawFunc(fname(fn))
	sh := P.predicateShape(fn)
	// paths: conds + ret
	var got []string
	for _, p := range sh.paths {
		got = append(got, strings.Join(p.conds, " ∧ ")+" ⇒ "+p.ret)
	}
	want := []string{
		`(ctx != nil) ∧ (reflect.StructTag).Lookup(val.Tag, *ctx)#1 ⇒ (reflect.StructTag).Lookup(val.Tag, *ctx)#0`,
		`(ctx != nil) ∧ !(reflect.StructTag).Lookup(val.Tag, *ctx)#1 ∧ (reflect.StructTag).Lookup(val.Tag, "zog")#1 ⇒ (reflect.StructTag).Lookup(val.Tag, "zog")#0`,
		`(ctx != nil) ∧ !(reflect.StructTag).Lookup(val.Tag, *ctx)#1 ∧ !(reflect.StructTag).Lookup(val.Tag, "zog")#1 ⇒ fallback`,
		`(ctx == nil) ∧ (reflect.StructTag).Lookup(val.Tag, "zog")#1 ⇒ (reflect.StructTag).Lookup(val.Tag, "zog")#0`,
		`(ctx == nil) ∧ !(reflect.StructTag).Lookup(val.Tag, "zog")#1 ⇒ fallback`,
	}
	// parameters print as val (0), ctx (others): make it positional
	sc := &symCtx{fn: fn}
	_ = sc
	norm := func(s []string) string { return strings.Join(uniqSorted(append([]string{}, s...)), "\n") }
	gs := norm(got)
	// the 2nd and 3rd parameters both print as "ctx"; distinguish by re-rendering with names
	gs2 := P.renderPathsNamed(fn)
	wantS := norm(want)
	wantS = strings.ReplaceAll(wantS, "*ctx", "*tag")
	wantS = strings.ReplaceAll(wantS, "ctx ", "tag ")
	wantS = strings.ReplaceAll(wantS, "(ctx", "(tag")
	if gs2 == wantS || tablesEquiv(parseDecisionRows(gs2), parseDecisionRows(wantS)) {
		r.ok(rule, fname(fn), P.pos(fn.Pos()), "source tag (if the provider has one), then zog tag, then schema key")
	} else if verdict, detail := P.tagPriorityByInterpretation(fn); verdict == "ok" {
		// not a chain of ifs (a loop over a list of candidate tags, say): the function depends on its input only
		// through (tag nil?, source tag present?, zog tag present?), so it is interpreted on those 8 classes
		r.ok(rule, fname(fn), P.pos(fn.Pos()), "source tag (if the provider has one), then zog tag, then schema key (decided by interpretation on the 8 input classes)")
	} else if verdict == "bad" {
		r.bad(rule, fname(fn), P.pos(fn.Pos()), "key resolution is not: source-specific tag, else `zog` tag, else schema key", detail)
	} else {
		r.bad(rule, fname(fn), P.pos(fn.Pos()), "key resolution is not: source-specific tag, else `zog` tag, else schema key", "expected:\n"+wantS, "found:\n"+gs2)
	}
	_ = gs
	r.floor(rule, 1)
}

// renderPathsNamed renders a function's return paths with parameters printed
// positionally as val (0), fallback (1), tag (2).
func (P *Prog) renderPathsNamed(fn *ssa.Function) string {
	sh := P.predicateShape(fn)
	var got []string
	for _, p := range sh.paths {
		got = append(got, strings.Join(p.conds, " ∧ ")+" ⇒ "+p.ret)
	}
	s := strings.Join(uniqSorted(got), "\n")
	// symCtx prints params >0 as "ctx": recover names by position using the real parameter names
	if len(fn.Params) == 3 {
		// re-render with a custom printer
		var out []string
		sc := &namedSym{symCtx: symCtx{fn: fn, phis: map[*ssa.Phi]ssa.Value{}}, names: map[*ssa.Parameter]string{fn.Params[0]: "val", fn.Params[1]: "fallback", fn.Params[2]: "tag"}}
		out = sc.paths()
		return strings.Join(uniqSorted(out), "\n")
	}
	return s
}

type namedSym struct {
	symCtx
	names map[*ssa.Parameter]string
}

func (ns *namedSym) paths() []string {
	// temporarily rename by wrapping sym: simplest is textual — render with unique markers
	fn := ns.fn
	var out []string
	var walk func(b, prev *ssa.BasicBlock, conds []string, depth int)
	render := func(v ssa.Value) string {
		s := ns.sym(v, 0)
		return s
	}
	walk = func(b, prev *ssa.BasicBlock, conds []string, depth int) {
		if depth > 40 {
			return
		}
		last := b.Instrs[len(b.Instrs)-1]
		switch t := last.(type) {
		case *ssa.Return:
			out = append(out, strings.Join(conds, " ∧ ")+" ⇒ "+ns.fix(render(t.Results[0])))
		case *ssa.If:
			c := ns.fix(render(t.Cond))
			walk(b.Succs[0], b, append(append([]string{}, conds...), c), depth+1)
			walk(b.Succs[1], b, append(append([]string{}, conds...), negAtom(c)), depth+1)
		case *ssa.Jump:
			walk(b.Succs[0], b, conds, depth+1)
		}
	}
	walk(fn.Blocks[0], nil, nil, 0)
	return out
}

// fix: symCtx prints every non-first parameter as "ctx"; with exactly one
// string parameter and one pointer parameter the two are told apart by use:
// "*ctx" / "ctx == nil" / "ctx != nil" is the pointer (tag), a bare "ctx" is the fallback.
func (ns *namedSym) fix(s string) string {
	s = strings.ReplaceAll(s, "*ctx", "*tag")
	s = strings.ReplaceAll(s, "(ctx != nil)", "(tag != nil)")
	s = strings.ReplaceAll(s, "(ctx == nil)", "(tag == nil)")
	if s == "ctx" {
		return "fallback"
	}
	return s
}

func (P *Prog) checkProviderTagTable(r *Result) {
	// front ends and the tag they must use
	want := map[string]string{
		"zog/parsers/zjson": "json",
		"zog/zenv":          "env",
	}
	// tag globals: string vars stored once (in init) with a constant
	type tg struct {
		g   *ssa.Global
		val string
		n   int
	}
	tags := map[*ssa.Global]*tg{}
	for _, fn := range P.Funcs {
		eachInstr(fn, func(_ *ssa.BasicBlock, _ int, in ssa.Instruction) {
			st, ok := in.(*ssa.Store)
			if !ok {
				return
			}
			g, ok := st.Addr.(*ssa.Global)
			if !ok || !inModule(g.Pkg.Pkg.Path()) {
				return
			}
			if b, ok := g.Type().(*types.Pointer).Elem().Underlying().(*types.Basic); !ok || b.Kind() != types.String {
				return
			}
			t := tags[g]
			if t == nil {
				t = &tg{g: g}
				tags[g] = t
			}
			t.n++
			if s, ok := constString(st.Val); ok && fn.Synthetic == "package initializer" {
				t.val = s
			} else {
				t.val = "<non-constant>"
			}
		})
	}
	tagOf := func(v ssa.Value) (string, bool) {
		g, ok := cv(v).(*ssa.Global)
		if !ok {
			return "", false
		}
		t := tags[g]
		if t == nil || t.n != 1 {
			return "", false
		}
		return t.val, true
	}
	check := func(c, pos, got, wantTag string, ok bool) {
		if ok && got == wantTag {
			r.ok("C10/provider-tag-table", c, pos, "fields are looked up with the constant tag \""+wantTag+"\" (never reassigned)")
		} else {
			r.bad("C10/provider-tag-table", c, pos, fmt.Sprintf("this front end does not resolve field keys with its own struct tag %q (found %q, constant and assigned once: %v)", wantTag, got, ok))
		}
	}
	// zjson.Decode: NewMapDataProvider(m, &jsonTag)
	if fn := peelDelegation(returnedClosure(P.fn("zog/parsers/zjson.Decode"))); fn != nil {
		r.sawFunc(fname(fn))
		found := false
		eachInstr(fn, func(_ *ssa.BasicBlock, _ int, in ssa.Instruction) {
			ci := callOf(in)
			if ci != nil && ci.static != nil && ci.static.Name() == "NewMapDataProvider" {
				got, ok := tagOf(ci.args()[1])
				check("zjson.Decode", P.ipos(in), got, want["zog/parsers/zjson"], ok)
				found = true
			}
		})
		if !found {
			r.bad("C10/provider-tag-table", "zjson.Decode", P.pos(fn.Pos()), "zjson.Decode does not build a map provider with a tag")
		}
	} else {
		r.undecided("C10/provider-tag-table", "zjson.Decode", "-", "closure not found")
	}
	// zenv GetByField: GetKeyFromField(field, fallback, &envTag)
	for _, fn := range P.Funcs {
		if fn.Name() != "GetByField" || fn.Parent() != nil || fn.Signature.Recv() == nil {
			continue
		}
		pkg := shortName(funcPkgPath(fn))
		eachInstr(fn, func(_ *ssa.BasicBlock, _ int, in ssa.Instruction) {
			ci := callOf(in)
			if ci == nil || ci.static == nil || ci.static.Name() != "GetKeyFromField" {
				return
			}
			if pkg == "zog/zenv" {
				got, ok := tagOf(ci.args()[2])
				check("zenv.GetByField", P.ipos(in), got, "env", ok)
			}
		})
	}
	// zhttp: form(r.Form, &formTag), form(r.URL.Query(), &queryParam)
	for _, name := range []string{"zog/zhttp.Config.Parsers.Form(func)$1", "zog/zhttp.Config.Parsers.Query(func)$1"} {
		fn := returnedClosure(P.fn(strings.TrimSuffix(name, "$1")))
		wantTag := "form"
		if strings.Contains(name, "Query") {
			wantTag = "query"
		}
		if fn == nil {
			r.undecided("C10/provider-tag-table", name, "-", "parser closure not found")
			continue
		}
		r.sawFunc(fname(fn))
		found := false
		for _, b := range P.valuesProviderBuilds(fn) {
			got, ok := "", false
			if b.tag != nil {
				got, ok = tagOf(b.tag)
			}
			check(name, P.ipos(b.in), got, wantTag, ok)
			found = true
		}
		if !found {
			r.bad("C10/provider-tag-table", name, P.pos(fn.Pos()), "parser does not build its provider through form(values, &tag)")
		}
	}
	// every GetByField passes the provider's own tag field (or its package constant) and its own Get
	P.checkGetByFieldAgreement(r, "C10/provider-tag-table")
	r.floor("C10/provider-tag-table", 5)
}

var ownFieldPath = regexp.MustCompile(`^recv(\.[A-Za-z_][A-Za-z0-9_]*)+$`)

// checkGetByFieldAgreement: sibling cross-check of the GetByField implementations.
func (P *Prog) checkGetByFieldAgreement(r *Result, rule string) {
	for _, fn := range P.Funcs {
		if fn.Name() != "GetByField" || fn.Parent() != nil || fn.Signature.Recv() == nil || !P.isProviderType(fn.Signature.Recv().Type()) {
			continue
		}
		r.sawFunc(fname(fn))
		c := fname(fn)
		if len(fn.Params) != 3 {
			r.undecided(rule, c, P.pos(fn.Pos()), "unexpected signature")
			continue
		}
		// the canonical formula of every return (helpers entered, method values resolved):
		//   (<own type>.Get(recv, K), K)  with  K = GetKeyFromField(field, fallback, <own tag>)
		sh := P.predicateShapeNamed(fn, map[ssa.Value]string{fn.Params[0]: "recv", fn.Params[1]: "field", fn.Params[2]: "fallback"})
		if len(sh.problems) > 0 || len(sh.paths) == 0 {
			r.undecided(rule, c, P.pos(fn.Pos()), "GetByField has an unrecognised shape: "+strings.Join(sh.problems, "; "))
			continue
		}
		recvT := strings.ReplaceAll(fn.Signature.Recv().Type().String(), "github.com/Oudwins/", "")
		getName := "(" + recvT + ").Get"
		var rets []string
		empty, keyed, tagOK, okRet := 0, 0, true, true
		emptyKeyed := 0
		for _, p := range sh.paths {
			rets = append(rets, strings.Join(p.conds, " ∧ ")+" ⇒ "+p.ret)
			if p.ret == "(nil, fallback)" && len(p.conds) == 0 {
				empty++
				continue
			}
			// a provider without data still names the field like the others: (nil, <the resolved key>)
			if strings.HasPrefix(p.ret, "(nil, zog/internals.GetKeyFromField(field, fallback, ") && len(p.conds) == 0 {
				tag := strings.TrimSuffix(strings.TrimPrefix(p.ret, "(nil, zog/internals.GetKeyFromField(field, fallback, "), "))")
				if ownFieldPath.MatchString(tag) || strings.HasPrefix(tag, "&@") {
					emptyKeyed++
					continue
				}
			}
			keyed++
			const kpre = "zog/internals.GetKeyFromField(field, fallback, "
			i := strings.Index(p.ret, kpre)
			if i < 0 {
				okRet = false
				continue
			}
			j := i + len(kpre)
			depth, k := 1, j
			for k < len(p.ret) && depth > 0 {
				switch p.ret[k] {
				case '(':
					depth++
				case ')':
					depth--
				}
				k++
			}
			key := p.ret[i:k]
			tag := p.ret[j : k-1]
			// the provider's own tag: a *string field of the receiver (possibly inside an embedded
			// resolver struct, `recv.keys.tag`), or the address of the front-end's package-level tag
			if !ownFieldPath.MatchString(tag) && !strings.HasPrefix(tag, "&@") {
				tagOK = false
			}
			if p.ret != "("+getName+"(recv, "+key+"), "+key+")" {
				okRet = false
			}
		}
		switch {
		case keyed == 0 && empty == 0 && emptyKeyed > 0:
			r.ok(rule, c, P.pos(fn.Pos()), "provider without data: (nil, GetKeyFromField(field, fallback, own tag)) - the field is named as every other provider names it")
		case keyed == 0 && empty > 0:
			// (accepted until a missing field of an empty record was seen to be reported under another key than the
			// same field of a non-empty one: `{}` -> "name", `{"other":1}` -> "name_z")
			r.bad(rule, c, P.pos(fn.Pos()), "a provider without data returns the schema key as the key of the field, whatever the field's tags say: the issues of an empty record are filed under other keys than the issues of a non-empty one", rets...)
		case keyed == 0:
			r.bad(rule, c, P.pos(fn.Pos()), "GetByField neither resolves the key with GetKeyFromField nor returns (nil, fallback)", rets...)
		case !tagOK:
			r.bad(rule, c, P.pos(fn.Pos()), "GetByField does not resolve the key with (field, fallback, the provider's own tag)", rets...)
		case !okRet || empty > 0:
			r.bad(rule, c, P.pos(fn.Pos()), "not every return of GetByField is (own Get(key), that same key): this provider resolves some fields differently from the others", rets...)
		default:
			r.ok(rule, c, P.pos(fn.Pos()), "key := GetKeyFromField(field, fallback, own tag); return Get(key), key")
		}
	}
}

func (P *Prog) checkIssuePathLast(r *Result) {
	R := P.roles
	fn := P.fn("(*zog/internals.SchemaCtx).IssueFromTest")
	if fn == nil {
		r.broken("anchor IssueFromTest not found")
		return
	}
	r.sawFunc(fname(fn))
	pathF := structField(R.ZogIssue, "Path")
	ipF := structField(R.Test, "IssuePath")
	// On the decision paths of IssueFromTest (helpers and the closures it hands to them entered): the stores to the
	// issue's Path, the calls of a test formatter, and the test `IssuePath != ""`.
	fmtF := structField(R.Test, "IssueFmtFunc")
	spec := &pathSpec{name: "issuepath-last", inlineAll: true}
	spec.keep = func(f *ssa.Function) bool { return !inModule(funcPkgPath(f)) }
	spec.cond = func(iff *ssa.If) (string, string, string) {
		bo, ok := cv(iff.Cond).(*ssa.BinOp)
		if !ok || (bo.Op != token.NEQ && bo.Op != token.EQL) {
			return "", "", ""
		}
		if _, f := loadOfField(cv(bo.X)); f == nil || !sameField(f, ipF) || !isEmptyString(bo.Y) {
			return "", "", ""
		}
		if bo.Op == token.NEQ {
			return "HAS-ISSUEPATH", "T", "F"
		}
		return "HAS-ISSUEPATH", "F", "T"
	}
	spec.events = func(in ssa.Instruction) []pathItem {
		switch x := in.(type) {
		case *ssa.Store:
			if _, f := fieldVar(cv(x.Addr)); f != nil && sameField(f, pathF) {
				if _, vf := loadOfField(cv(x.Val)); vf != nil && sameField(vf, ipF) {
					return []pathItem{{kind: "PATH", val: "override", in: in}}
				}
				return []pathItem{{kind: "PATH", val: "other", in: in}}
			}
		default:
			if ci := callOf(in); ci != nil && ci.dynamic {
				if _, f := loadOfField(cv(ci.instr.Common().Value)); f != nil && sameField(f, fmtF) {
					return []pathItem{{kind: "FMT", in: in}}
				}
			}
		}
		return nil
	}
	res := P.enumPathsSpec(fn, nil, spec)
	var problems []string
	if res.capHit {
		problems = append(problems, "too many paths to enumerate")
	}
	sawOverride := false
	for _, p := range res.paths {
		if !strings.HasPrefix(p.end, "RETURN") {
			continue
		}
		has, tested := false, false
		lastPath, lastFmt, overrideAt := "", -1, -1
		for i, it := range p.items {
			switch it.kind {
			case "HAS-ISSUEPATH":
				tested, has = true, it.val == "T"
			case "PATH":
				lastPath = it.val
				if it.val == "override" {
					overrideAt = i
					sawOverride = true
				}
			case "FMT":
				lastFmt = i
			}
		}
		switch {
		case overrideAt >= 0 && !(tested && has):
			problems = append(problems, "the IssuePath override is not applied exactly when IssuePath != \"\"  [path: "+p.String()+"]")
		case tested && has && overrideAt < 0:
			problems = append(problems, "a non-empty IssuePath is not written to the issue  [path: "+p.String()+"]")
		case overrideAt >= 0 && lastPath != "override":
			problems = append(problems, "the issue's path is written again after the IssuePath override  [path: "+p.String()+"]")
		case overrideAt >= 0 && lastFmt > overrideAt:
			problems = append(problems, "a formatter runs after the IssuePath override and could replace the path  [path: "+p.String()+"]")
		}
	}
	if !sawOverride {
		problems = append(problems, "the test's IssuePath is never written to the issue")
	}
	if len(problems) > 0 {
		r.bad("C10/issuepath-last", fname(fn), P.pos(fn.Pos()), strings.Join(uniqSorted(problems), "; "))
	} else {
		r.ok("C10/issuepath-last", fname(fn), P.pos(fn.Pos()), "IssuePath, when non-empty, is the last write to the issue's path")
	}
	r.floor("C10/issuepath-last", 1)
}

func (P *Prog) checkSanitizeAgreement(r *Result) {
	// SanitizeMap: errs[k] = SanitizeList(m[k]) for the range key k
	if fn := P.fn("(*zog.issueHelpers).SanitizeMap"); fn != nil {
		r.sawFunc(fname(fn))
		okM := false
		var problems []string
		for _, l := range mapRangeLoops(fn) {
			for b := range l.body {
				for _, in := range b.Instrs {
					mu, ok := in.(*ssa.MapUpdate)
					if !ok {
						continue
					}
					if !valueDerivesFrom(mu.Key, l.key, 4) {
						problems = append(problems, "SanitizeMap writes a key other than the one it is visiting")
						continue
					}
					c, ok := mu.Value.(*ssa.Call)
					if !ok || callOf(c).static == nil {
						problems = append(problems, "SanitizeMap does not store the sanitized list under the same key")
						continue
					}
					// the value is the message projection (SanitizeList or the helper it shares with it) of the
					// list stored under the visited key
					ai := -1
					for k, a := range c.Call.Args {
						if l.val != nil && valueDerivesFrom(a, l.val, 4) {
							ai = k
						}
						// (or m[k] looked up again for the visited key k)
						if lk, isLk := cv(a).(*ssa.Lookup); isLk && !lk.CommaOk && cv(lk.X) == cv(l.rng.X) && valueDerivesFrom(lk.Index, l.key, 4) {
							ai = k
						}
					}
					if ai < 0 {
						problems = append(problems, "SanitizeMap sanitizes a list other than the one stored under the visited key")
						continue
					}
					if !P.messageProjection(callOf(c).static, ai, 0) {
						problems = append(problems, "SanitizeMap does not store the messages of the list under the same key, one per issue in order")
						continue
					}
					okM = true
				}
			}
			if l.rng.X != ssa.Value(fn.Params[1]) {
				problems = append(problems, "SanitizeMap does not range over its argument")
			}
		}
		if okM && len(problems) == 0 {
			r.ok("C10/sanitize-agreement", "SanitizeMap", P.pos(fn.Pos()), "errs[k] = SanitizeList(m[k]) for every key k")
		} else {
			r.bad("C10/sanitize-agreement", "SanitizeMap", P.pos(fn.Pos()), strings.Join(uniqSorted(append(problems, "keys of the sanitized map do not mirror the issue map")), "; "))
		}
	} else {
		r.undecided("C10/sanitize-agreement", "SanitizeMap", "-", "function not found")
	}
	if fn := P.fn("(*zog.issueHelpers).SanitizeList"); fn != nil {
		r.sawFunc(fname(fn))
		if P.messageProjection(fn, 1, 0) {
			r.ok("C10/sanitize-agreement", "SanitizeList", P.pos(fn.Pos()), "errs[i] = l[i].Message, len(errs) == len(l)")
		} else {
			r.bad("C10/sanitize-agreement", "SanitizeList", P.pos(fn.Pos()), "SanitizeList does not produce one message per issue at the same index")
		}
	} else {
		r.undecided("C10/sanitize-agreement", "SanitizeList", "-", "function not found")
	}
	r.floor("C10/sanitize-agreement", 1)
}

// messageProjection: fn returns, for its parameter #pidx (a list of issues), the list of their messages, one
// per issue at the same index: built in fn itself (index assignment into make(len), or one append per element of
// a full index loop), or returned from another module function that is such a projection of the same list.
func (P *Prog) messageProjection(fn *ssa.Function, pidx int, depth int) bool {
	if fn == nil || fn.Blocks == nil || pidx >= len(fn.Params) || depth > 3 {
		return false
	}
	arg := ssa.Value(fn.Params[pidx])
	lenOK, idxOK := false, false
	eachInstr(fn, func(_ *ssa.BasicBlock, _ int, in ssa.Instruction) {
		if ms, ok := in.(*ssa.MakeSlice); ok {
			if c, ok := ms.Len.(*ssa.Call); ok && callOf(c).builtin == "len" && cv(c.Call.Args[0]) == arg {
				lenOK = true
			}
		}
		if st, ok := in.(*ssa.Store); ok {
			if ia, ok := st.Addr.(*ssa.IndexAddr); ok {
				// value: (*l[i]).Message with the same index
				if b, f := loadOfField(cv(st.Val)); f != nil && f.Name() == "Message" {
					if ld, ok := cv(b).(*ssa.UnOp); ok {
						if ia2, ok := ld.X.(*ssa.IndexAddr); ok && cv(ia2.X) == arg && sameValue(ia2.Index, ia.Index) {
							idxOK = true
						}
					}
				}
			}
		}
	})
	if lenOK && idxOK {
		return true
	}
	if appendsOnePerElement(fn, arg, "Message") {
		return true
	}
	// delegation: every return is the projection computed by another function for the same list
	n, all := 0, true
	eachInstr(fn, func(_ *ssa.BasicBlock, _ int, in ssa.Instruction) {
		rt, ok := in.(*ssa.Return)
		if !ok {
			return
		}
		vals, ok := retVals(rt)
		if !ok || len(vals) != 1 {
			return
		}
		n++
		c, ok := cv(vals[0]).(*ssa.Call)
		if !ok || callOf(c).static == nil || !inModule(funcPkgPath(callOf(c).static)) {
			all = false
			return
		}
		ai := -1
		for k, a := range c.Call.Args {
			if cv(a) == arg {
				ai = k
			}
		}
		if ai < 0 || !P.messageProjection(callOf(c).static, ai, depth+1) {
			all = false
		}
	})
	return n > 0 && all
}

// appendsOnePerElement recognises the other way of writing an index-preserving
// projection of a slice: an accumulator that starts empty and to which every
// iteration of a full 0..len(arg)-1 index loop appends exactly arg[i].<field>,
// the accumulator being what the function returns.
func appendsOnePerElement(fn *ssa.Function, arg ssa.Value, field string) bool {
	for _, l := range naturalLoops(fn) {
		// the loop leaves only through `i < len(arg)` in its header
		var idx ssa.Value
		exitsOK := true
		for b := range l.body {
			leaves := false
			for _, s := range b.Succs {
				if !l.body[s] {
					leaves = true
				}
			}
			if !leaves {
				continue
			}
			iff, ok := b.Instrs[len(b.Instrs)-1].(*ssa.If)
			if !ok || b != l.header || l.body[b.Succs[1]] {
				exitsOK = false
				continue
			}
			bo, ok := iff.Cond.(*ssa.BinOp)
			if !ok || bo.Op != token.LSS {
				exitsOK = false
				continue
			}
			if c, ok := cv(bo.Y).(*ssa.Call); !ok || callOf(c).builtin != "len" || cv(c.Call.Args[0]) != arg {
				exitsOK = false
				continue
			}
			idx = bo.X
		}
		if !exitsOK || idx == nil || !countsFromZero(idx, l) {
			continue
		}
		for _, in := range l.header.Instrs {
			acc, ok := in.(*ssa.Phi)
			if !ok {
				break
			}
			if _, ok := acc.Type().Underlying().(*types.Slice); !ok {
				continue
			}
			good, backs := true, 0
			for i, e := range acc.Edges {
				if !l.body[l.header.Preds[i]] {
					if !isEmptySlice(e) {
						good = false
					}
					continue
				}
				backs++
				c, ok := e.(*ssa.Call)
				if !ok || callOf(c).builtin != "append" || c.Call.Args[0] != ssa.Value(acc) {
					good = false
					continue
				}
				el := singleVarargElem(c.Call.Args[1])
				if el == nil {
					good = false
					continue
				}
				b, f := loadOfField(cv(el))
				if f == nil || f.Name() != field {
					good = false
					continue
				}
				ld, ok := cv(b).(*ssa.UnOp)
				if !ok {
					good = false
					continue
				}
				ia, ok := ld.X.(*ssa.IndexAddr)
				if !ok || cv(ia.X) != arg || !sameValue(ia.Index, idx) {
					good = false
				}
			}
			if !good || backs == 0 {
				continue
			}
			// the accumulator is what is returned
			returned := false
			allRet := true
			eachInstr(fn, func(_ *ssa.BasicBlock, _ int, in ssa.Instruction) {
				if rt, ok := in.(*ssa.Return); ok {
					if vs, ok := retVals(rt); ok && len(vs) == 1 && cv(vs[0]) == ssa.Value(acc) {
						returned = true
					} else if ok {
						allRet = false
					}
				}
			})
			if returned && allRet {
				return true
			}
		}
	}
	return false
}

// countsFromZero: idx takes the values 0,1,2,... on successive iterations of
// l: either a header phi {0, idx+1} or (the range form) phi{-1, idx}+1.
func countsFromZero(idx ssa.Value, l natLoop) bool {
	constIs := func(v ssa.Value, n int64) bool {
		c, ok := v.(*ssa.Const)
		if !ok || c.Value == nil {
			return false
		}
		i, ok := constant.Int64Val(c.Value)
		return ok && i == n
	}
	plusOne := func(v ssa.Value) (ssa.Value, bool) {
		bo, ok := v.(*ssa.BinOp)
		if !ok || bo.Op != token.ADD || !constIs(bo.Y, 1) {
			return nil, false
		}
		return bo.X, true
	}
	check := func(ph *ssa.Phi, start int64, next ssa.Value) bool {
		if ph.Block() != l.header {
			return false
		}
		for i, e := range ph.Edges {
			if l.body[l.header.Preds[i]] {
				if e != next {
					return false
				}
			} else if !constIs(e, start) {
				return false
			}
		}
		return true
	}
	if ph, ok := idx.(*ssa.Phi); ok {
		// for i := 0; i < n; i++: every back edge carries idx+1
		for i, e := range ph.Edges {
			if l.body[l.header.Preds[i]] {
				if x, ok := plusOne(e); !ok || x != ssa.Value(ph) {
					return false
				}
			} else if !constIs(e, 0) {
				return false
			}
		}
		return ph.Block() == l.header
	}
	if x, ok := plusOne(idx); ok {
		if ph, ok := x.(*ssa.Phi); ok {
			return check(ph, -1, idx)
		}
	}
	return false
}

// isEmptySlice: a nil slice constant or make([]T, 0, ...).
func isEmptySlice(v ssa.Value) bool {
	switch x := cv(v).(type) {
	case *ssa.Const:
		return x.Value == nil
	case *ssa.MakeSlice:
		if c, ok := x.Len.(*ssa.Const); ok && c.Value != nil {
			i, ok := constant.Int64Val(c.Value)
			return ok && i == 0
		}
	}
	return false
}

// singleVarargElem: for append(acc, x) the value x (the only element stored
// into the one-element varargs array), else nil.
func singleVarargElem(v ssa.Value) ssa.Value {
	sl, ok := v.(*ssa.Slice)
	if !ok {
		return nil
	}
	al, ok := sl.X.(*ssa.Alloc)
	if !ok {
		return nil
	}
	arr, ok := al.Type().Underlying().(*types.Pointer).Elem().Underlying().(*types.Array)
	if !ok || arr.Len() != 1 {
		return nil
	}
	var el ssa.Value
	n := 0
	for _, ref := range *al.Referrers() {
		if ia, ok := ref.(*ssa.IndexAddr); ok {
			for _, r2 := range *ia.Referrers() {
				if st, ok := r2.(*ssa.Store); ok && st.Addr == ssa.Value(ia) {
					el = st.Val
					n++
				}
			}
		}
	}
	if n != 1 {
		return nil
	}
	return el
}

// checkTagReachesNested (shared by C10 and C14): nested struct values must be
// resolved against the parent provider (keeping its tag / its flat source).
func (P *Prog) checkTagReachesNested(r *Result, rule string) {
	R := P.roles
	g := P.buildModCG()
	E := P.execSet(g)
	// (i) GetNestedProvider is reachable from the struct pipeline
	reachable := false
	for fn := range g.reachableFrom([]*ssa.Function{R.Process["StructSchema"]}) {
		if fn.Name() == "GetNestedProvider" {
			reachable = true
		}
	}
	_ = E
	c1 := "StructSchema.process#nested-provider-from-parent"
	if reachable {
		r.ok(rule, c1, "-", "nested struct values obtain their provider through the parent's GetNestedProvider")
	} else {
		r.bad(rule, c1, P.pos(R.Process["StructSchema"].Pos()), "the struct pipeline never calls DataProvider.GetNestedProvider: a nested struct schema re-derives its provider from the raw nested value, so the parent's source tag is lost and flat sources (form/query/env) cannot answer for nested fields")
	}
	// (ii) providers built for nested values carry a tag: no constructor call with a nil tag constant on that path
	for _, fn := range sortedFuncs(E) {
		eachInstr(fn, func(_ *ssa.BasicBlock, _ int, in ssa.Instruction) {
			ci := callOf(in)
			if ci == nil || ci.static == nil || ci.static.Name() != "NewMapDataProvider" || len(ci.args()) != 2 {
				return
			}
			c := fname(fn) + "#NewMapDataProvider-tag"
			if isNilConst(ci.args()[1]) {
				r.bad(rule, c, P.ipos(in), "a map provider for a nested value is created with a nil tag: struct tags of the source (e.g. json) are ignored below the top level")
			} else {
				r.ok(rule, c, P.ipos(in), "map provider created with a tag")
			}
		})
	}
	// (iii) the provider that stands in for an empty record (`{}` decoded by a front end is handed over as a nil
	// provider) knows the front end's tag: an EmptyDataProvider built by the struct pipeline with no tag names the
	// fields of `{}` by their zog tag or schema key while `{"other":1}` from the same front end names them by its
	// source tag
	provT := namedOf(func() types.Type {
		for _, pv := range R.Providers {
			if pv.Obj().Name() == "EmptyDataProvider" {
				return pv
			}
		}
		return nil
	}())
	if provT != nil {
		for _, u := range P.allUnits(R.Process["StructSchema"]) {
			eachInstr(u.fn, func(_ *ssa.BasicBlock, _ int, in ssa.Instruction) {
				al, ok := in.(*ssa.Alloc)
				if !ok || !al.Heap || !sameNamed(namedOf(al.Type().(*types.Pointer).Elem()), provT) {
					return
				}
				c := "StructSchema.process#empty-record-provider-tag"
				tagSet := false
				if refs := al.Referrers(); refs != nil {
					for _, rf := range *refs {
						if fa, ok := rf.(*ssa.FieldAddr); ok {
							if _, f := fieldVar(fa); f != nil && f.Name() == "tag" && len(storesTo(fa)) > 0 {
								tagSet = true
							}
						}
					}
				}
				if tagSet {
					r.ok(rule, c, P.ipos(in), "the stand-in for an empty record carries the front end's tag")
				} else {
					r.bad(rule, c, P.ipos(in), "the provider that stands in for an empty record is built without the tag of the front end the record came from: the fields of `{}` are named by zog tag / schema key, the fields of a non-empty record from the same front end by its source tag")
				}
			})
		}
	}
	r.floor(rule, 2)
}

// allocHolds: b is a local variable whose only stored value is v (a value
// receiver spilled to the stack).
func allocHolds(b, v ssa.Value) bool {
	al, ok := b.(*ssa.Alloc)
	if !ok {
		return false
	}
	sts := storesTo(al)
	return len(sts) == 1 && sts[0].Val == v
}

// freshPooled: v is an object that was just taken from a sync.Pool (or allocated) and has not been
// handed out yet: the result of Pool.Get (asserted), a fresh allocation, the result of a module function
// that returns such an object (or returns the parameter it was given one in), or a parameter of an
// unexported function that only runs from call sites passing one.
func (P *Prog) freshPooled(v ssa.Value, depth int) bool {
	if depth > 4 || v == nil {
		return false
	}
	switch x := cv(v).(type) {
	case *ssa.TypeAssert:
		if c, ok := cv(x.X).(*ssa.Call); ok && isSyncPoolMethod(callOf(c), "Get") {
			return true
		}
	case *ssa.Alloc:
		return x.Heap
	case *ssa.Call:
		g := callOf(x).static
		if g == nil || g.Blocks == nil || !inModule(funcPkgPath(g)) || g.Signature.Results().Len() != 1 {
			return false
		}
		n, all := 0, true
		eachInstr(g, func(_ *ssa.BasicBlock, _ int, in ssa.Instruction) {
			rt, ok := in.(*ssa.Return)
			if !ok {
				return
			}
			vals, ok := retVals(rt)
			if !ok || len(vals) != 1 {
				return
			}
			n++
			rv := cv(vals[0])
			if prm, isP := rv.(*ssa.Parameter); isP {
				// returns what it was given: fresh when the argument of this call is
				for i, q := range g.Params {
					if q == prm && i < len(x.Call.Args) && P.freshPooled(x.Call.Args[i], depth+1) {
						return
					}
				}
				all = false
				return
			}
			if !P.freshPooled(rv, depth+1) {
				all = false
			}
		})
		return n > 0 && all
	case *ssa.Parameter:
		g := x.Parent()
		// a parameter of a closure that is handed to a module function as a callback: fresh when every call
		// of that callback inside the function passes a fresh object
		// (`c.newIssue(func(e *ZogIssue) { ...; e.Path = test.IssuePath })` with newIssue calling `fill(e)`)
		if g.Parent() != nil {
			idx := -1
			for i, q := range g.Params {
				if q == x {
					idx = i
				}
			}
			n, all := 0, true
			eachInstr(g.Parent(), func(_ *ssa.BasicBlock, _ int, in ssa.Instruction) {
				ci := callOf(in)
				if ci == nil || ci.static == nil || ci.static.Blocks == nil || !inModule(funcPkgPath(ci.static)) {
					return
				}
				for k, a := range ci.args() {
					mc, ok := cv(a).(*ssa.MakeClosure)
					if !ok || mc.Fn != ssa.Value(g) || k >= len(ci.static.Params) {
						continue
					}
					cb := ssa.Value(ci.static.Params[k])
					eachInstr(ci.static, func(_ *ssa.BasicBlock, _ int, in2 ssa.Instruction) {
						c2 := callOf(in2)
						if c2 == nil || !c2.dynamic || cv(c2.instr.Common().Value) != cb {
							return
						}
						n++
						if idx < 0 || idx >= len(c2.args()) || !P.freshPooled(c2.args()[idx], depth+1) {
							all = false
						}
					})
				}
			})
			return n > 0 && all
		}
		sites, closed := P.closedCallSites(g)
		if !closed || len(sites) == 0 {
			return false
		}
		idx := -1
		for i, q := range g.Params {
			if q == x {
				idx = i
			}
		}
		for _, site := range sites {
			if idx < 0 || idx >= len(site.Common().Args) || !P.freshPooled(site.Common().Args[idx], depth+1) {
				return false
			}
		}
		return true
	}
	return false
}

// checkPathWriters: an issue's Path is written only when the issue is built
// (the issue constructors and the SetPath setter), never later on its way to
// the collection.
func (P *Prog) checkPathWriters(r *Result) {
	R := P.roles
	pathF := structField(R.ZogIssue, "Path")
	allowed := map[string]bool{
		"(*zog/internals.SchemaCtx).IssueFromTest": true, "(*zog/internals.SchemaCtx).IssueFromCoerce": true,
		"zog/internals.NewZogIssue": true, "(*zog/internals.ZogIssue).SetPath": true,
	}
	n := 0
	for _, fn := range P.Funcs {
		eachInstr(fn, func(_ *ssa.BasicBlock, _ int, in ssa.Instruction) {
			st, ok := in.(*ssa.Store)
			if !ok {
				return
			}
			base, f := fieldVar(st.Addr)
			if f == nil || !sameField(f, pathF) {
				// a whole-struct store `*e = ZogIssue{...}` writes the path as well
				if !P.isPtrTo(st.Addr.Type(), R.ZogIssue) {
					return
				}
				if _, isAlloc := st.Addr.(*ssa.Alloc); isAlloc {
					return // a local issue value being built
				}
				base = st.Addr
			}
			n++
			c := fmt.Sprintf("%s#Path@%d", fname(fn), n)
			if allowed[fname(fn)] || fn.Synthetic != "" {
				r.ok("C10/path-writers", c, P.ipos(in), "path written while the issue is being built")
			} else if P.freshPooled(base, 0) {
				// a constructor under another name (`newIssue`, a pooled object's `reset`): the issue written to
				// has just been taken from the pool on every way into this function
				r.ok("C10/path-writers", c, P.ipos(in), "path written to an issue that was just taken from the pool (it is being built)")
			} else {
				r.bad("C10/path-writers", c, P.ipos(in), "an issue's Path is rewritten outside the issue constructors: the key it is filed under no longer is the path of the node that produced it")
			}
		})
	}
	// SetPath callers: only SchemaCtx.Issue (with the node's own path) inside the module
	for _, fn := range P.Funcs {
		eachInstr(fn, func(_ *ssa.BasicBlock, _ int, in ssa.Instruction) {
			ci := callOf(in)
			if ci == nil || ci.static == nil || fname(ci.static) != "(*zog/internals.ZogIssue).SetPath" {
				return
			}
			c := fname(fn) + "#SetPath"
			okc := false
			if call, ok := cv(ci.args()[1]).(*ssa.Call); ok {
				if cc := callOf(call); cc.static != nil && cc.static.Name() == "String" && sameNamed(namedOf(cc.static.Signature.Recv().Type()), R.PathB) {
					okc = true
				}
			}
			if okc {
				r.ok("C10/path-writers", c, P.ipos(in), "SetPath(<the node's own path>)")
			} else {
				r.bad("C10/path-writers", c, P.ipos(in), "library code sets an issue path that is not the current node's path")
			}
		})
	}
	r.floor("C10/path-writers", 2)
}
