package main

import (
	"fmt"
	"go/token"
	"go/types"
	"sort"
	"strings"

	"golang.org/x/tools/go/ssa"
)

func init() { register("C07", checkC07) }

// poolSite is one `Pool.Get()` acquisition.
type poolSite struct {
	fn     *ssa.Function
	call   *ssa.Call
	pool   *ssa.Global
	obj    ssa.Value // the asserted pointer (TypeAssert result)
	elem   types.Type
	blk    *ssa.BasicBlock
	idx    int
	broken string
}

// reinitThroughCallers: the acquisition at s sits in a generic helper; for every caller of the helper,
// on every path of the caller (helper and the closures handed to it entered) every field of the caller's
// concrete pooled struct is stored into the acquired object before the caller returns.
// completedByCallback: the acquiring function calls one of its own func-typed parameters with the pooled object.
func (P *Prog) completedByCallback(s *poolSite) bool {
	found := false
	eachInstr(s.fn, func(_ *ssa.BasicBlock, _ int, in ssa.Instruction) {
		ci := callOf(in)
		if ci == nil || !ci.dynamic {
			return
		}
		if prm, ok := cv(ci.instr.Common().Value).(*ssa.Parameter); !ok || prm.Parent() != s.fn {
			return
		}
		for _, a := range ci.args() {
			if cvi(a) == cvi(s.obj) {
				found = true
			}
		}
	})
	return found
}

func (P *Prog) reinitThroughCallers(r *Result, s *poolSite, testWBR bool, testWBRDetail string) bool {
	R := P.roles
	n := 0
	for _, caller := range P.Funcs {
		calls := false
		eachInstr(caller, func(_ *ssa.BasicBlock, _ int, in ssa.Instruction) {
			if ci := callOf(in); ci != nil && ci.static == s.fn {
				calls = true
			}
		})
		if !calls || caller == s.fn {
			continue
		}
		res := caller.Signature.Results()
		if res.Len() != 1 {
			return false
		}
		pt, ok := res.At(0).Type().Underlying().(*types.Pointer)
		if !ok {
			return false
		}
		st, ok := pt.Elem().Underlying().(*types.Struct)
		if !ok {
			return false
		}
		n++
		elemName := typeStr(pt.Elem())
		spec := &pathSpec{name: "reinit", inlineAll: true}
		spec.keep = func(f *ssa.Function) bool { return f.Parent() == nil && f != s.fn && !formulaHelper(f) }
		spec.cond = func(iff *ssa.If) (string, string, string) { return "", "", "" }
		spec.events = func(in ssa.Instruction) []pathItem {
			if in == ssa.Instruction(s.call) {
				return []pathItem{{kind: "GET", in: in}}
			}
			stt, ok := in.(*ssa.Store)
			if !ok {
				return nil
			}
			if base, f := fieldVar(stt.Addr); f != nil && cvi(base) == cvi(s.obj) {
				return []pathItem{{kind: "SET", val: f.Name(), in: in}}
			}
			if cvi(stt.Addr) == cvi(s.obj) {
				if c, isC := cv(stt.Val).(*ssa.Const); isC && c.Value == nil {
					var out []pathItem
					for i := 0; i < st.NumFields(); i++ {
						out = append(out, pathItem{kind: "SET", val: st.Field(i).Name(), in: in})
					}
					return out
				}
			}
			return nil
		}
		spec.onReturn = func(rt *ssa.Return) string {
			rv, ok := retVals(rt)
			if ok && len(rv) == 1 && cvi(rv[0]) == cvi(s.obj) {
				return "obj"
			}
			return "other"
		}
		pres := P.enumPathsSpec(caller, nil, spec)
		for i := 0; i < st.NumFields(); i++ {
			f := st.Field(i)
			c := fmt.Sprintf("%s#%s.%s", fname(caller), elemName, f.Name())
			okAll, seen := true, false
			for _, p := range pres.paths {
				if !strings.HasPrefix(p.end, "RETURN") || !p.has("GET", "") {
					continue
				}
				seen = true
				if !p.has("SET", f.Name()) {
					okAll = false
				}
			}
			switch {
			case pres.capHit || !seen:
				r.undecided("C07/reinit", c, P.ipos(s.call), "cannot enumerate the paths from the generic acquisition to the caller's return")
			case okAll:
				r.ok("C07/reinit", c, P.ipos(s.call), "field definitely stored on every path from Pool.Get (in the generic helper) to the caller's return")
			case sameField(f, R.FTest) && sameNamed(pt.Elem(), R.SchemaCtx) && testWBR:
				r.ok("C07/reinit", c, P.ipos(s.call), "not stored at acquisition; discharged by write-before-read: "+testWBRDetail)
			default:
				r.bad("C07/reinit", c, P.ipos(s.call), fmt.Sprintf("field %s of pooled %s is not overwritten on every path between Pool.Get and return: a recycled object leaks the previous execution's value", f.Name(), elemName))
			}
		}
	}
	return n > 0
}

// wipedOnRelease: the fields of the pooled struct type st that are reset to a constant before every Put into
// the pool (on every path of the releasing function, nothing written after the Put), given that the pool's New
// functions allocate a zero value: such a field is clean at every Get although the acquiring function does not
// store it ("wipe on the way in, not on the way out"). valOK restricts the constants that count.
func (P *Prog) wipedOnRelease(pool *ssa.Global, st *types.Struct, valOK func(v ssa.Value) bool) fieldSet {
	if pool == nil || st == nil {
		return fieldSet{}
	}
	key := pool.Name()
	if valOK == nil {
		key += "#any"
		valOK = func(v ssa.Value) bool { _, isC := cv(v).(*ssa.Const); return isC }
	} else {
		key += "#false"
	}
	if P.wipeMemo == nil {
		P.wipeMemo = map[string]fieldSet{}
	}
	if m, ok := P.wipeMemo[key]; ok {
		return m
	}
	res := fieldSet(nil)
	nPut := 0
	okAll := true
	for _, fn := range P.Funcs {
		eachInstr(fn, func(b *ssa.BasicBlock, i int, in ssa.Instruction) {
			ci := callOf(in)
			if !isSyncPoolMethod(ci, "Put") || ci.instr.Common().Args[0] != ssa.Value(pool) {
				return
			}
			nPut++
			if _, isCall := in.(*ssa.Call); !isCall {
				okAll = false // deferred Put: the object is still written after this point
				return
			}
			obj := cvi(ci.instr.Common().Args[1])
			// nothing but the return follows the Put
			for _, later := range b.Instrs[i+1:] {
				switch later.(type) {
				case *ssa.Return, *ssa.RunDefers, *ssa.DebugRef, *ssa.Jump:
				default:
					okAll = false
				}
			}
			if !isExit(b) {
				if len(b.Succs) != 1 || !isExit(b.Succs[0]) || len(b.Succs[0].Instrs) > 2 {
					okAll = false
				}
			}
			ms := &mustStore{P: P, fn: fn, st: st, isObj: func(v ssa.Value) bool { return v == obj || cvi(v) == obj }, valOK: valOK}
			got := ms.run(fn.Blocks[0], 0)
			if res == nil {
				res = got
			} else {
				res = res.intersect(got)
			}
		})
	}
	// the New functions of the pool return a fresh zero value
	nNew := 0
	for _, fn := range P.Funcs {
		eachInstr(fn, func(_ *ssa.BasicBlock, _ int, in ssa.Instruction) {
			stt, ok := in.(*ssa.Store)
			if !ok {
				return
			}
			fa, ok := stt.Addr.(*ssa.FieldAddr)
			if !ok || fa.X != ssa.Value(pool) {
				return
			}
			if _, f := fieldVar(fa); f == nil || f.Name() != "New" {
				return
			}
			nNew++
			var nf *ssa.Function
			switch x := cvi(stt.Val).(type) {
			case *ssa.MakeClosure:
				nf, _ = x.Fn.(*ssa.Function)
			case *ssa.Function:
				nf = x
			}
			if nf == nil || nf.Blocks == nil {
				okAll = false
				return
			}
			eachInstr(nf, func(_ *ssa.BasicBlock, _ int, in2 ssa.Instruction) {
				switch y := in2.(type) {
				case *ssa.Return:
					if len(y.Results) != 1 {
						okAll = false
						return
					}
					if al, isAl := cvi(y.Results[0]).(*ssa.Alloc); !isAl || !al.Heap {
						okAll = false
					}
				case *ssa.Store:
					if _, isC := cv(y.Val).(*ssa.Const); !isC {
						okAll = false // the fresh object is given something other than constants
					}
				}
			})
		})
	}
	if !okAll || nPut == 0 || nNew == 0 || res == nil {
		res = fieldSet{}
	}
	P.wipeMemo[key] = res
	return res
}

func isSyncPoolMethod(ci *callInfo, name string) bool {
	if ci == nil || ci.static == nil {
		return false
	}
	return ci.static.String() == "(*sync.Pool)."+name
}

func (P *Prog) poolSites() []*poolSite {
	var out []*poolSite
	for _, fn := range P.Funcs {
		eachInstr(fn, func(b *ssa.BasicBlock, i int, in ssa.Instruction) {
			ci := callOf(in)
			if !isSyncPoolMethod(ci, "Get") {
				return
			}
			c, ok := in.(*ssa.Call)
			if !ok {
				return
			}
			s := &poolSite{fn: fn, call: c, blk: b, idx: i}
			if g, ok := c.Call.Args[0].(*ssa.Global); ok {
				s.pool = g
			}
			// find the type assertion of the result
			if refs := c.Referrers(); refs != nil {
				for _, r := range *refs {
					if ta, ok := r.(*ssa.TypeAssert); ok && !ta.CommaOk {
						s.obj = ta
						if p, ok := ta.AssertedType.Underlying().(*types.Pointer); ok {
							s.elem = p.Elem()
						}
					}
				}
			}
			if s.obj == nil || s.elem == nil {
				s.broken = "result of Pool.Get is not asserted to a pointer type"
			}
			out = append(out, s)
		})
	}
	sort.Slice(out, func(i, j int) bool { return fname(out[i].fn) < fname(out[j].fn) })
	return out
}

// releaseSummary: which parameter indices of fn may reach a Pool.Put.
func (P *Prog) releaseSummaries() map[*ssa.Function]map[int]bool {
	sum := map[*ssa.Function]map[int]bool{}
	changed := true
	for changed {
		changed = false
		for _, fn := range P.Funcs {
			eachInstr(fn, func(_ *ssa.BasicBlock, _ int, in ssa.Instruction) {
				ci := callOf(in)
				if ci == nil {
					return
				}
				mark := func(v ssa.Value) {
					v = cv(v)
					for i, p := range fn.Params {
						if v == ssa.Value(p) {
							if sum[fn] == nil {
								sum[fn] = map[int]bool{}
							}
							if !sum[fn][i] {
								sum[fn][i] = true
								changed = true
							}
						}
					}
				}
				if isSyncPoolMethod(ci, "Put") {
					a := ci.instr.Common().Args[1]
					mark(cvi(a))
					return
				}
				if ci.static != nil && sum[ci.static] != nil {
					for i, a := range ci.args() {
						if sum[ci.static][i] {
							mark(cvi(a))
						}
					}
				}
				// an interface call (`errs.Free()` on a ZogIssues value): any module method of that name
				// that releases its receiver makes this a release of the receiver
				if ci.invoke != nil && len(ci.args()) > 0 {
					for m, ps := range sum {
						if ps[0] && m.Name() == ci.invoke.Name() && m.Signature.Recv() != nil {
							mark(cvi(ci.args()[0]))
						}
					}
				}
			})
		}
	}
	return sum
}

func checkC07(P *Prog, r *Result) {
	R := P.roles
	r.Explanation = "Decides the structural clause of execution isolation: (reinit) at every sync.Pool acquisition site every field of the pooled struct is " +
		"definitely overwritten on every path before the acquiring function returns, or is proven write-before-read (SchemaCtx.Test via the current-test rule); " +
		"(release) every release of a pooled object is deferred or is the last use, no object is released twice on one path, and a released object is never returned; " +
		"(balance) Path.Push/Pop are balanced on every path; (no-global-state) no function reachable from Parse/Validate stores to a package-level variable or closure capture. " +
		"It does not decide equality of results across arbitrary histories at run time."
	r.Assumptions = []string{
		"pool contents are objects the library itself released (states reachable through its own Put sites)",
		"user callbacks do not retain *SchemaCtx / *ZogIssue beyond the call",
	}

	// ---- reinit ----
	sites := P.poolSites()
	testWBR, testWBRDetail := P.testWriteBeforeRead(r)
	for _, s := range sites {
		r.sawFunc(fname(s.fn))
		if s.broken != "" {
			r.undecided("C07/reinit", fname(s.fn)+"#Get", P.ipos(s.call), s.broken)
			continue
		}
		obj := s.obj
		isObj := func(v ssa.Value) bool { return v == obj }
		elemName := typeStr(s.elem)
		switch u := s.elem.Underlying().(type) {
		case *types.Struct:
			// strings.Builder and other non-module structs: require a Reset() call on the object.
			if n, ok := types.Unalias(s.elem).(*types.Named); ok && n.Obj().Pkg() != nil && !inModule(n.Obj().Pkg().Path()) {
				okReset := false
				eachInstr(s.fn, func(b *ssa.BasicBlock, _ int, in ssa.Instruction) {
					ci := callOf(in)
					if ci != nil && ci.static != nil && ci.static.Name() == "Reset" && len(ci.args()) > 0 && cv(ci.args()[0]) == obj {
						if _, d := in.(*ssa.Defer); !d && blockAlwaysBeforeReturn(s.blk, b) {
							okReset = true
						}
					}
				})
				if okReset {
					r.ok("C07/reinit", fname(s.fn)+"#"+elemName+".Reset", P.ipos(s.call), "foreign pooled struct is Reset() on every path after Get")
				} else {
					r.bad("C07/reinit", fname(s.fn)+"#"+elemName+".Reset", P.ipos(s.call), "pooled "+elemName+" is not Reset() on every path after acquisition: previous contents are observable")
				}
				continue
			}
			// the acquisition function hands the fresh object to a func parameter that completes it
			// (`c.newIssue(func(e *ZogIssue) { e.Code = ...; ... })`): what is stored depends on the caller's
			// closure, so the obligation is decided per caller, on the caller's paths with the helper and the
			// closure entered
			if P.completedByCallback(s) && P.reinitThroughCallers(r, s, testWBR, testWBRDetail) {
				continue
			}
			ms := &mustStore{P: P, fn: s.fn, isObj: isObj, st: u}
			stored := ms.run(s.blk, s.idx)
			for i := 0; i < u.NumFields(); i++ {
				f := u.Field(i)
				c := fmt.Sprintf("%s#%s.%s", fname(s.fn), elemName, f.Name())
				if stored[f.Origin()] {
					r.ok("C07/reinit", c, P.ipos(s.call), "field definitely stored on every path from Pool.Get to return")
					continue
				}
				if P.wipedOnRelease(s.pool, u, nil)[f.Origin()] {
					r.ok("C07/reinit", c, P.ipos(s.call), "field is reset to a constant before every Put into this pool and New allocates a zero value: clean at every Get")
					continue
				}
				if P.fieldNeverRead(f) {
					r.ok("C07/reinit", c, P.ipos(s.call), "no code of the module reads this field (a timing or a counter kept for debugging): a stale value in it reaches nobody")
					continue
				}
				if sameField(f, R.FTest) && sameNamed(s.elem, R.SchemaCtx) {
					if testWBR {
						r.ok("C07/reinit", c, P.ipos(s.call), "not stored at acquisition; discharged by write-before-read: "+testWBRDetail)
					} else {
						r.bad("C07/reinit", c, P.ipos(s.call), "SchemaCtx.Test is not re-initialised at acquisition and the write-before-read argument fails: "+testWBRDetail)
					}
					continue
				}
				r.bad("C07/reinit", c, P.ipos(s.call), fmt.Sprintf("field %s of pooled %s is not overwritten on every path between Pool.Get and return: a recycled object leaks the previous execution's value", f.Name(), elemName))
			}
		case *types.Slice:
			// PathBuilder: require a store `*obj = (*obj)[:k]` (length reset) on every path.
			okStore := false
			var facts []string
			eachInstr(s.fn, func(b *ssa.BasicBlock, _ int, in ssa.Instruction) {
				st, ok := in.(*ssa.Store)
				if !ok || cv(st.Addr) != obj {
					return
				}
				if sl, ok := st.Val.(*ssa.Slice); ok && sl.Low == nil && sl.High != nil {
					if ld, ok := sl.X.(*ssa.UnOp); ok && ld.Op == token.MUL && cv(ld.X) == obj {
						if k, isc := constInt(sl.High); isc && blockAlwaysBeforeReturn(s.blk, b) {
							okStore = true
							facts = append(facts, fmt.Sprintf("length reset to constant %d", k))
							// element contents below the new length are never written by the library:
							if k > 0 {
								if bad := P.pathBuilderElemWriters(); len(bad) > 0 {
									okStore = false
									facts = append(facts, "elements below the reset length may be written by: "+strings.Join(bad, ", "))
								} else {
									facts = append(facts, "elements [0,k) are only ever the zero value: the only writers of PathBuilder elements are appends in Push at index len>=k (see C07/balance)")
								}
							}
						}
					}
				}
			})
			c := fmt.Sprintf("%s#%s.len", fname(s.fn), elemName)
			if okStore {
				r.ok("C07/reinit", c, P.ipos(s.call), "slice length reset at acquisition", facts...)
			} else {
				r.bad("C07/reinit", c, P.ipos(s.call), "pooled slice is not re-sliced to a constant length at acquisition: previous path segments are observable", facts...)
			}
		default:
			// a generic acquisition helper (`func newPooled[T any](pool, reset func(*T)) *T`): the element
			// type and the re-initialisation belong to each caller; decide them on the callers' paths
			if _, isTP := types.Unalias(s.elem).(*types.TypeParam); isTP && P.reinitThroughCallers(r, s, testWBR, testWBRDetail) {
				continue
			}
			r.undecided("C07/reinit", fname(s.fn)+"#"+elemName, P.ipos(s.call), "pool element kind not modelled")
		}
	}
	r.floor("C07/reinit", 12)
	P.checkPooledSliceHeader(r, "C07/pooled-slice-header")
	P.checkNoGlobalPooledObject(r)
	P.checkPooledMapOwned(r, "C07/pooled-map-owned")
	// the result of a call depends on that call alone: execution leaves nothing behind in memory that outlives it - not
	// in globals or captures (no-global-state) and not in the schema object either (a per-type field plan cached on
	// the schema makes the second call read the keys the first call's front end used) - C08's write-effects rule
	shareRule(P, r, checkC08, "C08/write-effects", nil, "C07/no-state-outlives-call", 30)

	// ---- release ----
	P.checkRelease(r)
	P.checkReleaseMultiplicity(r, "C07/release-multiplicity")
	// ---- balance ----
	P.checkBalance(r, "C07/balance")
	// ---- no global state ----
	P.checkNoGlobalState(r)
}

// blockAlwaysBeforeReturn: every path from `from` to a return passes through b.
func blockAlwaysBeforeReturn(from, b *ssa.BasicBlock) bool {
	ok, _ := mustPassThrough(from, map[*ssa.BasicBlock]bool{b: true})
	return ok || from == b
}

// pathBuilderElemWriters lists functions that write PathBuilder elements other
// than by append in Push.
func (P *Prog) pathBuilderElemWriters() []string {
	R := P.roles
	var bad []string
	for _, fn := range P.Funcs {
		eachInstr(fn, func(_ *ssa.BasicBlock, _ int, in ssa.Instruction) {
			st, ok := in.(*ssa.Store)
			if !ok {
				return
			}
			if ia, ok := st.Addr.(*ssa.IndexAddr); ok {
				if sameNamed(ia.X.Type(), R.PathB) {
					bad = append(bad, fname(fn))
				}
				if u, ok := ia.X.(*ssa.UnOp); ok && u.Op == token.MUL && P.isPtrTo(u.X.Type(), R.PathB) {
					bad = append(bad, fname(fn))
				}
			}
		})
	}
	return bad
}

// testWriteBeforeRead proves that SchemaCtx.Test is written before it is read
// in every execution: (1) every dynamic call of a Test.Func value with context
// X is dominated by a store X.Test <- &t of the same Test the Func was loaded
// from; (2) every function that reads .Test without a dominating store in the
// same function is a closure stored into a Test.Func field (so it only runs
// under (1)).
func (P *Prog) testWriteBeforeRead(r *Result) (bool, string) {
	R := P.roles
	funcField := structField(R.Test, "Func")
	if funcField == nil {
		return false, "Test.Func field not found"
	}
	okAll := true
	var details []string
	nCalls := 0
	for _, fn := range P.Funcs {
		eachInstr(fn, func(b *ssa.BasicBlock, idx int, in ssa.Instruction) {
			ci := callOf(in)
			if ci == nil || !ci.dynamic {
				return
			}
			base, f := loadOfField(cv(ci.instr.Common().Value))
			if f == nil || !sameField(f, funcField) {
				return
			}
			nCalls++
			// context argument: the arg whose canonical value is a *SchemaCtx
			var ctxv ssa.Value
			for _, a := range ci.args() {
				if c := cvi(a); P.isPtrTo(c.Type(), R.SchemaCtx) {
					ctxv = c
				}
			}
			if ctxv == nil && P.wrapsOwnTestFunc(fn, base, funcField, ci) {
				// a wrapper installed into the Func slot of the very Test whose previous Func it calls, handing on
				// its own context parameter: it runs only as that Test's Func, under the store (1) demands
				return
			}
			if ctxv == nil {
				okAll = false
				details = append(details, fname(fn)+": Test.Func called without a *SchemaCtx argument")
				return
			}
			// dominating store ctx.Test <- base (address of the same Test), in this function or - for a
			// helper that only runs from its static call sites - before every one of those calls
			var dominated func(fn *ssa.Function, b *ssa.BasicBlock, idx int, depth int) bool
			dominated = func(fn *ssa.Function, b *ssa.BasicBlock, idx int, depth int) bool {
				found := false
				eachInstr(fn, func(b2 *ssa.BasicBlock, i2 int, in2 ssa.Instruction) {
					st, ok := in2.(*ssa.Store)
					if !ok {
						return
					}
					sb, sf := fieldVar(st.Addr)
					if sf == nil || !sameField(sf, R.FTest) || cv(sb) != cv(ctxv) {
						return
					}
					if !sameAddr(st.Val, base) {
						return
					}
					if b2 == b && i2 < idx || b2 != b && b2.Dominates(b) {
						found = true
					}
				})
				if found || depth >= 3 {
					return found
				}
				sites, closed := P.closedCallSites(fn)
				if !closed || len(sites) == 0 {
					return false
				}
				for _, site := range sites {
					sb := site.Block()
					si := -1
					for k, x := range sb.Instrs {
						if x == ssa.Instruction(site) {
							si = k
						}
					}
					ok := false
					withCallSite(site, fn, func() { ok = dominated(sb.Parent(), sb, si, depth+1) })
					if !ok {
						return false
					}
				}
				return true
			}
			if !dominated(fn, b, idx, 0) {
				okAll = false
				details = append(details, fmt.Sprintf("%s (%s): call of Test.Func not dominated by ctx.Test = &<that test>", fname(fn), P.ipos(in)))
			}
		})
	}
	if nCalls < 3 {
		okAll = false
		details = append(details, fmt.Sprintf("only %d Test.Func call sites found (floor 3)", nCalls))
	}
	// readers
	nReaders := 0
	for _, fn := range P.Funcs {
		eachInstr(fn, func(b *ssa.BasicBlock, idx int, in ssa.Instruction) {
			u, ok := in.(*ssa.UnOp)
			if !ok || u.Op != token.MUL {
				return
			}
			base, f := fieldVar(u.X)
			if f == nil || !sameField(f, R.FTest) {
				return
			}
			nReaders++
			// dominated by a store to the same object's Test in this function?
			dom := false
			eachInstr(fn, func(b2 *ssa.BasicBlock, i2 int, in2 ssa.Instruction) {
				st, ok := in2.(*ssa.Store)
				if !ok {
					return
				}
				sb, sf := fieldVar(st.Addr)
				if sf != nil && sameField(sf, R.FTest) && cvi(sb) == cvi(base) && (b2 == b && i2 < idx || b2 != b && b2.Dominates(b)) {
					dom = true
				}
			})
			if dom {
				return
			}
			// must be a closure bound into a Test.Func field
			if !P.runsOnlyUnderTestFunc(fn, funcField, 0) {
				okAll = false
				details = append(details, fmt.Sprintf("%s (%s): reads SchemaCtx.Test but is not a closure stored into Test.Func", fname(fn), P.ipos(in)))
			}
		})
	}
	if okAll {
		return true, fmt.Sprintf("%d Test.Func call sites each dominated by ctx.Test=&t; %d readers of .Test are closures bound to Test.Func", nCalls, nReaders)
	}
	return false, strings.Join(details, "; ")
}

// wrapsOwnTestFunc: fn is a closure whose only use is being stored into the Func field of the Test object `base`, the
// called value is the Func that object held before (captured by the closure), and the context handed on is one of the
// closure's own parameters.
func (P *Prog) wrapsOwnTestFunc(fn *ssa.Function, base ssa.Value, funcField *types.Var, ci *callInfo) bool {
	par := fn.Parent()
	if par == nil || base == nil {
		return false
	}
	passesOwn := false
	for _, a := range ci.args() {
		if p, ok := cv(a).(*ssa.Parameter); ok && p.Parent() == fn {
			if _, isIface := p.Type().Underlying().(*types.Interface); isIface || P.isPtrTo(p.Type(), P.roles.SchemaCtx) {
				passesOwn = true
			}
		}
	}
	if !passesOwn {
		return false
	}
	ok, n := true, 0
	eachInstr(par, func(_ *ssa.BasicBlock, _ int, in ssa.Instruction) {
		mc, isMC := in.(*ssa.MakeClosure)
		if !isMC || mc.Fn != fn {
			return
		}
		if refs := mc.Referrers(); refs != nil {
			for _, rf := range *refs {
				if _, isDbg := rf.(*ssa.DebugRef); isDbg {
					continue
				}
				st, isSt := rf.(*ssa.Store)
				if !isSt || st.Val != ssa.Value(mc) {
					ok = false
					continue
				}
				sb, f := fieldVar(st.Addr)
				if f == nil || !sameField(f, funcField) || cv(sb) != cv(base) {
					ok = false
					continue
				}
				n++
			}
		}
	})
	return ok && n > 0
}

func (P *Prog) closureStoredIntoTestFunc(fn *ssa.Function, funcField *types.Var) bool {
	par := fn.Parent()
	if par == nil {
		return false
	}
	ok := false
	eachInstr(par, func(_ *ssa.BasicBlock, _ int, in ssa.Instruction) {
		mc, isMC := in.(*ssa.MakeClosure)
		if !isMC || mc.Fn != fn {
			return
		}
		if refs := mc.Referrers(); refs != nil {
			for _, rf := range *refs {
				if st, isSt := rf.(*ssa.Store); isSt {
					if _, f := fieldVar(st.Addr); f != nil && sameField(f, funcField) {
						ok = true
					}
				}
				// a closure factory: the closure is returned, and every call of the (unexported) factory
				// stores its result into a Test.Func
				if _, isRet := rf.(*ssa.Return); isRet && par.Parent() == nil && !isExportedAPI(par) {
					nSites, all := 0, true
					for _, caller := range P.Funcs {
						eachInstr(caller, func(_ *ssa.BasicBlock, _ int, in2 ssa.Instruction) {
							c, isCall := in2.(*ssa.Call)
							if !isCall || callOf(c).static != par {
								var ops []*ssa.Value
								for _, op := range in2.Operands(ops) {
									if f, isF := (*op).(*ssa.Function); isF && f == par {
										all = false // the factory is taken as a value
									}
								}
								return
							}
							nSites++
							stored := false
							if crefs := c.Referrers(); crefs != nil {
								for _, cr := range *crefs {
									if st, isSt := cr.(*ssa.Store); isSt && st.Val == ssa.Value(c) {
										if _, f := fieldVar(st.Addr); f != nil && sameField(f, funcField) {
											stored = true
											continue
										}
									}
									if _, isDbg := cr.(*ssa.DebugRef); !isDbg {
										if st, isSt := cr.(*ssa.Store); !isSt || st.Val != ssa.Value(c) {
											all = false
										}
									}
								}
							}
							if !stored {
								all = false
							}
						})
					}
					if nSites > 0 && all {
						ok = true
					}
				}
			}
		}
	})
	return ok
}

// runsOnlyUnderTestFunc: fn is a closure stored into Test.Func, or an
// unexported helper that is only ever called (statically, never taken as a
// value) from such closures or from other such helpers: whenever it runs, the
// test loop has stored ctx.Test just before.
func (P *Prog) runsOnlyUnderTestFunc(fn *ssa.Function, funcField *types.Var, depth int) bool {
	if P.closureStoredIntoTestFunc(fn, funcField) {
		return true
	}
	if depth > 3 || fn.Parent() != nil || isExportedAPI(fn) {
		return false
	}
	nSites := 0
	ok := true
	for _, caller := range P.Funcs {
		eachInstr(caller, func(_ *ssa.BasicBlock, _ int, in ssa.Instruction) {
			if !ok {
				return
			}
			if ci := callOf(in); ci != nil && ci.static == fn {
				if _, isCall := in.(*ssa.Call); !isCall {
					ok = false // go / defer: runs outside the test call
					return
				}
				nSites++
				if !P.runsOnlyUnderTestFunc(caller, funcField, depth+1) {
					ok = false
				}
				return
			}
			var ops []*ssa.Value
			for _, op := range in.Operands(ops) {
				if f, isF := (*op).(*ssa.Function); isF && f == fn {
					ok = false // taken as a value
				}
			}
		})
	}
	return ok && nSites > 0
}

// ---------- release ----------

// releaseElemSummaries: elem[f][i] = f releases objects it read out of its parameter i (the issues of a list or of a
// map of lists handed to a Collect helper), directly or through another such function.
func (P *Prog) releaseElemSummaries(sums map[*ssa.Function]map[int]bool) map[*ssa.Function]map[int]bool {
	elem := map[*ssa.Function]map[int]bool{}
	changed := true
	for changed {
		changed = false
		for _, fn := range P.Funcs {
			if !inModule(funcPkgPath(fn)) || fn.Blocks == nil || len(fn.Params) == 0 {
				continue
			}
			mark := func(v ssa.Value, derivedOnly bool) {
				for i, p := range fn.Params {
					if derivedOnly && cvi(v) == ssa.Value(p) {
						continue
					}
					switch p.Type().Underlying().(type) {
					case *types.Slice, *types.Map, *types.Array:
					default:
						continue
					}
					for _, rt := range P.rootsOf(v) {
						if rt.kind == rkParam && rt.v == ssa.Value(p) {
							if elem[fn] == nil {
								elem[fn] = map[int]bool{}
							}
							if !elem[fn][i] {
								elem[fn][i] = true
								changed = true
							}
						}
					}
				}
			}
			eachInstr(fn, func(_ *ssa.BasicBlock, _ int, in ssa.Instruction) {
				ci := callOf(in)
				if ci == nil {
					return
				}
				if isSyncPoolMethod(ci, "Put") {
					mark(ci.instr.Common().Args[1], true)
					return
				}
				if ci.static == nil {
					return
				}
				for k, a := range ci.args() {
					if sums[ci.static] != nil && sums[ci.static][k] {
						mark(a, true)
					}
					if elem[ci.static] != nil && elem[ci.static][k] {
						mark(a, false)
					}
				}
			})
		}
	}
	return elem
}

func (P *Prog) checkRelease(r *Result) {
	sums := P.releaseSummaries()
	elemSums := P.releaseElemSummaries(sums)
	// a function may also release what a *field* of its parameter holds (`ExecCtx.Free` freeing the issue collector it
	// was constructed with): fieldRel[f][i] = the fields of parameter i whose value f releases; ctorStore[g][F] = the
	// parameter of constructor g that ends up in field F of the object g returns. Together: `ctx := NewExecCtx(errs, ..);
	// defer ctx.Free()` releases errs.
	fieldRel := map[*ssa.Function]map[int][]*types.Var{}
	ctorStore := map[*ssa.Function]map[*types.Var]int{}
	for _, f := range P.Funcs {
		if !inModule(funcPkgPath(f)) || f.Blocks == nil {
			continue
		}
		paramIdx := func(v ssa.Value) int {
			for i, q := range f.Params {
				if ssa.Value(q) == v {
					return i
				}
			}
			return -1
		}
		eachInstr(f, func(_ *ssa.BasicBlock, _ int, in ssa.Instruction) {
			if ci := callOf(in); ci != nil {
				var released []ssa.Value
				switch {
				case isSyncPoolMethod(ci, "Put"):
					released = append(released, ci.instr.Common().Args[1])
				case ci.static != nil && sums[ci.static] != nil:
					for k, a := range ci.args() {
						if sums[ci.static][k] {
							released = append(released, a)
						}
					}
				case ci.invoke != nil && len(ci.args()) > 0:
					for m, ps := range sums {
						if ps[0] && m.Name() == ci.invoke.Name() && m.Signature.Recv() != nil {
							released = append(released, ci.args()[0])
							break
						}
					}
				}
				for _, rv := range released {
					if base, fld := loadOfField(cvi(rv)); fld != nil {
						if i := paramIdx(cvi(base)); i >= 0 {
							if fieldRel[f] == nil {
								fieldRel[f] = map[int][]*types.Var{}
							}
							fieldRel[f][i] = append(fieldRel[f][i], fld)
						}
					}
				}
			}
			if st, ok := in.(*ssa.Store); ok {
				if base, fld := fieldVar(st.Addr); fld != nil {
					if k := paramIdx(cvi(st.Val)); k >= 0 {
						// the object written is the one f returns
						isRet := false
						eachInstr(f, func(_ *ssa.BasicBlock, _ int, in2 ssa.Instruction) {
							if rt, ok := in2.(*ssa.Return); ok {
								for _, x := range rt.Results {
									if cvi(x) == cvi(base) {
										isRet = true
									}
								}
							}
						})
						if isRet {
							if ctorStore[f] == nil {
								ctorStore[f] = map[*types.Var]int{}
							}
							ctorStore[f][fld] = k
						}
					}
				}
			}
		})
	}
	n := 0
	for _, fn := range P.Funcs {
		type rel struct {
			in       ssa.Instruction
			b        *ssa.BasicBlock
			idx      int
			obj      ssa.Value
			deferred bool
			what     string
		}
		var rels []rel
		eachInstr(fn, func(b *ssa.BasicBlock, i int, in ssa.Instruction) {
			ci := callOf(in)
			if ci == nil {
				return
			}
			if _, isGo := in.(*ssa.Go); isGo {
				return
			}
			_, deferred := in.(*ssa.Defer)
			if isSyncPoolMethod(ci, "Put") {
				rels = append(rels, rel{in, b, i, cvi(ci.instr.Common().Args[1]), deferred, "Pool.Put"})
				return
			}
			if ci.static != nil && sums[ci.static] != nil {
				for k, a := range ci.args() {
					if sums[ci.static][k] {
						rels = append(rels, rel{in, b, i, cvi(a), deferred, fname(ci.static)})
					}
				}
			}
			if ci.static != nil && fieldRel[ci.static] != nil {
				for k, a := range ci.args() {
					for _, fld := range fieldRel[ci.static][k] {
						// what does that field of the argument hold? the argument was built by a constructor of this
						// function that stored one of its parameters there
						if mk, isCall := cvi(a).(*ssa.Call); isCall {
							if ctor := callOf(mk).static; ctor != nil {
								for cf, pk := range ctorStore[ctor] {
									if sameField(cf, fld) && pk < len(mk.Call.Args) {
										rels = append(rels, rel{in, b, i, cvi(mk.Call.Args[pk]), deferred, fname(ci.static) + " (through field " + fld.Name() + ")"})
									}
								}
							}
						}
					}
				}
			}
			// a release through an interface (`errs.Free()` on a ZogIssues value)
			if ci.invoke != nil && len(ci.args()) > 0 {
				for m, ps := range sums {
					if ps[0] && m.Name() == ci.invoke.Name() && m.Signature.Recv() != nil {
						rels = append(rels, rel{in, b, i, cvi(ci.args()[0]), deferred, "interface " + ci.invoke.Name()})
						break
					}
				}
			}
		})
		// a container whose elements a callee releases (`CollectList(l)`): nothing may read it afterwards
		eachInstr(fn, func(b *ssa.BasicBlock, i int, in ssa.Instruction) {
			ci := callOf(in)
			if ci == nil || ci.static == nil || elemSums[ci.static] == nil {
				return
			}
			if _, isCall := in.(*ssa.Call); !isCall {
				return
			}
			for k, a := range ci.args() {
				if !elemSums[ci.static][k] {
					continue
				}
				c := fmt.Sprintf("%s#release-elements:%s(%s)", fname(fn), fname(ci.static), relObjName(cvi(a)))
				if use := laterUse(fn, b, i, cvi(a)); use != nil {
					r.bad("C07/release", c, P.ipos(in), fmt.Sprintf("the objects held by this container are released to their pool by %s and the container is read afterwards (use at %s: %s): what is read then belongs to whoever took the objects out of the pool", fname(ci.static), P.ipos(use), shortName(use.String())))
				} else {
					r.ok("C07/release", c, P.ipos(in), "the container is not used after its elements were released")
				}
			}
		})
		if len(rels) == 0 {
			continue
		}
		r.sawFunc(fname(fn))
		for _, x := range rels {
			n++
			c := fmt.Sprintf("%s#release:%s(%s)", fname(fn), x.what, relObjName(x.obj))
			// released object never returned
			returned := false
			eachInstr(fn, func(_ *ssa.BasicBlock, _ int, in ssa.Instruction) {
				if ret, ok := in.(*ssa.Return); ok {
					for _, rv := range ret.Results {
						if cvi(rv) == x.obj {
							// returning the param itself from a setter is fine only if not released; here it is released
							returned = true
						}
					}
				}
			})
			if returned && !isParamOf(fn, x.obj) {
				r.bad("C07/release", c, P.ipos(x.in), "object is released to its pool and also returned to the caller")
				continue
			}
			if x.deferred {
				// deferred: must not be inside a loop (would release several times) — a defer in a loop releases the same value repeatedly only if the value is loop-invariant
				if inLoop(x.b) && !definedInLoop(x.obj, x.b) {
					r.bad("C07/release", c, P.ipos(x.in), "deferred release of a loop-invariant object inside a loop: released more than once")
					continue
				}
				// deferred calls run last-in first-out: a deferred function registered *before* this release runs after
				// it - a recover() handler that reports through the context it closed over then writes into an object
				// that is back in its pool (and may already belong to another execution)
				if use := earlierDeferUsing(fn, x.b, x.idx, x.obj); use != nil {
					r.bad("C07/release", c, P.ipos(x.in), fmt.Sprintf("a deferred function registered earlier (%s) uses the object and runs after this deferred release: it acts on an object that is already back in its pool", P.ipos(use)))
					continue
				}
			} else {
				// immediate: no later use of the object on any path
				if use := laterUse(fn, x.b, x.idx, x.obj); use != nil {
					r.bad("C07/release", c, P.ipos(x.in), fmt.Sprintf("object is used after being released to its pool (use at %s: %s)", P.ipos(use), shortName(use.String())))
					continue
				}
			}
			// double release on one path
			dbl := false
			for _, y := range rels {
				if y.in == x.in || y.obj != x.obj {
					continue
				}
				if y.b == x.b && y.idx > x.idx || y.b != x.b && reachFromSuccs(x.b, nil)[y.b] {
					dbl = true
				}
			}
			if dbl {
				r.bad("C07/release", c, P.ipos(x.in), "the same object can be released twice on one path: two owners would share it")
				continue
			}
			how := "immediate release is the last use"
			if x.deferred {
				how = "deferred release"
			}
			r.ok("C07/release", c, P.ipos(x.in), how+"; object not returned; single release per path")
		}
	}
	r.floor("C07/release", 40)
	_ = n
}

func relObjName(v ssa.Value) string {
	switch x := v.(type) {
	case *ssa.Parameter:
		return x.Name()
	case *ssa.Call:
		if ci := callOf(x); ci != nil && ci.static != nil {
			return "result of " + fname(ci.static)
		}
	}
	if v == nil {
		return "?"
	}
	return typeStr(v.Type())
}

func isParamOf(fn *ssa.Function, v ssa.Value) bool {
	for _, p := range fn.Params {
		if ssa.Value(p) == v {
			return true
		}
	}
	return false
}

func inLoop(b *ssa.BasicBlock) bool { return reachFromSuccs(b, nil)[b] }

func definedInLoop(v ssa.Value, b *ssa.BasicBlock) bool {
	in, ok := v.(ssa.Instruction)
	if !ok {
		return false
	}
	db := in.Block()
	if db == nil || db.Parent() != b.Parent() {
		return false
	}
	// defined in the same loop iteration: db reaches b and b reaches db
	return reachFromSuccs(b, nil)[db] && (db == b || reach(db, nil)[b])
}

// laterUse finds an instruction after (b,idx) on some path that uses obj
// (canonically). Deferred calls registered earlier are not "later uses".
func laterUse(fn *ssa.Function, b *ssa.BasicBlock, idx int, obj ssa.Value) ssa.Instruction {
	uses := func(in ssa.Instruction) bool {
		if _, ok := in.(*ssa.DebugRef); ok {
			return false
		}
		var ops []*ssa.Value
		for _, op := range in.Operands(ops) {
			if *op != nil && cvi(*op) == obj {
				return true
			}
		}
		return false
	}
	for i := idx + 1; i < len(b.Instrs); i++ {
		if uses(b.Instrs[i]) {
			return b.Instrs[i]
		}
	}
	// a value defined inside a loop is a new value on re-entry of its defining block
	stop := map[*ssa.BasicBlock]bool{}
	if oi, ok := obj.(ssa.Instruction); ok && oi.Block() != nil && oi.Parent() == fn {
		stop[oi.Block()] = true
	}
	for nb := range reachFromSuccs(b, stop) {
		for i, in := range nb.Instrs {
			if nb == b && i <= idx {
				// reached again through a loop: earlier instructions count
				if uses(in) {
					return in
				}
				continue
			}
			if uses(in) {
				return in
			}
		}
	}
	return nil
}

// ---------- balance ----------

func (P *Prog) checkBalance(r *Result, rule string) {
	R := P.roles
	isPB := func(ci *callInfo, name string) bool {
		if ci == nil || ci.static == nil || ci.static.Name() != name || ci.static.Signature.Recv() == nil {
			return false
		}
		return sameNamed(namedOf(ci.static.Signature.Recv().Type()), R.PathB)
	}
	// The depth of pushed-and-not-yet-popped segments, relative to function entry. A function that returns
	// with a non-zero depth on every path (a helper such as `Enter(key)` = Push + resets, `Leave()` = Pop) is a
	// balance helper: its net effect (delta) is applied at its call sites and the obligation moves to its callers.
	const unv, conflict = -1000, 1000
	delta := map[*ssa.Function]int{}
	type result struct {
		problem, ppos string
		exit          int
		has           bool
	}
	analyse := func(fn *ssa.Function, strict bool) result {
		var res result
		in := map[*ssa.BasicBlock]int{}
		for _, b := range fn.Blocks {
			in[b] = unv
		}
		in[fn.Blocks[0]] = 0
		exit := unv
		note := func(msg, pos string) {
			if res.problem == "" {
				res.problem, res.ppos = msg, pos
			}
		}
		changed := true
		for iter := 0; changed && iter < 50; iter++ {
			changed = false
			for _, b := range fn.Blocks {
				cur := in[b]
				if cur == unv || cur == conflict {
					continue
				}
				for _, ins := range b.Instrs {
					ci := callOf(ins)
					if _, d := ins.(*ssa.Defer); d {
						continue
					}
					switch {
					case isPB(ci, "Push"):
						res.has = true
						if strict && cur != 0 {
							note(fmt.Sprintf("Push with %d segment(s) already pending in this function (missing Pop on some path)", cur), P.ipos(ins))
						}
						cur++
					case isPB(ci, "Pop"):
						res.has = true
						if strict && cur != 1 {
							note("Pop without a matching Push on some path", P.ipos(ins))
						}
						cur--
					case ci != nil && ci.static != nil && delta[ci.static] != 0:
						res.has = true
						d := delta[ci.static]
						if strict && d > 0 && cur != 0 {
							note(fmt.Sprintf("a segment is pushed (through %s) with %d segment(s) already pending in this function", fname(ci.static), cur), P.ipos(ins))
						}
						if strict && d < 0 && cur != 1 {
							note(fmt.Sprintf("a segment is popped (through %s) without a matching push on some path", fname(ci.static)), P.ipos(ins))
						}
						cur += d
					}
					if _, ok := ins.(*ssa.Return); ok {
						switch {
						case exit == unv:
							exit = cur
						case exit != cur:
							note(fmt.Sprintf("returns with different numbers of pending path segments (%d vs %d)", exit, cur), P.ipos(ins))
						}
					}
				}
				for _, s := range b.Succs {
					switch {
					case in[s] == unv:
						in[s] = cur
						changed = true
					case in[s] != cur && in[s] != conflict:
						note(fmt.Sprintf("paths join with different numbers of pending path segments (%d vs %d)", in[s], cur), P.ipos(s.Instrs[0]))
						in[s] = conflict
						changed = true
					}
				}
			}
		}
		if exit == unv {
			exit = 0
		}
		res.exit = exit
		return res
	}
	touches := func(fn *ssa.Function) bool {
		t := false
		eachInstr(fn, func(_ *ssa.BasicBlock, _ int, in ssa.Instruction) {
			if ci := callOf(in); isPB(ci, "Push") || isPB(ci, "Pop") || (ci != nil && ci.static != nil && delta[ci.static] != 0) {
				t = true
			}
		})
		return t
	}
	skip := func(fn *ssa.Function) bool {
		rcv := fn.Signature.Recv()
		return rcv != nil && sameNamed(namedOf(rcv.Type()), R.PathB)
	}
	// helper deltas to a fixpoint
	for changed, iter := true, 0; changed && iter < 5; iter++ {
		changed = false
		for _, fn := range P.Funcs {
			if skip(fn) || fn.Blocks == nil || !touches(fn) {
				continue
			}
			res := analyse(fn, false)
			if res.problem == "" && res.exit != delta[fn] {
				delta[fn] = res.exit
				changed = true
			}
		}
	}
	for _, fn := range P.Funcs {
		if skip(fn) || fn.Blocks == nil || !touches(fn) {
			continue
		}
		r.sawFunc(fname(fn))
		if d := delta[fn]; d != 0 {
			// a balance helper: consistent net effect on every path; judged at its call sites
			res := analyse(fn, false)
			if res.problem != "" {
				r.bad(rule, fname(fn)+"#Path", res.ppos, "path stack not balanced: "+res.problem+": later issues of this execution are reported at the wrong path")
			} else {
				r.ok(rule, fname(fn)+"#Path", P.pos(fn.Pos()), fmt.Sprintf("helper with a net effect of %+d segment on every path; applied at its call sites", d))
			}
			continue
		}
		res := analyse(fn, true)
		switch {
		case res.problem != "":
			r.bad(rule, fname(fn)+"#Path", res.ppos, "path stack not balanced: "+res.problem+": later issues of this execution are reported at the wrong path")
		case res.exit != 0:
			r.bad(rule, fname(fn)+"#Path", P.pos(fn.Pos()), fmt.Sprintf("path stack not balanced: function returns with %d pushed path segment(s) not popped: later issues of this execution are reported at the wrong path", res.exit))
		default:
			r.ok(rule, fname(fn)+"#Path", P.pos(fn.Pos()), "every Push is followed by exactly one Pop on every path; depth 0 at every return")
		}
	}
	// the primitives themselves: the balance above counts calls, so Push must grow the stack by exactly one
	// segment on every path and Pop must shrink it by exactly one (a Push that skips some segments, e.g. empty
	// ones, makes the unconditional Pop of its caller remove a segment that belongs to an enclosing node)
	for _, fn := range P.Funcs {
		if !skip(fn) || fn.Blocks == nil || fn.Parent() != nil || (fn.Name() != "Push" && fn.Name() != "Pop") {
			continue
		}
		r.sawFunc(fname(fn))
		grow := map[*ssa.BasicBlock]bool{}
		nStores := 0
		other := ""
		recvP := ssa.Value(fn.Params[0])
		eachInstr(fn, func(b *ssa.BasicBlock, _ int, in ssa.Instruction) {
			st, ok := in.(*ssa.Store)
			if !ok || cv(st.Addr) != recvP {
				return
			}
			nStores++
			switch x := cv(st.Val).(type) {
			case *ssa.Call:
				// append(*p, one element)
				if callOf(x).builtin == "append" && len(x.Call.Args) == 2 {
					if ld, ok := cv(x.Call.Args[0]).(*ssa.UnOp); ok && ld.Op == token.MUL && cv(ld.X) == recvP && singleVarargElem(x.Call.Args[1]) != nil {
						if fn.Name() == "Push" {
							grow[b] = true
							return
						}
					}
				}
			case *ssa.Slice:
				// (*p)[:len(*p)-1]
				if ld, ok := cv(x.X).(*ssa.UnOp); ok && ld.Op == token.MUL && cv(ld.X) == recvP && x.Low == nil && x.High != nil {
					if bo, ok := x.High.(*ssa.BinOp); ok && bo.Op == token.SUB {
						if k, ok := constInt(bo.Y); ok && k == 1 {
							if lc, ok := bo.X.(*ssa.Call); ok && callOf(lc).builtin == "len" && sameValue(lc.Call.Args[0], ld) {
								if fn.Name() == "Pop" {
									grow[b] = true
									return
								}
							}
						}
					}
				}
			}
			other = P.ipos(in)
		})
		c := fname(fn) + "#net-effect"
		// every path from entry to a return passes a block that makes the change; for Pop, the edge of an
		// underflow test on which the stack is empty (`if len(*p) == 0 { return }`, `if n := len(*p); n > 0 {…}`)
		// is not a skipped Pop: there is nothing to pop
		emptyEdge := func(b *ssa.BasicBlock) int {
			if fn.Name() != "Pop" {
				return -1
			}
			iff, ok := b.Instrs[len(b.Instrs)-1].(*ssa.If)
			if !ok {
				return -1
			}
			bo, ok := iff.Cond.(*ssa.BinOp)
			if !ok {
				return -1
			}
			k, ok := constInt(bo.Y)
			if !ok {
				return -1
			}
			// len(*p) <op> k, or (len(*p) - c) <op> k, i.e. len(*p) <op> k + c
			lx := cv(bo.X)
			if sub, isSub := lx.(*ssa.BinOp); isSub && (sub.Op == token.SUB || sub.Op == token.ADD) {
				if c, isC := constInt(sub.Y); isC {
					if sub.Op == token.SUB {
						k += c
					} else {
						k -= c
					}
					lx = cv(sub.X)
				}
			}
			lc, ok := lx.(*ssa.Call)
			if !ok || callOf(lc).builtin != "len" {
				return -1
			}
			ld, ok := cv(lc.Call.Args[0]).(*ssa.UnOp)
			if !ok || ld.Op != token.MUL || cv(ld.X) != recvP {
				return -1
			}
			switch {
			case lenIsZero(bo.Op, k, true):
				return 0
			case lenIsZero(bo.Op, k, false):
				return 1
			}
			return -1
		}
		always := true
		seen := map[*ssa.BasicBlock]bool{}
		var walk func(b *ssa.BasicBlock)
		walk = func(b *ssa.BasicBlock) {
			if seen[b] || grow[b] {
				return
			}
			seen[b] = true
			if isExit(b) {
				always = false
				return
			}
			skip := emptyEdge(b)
			for i, s := range b.Succs {
				if i != skip {
					walk(s)
				}
			}
		}
		walk(fn.Blocks[0])
		switch {
		case other != "":
			r.bad(rule, c, other, "the path stack is rewritten other than by one append (Push) / dropping the last segment (Pop)")
		case len(grow) == 0:
			r.bad(rule, c, P.pos(fn.Pos()), fn.Name()+" never changes the path stack")
		case !always:
			r.bad(rule, c, P.pos(fn.Pos()), fn.Name()+" changes the path stack on some paths only: the callers' unconditional Push/Pop pairs no longer balance, and a Pop can remove a segment of an enclosing node (or the reserved root slot of the pooled builder)")
		case nStores != len(grow):
			r.bad(rule, c, P.pos(fn.Pos()), fn.Name()+" changes the path stack more than once")
		default:
			r.ok(rule, c, P.pos(fn.Pos()), "net effect of exactly one segment on every path")
		}
	}
	r.floor(rule, 2)
}

// lenIsZero: the comparison `len(x) <op> k` taken with the given truth value says exactly len(x) == 0.
func lenIsZero(op token.Token, k int64, truth bool) bool {
	type key struct {
		op token.Token
		k  int64
		t  bool
	}
	switch (key{op, k, truth}) {
	case key{token.EQL, 0, true}, key{token.NEQ, 0, false}, key{token.LSS, 1, true}, key{token.GEQ, 1, false}, key{token.LEQ, 0, true}, key{token.GTR, 0, false}:
		return true
	}
	return false
}

// checkReleaseMultiplicity: an issue is inserted into the issue map more than
// once on one path of ErrsMap.Add (under the constant key $first and under
// its own path). Every function that releases all elements of all lists of
// such a map must skip the duplicate key, or the same object is put into the
// pool twice and two later executions receive (and overwrite) one issue.
func (P *Prog) checkReleaseMultiplicity(r *Result, rule string) {
	R := P.roles
	add := P.fn("(*zog/internals.ErrsMap).Add")
	if add == nil {
		r.broken("anchor ErrsMap.Add not found")
		return
	}
	errP := ssa.Value(add.Params[2])
	// constant keys under which the issue itself is stored
	dupKeys := map[string]bool{}
	eachInstr(add, func(_ *ssa.BasicBlock, _ int, in ssa.Instruction) {
		mu, ok := in.(*ssa.MapUpdate)
		if !ok {
			return
		}
		k, isC := constString(mu.Key)
		if !isC {
			return
		}
		if sliceLitContains(mu.Value, errP) {
			dupKeys[k] = true
		}
		if c, ok := mu.Value.(*ssa.Call); ok && callOf(c).builtin == "append" && len(c.Call.Args) == 2 && sliceLitContains(c.Call.Args[1], errP) {
			dupKeys[k] = true
		}
	})
	sums := P.releaseSummaries()
	// functions that (transitively) release elements of a list argument
	releasesElems := map[*ssa.Function]bool{}
	for changed := true; changed; {
		changed = false
		for _, fn := range P.Funcs {
			if releasesElems[fn] {
				continue
			}
			eachInstr(fn, func(b *ssa.BasicBlock, _ int, in ssa.Instruction) {
				ci := callOf(in)
				if ci == nil || ci.static == nil {
					return
				}
				// releasing an element needs a loop over the list; handing the whole list on to a function
				// that releases its elements does not
				if !inLoop(b) && !releasesElems[ci.static] {
					return
				}
				if sums[ci.static] != nil || releasesElems[ci.static] {
					// the released / forwarded value must be an element of a parameter
					for _, a := range ci.args() {
						for _, rt := range P.rootsOf(a) {
							if rt.kind == rkParam && rt.v.(*ssa.Parameter).Parent() == fn {
								if _, isSlice := rt.v.Type().Underlying().(*types.Slice); isSlice {
									if !releasesElems[fn] {
										releasesElems[fn] = true
										changed = true
									}
								}
							}
						}
					}
				}
			})
		}
	}
	n := 0
	for _, fn := range P.Funcs {
		for li, l := range mapRangeLoops(fn) {
			mt, ok := l.rng.X.Type().Underlying().(*types.Map)
			if !ok {
				continue
			}
			// map[string][]*ZogIssue
			sl, ok := mt.Elem().Underlying().(*types.Slice)
			if !ok || !P.isPtrTo(sl.Elem(), R.ZogIssue) {
				continue
			}
			// does the body release the elements of the visited list?
			for b := range l.body {
				for _, in := range b.Instrs {
					ci := callOf(in)
					if ci == nil || ci.static == nil || !(releasesElems[ci.static] || sums[ci.static] != nil) {
						continue
					}
					usesVal := false
					for _, a := range ci.args() {
						if valueDerivesFrom(a, l.val, 4) {
							usesVal = true
						}
					}
					if !usesVal {
						continue
					}
					n++
					c := fmt.Sprintf("%s#range@%d→%s", fname(fn), li+1, fname(ci.static))
					var missing []string
					for k := range dupKeys {
						skipped := false
						for _, gd := range guardsOf(b) {
							bo, ok := gd.If.Cond.(*ssa.BinOp)
							if !ok {
								continue
							}
							var other ssa.Value
							if valueDerivesFrom(bo.X, l.key, 4) {
								other = bo.Y
							} else if valueDerivesFrom(bo.Y, l.key, 4) {
								other = bo.X
							}
							if s, isS := constString(other); isS && s == k {
								if (bo.Op == token.NEQ && gd.True) || (bo.Op == token.EQL && !gd.True) {
									skipped = true
								}
							}
						}
						if !skipped {
							missing = append(missing, k)
						}
					}
					sort.Strings(missing)
					if len(missing) > 0 {
						r.bad(rule, c, P.ipos(in), fmt.Sprintf("every list of the issue map is released, but ErrsMap.Add files each first issue both under its path and under %v: that issue is put into the pool twice, so two later executions receive the same *ZogIssue and the second overwrites the first one's result", missing))
					} else {
						r.ok(rule, c, P.ipos(in), fmt.Sprintf("the duplicate key(s) %v of the issue map are skipped when releasing", sortedKeys(dupKeys)))
					}
				}
			}
		}
	}
	r.Extra["issue_map_duplicate_keys"] = sortedKeys(dupKeys)
	if n == 0 {
		// "never twice" holds trivially when issues are not recycled at all (a maintainer who stops pooling issues has
		// not broken anything): say so instead of letting the vacuity floor fire
		putsIssue := false
		for _, fn := range P.Funcs {
			eachInstr(fn, func(_ *ssa.BasicBlock, _ int, in ssa.Instruction) {
				if ci := callOf(in); isSyncPoolMethod(ci, "Put") && len(ci.args()) == 2 && P.isPtrTo(cvi(ci.args()[1]).Type(), R.ZogIssue) {
					putsIssue = true
				}
			})
		}
		if !putsIssue {
			r.ok(rule, "module", "-", "no *ZogIssue is ever put into a pool: an issue cannot be handed to two later executions")
		}
	}
	r.floor(rule, 1)
}

// checkPooledSliceHeader: the acquisition function of a pooled slice re-slices
// it to a constant length, which presupposes the capacity it was created with.
// Every store to a *PathBuilder must therefore store a value derived from the
// same object by append or re-slicing (capacity never shrinks); storing nil or
// an unrelated slice breaks the next acquisition ("slice bounds out of range").
func (P *Prog) checkPooledSliceHeader(r *Result, rule string) {
	R := P.roles
	n := 0
	for _, fn := range P.Funcs {
		eachInstr(fn, func(_ *ssa.BasicBlock, _ int, in ssa.Instruction) {
			st, ok := in.(*ssa.Store)
			if !ok || !P.isPtrTo(st.Addr.Type(), R.PathB) {
				return
			}
			if _, isAlloc := st.Addr.(*ssa.Alloc); isAlloc {
				return // the pool's New function initialising a fresh builder
			}
			n++
			c := fmt.Sprintf("%s#store-PathBuilder@%d", fname(fn), n)
			obj := cv(st.Addr)
			selfDerived := func(v ssa.Value) bool {
				for d := 0; d < 6; d++ {
					switch x := v.(type) {
					case *ssa.Slice:
						v = x.X
					case *ssa.ChangeType:
						v = x.X
					case *ssa.Call:
						if callOf(x).builtin == "append" {
							v = x.Call.Args[0]
						} else {
							return false
						}
					case *ssa.UnOp:
						return x.Op == token.MUL && cv(x.X) == obj
					default:
						return false
					}
				}
				return false
			}
			if selfDerived(st.Val) {
				r.ok(rule, c, P.ipos(in), "stores an append / re-slice of the same builder: capacity is preserved")
			} else {
				r.bad(rule, c, P.ipos(in), "the pooled path builder's slice header is overwritten with a value not derived from itself ("+shortName(st.Val.String())+"): the capacity NewPathBuilder's re-slice relies on is lost, the next acquisition panics or sees foreign segments")
			}
		})
	}
	r.floor(rule, 2)
}

// checkNoGlobalPooledObject: objects of the per-call pooled types must come
// from the pools or be call-local. A package-level *ZogIssue / *SchemaCtx ...
// handed to an execution is shared by every execution (and is later put into
// the pool by Collect).
func (P *Prog) checkNoGlobalPooledObject(r *Result) {
	found := 0
	for _, sp := range P.SSAPkgs {
		for _, m := range sp.Members {
			g, ok := m.(*ssa.Global)
			if !ok {
				continue
			}
			elem := g.Type().(*types.Pointer).Elem()
			if _, isPtr := elem.Underlying().(*types.Pointer); !isPtr {
				continue
			}
			if !P.isPooledType(elem) {
				continue
			}
			found++
			r.bad("C07/no-global-pooled-object", shortName(g.String()), P.pos(g.Pos()), "a package-level variable holds an object of a per-call pooled type ("+typeStr(elem)+"): every execution that receives it shares (and overwrites) the same object")
		}
	}
	if found == 0 {
		r.ok("C07/no-global-pooled-object", "module", "-", "no package-level variable of a pooled pointer type")
	}
}

// checkPooledMapOwned: a map-typed field of a pooled execution object (the values of an ExecCtx, the issue map
// of an ErrsMap) that module code writes into (m[k] = v, delete) is only ever set to a map made for that purpose:
// nil, make(...), a literal, maps.Clone, or the result of a module function that returns only such maps. A map
// handed in by the caller and adopted as is would receive this execution's writes: the values of one call leak
// into the caller's map and into every later call that passes the same map.
func (P *Prog) checkPooledMapOwned(r *Result, rule string) {
	// pooled struct types: whatever is handed to Pool.Put, whatever Pool.Get is asserted to
	pooled := map[*types.TypeName]*types.Struct{}
	note := func(t types.Type) {
		pt, ok := t.Underlying().(*types.Pointer)
		if !ok {
			return
		}
		nm, ok := types.Unalias(pt.Elem()).(*types.Named)
		if !ok {
			return
		}
		if st, ok := nm.Underlying().(*types.Struct); ok && nm.Obj().Pkg() != nil && inModule(nm.Obj().Pkg().Path()) {
			pooled[nm.Origin().Obj()] = st
		}
	}
	for _, s := range P.poolSites() {
		if s.elem != nil {
			note(types.NewPointer(s.elem))
		}
	}
	// the execution and node contexts are per-call objects whether or not they are recycled: a caller's map adopted
	// as the values of an ExecCtx that is allocated fresh for every call still receives that call's writes
	for _, n := range []*types.Named{P.roles.ExecCtx, P.roles.SchemaCtx} {
		if n != nil {
			note(types.NewPointer(n))
		}
	}
	for _, fn := range P.Funcs {
		eachInstr(fn, func(_ *ssa.BasicBlock, _ int, in ssa.Instruction) {
			if ci := callOf(in); isSyncPoolMethod(ci, "Put") && len(ci.args()) == 2 {
				note(cvi(ci.args()[1]).Type())
			}
		})
	}
	ownerOf := func(base ssa.Value) *types.TypeName {
		pt, ok := base.Type().Underlying().(*types.Pointer)
		if !ok {
			return nil
		}
		nm, ok := types.Unalias(pt.Elem()).(*types.Named)
		if !ok {
			return nil
		}
		if _, isPooled := pooled[nm.Origin().Obj()]; !isPooled {
			return nil
		}
		return nm.Origin().Obj()
	}
	type fkey struct {
		owner *types.TypeName
		field string
	}
	written := map[fkey]string{}
	for _, fn := range P.Funcs {
		eachInstr(fn, func(_ *ssa.BasicBlock, _ int, in ssa.Instruction) {
			var m ssa.Value
			switch x := in.(type) {
			case *ssa.MapUpdate:
				m = x.Map
			default:
				if ci := callOf(in); ci != nil && (ci.builtin == "delete" || ci.builtin == "clear") && len(ci.args()) >= 1 {
					m = ci.args()[0]
				} else if ci != nil && ci.static != nil && originName(ci.static) == "maps.Copy" && len(ci.args()) == 2 {
					m = ci.args()[0]
				}
			}
			if m == nil {
				return
			}
			if _, isMap := m.Type().Underlying().(*types.Map); !isMap {
				return
			}
			// the map written is the one held in a field of a pooled object (directly, or through a local copy of it)
			var visit func(v ssa.Value, d int)
			visit = func(v ssa.Value, d int) {
				if d > 4 || v == nil {
					return
				}
				v = cv(v)
				if base, f := loadOfField(v); f != nil {
					if o := ownerOf(base); o != nil {
						if _, seen := written[fkey{o, f.Name()}]; !seen {
							written[fkey{o, f.Name()}] = P.ipos(in)
						}
					}
					return
				}
				if ph, ok := v.(*ssa.Phi); ok {
					for _, e := range ph.Edges {
						visit(e, d+1)
					}
				}
			}
			visit(m, 0)
		})
	}
	var fresh func(v ssa.Value, d int) bool
	fresh = func(v ssa.Value, d int) bool {
		if d > 5 || v == nil {
			return false
		}
		switch x := cv(v).(type) {
		case *ssa.MakeMap:
			return true
		case *ssa.Const:
			return x.Value == nil
		case *ssa.Phi:
			for _, e := range x.Edges {
				if !fresh(e, d+1) {
					return false
				}
			}
			return true
		case *ssa.Call:
			ci := callOf(x)
			if ci.static == nil {
				return false
			}
			if originName(ci.static) == "maps.Clone" {
				return true
			}
			if ci.static.Blocks == nil || !inModule(funcPkgPath(ci.static)) {
				return false
			}
			n, all := 0, true
			eachInstr(ci.static, func(_ *ssa.BasicBlock, _ int, in ssa.Instruction) {
				rt, ok := in.(*ssa.Return)
				if !ok || len(rt.Results) != 1 {
					return
				}
				n++
				if !fresh(rt.Results[0], d+1) {
					all = false
				}
			})
			return n > 0 && all
		case *ssa.UnOp:
			// the same field read back (`m := c.m; if m == nil { m = make(...) }; c.m = m`)
			if base, f := loadOfField(x); f != nil && ownerOf(base) != nil {
				return true
			}
		}
		return false
	}
	n := 0
	for _, fn := range P.Funcs {
		eachInstr(fn, func(_ *ssa.BasicBlock, _ int, in ssa.Instruction) {
			st, ok := in.(*ssa.Store)
			if !ok {
				return
			}
			base, f := fieldVar(st.Addr)
			if f == nil {
				return
			}
			o := ownerOf(base)
			if o == nil {
				return
			}
			at, isWritten := written[fkey{o, f.Name()}]
			if !isWritten {
				return
			}
			n++
			c := fmt.Sprintf("%s#%s.%s", fname(fn), o.Name(), f.Name())
			if fresh(st.Val, 0) {
				r.ok(rule, c, P.ipos(in), "the map the execution writes into ("+at+") is nil or one made for this object")
			} else {
				r.bad(rule, c, P.ipos(in), fmt.Sprintf("field %s of the pooled %s is set to a map this code did not make, and the execution writes into that field's map (%s): what one call sets lands in the caller's map and in every later call that passes it", f.Name(), o.Name(), at))
			}
		})
	}
	if len(pooled) == 0 {
		r.broken("vacuous: no pooled struct types found")
	}
	r.floor(rule, 2)
}

// fieldNeverRead: no function of the module loads the field, takes its address for anything but a store, or copies
// the whole struct it belongs to by value out of a pointer (which would read it along).
func (P *Prog) fieldNeverRead(f *types.Var) bool {
	if P.fieldReadMemo == nil {
		P.fieldReadMemo = map[*types.Var]bool{}
		for _, fn := range P.Funcs {
			eachInstr(fn, func(_ *ssa.BasicBlock, _ int, in ssa.Instruction) {
				switch x := in.(type) {
				case *ssa.Field:
					if _, fv := fieldVar(x); fv != nil {
						P.fieldReadMemo[fv.Origin()] = true
					}
				case *ssa.FieldAddr:
					_, fv := fieldVar(x)
					if fv == nil || x.Referrers() == nil {
						return
					}
					for _, rf := range *x.Referrers() {
						if st, ok := rf.(*ssa.Store); ok && st.Addr == ssa.Value(x) {
							continue
						}
						if _, ok := rf.(*ssa.DebugRef); ok {
							continue
						}
						P.fieldReadMemo[fv.Origin()] = true
					}
				case *ssa.UnOp:
					// `copy := *ptr` of a whole struct reads every field
					if x.Op == token.MUL {
						if st, ok := x.Type().Underlying().(*types.Struct); ok {
							for i := 0; i < st.NumFields(); i++ {
								P.fieldReadMemo[st.Field(i).Origin()] = true
							}
						}
					}
				}
			})
		}
	}
	return !P.fieldReadMemo[f.Origin()]
}

// earlierDeferUsing: a Defer instruction of fn that executes before (b, idx) - same block earlier, or a dominating
// block - whose deferred call closes over or is passed obj (directly or through the variable cell that holds it) and is
// not itself a release.
func earlierDeferUsing(fn *ssa.Function, b *ssa.BasicBlock, idx int, obj ssa.Value) ssa.Instruction {
	holds := func(v ssa.Value) bool {
		if cvi(v) == obj {
			return true
		}
		if al, ok := v.(*ssa.Alloc); ok {
			for _, st := range storesTo(al) {
				if cvi(st.Val) == obj {
					return true
				}
			}
		}
		return false
	}
	var found ssa.Instruction
	eachInstr(fn, func(b2 *ssa.BasicBlock, i2 int, in ssa.Instruction) {
		d, ok := in.(*ssa.Defer)
		if !ok || found != nil {
			return
		}
		if !(b2 == b && i2 < idx || b2 != b && b2.Dominates(b)) {
			return
		}
		mc, isMC := d.Call.Value.(*ssa.MakeClosure)
		if !isMC {
			return // a deferred method or function call: the releases themselves, Close, Unlock ...
		}
		for _, bd := range mc.Bindings {
			if holds(bd) {
				// the closure must actually use it for more than releasing
				found = in
			}
		}
	})
	return found
}
