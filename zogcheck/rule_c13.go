package main

import (
	"fmt"
	"go/types"
	"sort"
	"strings"

	"golang.org/x/tools/go/ssa"
)

func init() { register("C13", checkC13) }

// projectPath maps a decision path to its mode-independent signature: items
// that exist only in Parse (coercion, provider/factory derivation, destination
// allocation, input type checks) are removed; paths that fail in a parse-only
// way are dropped; consecutive absence atoms are merged.
func projectPath(p nodePath) (string, bool) {
	if p.end == "PANIC" {
		return "", false
	}
	var out []string
	zeroSeen, zeroVal := false, "F"
	flushZero := func() {
		if zeroSeen {
			out = append(out, "ZERO="+zeroVal)
			zeroSeen, zeroVal = false, "F"
		}
	}
	for _, it := range p.items {
		switch {
		case it.kind == "ZERO":
			zeroSeen = true
			if it.val == "T" {
				zeroVal = "T"
			}
			continue
		case it.kind == "COERCE-ERR" || it.kind == "FACTORY-ERR" || strings.HasPrefix(it.kind, "ERR:"):
			if it.val == "T" {
				return "", false // parse-only failure path
			}
			continue
		case it.kind == "TYPE-OK":
			if it.val == "F" {
				return "", false
			}
			continue
		case it.kind == "COERCE" || it.kind == "IS-FACTORY" || it.kind == "CALL-FACTORY" || it.kind == "COND" || it.kind == "NEWCTX" || it.kind == "CTX-DATA":
			continue
		case it.kind == "DEST" && it.val != "catch":
			continue
		}
		flushZero()
		out = append(out, it.String())
	}
	flushZero()
	return strings.Join(out, " ") + " → " + p.end, true
}

func (P *Prog) projectedSet(fn *ssa.Function) (map[string]bool, bool) {
	paths, capHit := P.nodePaths(fn)
	set := map[string]bool{}
	for _, p := range paths {
		if s, ok := projectPath(p); ok {
			set[s] = true
		}
	}
	return set, capHit
}

func checkC13(P *Prog, r *Result) {
	R := P.roles
	r.Explanation = "Decides the structural part of Parse/Validate agreement: for every schema kind (Preprocess excluded, as in the statement) and for the two primitive pipelines, the set of decision paths of the " +
		"Parse twin, projected onto the mode-independent alphabet (absence/default/required/catch decisions, issue emissions by kind, test loop and test calls, push/child/pop, exit tests; " +
		"coercion, provider derivation and destination allocation removed, parse-only failure paths dropped), equals that of the Validate twin — a phase sequence one mode has and the other lacks is " +
		"printed as the counterexample; the same holds for their deferred post-transform closures; (twin-args) primitive kinds hand the same schema field to each shared parameter of the two pipelines; " +
		"(twin-callback-args) user callbacks receive arguments of the same root class in both twins. Equality of issues and values on all fully populated inputs is relational and run-time; " +
		"in particular that coercing an already correctly typed value is the identity is not decided."
	pairs := [][3]interface{}{}
	for _, k := range sortedKeys(R.Process) {
		if k == "PreprocessSchema" {
			continue
		}
		if R.Validate[k] == nil {
			r.bad("C13/twin-language", k, "-", "kind has a process method but no validate twin")
			continue
		}
		pairs = append(pairs, [3]interface{}{k, R.Process[k], R.Validate[k]})
	}
	if len(R.Pipelines) == 2 {
		a, b := R.Pipelines[0], R.Pipelines[1]
		if strings.Contains(strings.ToLower(a.Name()), "validat") {
			a, b = b, a
		}
		pairs = append(pairs, [3]interface{}{"primitive pipeline", a, b})
	}
	for _, pr := range pairs {
		name := pr[0].(string)
		pf, vf := pr[1].(*ssa.Function), pr[2].(*ssa.Function)
		r.sawFunc(fname(pf))
		r.sawFunc(fname(vf))
		P.compareTwins(r, "C13/twin-language", name, pf, vf)
		// deferred units (post-transform runners): closures or helpers deferred by the twin itself
		pd, vd := P.deferredUnits(pf), P.deferredUnits(vf)
		if len(pd) == 1 && len(vd) == 1 {
			P.compareTwinSets(r, "C13/twin-language", name+"#deferred", pf, vf, func(fn *ssa.Function) (map[string]bool, bool) {
				u := pd[0]
				if fn == vf {
					u = vd[0]
				}
				return P.projectedUnitSet(u)
			})
		} else if len(pd) != len(vd) {
			r.bad("C13/twin-language", name+"#deferred", P.pos(pf.Pos()), fmt.Sprintf("the Parse twin defers %d closure(s)/helper(s) that act on the node, the Validate twin %d", len(pd), len(vd)))
		}
	}
	r.floor("C13/twin-language", 9)
	// the two context constructors (Parse-side and Validate-side) must clear the same catch flags
	ca := P.newCatchAnalysis()
	var ctorNames []string
	sets := map[string]string{}
	for fn, fs := range ca.ctors {
		var names []string
		for _, fl := range ca.flags {
			if fs[fl.Origin()] {
				names = append(names, fl.Name())
			}
		}
		sort.Strings(names)
		ctorNames = append(ctorNames, fname(fn))
		sets[fname(fn)] = strings.Join(names, ",")
	}
	sort.Strings(ctorNames)
	if len(ctorNames) >= 2 {
		same := true
		for _, n := range ctorNames {
			if sets[n] != sets[ctorNames[0]] {
				same = false
			}
		}
		var facts []string
		for _, n := range ctorNames {
			facts = append(facts, n+" clears {"+sets[n]+"}")
		}
		if same {
			r.ok("C13/twin-constructors", "SchemaCtx constructors", "-", "all context constructors clear the same catch flags", facts...)
		} else {
			r.bad("C13/twin-constructors", "SchemaCtx constructors", "-", "the Parse-side and Validate-side context constructors do not clear the same catch flags: a recycled context behaves differently in the two modes", facts...)
		}
	} else {
		r.undecided("C13/twin-constructors", "SchemaCtx constructors", "-", "fewer than two context constructors found")
	}

	// ---- coercion of an already correctly typed value is the identity (the part of it visible in the table) ----
	ident := map[string]string{
		"zog/conf.DefaultCoercers.Int(func)": "int", "zog/conf.DefaultCoercers.Float64(func)": "float64",
		"zog/conf.DefaultCoercers.Bool(func)": "bool", "zog/conf.DefaultCoercers.String(func)": "string",
		"zog/conf.TimeCoercerFactory$1": "time.Time",
	}
	for _, key := range sortedKeys(ident) {
		fn := P.fn(key)
		if fn == nil {
			r.undecided("C13/coercion-identity", key, "-", "coercer not found")
			continue
		}
		rows, probs := P.coercionRows(fn)
		T := ident[key]
		want := T + " |  ⇒ val.(" + T + ")"
		found := false
		var bad []string
		for _, row := range rows {
			if row == want {
				found = true
			}
			// sized numeric inputs must be pure conversion chains (no arithmetic, no detour through another kind)
			if (T == "int" || T == "float64") && (strings.HasPrefix(row, "int64 |") || strings.HasPrefix(row, "int32 |") || strings.HasPrefix(row, "float32 |")) {
				res := row[strings.LastIndex(row, "⇒ ")+len("⇒ "):]
				if !isPureConvertChain(res) {
					bad = append(bad, row)
				}
			}
		}
		switch {
		case len(probs) > 0:
			r.undecided("C13/coercion-identity", key, P.pos(fn.Pos()), strings.Join(probs, "; "))
		case !found:
			r.bad("C13/coercion-identity", key, P.pos(fn.Pos()), "a value that already has the destination type is not passed through unchanged by the Parse-side coercer (expected row: "+want+"): Parse and Validate disagree on correctly typed values", rows...)
		case len(bad) > 0:
			r.bad("C13/coercion-identity", key, P.pos(fn.Pos()), "a sized numeric input is not coerced by a plain conversion: "+strings.Join(bad, "; "))
		default:
			r.ok("C13/coercion-identity", key, P.pos(fn.Pos()), want)
		}
	}
	r.floor("C13/coercion-identity", 3)

	// ---- twin-args ----
	if len(R.Pipelines) == 2 {
		for _, k := range sortedKeys(R.Process) {
			pf, vf := R.Process[k], R.Validate[k]
			if vf == nil {
				continue
			}
			roles := func(fn *ssa.Function) (map[string]string, bool) {
				out := map[string]string{}
				found := false
				eachInstr(fn, func(_ *ssa.BasicBlock, _ int, in ssa.Instruction) {
					ci := callOf(in)
					if ci == nil || ci.static == nil {
						return
					}
					isPl := false
					for _, pl := range R.Pipelines {
						if pl == ci.static {
							isPl = true
						}
					}
					if !isPl {
						return
					}
					found = true
					for i, a := range ci.args() {
						if i >= len(ci.static.Params) {
							continue
						}
						if role := P.roleOf(a); role != "" {
							out[ci.static.Params[i].Name()] = role
						}
						// the node's rules grouped into one options struct built for the call: each of its fields
						// counts as the parameter it replaces
						var holder *ssa.Alloc
						switch y := a.(type) {
						case *ssa.Alloc:
							holder = y
						case *ssa.UnOp:
							holder, _ = y.X.(*ssa.Alloc)
						}
						if holder != nil && holder.Referrers() != nil {
							if _, isStruct := holder.Type().(*types.Pointer).Elem().Underlying().(*types.Struct); isStruct {
								for _, rf := range *holder.Referrers() {
									fa, ok := rf.(*ssa.FieldAddr)
									if !ok {
										continue
									}
									_, ff := fieldVar(fa)
									for _, st := range storesTo(fa) {
										if role := P.roleOf(st.Val); role != "" && ff != nil {
											out[ff.Name()] = role
										}
									}
								}
							}
						}
					}
				})
				return out, found
			}
			pr, ok1 := roles(pf)
			vr, ok2 := roles(vf)
			if !ok1 && !ok2 {
				continue
			}
			var diffs []string
			for param, role := range pr {
				if v, has := vr[param]; has && v != role {
					diffs = append(diffs, fmt.Sprintf("parameter %s: Parse passes field %s, Validate passes field %s", param, role, v))
				}
				if param != role {
					diffs = append(diffs, fmt.Sprintf("Parse passes field %s as %s", role, param))
				}
			}
			for param, role := range vr {
				if param != role {
					diffs = append(diffs, fmt.Sprintf("Validate passes field %s as %s", role, param))
				}
				if _, has := pr[param]; !has {
					diffs = append(diffs, "Validate passes "+param+" which Parse does not")
				}
			}
			for param := range pr {
				if _, has := vr[param]; !has && param != "coercer" {
					diffs = append(diffs, "Parse passes "+param+" which Validate does not")
				}
			}
			if ok1 != ok2 {
				diffs = append(diffs, "only one twin delegates to a primitive pipeline")
			}
			if len(diffs) > 0 {
				r.bad("C13/twin-args", k, P.pos(pf.Pos()), strings.Join(uniqSorted(diffs), "; "))
			} else {
				r.ok("C13/twin-args", k, P.pos(pf.Pos()), fmt.Sprintf("both twins pass %v", sortedKeys(vr)))
			}
		}
	}
	r.floor("C13/twin-args", 2)

	// ---- twin-callback-args ----
	for _, k := range sortedKeys(R.Process) {
		if k == "PreprocessSchema" {
			continue
		}
		pf, vf := R.Process[k], R.Validate[k]
		if vf == nil {
			continue
		}
		sig := func(fn *ssa.Function) []string {
			var out []string
			// over the code units of the node (closures and helpers, each under its call chain's substitution)
			for _, u := range P.nodeUnits(fn) {
				f := u.fn
				u.with(func() {
					eachInstr(f, func(_ *ssa.BasicBlock, _ int, in ssa.Instruction) {
						ci := callOf(in)
						role := P.callbackRole(ci)
						if role == "" || len(ci.args()) != 2 {
							return
						}
						var classes []string
						for _, rt := range P.rootsOf(ci.args()[0]) {
							classes = append(classes, P.classifyIn(f, rt).class.String())
						}
						out = append(out, role+"("+strings.Join(uniqSorted(classes), "|")+")")
					})
				})
			}
			out = uniqSorted(out)
			return out
		}
		ps, vs := sig(pf), sig(vf)
		if len(ps) == 0 && len(vs) == 0 {
			continue
		}
		if strings.Join(ps, ",") == strings.Join(vs, ",") {
			r.ok("C13/twin-callback-args", k, P.pos(pf.Pos()), "callbacks receive "+strings.Join(ps, ", ")+" in both modes")
		} else {
			r.bad("C13/twin-callback-args", k, P.pos(pf.Pos()), fmt.Sprintf("callbacks receive different values in the two modes: Parse %v, Validate %v", ps, vs))
		}
	}
	r.floor("C13/twin-callback-args", 2)
	// ---- mode-consistent: a Parse-mode node only dispatches Parse-mode nodes and a Validate-mode node only
	// Validate-mode ones (a shared helper that runs `validate` on the items of a defaulted slice from `process`
	// judges them by the other mode's absence rule) ----
	P.checkModeConsistent(r, "C13/mode-consistent")
	// what Parse adds to Validate is coercion: the coercers apply the documented table (C03's rule), in
	// particular already-typed values within range are kept; and neither mode keeps private state between calls
	shareRule(P, r, checkC03, "C03/coercion-table", nil, "C13/coercion-table", 5)
	shareRule(P, r, checkC07, "C07/no-global-state", nil, "C13/no-mode-private-state", 30)
	// the same issue path in both modes: Parse names a field of a plain map by (zog tag, else schema key) through
	// GetKeyFromField with no source tag, which is the rule Validate applies inline (C10's tag-priority and
	// segment-source rules)
	// both modes hand a child a context in the same (clean) state: a per-node flag reset before each child in one
	// mode and not in the other makes the same value pass in one and fail in the other (C01's child-clean rule)
	shareRule(P, r, checkC01, "C01/child-clean", nil, "C13/same-child-state", 15)
	shareRule(P, r, checkC10, "C10/tag-priority", nil, "C13/same-path-key", 1)
	shareRule(P, r, checkC03, "C03/field-name-rule", nil, "C13/same-field-name-rule", 2)
	shareRule(P, r, checkC10, "C10/segment-source", nil, "C13/same-path-segment", 1)
	// Parse reads a field under the key Validate files its issues under: every provider resolves (field, schema key) to
	// own Get(K), K with K from the one tag-priority function - a provider that tries the schema key first reads a
	// sibling's value whenever a schema key equals another field's zog tag (C14's rule)
	shareRule(P, r, checkC14, "C14/getbyfield-agreement", nil, "C13/parse-reads-the-key-validate-names", 3)
	// "leave equal values": Validate writes the value only where Parse writes the destination for the same reason -
	// Default and Catch; a snapshot restored after a failing post-transform is a write Parse does not make (C19's rule)
	shareRule(P, r, checkC19, "C19/validate-write-sites", nil, "C13/validate-writes-only-default-and-catch", 5)
}

// deferredUnits: the closures and relevant helpers the node function itself defers.
func (P *Prog) deferredUnits(nf *ssa.Function) []*nodeUnit {
	var out []*nodeUnit
	for _, u := range P.nodeUnits(nf) {
		if u.deferred && u.parent != nil && u.parent.fn == nf {
			out = append(out, u)
		}
	}
	return out
}

func (P *Prog) projectedUnitSet(u *nodeUnit) (map[string]bool, bool) {
	paths, capHit := P.unitPaths(u)
	set := map[string]bool{}
	for _, p := range paths {
		if s, ok := projectPath(p); ok {
			set[s] = true
		}
	}
	return set, capHit
}

func (P *Prog) compareTwins(r *Result, rule, name string, pf, vf *ssa.Function) {
	P.compareTwinSets(r, rule, name, pf, vf, P.projectedSet)
}

func (P *Prog) compareTwinSets(r *Result, rule, name string, pf, vf *ssa.Function, proj func(*ssa.Function) (map[string]bool, bool)) {
	ps, c1 := proj(pf)
	vs, c2 := proj(vf)
	if c1 || c2 {
		r.undecided(rule, name, P.pos(pf.Pos()), "too many paths to enumerate")
		return
	}
	var onlyP, onlyV []string
	for s := range ps {
		if !vs[s] {
			onlyP = append(onlyP, s)
		}
	}
	for s := range vs {
		if !ps[s] {
			onlyV = append(onlyV, s)
		}
	}
	sort.Strings(onlyP)
	sort.Strings(onlyV)
	if len(onlyP) == 0 && len(onlyV) == 0 {
		r.ok(rule, name, P.pos(pf.Pos()), fmt.Sprintf("%d projected phase sequences, identical in Parse and Validate", len(ps)))
		return
	}
	var facts []string
	for _, s := range onlyP {
		facts = append(facts, "only in Parse:    "+s)
	}
	for _, s := range onlyV {
		facts = append(facts, "only in Validate: "+s)
	}
	r.bad(rule, name, P.pos(vf.Pos()), fmt.Sprintf("the Parse and Validate twins do not have the same phase structure (%d sequence(s) only in Parse, %d only in Validate): a schema can behave differently when moved between the two modes", len(onlyP), len(onlyV)), facts...)
}

// isPureConvertChain: T1(T2(...val.(T)...)) and nothing else.
func isPureConvertChain(s string) bool {
	for {
		i := strings.IndexByte(s, '(')
		if i <= 0 || !strings.HasSuffix(s, ")") {
			return false
		}
		head := s[:i]
		if head == "val." {
			return true
		}
		if strings.HasPrefix(s, "val.(") {
			return true
		}
		switch head {
		case "int", "int8", "int16", "int32", "int64", "float32", "float64", "uint", "uint8", "uint16", "uint32", "uint64":
			s = s[i+1 : len(s)-1]
		default:
			return false
		}
	}
}

// checkModeConsistent: in the code units of every Parse-mode node function all dispatches (interface calls
// of the node methods, static calls of node functions and pipelines) are Parse-mode, and likewise for Validate.
func (P *Prog) checkModeConsistent(r *Result, rule string) {
	R := P.roles
	n := 0
	for _, nf := range P.nodeFuncs() {
		mode := R.Dispatch[nf]
		if mode == "" {
			// the pipelines: by which node functions call them
			for d, m := range R.Dispatch {
				eachInstr(d, func(_ *ssa.BasicBlock, _ int, in ssa.Instruction) {
					if ci := callOf(in); ci != nil && ci.static == nf {
						mode = m
					}
				})
			}
		}
		if mode == "" {
			continue
		}
		var bad []string
		for _, u := range P.nodeUnits(nf) {
			eachInstr(u.fn, func(_ *ssa.BasicBlock, _ int, in ssa.Instruction) {
				ci := callOf(in)
				if ci == nil {
					return
				}
				other := ""
				switch {
				case ci.invoke != nil && ci.invoke.Name() == R.MProcess:
					other = "process"
				case ci.invoke != nil && ci.invoke.Name() == R.MValidate:
					other = "validate"
				case ci.static != nil && R.Dispatch[ci.static] != "":
					other = R.Dispatch[ci.static]
				}
				if other != "" && other != mode {
					bad = append(bad, fmt.Sprintf("%s (a %s-mode node) runs a %s-mode node at %s", fname(nf), mode, other, P.ipos(in)))
				}
			})
		}
		n++
		if len(bad) > 0 {
			r.bad(rule, fname(nf), P.pos(nf.Pos()), strings.Join(uniqSorted(bad), "; "))
		} else {
			r.ok(rule, fname(nf), P.pos(nf.Pos()), "every dispatch in this node and its helpers stays in "+mode+" mode")
		}
	}
	r.floor(rule, 18)
}
