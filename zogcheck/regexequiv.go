package main

// Language equivalence of two regular-expression *constants*, as (*regexp.Regexp).MatchString decides them.
//
// A built-in test such as UUID() or Email() matches its subject against a pattern that is a constant of the source.
// Which strings that constant accepts is decidable from the constant alone: both patterns are compiled with
// regexp/syntax to their instruction programs (the same programs package regexp executes), and the two programs are
// run in lock-step as lazily built deterministic automata over a partition of the runes on which neither program can
// tell two members apart. A state is the set of pending threads plus the class of the previous rune (for ^, $, \b,
// \B and multi-line anchors); MatchString is unanchored, so a new thread starts at every position, and a match, once
// reached, is final. The search either exhausts the reachable pairs of states (equivalent), finds a pair that
// disagrees at the end of the text and returns the string that leads there (a witness), or gives up at a bound.

import (
	"fmt"
	"regexp/syntax"
	"sort"
	"strings"
	"unicode"
)

type rxProg struct {
	p *syntax.Prog
}

func rxCompile(pat string) (*rxProg, error) {
	re, err := syntax.Parse(pat, syntax.Perl)
	if err != nil {
		return nil, err
	}
	p, err := syntax.Compile(re.Simplify())
	if err != nil {
		return nil, err
	}
	return &rxProg{p}, nil
}

// boundaries: every rune at which the behaviour of some instruction can change.
func (x *rxProg) boundaries(add func(r rune)) {
	for i := range x.p.Inst {
		in := &x.p.Inst[i]
		switch in.Op {
		case syntax.InstRune, syntax.InstRune1:
			for _, r := range in.Rune {
				add(r)
				add(r + 1)
				if syntax.Flags(in.Arg)&syntax.FoldCase != 0 {
					for f := unicode.SimpleFold(r); f != r; f = unicode.SimpleFold(f) {
						add(f)
						add(f + 1)
					}
				}
			}
		case syntax.InstRuneAnyNotNL:
			add('\n')
			add('\n' + 1)
		}
	}
}

// closure: the rune-consuming instructions (and whether a match) reachable from the pending threads at a
// position with the given empty-width flags.
func (x *rxProg) closure(pend []uint32, flags syntax.EmptyOp) (runes []uint32, matched bool) {
	seen := make(map[uint32]bool, len(pend)*2)
	stack := append([]uint32{}, pend...)
	for len(stack) > 0 {
		pc := stack[len(stack)-1]
		stack = stack[:len(stack)-1]
		if seen[pc] {
			continue
		}
		seen[pc] = true
		in := &x.p.Inst[pc]
		switch in.Op {
		case syntax.InstAlt, syntax.InstAltMatch:
			stack = append(stack, in.Out, in.Arg)
		case syntax.InstCapture, syntax.InstNop:
			stack = append(stack, in.Out)
		case syntax.InstEmptyWidth:
			if syntax.EmptyOp(in.Arg)&^flags == 0 {
				stack = append(stack, in.Out)
			}
		case syntax.InstMatch:
			matched = true
		case syntax.InstFail:
		default:
			runes = append(runes, pc)
		}
	}
	sort.Slice(runes, func(i, j int) bool { return runes[i] < runes[j] })
	return runes, matched
}

type rxState struct {
	pend    string // sorted pending pcs, encoded
	matched bool
}

func encPCs(p []uint32) string {
	var sb strings.Builder
	for _, x := range p {
		fmt.Fprintf(&sb, "%d,", x)
	}
	return sb.String()
}

func decPCs(s string) []uint32 {
	var out []uint32
	for _, f := range strings.Split(s, ",") {
		if f == "" {
			continue
		}
		var v uint32
		fmt.Sscanf(f, "%d", &v)
		out = append(out, v)
	}
	return out
}

// step: the state after reading r (r < 0: end of text; then only `matched` of the result matters).
func (x *rxProg) step(st rxState, prev, r rune) rxState {
	if st.matched {
		return st
	}
	pend := append(decPCs(st.pend), uint32(x.p.Start))
	flags := syntax.EmptyOpContext(prev, r)
	runes, matched := x.closure(pend, flags)
	if matched {
		return rxState{matched: true}
	}
	if r < 0 {
		return rxState{}
	}
	var next []uint32
	seen := map[uint32]bool{}
	for _, pc := range runes {
		in := &x.p.Inst[pc]
		var m bool
		switch in.Op {
		case syntax.InstRune:
			m = in.MatchRune(r)
		case syntax.InstRune1:
			m = r == in.Rune[0]
			if !m && syntax.Flags(in.Arg)&syntax.FoldCase != 0 {
				m = in.MatchRune(r)
			}
		case syntax.InstRuneAny:
			m = true
		case syntax.InstRuneAnyNotNL:
			m = r != '\n'
		}
		if m && !seen[in.Out] {
			seen[in.Out] = true
			next = append(next, in.Out)
		}
	}
	sort.Slice(next, func(i, j int) bool { return next[i] < next[j] })
	return rxState{pend: encPCs(next)}
}

// regexEquivalent: do the two patterns accept the same strings under MatchString? When they do not, witness is a
// string one accepts and the other does not, and onlyA says which. decided is false when the bound was reached.
func regexEquivalent(a, b string) (equal bool, witness string, onlyA bool, decided bool, err error) {
	pa, err := rxCompile(a)
	if err != nil {
		return false, "", false, false, fmt.Errorf("pattern %q: %v", a, err)
	}
	pb, err := rxCompile(b)
	if err != nil {
		return false, "", false, false, fmt.Errorf("pattern %q: %v", b, err)
	}
	// the partition of the runes
	bset := map[rune]bool{0: true, unicode.MaxRune + 1: true}
	add := func(r rune) {
		if r >= 0 && r <= unicode.MaxRune+1 {
			bset[r] = true
		}
	}
	pa.boundaries(add)
	pb.boundaries(add)
	for _, r := range []rune{'0', '9' + 1, 'A', 'Z' + 1, '_', '_' + 1, 'a', 'z' + 1, '\n', '\n' + 1, 0xD800, 0xE000} {
		add(r) // word characters, the newline, the surrogate gap (never produced by decoding a string)
	}
	var bounds []rune
	for r := range bset {
		bounds = append(bounds, r)
	}
	sort.Slice(bounds, func(i, j int) bool { return bounds[i] < bounds[j] })
	var reps []rune
	for i := 0; i+1 < len(bounds); i++ {
		if bounds[i] >= 0xD800 && bounds[i] < 0xE000 {
			continue
		}
		reps = append(reps, bounds[i])
	}
	// the class of the previous rune, as far as EmptyOpContext can tell: start of text, newline, word, other
	prevClass := func(r rune) rune {
		switch {
		case r < 0:
			return -1
		case r == '\n':
			return '\n'
		case syntax.IsWordChar(r):
			return 'a'
		}
		return ' '
	}
	type pair struct {
		a, b rxState
		prev rune
	}
	type node struct {
		p      pair
		parent int
		r      rune
	}
	start := pair{prev: -1}
	nodes := []node{{p: start, parent: -1}}
	seen := map[pair]bool{start: true}
	const bound = 400000
	build := func(i int) string {
		var rs []rune
		for ; i > 0; i = nodes[i].parent {
			rs = append(rs, nodes[i].r)
		}
		for l, r := 0, len(rs)-1; l < r; l, r = l+1, r-1 {
			rs[l], rs[r] = rs[r], rs[l]
		}
		return string(rs)
	}
	for i := 0; i < len(nodes); i++ {
		cur := nodes[i].p
		// end of text here
		ea, eb := pa.step(cur.a, cur.prev, -1), pb.step(cur.b, cur.prev, -1)
		if ea.matched != eb.matched {
			return false, build(i), ea.matched, true, nil
		}
		if cur.a.matched && cur.b.matched {
			continue
		}
		for _, r := range reps {
			np := pair{a: pa.step(cur.a, cur.prev, r), b: pb.step(cur.b, cur.prev, r), prev: prevClass(r)}
			if seen[np] {
				continue
			}
			seen[np] = true
			nodes = append(nodes, node{p: np, parent: i, r: r})
			if len(nodes) > bound {
				return false, "", false, false, nil
			}
		}
	}
	return true, "", false, true, nil
}
