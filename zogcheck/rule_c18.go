package main

import (
	"fmt"
	"go/constant"
	"go/token"
	"go/types"
	"math"
	"math/big"
	"strings"

	"golang.org/x/tools/go/ssa"
)

func init() { register("C18", checkC18) }

// numericCoercers: closures/functions of CoercerFunc shape that produce the
// numeric schemas' values: stored into a NumberSchema.coercer field, or into
// the Int / Float64 fields of conf.DefaultCoercers.
func (P *Prog) numericCoercers() map[*ssa.Function]string {
	out := map[*ssa.Function]string{}
	for _, fn := range P.Funcs {
		eachInstr(fn, func(_ *ssa.BasicBlock, _ int, in ssa.Instruction) {
			st, ok := in.(*ssa.Store)
			if !ok {
				return
			}
			var target *ssa.Function
			var extra []*ssa.Function // functions and closures handed to a coercer factory
			switch v := cvi(st.Val).(type) {
			case *ssa.MakeClosure:
				target, _ = v.Fn.(*ssa.Function)
			case *ssa.Function:
				target = v
			case *ssa.Call:
				// a coercer assembled by a closure factory (`narrowingCoercer(wide, narrow)`)
				if fac := callOf(v).static; fac != nil && fac.Blocks != nil && inModule(funcPkgPath(fac)) {
					if cl := returnedClosure(fac); cl != nil {
						target = cl
						for _, a := range v.Call.Args {
							switch y := cv(a).(type) {
							case *ssa.Function:
								extra = append(extra, y)
							case *ssa.MakeClosure:
								if g, ok := y.Fn.(*ssa.Function); ok {
									extra = append(extra, g)
								}
							}
						}
					}
				}
			}
			// a shared builder stores its coercer *parameter*: the coercers are what its call sites pass
			if prm, isP := cvi(st.Val).(*ssa.Parameter); isP && prm.Parent() == fn {
				if _, f := fieldVar(st.Addr); f != nil {
					if owner := P.fieldOwner(f); owner != nil && owner.Obj().Name() == "NumberSchema" && P.roleName(f) == "coercer" {
						idx := -1
						for i, q := range fn.Params {
							if q == prm {
								idx = i
							}
						}
						if sites, closed := P.closedCallSites(fn); closed && idx >= 0 {
							for _, site := range sites {
								if idx >= len(site.Common().Args) {
									continue
								}
								switch y := cv(site.Common().Args[idx]).(type) {
								case *ssa.Function:
									if y.Blocks != nil && inModule(funcPkgPath(y)) {
										out[originOf(y)] = "NumberSchema.coercer set through " + fname(fn)
									}
								case *ssa.MakeClosure:
									if g, ok := y.Fn.(*ssa.Function); ok {
										out[originOf(g)] = "NumberSchema.coercer set through " + fname(fn)
									}
								}
							}
						}
					}
				}
				return
			}
			if target == nil || target.Blocks == nil {
				return
			}
			base, f := fieldVar(st.Addr)
			if f == nil {
				return
			}
			owner := P.fieldOwner(f)
			if owner != nil && owner.Obj().Name() == "NumberSchema" && P.roleName(f) == "coercer" {
				for _, e := range extra {
					if e.Blocks != nil && inModule(funcPkgPath(e)) {
						out[originOf(e)] = "handed to the coercer factory in " + fname(fn)
					}
				}
			}
			switch {
			case owner != nil && owner.Obj().Name() == "NumberSchema" && P.roleName(f) == "coercer":
				out[originOf(target)] = "NumberSchema.coercer set in " + fname(fn)
			case f.Name() == "Int" || f.Name() == "Float64":
				if g, ok := base.(*ssa.Global); ok && strings.Contains(g.Name(), "Coercers") {
					out[originOf(target)] = "conf." + g.Name() + "." + f.Name()
				}
			}
		})
	}
	return out
}

type numKind int

const (
	nkInt numKind = iota
	nkUint
	nkFloat
)

type numType struct {
	kind numKind
	bits int
	name string
}

func (P *Prog) numTypeOf(t types.Type) (numType, bool) {
	b, ok := t.Underlying().(*types.Basic)
	if !ok {
		return numType{}, false
	}
	bits := int(P.Sizes.Sizeof(b)) * 8
	switch {
	case b.Info()&types.IsInteger != 0 && b.Info()&types.IsUnsigned != 0:
		return numType{nkUint, bits, b.Name()}, true
	case b.Info()&types.IsInteger != 0:
		return numType{nkInt, bits, b.Name()}, true
	case b.Info()&types.IsFloat != 0:
		return numType{nkFloat, bits, b.Name()}, true
	}
	return numType{}, false
}

// intRange returns [min,max] of an integer type as big rationals.
func intRange(t numType) (*big.Rat, *big.Rat) {
	one := big.NewInt(1)
	if t.kind == nkUint {
		max := new(big.Int).Lsh(one, uint(t.bits))
		max.Sub(max, one)
		return new(big.Rat), new(big.Rat).SetInt(max)
	}
	max := new(big.Int).Lsh(one, uint(t.bits-1))
	min := new(big.Int).Neg(max)
	max.Sub(max, one)
	return new(big.Rat).SetInt(min), new(big.Rat).SetInt(max)
}

// lossy describes why from->to can change the number (""=lossless).
func lossy(from, to numType) string {
	switch {
	case from.kind == nkFloat && to.kind != nkFloat:
		return "float→integer: values outside the integer range, NaN and ±Inf have no integer image"
	case from.kind == nkFloat && to.kind == nkFloat:
		if to.bits < from.bits {
			return "float64→float32: finite values beyond ±MaxFloat32 become ±Inf"
		}
		return ""
	case from.kind != nkFloat && to.kind == nkFloat:
		mant := 53
		if to.bits == 32 {
			mant = 24
		}
		vb := from.bits
		if from.kind == nkInt {
			vb--
		}
		if vb > mant {
			return fmt.Sprintf("integer→float%d: integers above 2^%d are rounded", to.bits, mant)
		}
		return ""
	default:
		fmin, fmax := intRange(from)
		tmin, tmax := intRange(to)
		if fmin.Cmp(tmin) < 0 || fmax.Cmp(tmax) > 0 {
			return "integer narrowing / sign change: out-of-range values wrap"
		}
		return ""
	}
}

func constRat(v ssa.Value) (*big.Rat, bool) {
	c, ok := v.(*ssa.Const)
	if !ok || c.Value == nil {
		return nil, false
	}
	switch c.Value.Kind() {
	case constant.Int, constant.Float:
		f := constant.ToFloat(c.Value)
		if f.Kind() != constant.Float && f.Kind() != constant.Int {
			return nil, false
		}
		r := new(big.Rat)
		if fv, ok := constant.Val(f).(*big.Rat); ok {
			return r.Set(fv), true
		}
		if fv, ok := constant.Val(f).(*big.Float); ok {
			if rr, _ := fv.Rat(nil); rr != nil {
				return rr, true
			}
		}
		if iv, ok := constant.Val(c.Value).(*big.Int); ok {
			return r.SetInt(iv), true
		}
		if iv, ok := constant.Val(c.Value).(int64); ok {
			return r.SetInt64(iv), true
		}
		f64, _ := constant.Float64Val(f)
		if math.IsInf(f64, 0) || math.IsNaN(f64) {
			return nil, false
		}
		return r.SetFloat64(f64), true
	}
	return nil, false
}

// rangeFacts collects, from the guards dominating block b, bounds on operand x
// (or on math.Trunc/Floor/Ceil/Round(x)).
type rangeFacts struct {
	lo, hi       *big.Rat // lo < v (strictLo) or lo <= v; v < hi / v <= hi
	strictLo     bool
	strictHi     bool
	nanExcluded  bool
	descriptions []string
}

func sameOperand(v, x ssa.Value) bool {
	v, x = cv(v), cv(x)
	if v == x {
		return true
	}
	if c, ok := v.(*ssa.Call); ok {
		if ci := callOf(c); ci.static != nil && isPkgFunc(ci.static, "math") {
			switch ci.static.Name() {
			case "Trunc", "Floor", "Ceil", "Round", "RoundToEven":
				return len(c.Call.Args) == 1 && cv(c.Call.Args[0]) == x
			}
		}
	}
	// a conversion of x to a wider type of the same kind keeps the value
	if cvt, ok := v.(*ssa.Convert); ok {
		return sameOperand(cvt.X, x)
	}
	return false
}

func (P *Prog) factsFor(b *ssa.BasicBlock, x ssa.Value) rangeFacts {
	var rf rangeFacts
	for _, gd := range guardsOf(b) {
		P.addFact(&rf, gd.If.Cond, gd.True, x)
	}
	return rf
}

func (P *Prog) addFact(rf *rangeFacts, cond ssa.Value, truth bool, x ssa.Value) {
	switch c := cond.(type) {
	case *ssa.Phi:
		// a conjunction or disjunction hoisted into a local (`inRange := t >= lo && t < hi; if !inRange { return err }`)
		// is a phi of booleans. Known true: if all but one edge are the constant false, control came through that edge,
		// so the guards of its predecessor hold and its value is true. Known false, dually, for all-but-one constant true.
		var live ssa.Value
		var livePred *ssa.BasicBlock
		nLive := 0
		for i, e := range c.Edges {
			if k, isK := constBool(e); isK && k != truth {
				continue
			}
			live, livePred = e, c.Block().Preds[i]
			nLive++
		}
		if nLive != 1 {
			return
		}
		for _, gd := range append(guardsOf(livePred), guardsOfEdge(livePred, c.Block())...) {
			if gd.If.Cond != cond {
				P.addFact(rf, gd.If.Cond, gd.True, x)
			}
		}
		if _, isK := constBool(live); !isK {
			P.addFact(rf, live, truth, x)
		}
		return
	case *ssa.UnOp:
		if c.Op == token.NOT {
			P.addFact(rf, c.X, !truth, x)
		}
		return
	case *ssa.Call:
		ci := callOf(c)
		if ci.static != nil && isPkgFunc(ci.static, "math") && (ci.static.Name() == "IsNaN" || ci.static.Name() == "IsInf") && len(c.Call.Args) >= 1 && sameOperand(c.Call.Args[0], x) && !truth {
			if ci.static.Name() == "IsNaN" {
				rf.nanExcluded = true
				rf.descriptions = append(rf.descriptions, "!math.IsNaN(v)")
			}
		}
		return
	case *ssa.BinOp:
		op := c.Op
		var bound *big.Rat
		var okc bool
		lhsIsX := sameOperand(c.X, x)
		rhsIsX := sameOperand(c.Y, x)
		switch {
		case lhsIsX && rhsIsX:
			// v != v  (NaN test)
			if (op == token.NEQ && !truth) || (op == token.EQL && truth) {
				rf.nanExcluded = true
				rf.descriptions = append(rf.descriptions, "v == v")
			}
			return
		case lhsIsX:
			bound, okc = constRat(c.Y)
		case rhsIsX:
			bound, okc = constRat(c.X)
			// flip: bound OP v  ==  v OP' bound
			switch op {
			case token.LSS:
				op = token.GTR
			case token.LEQ:
				op = token.GEQ
			case token.GTR:
				op = token.LSS
			case token.GEQ:
				op = token.LEQ
			}
		default:
			return
		}
		if !okc {
			return
		}
		if !truth {
			switch op {
			case token.LSS:
				op = token.GEQ
			case token.LEQ:
				op = token.GTR
			case token.GTR:
				op = token.LEQ
			case token.GEQ:
				op = token.LSS
			default:
				return
			}
		} else {
			switch op {
			case token.LSS, token.LEQ, token.GTR, token.GEQ, token.EQL:
				rf.nanExcluded = true // a comparison that held excludes NaN
			}
		}
		setHi := func(b *big.Rat, strict bool) {
			if rf.hi == nil || b.Cmp(rf.hi) < 0 || (b.Cmp(rf.hi) == 0 && strict) {
				rf.hi, rf.strictHi = b, strict
			}
		}
		setLo := func(b *big.Rat, strict bool) {
			if rf.lo == nil || b.Cmp(rf.lo) > 0 || (b.Cmp(rf.lo) == 0 && strict) {
				rf.lo, rf.strictLo = b, strict
			}
		}
		switch op {
		case token.LSS:
			setHi(bound, true)
		case token.LEQ:
			setHi(bound, false)
		case token.GTR:
			setLo(bound, true)
		case token.GEQ:
			setLo(bound, false)
		case token.EQL:
			setHi(bound, false)
			setLo(bound, false)
		}
		rf.descriptions = append(rf.descriptions, fmt.Sprintf("v %s %s", op, bound.FloatString(1)))
	}
}

func checkC18(P *Prog, r *Result) {
	r.Explanation = "Decides that a number can only be changed silently by a conversion instruction, and that every lossy numeric conversion in code reachable from a numeric coercer " +
		"(the closures stored into NumberSchema.coercer and into conf.DefaultCoercers.Int/Float64) is range-guarded: lossiness is computed from the type sizes of the analysed configuration; " +
		"a guard is a set of dominating comparisons of the same operand (or math.Trunc of it) against constants whose conjunction implies the destination range (exact rational arithmetic), " +
		"with NaN excluded for float sources, or an integer round-trip check; every strconv call's error result must be tested and turned into a returned error. " +
		"It does not decide strconv's own parsing nor custom coercers."
	r.Assumptions = []string{"strconv.Atoi/ParseInt/ParseFloat report out-of-range input through their error result", "GOARCH of this run: " + archName(P)}
	coercers := P.numericCoercers()
	if len(coercers) < 3 {
		// today: the Int and Float64 defaults and the Int32/Int64/Float32 adapters; adapters may share one generic helper
		r.broken("vacuous: %d numeric coercers found (floor 3)", len(coercers))
	}
	// include module functions they call statically
	work := map[*ssa.Function]string{}
	for f, why := range coercers {
		work[f] = why
	}
	for changed := true; changed; {
		changed = false
		for f := range work {
			eachInstr(f, func(_ *ssa.BasicBlock, _ int, in ssa.Instruction) {
				if ci := callOf(in); ci != nil && ci.static != nil && inModule(funcPkgPath(ci.static)) && ci.static.Blocks != nil && work[ci.static] == "" {
					work[ci.static] = "called from " + fname(f)
					changed = true
				}
			})
		}
	}
	suffix := ""
	if P.GOARCH != "" {
		suffix = "@" + P.GOARCH
	}
	nConv := 0
	for _, fn := range sortedFuncs(boolSet(work)) {
		r.sawFunc(fname(fn))
		cnt := map[string]int{}
		eachInstr(fn, func(b *ssa.BasicBlock, _ int, in ssa.Instruction) {
			switch x := in.(type) {
			case *ssa.Convert:
				// a type parameter stands for every numeric type of its constraint: the conversion is decided per term
				for _, ft := range termTypes(x.X.Type()) {
					for _, tt := range termTypes(x.Type()) {
						from, ok1 := P.numTypeOf(ft)
						to, ok2 := P.numTypeOf(tt)
						if !ok1 || !ok2 {
							continue
						}
						nConv++
						key := fmt.Sprintf("%s→%s", from.name, to.name)
						cnt[key]++
						c := fmt.Sprintf("%s#%s@%d%s", fname(fn), key, cnt[key], suffix)
						why := lossy(from, to)
						if why == "" {
							r.ok("C18/guarded-convert", c, P.ipos(in), "lossless on this configuration ("+work[fn]+")")
							continue
						}
						if _, isConst := x.X.(*ssa.Const); isConst {
							r.ok("C18/guarded-convert", c, P.ipos(in), "constant operand")
							continue
						}
						okG, detail := P.convertGuarded(fn, b, x, from, to)
						if okG {
							r.ok("C18/guarded-convert", c, P.ipos(in), "lossy conversion is range-guarded: "+detail)
						} else {
							r.bad("C18/guarded-convert", c, P.ipos(in), fmt.Sprintf("unguarded lossy numeric conversion %s (%s) in %s: an out-of-range input is silently turned into another number; %s", key, why, work[fn], detail))
						}
					}
				}
			case *ssa.Call:
				ci := callOf(x)
				if ci.static == nil || !isPkgFunc(ci.static, "strconv") {
					return
				}
				c := fmt.Sprintf("%s#strconv.%s", fname(fn), ci.static.Name())
				okE, detail := errResultHandled(x)
				if okE {
					r.ok("C18/strconv-err", c, P.ipos(in), detail)
				} else {
					r.bad("C18/strconv-err", c, P.ipos(in), "error result of strconv."+ci.static.Name()+" is not turned into a coerce error: "+detail)
				}
			}
		})
	}
	r.floor("C18/guarded-convert", 6)
	r.floor("C18/strconv-err", 1)
	P.checkParsedArithmetic(r, boolSet(work), suffix)
	// the numeric coercers apply the documented parse to each input type (base-10 Atoi / ParseFloat 64 ...): a
	// different parse (base 0 reads "010" as 8) silently changes a number (C03's coercion table, numeric rows)
	// (the table is frozen from the formulas of the default platform; the GOARCH=386 repetition of this check
	// in the thorough tier covers the conversions, whose widths differ there, not the parse)
	r.Extra["numeric_coercers"] = len(coercers)
	r.Extra["conversions_classified"] = nConv
	if P.GOARCH != "" {
		return
	}
	shareRule(P, r, checkC03, "C03/coercion-table", func(o Obligation) bool {
		return strings.Contains(o.Construct, ".Int") || strings.Contains(o.Construct, ".Float") || strings.Contains(o.Construct, "zog.Int") || strings.Contains(o.Construct, "zog.Float")
	}, "C18/numeric-parse-table", 2)
}

// termTypes: the types a value of type t can have: t itself, or — for a type parameter — the terms of
// its constraint's union (`int8 | int16 | ~uint64`); nil when the constraint is not a union of basic types
// (then the conversion is not numeric and not this rule's business).
func termTypes(t types.Type) []types.Type {
	tp, ok := types.Unalias(t).(*types.TypeParam)
	if !ok {
		return []types.Type{t}
	}
	iface, ok := tp.Constraint().Underlying().(*types.Interface)
	if !ok {
		return nil
	}
	var out []types.Type
	var walk func(it *types.Interface, d int)
	walk = func(it *types.Interface, d int) {
		if d > 4 {
			return
		}
		for i := 0; i < it.NumEmbeddeds(); i++ {
			switch e := it.EmbeddedType(i).(type) {
			case *types.Union:
				for j := 0; j < e.Len(); j++ {
					tt := e.Term(j).Type()
					if sub, ok := tt.Underlying().(*types.Interface); ok {
						walk(sub, d+1)
					} else {
						out = append(out, tt)
					}
				}
			default:
				if sub, ok := e.Underlying().(*types.Interface); ok {
					walk(sub, d+1)
				} else {
					out = append(out, e)
				}
			}
		}
	}
	walk(iface, 0)
	return out
}

func boolSet(m map[*ssa.Function]string) map[*ssa.Function]bool {
	o := map[*ssa.Function]bool{}
	for k := range m {
		o[k] = true
	}
	return o
}

func archName(P *Prog) string {
	if P.GOARCH != "" {
		return P.GOARCH
	}
	return "host default (amd64)"
}

// convertGuarded decides whether the lossy conversion cvt is safe on every
// path reaching it.
func (P *Prog) convertGuarded(fn *ssa.Function, b *ssa.BasicBlock, cvt *ssa.Convert, from, to numType) (bool, string) {
	rf := P.factsFor(b, cvt.X)
	desc := "dominating facts: [" + strings.Join(rf.descriptions, ", ") + "]"
	var min, max *big.Rat
	switch {
	case to.kind != nkFloat:
		min, max = intRange(to)
	case from.kind == nkFloat: // float64 -> float32
		max = new(big.Rat).SetFloat64(math.MaxFloat32)
		min = new(big.Rat).Neg(max)
	default: // int -> float: exact up to 2^mant
		mant := uint(53)
		if to.bits == 32 {
			mant = 24
		}
		max = new(big.Rat).SetInt(new(big.Int).Lsh(big.NewInt(1), mant))
		min = new(big.Rat).Neg(max)
	}
	one := big.NewRat(1, 1)
	inRange := func() bool {
		if rf.lo == nil || rf.hi == nil {
			return false
		}
		// need: v > min-1 and v < max+1 for float→int (truncation), v >= min and v <= max otherwise
		if from.kind == nkFloat && to.kind != nkFloat {
			lowOK := rf.lo.Cmp(new(big.Rat).Sub(min, one)) > 0 || (rf.lo.Cmp(new(big.Rat).Sub(min, one)) == 0 && rf.strictLo)
			hiOK := rf.hi.Cmp(new(big.Rat).Add(max, one)) < 0 || (rf.hi.Cmp(new(big.Rat).Add(max, one)) == 0 && rf.strictHi)
			return lowOK && hiOK
		}
		lowOK := rf.lo.Cmp(min) >= 0 || (from.kind != nkFloat && rf.strictLo && new(big.Rat).Add(rf.lo, one).Cmp(min) >= 0)
		hiOK := rf.hi.Cmp(max) <= 0 || (from.kind != nkFloat && rf.strictHi && new(big.Rat).Sub(rf.hi, one).Cmp(max) <= 0)
		return lowOK && hiOK
	}
	if inRange() {
		if from.kind == nkFloat && to.kind != nkFloat && !rf.nanExcluded {
			return false, desc + "; the bounds hold only as negated comparisons, which NaN also satisfies: NaN is not excluded"
		}
		return true, desc
	}
	// integer round-trip: T(U(x)) == x guarding every return of the converted value
	if from.kind != nkFloat && to.kind != nkFloat {
		// S(D(x)) == x detects an out-of-range x only when D is narrower than S; through a type of the same
		// or a larger width the round trip is the identity for every x (uint64 -> int -> uint64), so it proves nothing
		if to.bits >= from.bits {
			if ok, _ := P.roundTripGuard(fn, cvt); ok {
				return false, desc + fmt.Sprintf("; the round-trip check is vacuous: %s and %s have the same width (or the destination is wider), so converting back always gives the original bits", from.name, to.name)
			}
		} else if ok, d := P.roundTripGuard(fn, cvt); ok {
			return true, d
		}
	}
	return false, desc + "; no dominating lower+upper bound implying the destination range, and no round-trip check"
}

// roundTripGuard: exists `U(T(x)) ==/!= x` such that every Return carrying
// the converted value is on the "equal" side.
func (P *Prog) roundTripGuard(fn *ssa.Function, cvt *ssa.Convert) (bool, string) {
	var cmp *ssa.BinOp
	eachInstr(fn, func(_ *ssa.BasicBlock, _ int, in ssa.Instruction) {
		bo, ok := in.(*ssa.BinOp)
		if !ok || (bo.Op != token.EQL && bo.Op != token.NEQ) {
			return
		}
		back := func(a, b ssa.Value) bool {
			c2, ok := a.(*ssa.Convert)
			return ok && c2.X == ssa.Value(cvt) && cv(b) == cv(cvt.X)
		}
		if back(bo.X, bo.Y) || back(bo.Y, bo.X) {
			cmp = bo
		}
	})
	if cmp == nil {
		return false, ""
	}
	// every use of cvt other than the back-conversion must be in a block guarded by cmp being "equal"
	okAll := true
	if refs := cvt.Referrers(); refs != nil {
		for _, rfr := range *refs {
			if c2, ok := rfr.(*ssa.Convert); ok && (cmp.X == ssa.Value(c2) || cmp.Y == ssa.Value(c2)) {
				continue
			}
			if _, ok := rfr.(*ssa.DebugRef); ok {
				continue
			}
			guarded := false
			for _, gd := range guardsOf(rfr.Block()) {
				if gd.If.Cond == ssa.Value(cmp) {
					if (cmp.Op == token.EQL && gd.True) || (cmp.Op == token.NEQ && !gd.True) {
						guarded = true
					}
				}
			}
			if !guarded {
				okAll = false
			}
		}
	}
	if okAll {
		return true, "round-trip check " + shortName(cmp.String()) + " guards every use of the converted value"
	}
	return false, ""
}

// errResultHandled: the error result (#1) of call c is compared with nil and
// the non-nil edge returns a non-nil error.
func errResultHandled(c *ssa.Call) (bool, string) {
	var errv *ssa.Extract
	if refs := c.Referrers(); refs != nil {
		for _, rf := range *refs {
			if ex, ok := rf.(*ssa.Extract); ok && ex.Index == 1 {
				errv = ex
			}
		}
	}
	if errv == nil {
		return false, "error result is discarded"
	}
	refs := errv.Referrers()
	if refs == nil {
		return false, "error result is never used"
	}
	for _, rf := range *refs {
		bo, ok := rf.(*ssa.BinOp)
		if !ok {
			continue
		}
		x, eq, isNil := isNilCompare(bo)
		if !isNil || x != ssa.Value(errv) {
			continue
		}
		// find the If using bo
		if brefs := bo.Referrers(); brefs != nil {
			for _, br := range *brefs {
				iff, ok := br.(*ssa.If)
				if !ok {
					continue
				}
				k := 0 // err != nil: true edge
				if eq {
					k = 1
				}
				errBlk := iff.Block().Succs[k]
				// every path from errBlk must return a non-nil error and never the parsed value
				okRet := true
				n := 0
				for rb := range reach(errBlk, nil) {
					if !isExit(rb) {
						continue
					}
					if !edgeDominates(iff.Block(), k, rb) {
						continue
					}
					n++
					ret := rb.Instrs[len(rb.Instrs)-1].(*ssa.Return)
					if len(ret.Results) < 2 || isNilConst(ret.Results[len(ret.Results)-1]) {
						okRet = false
					}
				}
				if okRet && n > 0 {
					return true, "err != nil edge returns a non-nil error"
				}
				return false, "the err != nil edge does not return an error"
			}
		}
	}
	return false, "error result is not compared with nil"
}

// checkParsedArithmetic: besides a conversion, the other instruction that silently turns one number into another
// is integer arithmetic that wraps. A number read from input text (the result of strconv.ParseInt/ParseUint/Atoi)
// that is multiplied, shifted, added or subtracted on its way to the schema - in a coercer, or in a data provider
// that rewrites what it hands out (`64k` -> 65536) - must be bounded so that the result fits, else an input such as
// `16777216T` reaches the destination as 0 with no issue.
// Scope: the numeric coercers' reachable set plus every Get/GetByField of a data provider and what they call.
// Accepted guards, enumerated from how such code is written: (G1) the operand is compared, on the way to the
// operation, with Max/other (a quotient whose divisor is the other operand); (G2) range facts of the operand
// (the machinery of guarded-convert) times a constant other operand fit the result type; (G3) the result is divided
// back and compared with the operand. The pinned tree has no such site: the rule reports how many integer
// operations it looked at so that a scan that sees nothing is visible.
func (P *Prog) checkParsedArithmetic(r *Result, scope map[*ssa.Function]bool, suffix string) {
	for _, fn := range P.Funcs {
		if fn.Parent() != nil || fn.Signature.Recv() == nil || (fn.Name() != "Get" && fn.Name() != "GetByField") || !P.isProviderType(fn.Signature.Recv().Type()) {
			continue
		}
		scope[fn] = true
	}
	for changed := true; changed; {
		changed = false
		for f := range scope {
			eachInstr(f, func(_ *ssa.BasicBlock, _ int, in ssa.Instruction) {
				if ci := callOf(in); ci != nil && ci.static != nil && inModule(funcPkgPath(ci.static)) && ci.static.Blocks != nil && !scope[ci.static] {
					scope[ci.static] = true
					changed = true
				}
				for _, op := range in.Operands(nil) {
					if op == nil || *op == nil {
						continue
					}
					if mc, ok := (*op).(*ssa.MakeClosure); ok {
						if g, ok := mc.Fn.(*ssa.Function); ok && !scope[g] {
							scope[g] = true
							changed = true
						}
					}
				}
			})
		}
	}
	isInt := func(t types.Type) bool {
		b, ok := t.Underlying().(*types.Basic)
		return ok && b.Info()&types.IsInteger != 0
	}
	var fromParse func(v ssa.Value, d int) bool
	fromParse = func(v ssa.Value, d int) bool {
		if d > 6 || v == nil {
			return false
		}
		switch x := cv(v).(type) {
		case *ssa.Extract:
			if c, ok := x.Tuple.(*ssa.Call); ok && x.Index == 0 {
				if ci := callOf(c); ci.static != nil && isPkgFunc(ci.static, "strconv") {
					switch ci.static.Name() {
					case "ParseInt", "ParseUint", "Atoi":
						return true
					}
				}
				// a module helper that returns a parsed number
				if ci := callOf(c); ci.static != nil && ci.static.Blocks != nil && inModule(funcPkgPath(ci.static)) {
					res := false
					eachInstr(ci.static, func(_ *ssa.BasicBlock, _ int, in ssa.Instruction) {
						if rt, ok := in.(*ssa.Return); ok && x.Index < len(rt.Results) && fromParse(rt.Results[x.Index], d+1) {
							res = true
						}
					})
					return res
				}
			}
		case *ssa.Call:
			if ci := callOf(x); ci.static != nil && ci.static.Blocks != nil && inModule(funcPkgPath(ci.static)) && ci.static.Signature.Results().Len() == 1 {
				res := false
				eachInstr(ci.static, func(_ *ssa.BasicBlock, _ int, in ssa.Instruction) {
					if rt, ok := in.(*ssa.Return); ok && len(rt.Results) == 1 && fromParse(rt.Results[0], d+1) {
						res = true
					}
				})
				return res
			}
		case *ssa.Convert:
			return isInt(x.X.Type()) && fromParse(x.X, d+1)
		case *ssa.Phi:
			for _, e := range x.Edges {
				if fromParse(e, d+1) {
					return true
				}
			}
		case *ssa.BinOp:
			return fromParse(x.X, d+1) || fromParse(x.Y, d+1)
		case *ssa.UnOp:
			if x.Op == token.SUB {
				return fromParse(x.X, d+1)
			}
		}
		return false
	}
	sameV := func(a, b ssa.Value) bool {
		a, b = cv(a), cv(b)
		if a == b {
			return true
		}
		// the same number in another integer type
		if c, ok := a.(*ssa.Convert); ok && cv(c.X) == b {
			return true
		}
		if c, ok := b.(*ssa.Convert); ok && cv(c.X) == a {
			return true
		}
		return false
	}
	scanned, parsed := 0, 0
	for _, fn := range sortedFuncs(scope) {
		cnt := 0
		eachInstr(fn, func(b *ssa.BasicBlock, _ int, in ssa.Instruction) {
			bo, ok := in.(*ssa.BinOp)
			if !ok || !isInt(bo.Type()) {
				return
			}
			switch bo.Op {
			case token.MUL, token.ADD, token.SUB, token.SHL:
			default:
				return
			}
			scanned++
			_, cx := bo.X.(*ssa.Const)
			_, cy := bo.Y.(*ssa.Const)
			if cx && cy {
				return
			}
			var operand, other ssa.Value
			switch {
			case fromParse(bo.X, 0):
				operand, other = bo.X, bo.Y
			case fromParse(bo.Y, 0):
				operand, other = bo.Y, bo.X
			default:
				return
			}
			parsed++
			cnt++
			c := fmt.Sprintf("%s#parsed %s@%d%s", fname(fn), bo.Op, cnt, suffix)
			// (G1) on the way here the operand was compared with <limit> / other
			g1hi, g1lo := false, false
			for _, gd := range guardsOf(b) {
				cmp, ok := cv(gd.If.Cond).(*ssa.BinOp)
				if !ok {
					continue
				}
				for _, side := range [][2]ssa.Value{{cmp.X, cmp.Y}, {cmp.Y, cmp.X}} {
					q, isQ := cv(side[1]).(*ssa.BinOp)
					if !isQ || q.Op != token.QUO || !sameV(side[0], operand) || !sameV(q.Y, other) {
						continue
					}
					if k, isK := q.X.(*ssa.Const); isK && k.Value != nil {
						if constant.Sign(k.Value) >= 0 {
							g1hi = true
						} else {
							g1lo = true
						}
					}
				}
			}
			// a disjunction `n > Max/u || n < Min/u` leaves through two blocks: look at every comparison of that
			// shape in the function whose taken edge leaves the path to this operation
			if !g1hi || !g1lo {
				eachInstr(fn, func(b2 *ssa.BasicBlock, _ int, in2 ssa.Instruction) {
					iff, ok := in2.(*ssa.If)
					if !ok || !b2.Dominates(b) {
						return
					}
					cmp, ok := cv(iff.Cond).(*ssa.BinOp)
					if !ok {
						return
					}
					for _, side := range [][2]ssa.Value{{cmp.X, cmp.Y}, {cmp.Y, cmp.X}} {
						q, isQ := cv(side[1]).(*ssa.BinOp)
						if !isQ || q.Op != token.QUO || !sameV(side[0], operand) || !sameV(q.Y, other) {
							continue
						}
						if k, isK := q.X.(*ssa.Const); isK && k.Value != nil {
							if constant.Sign(k.Value) >= 0 {
								g1hi = true
							} else {
								g1lo = true
							}
						}
					}
				})
			}
			unsigned := false
			if bt, ok := bo.Type().Underlying().(*types.Basic); ok && bt.Info()&types.IsUnsigned != 0 {
				unsigned = true
			}
			if g1hi && (g1lo || unsigned) {
				r.ok("C18/parsed-arithmetic", c, P.ipos(in), "the parsed operand is compared with limit/other before the operation (both bounds): the result fits")
				return
			}
			// (G2) a constant other operand and range facts of the parsed operand
			if k, isK := cv(other).(*ssa.Const); isK && k.Value != nil && (bo.Op == token.MUL || bo.Op == token.ADD || bo.Op == token.SUB) {
				if to, okT := P.numTypeOf(bo.Type()); okT {
					rf := P.factsFor(b, operand)
					if rf.lo != nil && rf.hi != nil {
						kk, _ := new(big.Rat).SetString(k.Value.ExactString())
						if kk != nil {
							lo, hi := new(big.Rat).Set(rf.lo), new(big.Rat).Set(rf.hi)
							switch bo.Op {
							case token.MUL:
								lo.Mul(lo, kk)
								hi.Mul(hi, kk)
								if lo.Cmp(hi) > 0 {
									lo, hi = hi, lo
								}
							case token.ADD:
								lo.Add(lo, kk)
								hi.Add(hi, kk)
							case token.SUB:
								if operand == bo.X {
									lo.Sub(lo, kk)
									hi.Sub(hi, kk)
								} else {
									lo, hi = new(big.Rat).Sub(kk, hi), new(big.Rat).Sub(kk, lo)
								}
							}
							min, max := intRange(to)
							if lo.Cmp(min) >= 0 && hi.Cmp(max) <= 0 {
								r.ok("C18/parsed-arithmetic", c, P.ipos(in), "range facts of the parsed operand ["+strings.Join(rf.descriptions, ", ")+"] keep the result within "+to.name)
								return
							}
						}
					}
				}
			}
			// (G3) the result is divided back and compared with the operand
			if refs := bo.Referrers(); refs != nil && bo.Op == token.MUL {
				for _, rf := range *refs {
					q, ok := rf.(*ssa.BinOp)
					if !ok || q.Op != token.QUO || !sameV(q.Y, other) || q.Referrers() == nil {
						continue
					}
					for _, u := range *q.Referrers() {
						if cmp, ok := u.(*ssa.BinOp); ok && (cmp.Op == token.EQL || cmp.Op == token.NEQ) && (sameV(cmp.X, operand) || sameV(cmp.Y, operand)) {
							r.ok("C18/parsed-arithmetic", c, P.ipos(in), "the product is divided back and compared with the parsed operand (overflow check)")
							return
						}
					}
				}
			}
			r.bad("C18/parsed-arithmetic", c, P.ipos(in), fmt.Sprintf("a number parsed from input text is combined with %s in %s arithmetic without a bound that makes the result fit: a large input wraps around and reaches the schema as another number, with no issue", bo.Op, typeStr(bo.Type())))
		})
	}
	r.Extra["parsed_arithmetic_int_ops_scanned"] = scanned
	r.Extra["parsed_arithmetic_sites"] = parsed
	// (the expected number of sites is zero; what shows that the rule looked is its scope: the numeric coercers - whose
	// count has its own floor - and the data providers' Get methods)
	nGet := 0
	for fn := range scope {
		if fn.Parent() == nil && fn.Signature.Recv() != nil && fn.Name() == "Get" && P.isProviderType(fn.Signature.Recv().Type()) {
			nGet++
		}
	}
	r.Extra["parsed_arithmetic_provider_gets"] = nGet
	r.Extra["parsed_arithmetic_scope_functions"] = len(scope)
	if nGet < 3 {
		r.broken("vacuous: the parsed-arithmetic rule found %d Get methods of data providers (floor 3: map, struct, url/env providers)", nGet)
	}
	if parsed == 0 {
		r.ok("C18/parsed-arithmetic", "module", "-", fmt.Sprintf("no number parsed from input text is multiplied, shifted, added to or subtracted from in the %d functions of the coercers and data providers", len(scope)))
	}
}
